(* Instance obligations of C08 over the control-flow facts regenerated from /repo. *)
From Coq Require Import List NArith ZArith Bool String.
From Bandit Require Import Base.PyStr Engine.Types Engine.Facts Gen.Ladders.
Import ListNotations.
Local Open Scope string_scope.
Local Open Scope list_scope.

Definition exec_fact := func_fact ladders (s2p "core.manager:BanditManager._execute_ast_visitor").
Definition disc_fact := func_fact ladders (s2p "core.manager:BanditManager.discover_files").
Definition load_fact := func_fact ladders (s2p "core.test_set:BanditTestSet._load_tests").

(* a fresh visitor (hence fresh import tables, tester, scores) is created for every file *)
Lemma C08_inst_fresh_visitor_per_file :
  mem_pstr (s2p "b_node_visitor.BanditNodeVisitor") (ff_calls exec_fact) = true.
Proof. vm_compute. reflexivity. Qed.
Print Assumptions C08_inst_fresh_visitor_per_file.

(* both file lists are sorted before they are stored *)
Lemma C08_inst_discovery_sorted :
  Nat.leb 2 (List.length (filter (pstr_eqb (s2p "sorted")) (ff_calls disc_fact))) = true.
Proof. vm_compute. reflexivity. Qed.
Print Assumptions C08_inst_discovery_sorted.

(* the test set keeps the registry's order: plugins are filtered out of the ordered list extman.plugins, the
   built-in check is appended, and _load_tests walks that list and each plugin's declared node types in order -
   no set or dict iteration decides the order in which checks run (and so the order of findings on one node) *)
Lemma C08_inst_testset_order :
  (fix eqb (a b : list pstr) : bool :=
     match a, b with [], [] => true | x :: a', y :: b' => pstr_eqb x y && eqb a' b' | _, _ => false end)
    TESTSET_ORDER
    [s2p "[p for p in extman.plugins if p.plugin._test_id in filtering]";
     s2p "self.plugins.extend(self._load_builtins(filtering, profile))";
     s2p "for plugin in plugins"; s2p "for check in plugin.plugin._checks"] = true.
Proof. vm_compute. reflexivity. Qed.
Print Assumptions C08_inst_testset_order.
