(* C10 - instance obligations: the regenerated location facts (Gen/Locations.v, from the current
   /repo) are the ones the hand-written model (Engine/Excerpt.v, Linerange.v, Tester.v, Visitor.v,
   Context.v) is built on. *)
From Coq Require Import List NArith ZArith Bool String Lia.
From Bandit Require Import Base.PyStr Engine.Types Engine.Excerpt Gen.Locations.
Import ListNotations.
Local Open Scope string_scope.
Local Open Scope list_scope.

Definition pstr_list_eqb (a b : list pstr) : bool :=
  (fix go (a b : list pstr) := match a, b with [], [] => true | x :: a', y :: b' => pstr_eqb x y && go a' b' | _, _ => false end) a b.
Definition triple_eqb (a b : pstr * (pstr * pstr)) : bool :=
  pstr_eqb (fst a) (fst b) && pstr_eqb (fst (snd a)) (fst (snd b)) && pstr_eqb (snd (snd a)) (snd (snd b)).
Definition triples_eqb (a b : list (pstr * (pstr * pstr))) : bool :=
  (fix go (a b : list (pstr * (pstr * pstr))) := match a, b with [] , [] => true | x :: a', y :: b' => triple_eqb x y && go a' b' | _, _ => false end) a b.
Definition t3 (a b c : string) : pstr * (pstr * pstr) := (s2p a, (s2p b, s2p c)).

(* Issue.get_code: the window is max(1, lineno - n//2) .. lmin + len(linerange) + n - 1 with n = max(max_lines, 1) *)
Theorem C10_inst_window : forall lineno len n : Z,
  window lineno len n = (gc_lmin lineno (gc_n n), gc_lmax (gc_lmin lineno (gc_n n)) len (gc_n n)).
Proof. intros. unfold window, gc_lmin, gc_lmax, gc_n. f_equal; lia. Qed.
Print Assumptions C10_inst_window.

(* ... and the loop walks range(lmin, lmax), stops at the first empty line, appends "%i %s" % (line, text) *)
Theorem C10_inst_loop :
  pstr_list_eqb GC_LOOP
    [s2p "range(lmin, lmax)"; s2p "not len(text)"; s2p "tmplt % (line, text)";
     s2p "'%i\t%s' if tabbed else '%i %s'"; s2p "''.join(lines)"] = true.
Proof. vm_compute. reflexivity. Qed.
Print Assumptions C10_inst_loop.

(* utils.linerange on a node with a position: list(range(lineno, end_lineno + 1)) *)
Theorem C10_inst_linerange_positioned : forall a b : Z, lr_pos a b = (a, (b + 1)%Z).
Proof. intros. unfold lr_pos. f_equal; lia. Qed.
Print Assumptions C10_inst_linerange_positioned.

(* where the visitor takes the context's location from *)
Theorem C10_inst_context :
  triples_eqb CTX_ASSIGNS
    [t3 "pre_visit" "col_offset" "node.col_offset"; t3 "pre_visit" "end_col_offset" "node.end_col_offset";
     t3 "pre_visit" "lineno" "node.lineno"; t3 "pre_visit" "linerange" "b_utils.linerange(node)";
     t3 "process" "col_offset" "0"; t3 "process" "lineno" "0"; t3 "process" "linerange" "[0]";
     t3 "visit_Bytes" "linerange" "b_utils.linerange(node._bandit_parent)";
     t3 "visit_Str" "linerange" "b_utils.linerange(node._bandit_parent)"] = true.
Proof. vm_compute. reflexivity. Qed.
Print Assumptions C10_inst_context.

(* what the tester fills in when a check leaves the location unset *)
Theorem C10_inst_defaults :
  triples_eqb DEFAULT_FILL
    [t3 "result.col_offset" "result.col_offset == -1" "temp_context['col_offset']";
     t3 "result.lineno" "result.lineno is None" "temp_context['lineno']";
     t3 "result.linerange" "result.linerange == []" "temp_context['linerange']";
     t3 "result.test_id" "result.test_id == ''" "test._test_id"] = true.
Proof. vm_compute. reflexivity. Qed.
Print Assumptions C10_inst_defaults.

(* Context.get_lineno_for_call_arg: the line of the value of the first keyword with that name *)
Theorem C10_inst_kw_line :
  pstr_list_eqb KW_LINE
    [s2p "if hasattr(self.node, 'keywords'):
    for key in self.node.keywords:
        if key.arg == argument_name:
            return key.value.lineno"] = true.
Proof. vm_compute. reflexivity. Qed.
Print Assumptions C10_inst_kw_line.
