(* Instance obligations of C07 over the facts regenerated from bandit/core/issue.py. *)
From Coq Require Import List NArith ZArith Bool String.
From Bandit Require Import Base.PyStr Engine.Types Engine.Scan Manager.BaselineFilter Gen.IssueFields Gen.Registry.
Import ListNotations.
Local Open Scope string_scope.
Local Open Scope list_scope.

(* Issue.__eq__ compares exactly the seven identity fields - none of the location fields *)
Lemma C07_inst_match_types : MATCH_TYPES = std_match_types.
Proof. vm_compute. reflexivity. Qed.
Print Assumptions C07_inst_match_types.

Lemma C07_inst_location_not_in_identity :
  forallb (fun f => negb (mem_pstr (s2p f) MATCH_TYPES)) ["lineno"; "linerange"; "col_offset"; "end_col_offset"; "code"; "fdata"] = true.
Proof. vm_compute. reflexivity. Qed.
Print Assumptions C07_inst_location_not_in_identity.

(* every identity field is written by as_dict under a key that from_dict reads back into the same attribute *)
Definition written_and_read_back (attr : pstr) : bool :=
  existsb (fun kv => (pstr_eqb (snd kv) attr || pstr_eqb (snd kv) (attr ++ s2p ".as_dict"))
                     && match assoc (fst kv) FROM_DICT_KEYS with Some a => pstr_eqb a attr | None => false end)
          AS_DICT_KEYS.
Lemma C07_inst_identity_roundtrips : forallb written_and_read_back MATCH_TYPES = true.
Proof. vm_compute. reflexivity. Qed.
Print Assumptions C07_inst_identity_roundtrips.

(* the formats a baseline may be combined with *)
Lemma C07_inst_baseline_formats :
  let accepting := map fst (filter snd formatter_baseline) in
  let expected := map s2p ["custom"; "html"; "json"; "screen"; "txt"] in
  forallb (fun x => mem_pstr x expected) accepting && forallb (fun x => mem_pstr x accepting) expected = true.
Proof. vm_compute. reflexivity. Qed.
Print Assumptions C07_inst_baseline_formats.
