(* C18 over the regenerated registry: a finite space, enumerated completely by vm_compute. *)
From Coq Require Import List NArith ZArith Bool String.
From Bandit Require Import Base.PyStr Engine.Types Engine.Tables Manager.Registry Cli.Thresholds
     Gen.Registry Gen.Blacklists Gen.Published Gen.Docs.
Import ListNotations.

Definition bl_rows := dedup_rows (blacklist_rows blacklist).
Definition all_rows := plugin_rows registry ++ bl_rows.
Definition all_rules : list bl_rule := flat_map snd blacklist.

Lemma C18_inst_ids_unique_wellformed :
  nodupb (map fst all_rows) && forallb wf_id (map fst all_rows) && forallb wf_id builtin_ids
  && negb (existsb (fun b => mem_pstr b (map fst all_rows)) builtin_ids) = true.
Proof. vm_compute. reflexivity. Qed.
Print Assumptions C18_inst_ids_unique_wellformed.

Lemma C18_inst_names_unique :
  nodupb (map snd all_rows) && negb (existsb (fun n => mem_pstr n (map fst all_rows ++ builtin_ids)) (map snd all_rows)) = true.
Proof. vm_compute. reflexivity. Qed.
Print Assumptions C18_inst_names_unique.

(* one rule per id: the copies of a rule under Call / Import / ImportFrom agree on name, level, cwe *)
Lemma C18_inst_blacklist_consistent :
  forallb (fun r1 => forallb (fun r2 =>
      negb (pstr_eqb (bl_id r1) (bl_id r2))
      || (pstr_eqb (bl_name r1) (bl_name r2) && rank_eqb (bl_level r1) (bl_level r2) && Z.eqb (bl_cwe r1) (bl_cwe r2)))
      all_rules) all_rules = true.
Proof. vm_compute. reflexivity. Qed.
Print Assumptions C18_inst_blacklist_consistent.

Lemma C18_inst_has_cwe : forallb (fun r => Z.ltb 0 (bl_cwe r)) all_rules = true.
Proof. vm_compute. reflexivity. Qed.
Print Assumptions C18_inst_has_cwe.

(* name and ID look each other up one-to-one, for every registered check and rule *)
Lemma C18_inst_lookup_bijective :
  forallb (fun r =>
     match find_test_id registry blacklist builtin_ids (fst r), find_test_id registry blacklist builtin_ids (snd r) with
     | Some a, Some b => pstr_eqb a (fst r) && pstr_eqb b (fst r)
     | _, _ => false
     end) all_rows = true.
Proof. vm_compute. reflexivity. Qed.
Print Assumptions C18_inst_lookup_bijective.

(* every check is registered for at least one node type *)
Lemma C18_inst_checks_nonempty :
  forallb (fun r => negb (match r_checks r with [] => true | _ => false end)) registry = true.
Proof. vm_compute. reflexivity. Qed.
Print Assumptions C18_inst_checks_nonempty.

(* entry points: setup.cfg declares exactly what is installed, everything declared loads, and every
   plugin / formatter / blacklist function present in the package is declared *)
Definition ep_eqb (a b : pstr * pstr * pstr * pstr) : bool :=
  match a, b with (g1, n1, m1, f1), (g2, n2, m2, f2) =>
    pstr_eqb g1 g2 && pstr_eqb n1 n2 && pstr_eqb m1 m2 && pstr_eqb f1 f2 end.
Definition subset_eps (a b : list (pstr * pstr * pstr * pstr)) : bool :=
  forallb (fun x => existsb (ep_eqb x) b) a.
Lemma C18_inst_entry_points :
  subset_eps declared_eps installed_eps && subset_eps installed_eps declared_eps
  && forallb (fun x => match x with (_, _, ok, _) => ok end) declared_loads
  && forallb (fun p => match p with (g, m, f) =>
        existsb (fun d => match d with (g', _, m', f') => pstr_eqb g g' && pstr_eqb m m' && pstr_eqb f f' end) declared_eps end)
      present_funcs = true.
Proof. vm_compute. reflexivity. Qed.
Print Assumptions C18_inst_entry_points.

(* every registered id has a documentation URL under the documentation base *)
Lemma C18_inst_doc_urls :
  forallb (fun i => match assoc i doc_urls with
                    | Some u => startswith u doc_base && negb (pstr_eqb u doc_base)
                    | None => false end) (map fst all_rows) = true.
Proof. vm_compute. reflexivity. Qed.
Print Assumptions C18_inst_doc_urls.

(* every published (id, qualified name, severity) is still enforced with at least that severity *)
Lemma C18_inst_published_enforced :
  forallb (fun p => match p with (i, q, sev) =>
     existsb (fun r => pstr_eqb (bl_id r) i && mem_pstr q (bl_qualnames r)
                       && Nat.leb (rank_ord sev) (rank_ord (bl_level r))) all_rules end) published = true.
Proof. vm_compute. reflexivity. Qed.
Print Assumptions C18_inst_published_enforced.

(* the documentation links bandit produces are the ones the DocUrl model computes from the registry: plugin links
   from the ID and the function's name, blacklist links from the ID and the rule's name (two anchor groups shared) *)
From Bandit Require Import Manager.DocUrl.
Lemma C18_inst_doc_url_model :
  forallb (fun r => match assoc (r_id r) doc_urls with
                    | Some u => pstr_eqb u (doc_url_plugin doc_base (r_id r) (r_func r))
                    | None => false
                    end) registry
  && forallb (fun r => match assoc (fst r) doc_urls with
                       | Some u => pstr_eqb u (doc_url_blacklist doc_base (fst r) (snd r))
                       | None => false
                       end) bl_rows = true.
Proof. vm_compute. reflexivity. Qed.
Print Assumptions C18_inst_doc_url_model.
