(* Instance obligations of C05 over the regenerated registry. *)
From Coq Require Import List NArith ZArith Bool String.
From Bandit Require Import Base.PyStr Ast.Node Engine.Types Engine.Tables Engine.Scan Plugins.Blacklist Plugins.All
     Manager.Registry Manager.TestSet Proofs.C01_proofs Gen.Registry Gen.Blacklists.
Import ListNotations.
Local Open Scope string_scope.
Local Open Scope list_scope.

Definition full_tests : list test := build_tests registry all_plugins defaults [] (fun _ => true) blacklist.

(* the function name a finding carries identifies the test that produced it (names pairwise distinct) *)
Lemma C05_inst_test_names_distinct : nodupb (map t_name full_tests) && nodupb (map t_id full_tests) = true.
Proof. vm_compute. reflexivity. Qed.
Print Assumptions C05_inst_test_names_distinct.

(* every registered plugin has a model, so the modelled test set is the whole test set *)
Lemma C05_inst_all_plugins_modelled :
  forallb (fun r => match find_plugin (r_name r) all_plugins with Some _ => true | None => false end)
          (filter (fun r => negb (pstr_eqb (r_id r) (s2p "B613"))) registry) = true.
Proof. vm_compute. reflexivity. Qed.
Print Assumptions C05_inst_all_plugins_modelled.

(* the built-in id is B001 and it is not the id of a plugin or of a blacklist rule *)
Lemma C05_inst_builtin :
  list_eqb pstr_eqb builtin_ids [B001]
  && negb (has_id B001 (plugin_rows registry)) && negb (has_id B001 (blacklist_rows blacklist)) = true.
Proof. vm_compute. reflexivity. Qed.
Print Assumptions C05_inst_builtin.

(* no masking among call rules (same fact as C01) *)
Lemma C05_inst_call_rules_disjoint :
  rules_disjointb (match bl_lookup "Call" blacklist with Some r => r | None => [] end) = true.
Proof. vm_compute. reflexivity. Qed.
Print Assumptions C05_inst_call_rules_disjoint.

(* no masking among import rules either: no name of one rule is a dotted prefix of (or equal to) a name of a rule with another
   id - the built-in check reports one rule per imported name, so an overlap would hide the second rule's finding in the
   unrestricted run while a run restricted to that rule reports it *)
Definition import_rules_disjointb (rs : list bl_rule) : bool :=
  forallb (fun r1 => forallb (fun r2 =>
    pstr_eqb (bl_id r1) (bl_id r2)
    || negb (existsb (fun q1 => existsb (fun q2 => Plugins.Blacklist.dotted_prefix_b q1 q2) (bl_qualnames r2)) (bl_qualnames r1))) rs) rs.
Lemma C05_inst_import_rules_disjoint :
  import_rules_disjointb (match bl_lookup "Import" blacklist with Some r => r | None => [] end) = true.
Proof. vm_compute. reflexivity. Qed.
Print Assumptions C05_inst_import_rules_disjoint.
