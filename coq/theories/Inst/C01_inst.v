(* Instance obligations of C01 over the tables regenerated from /repo. *)
From Coq Require Import List NArith ZArith Bool String.
From Bandit Require Import Base.PyStr Engine.Types Engine.Tables Plugins.Blacklist Proofs.C01_proofs
     Gen.Blacklists.
Import ListNotations.
Local Open Scope string_scope.

Definition call_rules : list bl_rule := match bl_lookup "Call" blacklist with Some r => r | None => [] end.
Definition import_rules : list bl_rule := match bl_lookup "Import" blacklist with Some r => r | None => [] end.
Definition importfrom_rules : list bl_rule := match bl_lookup "ImportFrom" blacklist with Some r => r | None => [] end.

(* no qualified name is listed by two different call rules: "that rule's ID" is well defined *)
Lemma C01_inst_call_rules_disjoint : rules_disjoint call_rules.
Proof. apply rules_disjointb_sound. vm_compute. reflexivity. Qed.
Print Assumptions C01_inst_call_rules_disjoint.

(* the three node types are present, non-empty, and Import/ImportFrom carry the same rules *)
Lemma C01_inst_tables_present :
  (call_rules <> [] /\ import_rules <> []) /\ map bl_id import_rules = map bl_id importfrom_rules.
Proof. vm_compute. repeat split; discriminate. Qed.
Print Assumptions C01_inst_tables_present.

(* every import rule is also consulted for calls (importlib.import_module / __import__ literals) *)
Lemma C01_inst_import_rules_in_call_table :
  forallb (fun r => existsb (fun r' => pstr_eqb (bl_id r) (bl_id r')) call_rules) import_rules = true.
Proof. vm_compute. reflexivity. Qed.
Print Assumptions C01_inst_import_rules_in_call_table.

(* every rule has a usable level, and HIGH confidence is what report_issue assigns *)
Lemma C01_inst_rules_have_names :
  forallb (fun r => negb (match bl_qualnames r with [] => true | _ => false end)) (call_rules ++ import_rules) = true.
Proof. vm_compute. reflexivity. Qed.
Print Assumptions C01_inst_rules_have_names.

(* the alias and import tables are written by the two import visitors only (and created by __init__); every
   other visitor method reads them: a local def/class/assignment never changes what a name denotes for
   the blacklist - the model's visit_one has exactly these writers *)
From Bandit Require Import Gen.Locations.
Lemma C01_inst_name_state_writers :
  (fix eqb (a b : list (pstr * pstr)) : bool :=
     match a, b with
     | [], [] => true
     | x :: a', y :: b' => pstr_eqb (fst x) (fst y) && pstr_eqb (snd x) (snd y) && eqb a' b'
     | _, _ => false
     end) NAME_STATE_WRITERS
    [(s2p "__init__", s2p "import_aliases"); (s2p "__init__", s2p "imports");
     (s2p "visit_Call", s2p "import_aliases passed to b_utils.get_call_name");
     (s2p "visit_Import", s2p "import_aliases"); (s2p "visit_Import", s2p "imports");
     (s2p "visit_ImportFrom", s2p "import_aliases"); (s2p "visit_ImportFrom", s2p "imports")] = true.
Proof. vm_compute. reflexivity. Qed.
Print Assumptions C01_inst_name_state_writers.
