(* Instance obligations of C12: the regenerated constants are of the shape the theorems quantify over. *)
From Coq Require Import List NArith ZArith Bool String Lia.
From Bandit Require Import Base.PyStr Engine.Types Engine.Tester Engine.Metrics Cli.Thresholds
     Proofs.C12_proofs Gen.Constants.
Import ListNotations.
Local Open Scope Z_scope.

Lemma C12_inst_weights_positive :
  exists wU wL wM wH, consts_gen = K_std wU wL wM wH /\ 0 < wU /\ 0 < wL /\ 0 < wM /\ 0 < wH.
Proof.
  eexists _, _, _, _. split; [vm_compute; reflexivity|]. repeat split; reflexivity.
Qed.
Print Assumptions C12_inst_weights_positive.

(* the metric labels are CRITERIA x RANKING = SEVERITY/CONFIDENCE x the four ranks *)
Lemma C12_inst_criteria : map fst CRITERIA = [s2p "SEVERITY"; s2p "CONFIDENCE"].
Proof. vm_compute. reflexivity. Qed.
Print Assumptions C12_inst_criteria.
