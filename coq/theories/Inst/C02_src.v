(* Source tie of C02: the functions of /repo its model transliterates (Inst/Golden.v: golden_C02, the functions the
   property's anchors name) still read as they did when the model was last validated against them; Gen/Sources.v is
   regenerated from /repo on every run.  Kept in a file of its own so that a broken tie does not hide the other obligations. *)
From Coq Require Import List NArith ZArith Bool.
From Bandit Require Import Base.PyStr Gen.Sources Inst.Golden.

Lemma C02_inst_source_tie : source_tie SRC golden_C02 = true.
Proof. vm_compute. reflexivity. Qed.
Print Assumptions C02_inst_source_tie.
