(* Instance obligations of C03 over the regenerated constants, CLI table and handler ladders. *)
From Coq Require Import List NArith ZArith Bool String.
From Bandit Require Import Base.PyStr Engine.Types Engine.Facts Cli.Thresholds
     Gen.Constants Gen.CliTable Gen.Ladders Gen.Registry.
Import ListNotations.
Local Open Scope string_scope.

(* the constant is the total order UNDEFINED < LOW < MEDIUM < HIGH the theorems are stated for *)
Lemma C03_inst_ranking : RANKING = std_ranking.
Proof. vm_compute. reflexivity. Qed.
Print Assumptions C03_inst_ranking.

(* every spelling of the thresholds selects the documented rank *)
Definition expected_levels : list (list pstr * pstr) :=
  let sev := [([], UNDEFINED); ([s2p "-l"], LOW); ([s2p "-ll"], MEDIUM); ([s2p "-lll"], HIGH);
              ([s2p "--level"], LOW);
              ([s2p "--severity-level"; s2p "all"], UNDEFINED); ([s2p "--severity-level"; s2p "low"], LOW);
              ([s2p "--severity-level"; s2p "medium"], MEDIUM); ([s2p "--severity-level"; s2p "high"], HIGH)] in
  let conf := [([], UNDEFINED); ([s2p "-i"], LOW); ([s2p "-ii"], MEDIUM); ([s2p "-iii"], HIGH);
               ([s2p "--confidence"], LOW);
               ([s2p "--confidence-level"; s2p "all"], UNDEFINED); ([s2p "--confidence-level"; s2p "low"], LOW);
               ([s2p "--confidence-level"; s2p "medium"], MEDIUM); ([s2p "--confidence-level"; s2p "high"], HIGH)] in
  map (fun x => (fst x, rank_name (snd x))) (sev ++ conf).

Lemma C03_inst_cli_spellings : cli_levels = expected_levels.
Proof. vm_compute. reflexivity. Qed.
Print Assumptions C03_inst_cli_spellings.

(* configuration / profile / baseline failures are caught in main() and turned into exit status 2 *)
Definition main_fact := func_fact ladders (s2p "cli.main:main").
Definition exits2_on (cls : pstr) : bool :=
  existsb (fun t => match catching exn_supers (t_handlers t) cls with
                    | Some (AExit 2) => true | _ => false end) (ff_tries main_fact).
Lemma C03_inst_main_errors_exit2 :
  exits2_on (s2p "utils.ConfigError") && exits2_on (s2p "utils.ProfileNotFound")
  && exits2_on (s2p "ValueError") && exits2_on (s2p "FileNotFoundError") = true.
Proof. vm_compute. reflexivity. Qed.
Print Assumptions C03_inst_main_errors_exit2.

(* the report is produced before the exit status is computed, and both use the same filter entry point *)
Fixpoint index_of_call (x : pstr) (l : list pstr) (i : nat) : option nat :=
  match l with [] => None | y :: t => if pstr_eqb x y then Some i else index_of_call x t (S i) end.
Lemma C03_inst_main_order :
  match index_of_call (s2p "b_mgr.run_tests") (ff_calls main_fact) 0,
        index_of_call (s2p "b_mgr.output_results") (ff_calls main_fact) 0,
        index_of_call (s2p "b_mgr.results_count") (ff_calls main_fact) 0 with
  | Some a, Some b, Some c => Nat.ltb a b && Nat.ltb b c
  | _, _, _ => false
  end = true.
Proof. vm_compute. reflexivity. Qed.
Print Assumptions C03_inst_main_order.

(* all nine formatters are registered *)
Lemma C03_inst_formats :
  formatter_names = map s2p ["csv"; "custom"; "html"; "json"; "sarif"; "screen"; "txt"; "xml"; "yaml"].
Proof. vm_compute. reflexivity. Qed.
Print Assumptions C03_inst_formats.
