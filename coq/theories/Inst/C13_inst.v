(* Instance obligations of C13 over the regenerated registry, defaults, generator output and ladders. *)
From Coq Require Import List NArith ZArith Bool String.
From Bandit Require Import Base.PyStr Engine.Types Engine.Tables Engine.Scan Engine.Facts
     Gen.Registry Gen.ConfigGen Gen.Ladders.
Import ListNotations.
Local Open Scope string_scope.
Local Open Scope list_scope.

Fixpoint jv_eqb (a b : jv) : bool :=
  match a, b with
  | JNull, JNull => true
  | JBool x, JBool y => Bool.eqb x y
  | JInt x, JInt y => Z.eqb x y
  | JStr x, JStr y => pstr_eqb x y
  | JList x, JList y =>
      (fix go (l1 l2 : list jv) := match l1, l2 with [], [] => true | u :: l1', v :: l2' => jv_eqb u v && go l1' l2' | _, _ => false end) x y
  | JDict x, JDict y =>
      (* dictionaries compare by content, not by key order *)
      Nat.eqb (List.length x) (List.length y)
      && (fix go (l1 : list (pstr * jv)) := match l1 with
            | [] => true
            | (k1, u) :: l1' => match assoc k1 y with Some v => jv_eqb u v | None => false end && go l1' end) x
  | _, _ => false
  end.

(* the unmodified output of bandit-config-generator gives every check the configuration it has with no
   config file at all *)
Lemma C13_inst_generator_neutral :
  forallb (fun r => jv_eqb (effective_cfg defaults generated_settings (r_cfg r)) (effective_cfg defaults [] (r_cfg r))) registry = true.
Proof. vm_compute. reflexivity. Qed.
Print Assumptions C13_inst_generator_neutral.

(* every check that takes configuration has a default *)
Lemma C13_inst_defaults_exist :
  forallb (fun r => match r_cfg r with Some k => match assoc k defaults with Some _ => true | None => false end | None => true end) registry = true.
Proof. vm_compute. reflexivity. Qed.
Print Assumptions C13_inst_defaults_exist.

(* BanditConfig.__init__ turns an unreadable or unparsable file into ConfigError; main() turns ConfigError
   and ProfileNotFound into exit status 2 *)
Definition cfg_fact := func_fact ladders (s2p "core.config:BanditConfig.__init__").
Definition main_fact := func_fact ladders (s2p "cli.main:main").
Definition raises_config_error (cls : pstr) : bool :=
  existsb (fun t => match catching exn_supers (t_handlers t) cls with
                    | Some (ARaise c) => pstr_eqb c (s2p "utils.ConfigError") | _ => false end) (ff_tries cfg_fact).
Definition exits2_on (cls : pstr) : bool :=
  existsb (fun t => match catching exn_supers (t_handlers t) cls with Some (AExit 2) => true | _ => false end) (ff_tries main_fact).
Lemma C13_inst_ladders :
  raises_config_error (s2p "OSError") && raises_config_error (s2p "FileNotFoundError")
  && raises_config_error (s2p "yaml.YAMLError") && raises_config_error (s2p "tomllib.TOMLDecodeError")
  && exits2_on (s2p "utils.ConfigError") && exits2_on (s2p "utils.ProfileNotFound") && exits2_on (s2p "ValueError") = true.
Proof. vm_compute. reflexivity. Qed.
Print Assumptions C13_inst_ladders.

(* the mapping check comes before validate() looks into the document *)
Fixpoint index_of_call (x : pstr) (l : list pstr) (i : nat) : option nat :=
  match l with [] => None | y :: t => if pstr_eqb x y then Some i else index_of_call x t (S i) end.
Lemma C13_inst_mapping_check_first :
  match index_of_call (s2p "isinstance") (rev (ff_calls cfg_fact)) 0, index_of_call (s2p "self.validate") (rev (ff_calls cfg_fact)) 0 with
  | Some a, Some b => Nat.ltb b a | _, _ => false end = true.
Proof. vm_compute. reflexivity. Qed.
Print Assumptions C13_inst_mapping_check_first.
