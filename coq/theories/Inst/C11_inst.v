(* Instance obligations of C11 over regenerated constants and control-flow facts. *)
From Coq Require Import List NArith ZArith Bool String.
From Bandit Require Import Base.PyStr Engine.Types Engine.Facts Gen.Constants Gen.Ladders Gen.CliTable.
Import ListNotations.
Local Open Scope string_scope.
Local Open Scope list_scope.

(* the default exclusions are the documented VCS / cache directories *)
Lemma C11_inst_default_excludes :
  EXCLUDE = map s2p [".svn"; "CVS"; ".bzr"; ".hg"; ".git"; "__pycache__"; ".tox"; ".eggs"; "*.egg"].
Proof. vm_compute. reflexivity. Qed.
Print Assumptions C11_inst_default_excludes.

(* _is_file_included consults the include globs, the exclude globs and the exclude strings;
   _get_files_from_dir walks with os.walk and classifies every file through it *)
Definition inc_fact := func_fact ladders (s2p "core.manager:_is_file_included").
Definition dir_fact := func_fact ladders (s2p "core.manager:_get_files_from_dir").
Definition disc_fact := func_fact ladders (s2p "core.manager:BanditManager.discover_files").
Lemma C11_inst_structure :
  Nat.leb 2 (List.length (filter (pstr_eqb (s2p "_matches_glob_list")) (ff_calls inc_fact)))
  && mem_pstr (s2p "os.walk") (ff_calls dir_fact) && mem_pstr (s2p "_is_file_included") (ff_calls dir_fact)
  && mem_pstr (s2p "files_list.add") (ff_calls dir_fact) && mem_pstr (s2p "excluded_files.add") (ff_calls dir_fact)
  && mem_pstr (s2p "_get_files_from_dir") (ff_calls disc_fact) && mem_pstr (s2p "os.path.isdir") (ff_calls disc_fact) = true.
Proof. vm_compute. reflexivity. Qed.
Print Assumptions C11_inst_structure.
