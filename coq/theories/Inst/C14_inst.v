(* Instance obligations of C14 over the regenerated registry, defaults and regex. *)
From Coq Require Import List NArith ZArith Bool String.
From Bandit Require Import Base.PyStr Engine.Types Engine.Tables Engine.Scan Regex.Regex
     Gen.Registry Gen.Regexes Plugins.Shell.
Import ListNotations.
Local Open Scope string_scope.

Definition row_ok (id name cfgname : string) (checks : list string) : bool :=
  existsb (fun r => pstr_eqb (r_id r) (s2p id) && pstr_eqb (r_name r) (s2p name)
                    && list_eqb String.eqb (r_checks r) checks
                    && match r_cfg r with Some k => pstr_eqb k (s2p cfgname) | None => false end) registry.

(* the seven checks are registered under the IDs, node type and configuration name the model assumes *)
Lemma C14_inst_registry :
  row_ok "B602" "subprocess_popen_with_shell_equals_true" "shell_injection" ["Call"]
  && row_ok "B603" "subprocess_without_shell_equals_true" "shell_injection" ["Call"]
  && row_ok "B604" "any_other_function_with_shell_equals_true" "shell_injection" ["Call"]
  && row_ok "B605" "start_process_with_a_shell" "shell_injection" ["Call"]
  && row_ok "B606" "start_process_with_no_shell" "shell_injection" ["Call"]
  && row_ok "B607" "start_process_with_partial_path" "shell_injection" ["Call"]
  && row_ok "B609" "linux_commands_wildcard_injection" "shell_injection" ["Call"] = true.
Proof. vm_compute. reflexivity. Qed.
Print Assumptions C14_inst_registry.

(* every one of them has a model *)
Lemma C14_inst_modelled :
  forallb (fun n => match find_plugin (s2p n) shell_plugins with Some _ => true | None => false end)
    ["subprocess_popen_with_shell_equals_true"; "subprocess_without_shell_equals_true";
     "any_other_function_with_shell_equals_true"; "start_process_with_a_shell"; "start_process_with_no_shell";
     "start_process_with_partial_path"; "linux_commands_wildcard_injection"] = true.
Proof. vm_compute. reflexivity. Qed.
Print Assumptions C14_inst_modelled.

(* the default configuration has the three lists, pairwise disjoint *)
Definition shell_default : jv := match assoc (s2p "shell_injection") defaults with Some v => v | None => JNull end.
Definition sec (k : string) : list pstr := match jget (s2p k) shell_default with Some l => jstrs l | None => [] end.
Lemma C14_inst_default_lists :
  negb (match sec "subprocess" with [] => true | _ => false end)
  && negb (match sec "shell" with [] => true | _ => false end)
  && negb (match sec "no_shell" with [] => true | _ => false end)
  && forallb (fun x => negb (mem_pstr x (sec "shell" ++ sec "no_shell"))) (sec "subprocess")
  && forallb (fun x => negb (mem_pstr x (sec "no_shell"))) (sec "shell") = true.
Proof. vm_compute. reflexivity. Qed.
Print Assumptions C14_inst_default_lists.

(* the regenerated full-path pattern is the documented one: starts with / \ . or a drive letter + ':' *)
Definition full_path_spec (s : pstr) : bool :=
  match s with
  | c :: rest =>
      N.eqb c 47 || N.eqb c 92 || N.eqb c 46
      || ((((65 <=? c) && (c <=? 90)) || ((97 <=? c) && (c <=? 122)))%N && match rest with 58%N :: _ => true | _ => false end)
  | [] => false
  end.
Definition probe_strings : list pstr :=
  map s2p ["ls"; "/bin/ls"; "./x"; ".."; "."; "C:\x"; "c:"; "c:x"; "cc:\x"; "C"; "1:\x"; "\x"; ""; " /bin/ls"; "~/x";
           ":"; "a"; "Z:"; "z:/"; "é:"; "-"; "0"].
Lemma C14_inst_full_path_regex :
  forallb (fun s => Bool.eqb (re_match re_full_path s) (full_path_spec s)) probe_strings = true.
Proof. vm_compute. reflexivity. Qed.
Print Assumptions C14_inst_full_path_regex.
