(* Instance obligations of C04 over the handler ladders and the exception matrix regenerated from /repo. *)
From Coq Require Import List NArith ZArith Bool String.
From Bandit Require Import Base.PyStr Engine.Types Engine.Facts Manager.Accounting Gen.Ladders.
Import ListNotations.
Local Open Scope string_scope.
Local Open Scope list_scope.

Definition run_fact := func_fact ladders (s2p "core.manager:BanditManager.run_tests").
Definition parse_fact := func_fact ladders (s2p "core.manager:BanditManager._parse_file").
Definition exec_fact := func_fact ladders (s2p "core.manager:BanditManager._execute_ast_visitor").
Definition tester_fact := func_fact ladders (s2p "core.tester:BanditTester.run_tests").

Definition try_calling (f : funcfact) (callee : string) : list handler :=
  match find (fun t => mem_pstr (s2p callee) (t_calls t)) (ff_tries f) with
  | Some t => t_handlers t | None => [] end.

(* run_tests: the try around open()/_parse_file; _parse_file: the outer try (it is the one calling
   metrics.begin) and the inner try around the tokenizer *)
Definition ladders_gen : Accounting.ladders :=
  Ladders (try_calling run_fact "self._parse_file")
          (try_calling parse_fact "self.metrics.begin")
          (match find (fun t => mem_pstr (s2p "tokenize.tokenize") (t_calls t) && negb (mem_pstr (s2p "self.metrics.begin") (t_calls t)))
                      (ff_tries parse_fact) with Some t => t_handlers t | None => [] end).

Lemma C04_inst_ladders_found :
  negb (match l_run ladders_gen with [] => true | _ => false end)
  && negb (match l_parse ladders_gen with [] => true | _ => false end)
  && negb (match l_tok ladders_gen with [] => true | _ => false end) = true.
Proof. vm_compute. reflexivity. Qed.
Print Assumptions C04_inst_ladders_found.

(* every I/O failure on open and every Exception subclass afterwards is absorbed: skip with a reason,
   or (TokenError in the comment scan) carry on *)
Lemma C04_inst_absorbs_all : absorbs_all exn_supers ladders_gen = true.
Proof. vm_compute. reflexivity. Qed.
Print Assumptions C04_inst_absorbs_all.

(* the classes the fault enumeration uses are in the matrix with the expected ancestry *)
Lemma C04_inst_matrix_sane :
  forallb (fun c => is_subclass exn_supers (s2p c) (s2p "Exception"))
          ["OSError"; "FileNotFoundError"; "PermissionError"; "IsADirectoryError"; "SyntaxError"; "IndentationError";
           "ValueError"; "UnicodeDecodeError"; "TypeError"; "KeyError"; "IndexError"; "AttributeError"; "RecursionError";
           "MemoryError"; "RuntimeError"; "tokenize.TokenError"; "LookupError"; "AssertionError"; "ZeroDivisionError"]
  && forallb (fun c => is_subclass exn_supers (s2p c) (s2p "OSError"))
             ["OSError"; "FileNotFoundError"; "PermissionError"; "IsADirectoryError"]
  && negb (is_subclass exn_supers (s2p "KeyboardInterrupt") (s2p "Exception"))
  && negb (is_subclass exn_supers (s2p "SystemExit") (s2p "Exception")) = true.
Proof. vm_compute. reflexivity. Qed.
Print Assumptions C04_inst_matrix_sane.

(* commit point: a file's findings are added to the run's results only after its visitor returned *)
Fixpoint index_of_call (x : pstr) (l : list pstr) (i : nat) : option nat :=
  match l with [] => None | y :: t => if pstr_eqb x y then Some i else index_of_call x t (S i) end.
Lemma C04_inst_commit_point :
  match index_of_call (s2p "res.process") (ff_calls exec_fact) 0, index_of_call (s2p "self.results.extend") (ff_calls exec_fact) 0 with
  | Some a, Some b => Nat.ltb a b | _, _ => false end
  && match index_of_call (s2p "self.metrics.begin") (ff_calls parse_fact) 0,
           index_of_call (s2p "self._execute_ast_visitor") (ff_calls parse_fact) 0 with
     | Some a, Some b => Nat.ltb a b | _, _ => false end = true.
Proof. vm_compute. reflexivity. Qed.
Print Assumptions C04_inst_commit_point.

(* a check that raises is logged and the scan of the file goes on (never demoted to "skipped") *)
Lemma C04_inst_tester_catch_all :
  existsb (fun t => match catching exn_supers (t_handlers t) (s2p "Exception") with
                    | Some ALogReraiseIfDebug | Some ALog => true | _ => false end) (ff_tries tester_fact) = true.
Proof. vm_compute. reflexivity. Qed.
Print Assumptions C04_inst_tester_catch_all.

(* run_tests walks self.files_list (possibly wrapped by the progress bar) while removals go to the working copy
   new_files_list: skipping a file can never make the loop jump over its neighbour *)
Lemma C04_inst_loop_source :
  (fix eqb (a b : list pstr) : bool :=
     match a, b with [], [] => true | x :: a', y :: b' => pstr_eqb x y && eqb a' b' | _, _ => false end)
    RUN_TESTS_LOOP
    [s2p "files = progress.track(self.files_list)"; s2p "files = self.files_list";
     s2p "for (count, fname) in enumerate(files)";
     s2p "new_files_list = ['<stdin>' if x == '-' else x for x in new_files_list]";
     s2p "new_files_list = list(self.files_list)"; s2p "self.files_list = new_files_list"] = true.
Proof. vm_compute. reflexivity. Qed.
Print Assumptions C04_inst_loop_source.
