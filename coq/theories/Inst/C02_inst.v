(* Instance obligations of C02 over the regenerated patterns and registry. *)
From Coq Require Import List NArith ZArith Bool String.
From Bandit Require Import Base.PyStr Engine.Types Engine.Tables Engine.Scan Regex.Regex Manager.Registry Manager.NosecParse
     Gen.Regexes Gen.Registry Gen.Blacklists.
Import ListNotations.
Local Open Scope string_scope.
Local Open Scope list_scope.

(* the comment pattern has the shape the dedicated parser implements *)
Lemma C02_inst_pattern_shape : nosec_skeleton = s2p "#<ws*>nosec<:?><ws*><group?><#?>".
Proof. vm_compute. reflexivity. Qed.
Print Assumptions C02_inst_pattern_shape.

(* separators: letters, digits and '_' belong to a token; ',', ' ', ':', '#', ';', '(' do not *)
Lemma C02_inst_token_class :
  forallb (fun c => in_cset c cs_nosec_token) (s2p "abzABZ019_")
  && forallb (fun c => negb (in_cset c cs_nosec_token)) (s2p ", :#;()-./") = true.
Proof. vm_compute. reflexivity. Qed.
Print Assumptions C02_inst_token_class.

(* the dedicated marker search agrees with the regenerated regex on a probe set *)
Definition probes : list pstr :=
  map s2p ["# nosec"; "#nosec"; "#  nosec: B101"; "# nosec B101,B603"; "# NOSEC"; "# no sec"; "nosec"; "x # nosec"; "# type: ignore # nosec";
           "# nosecurity"; "#nosec#"; "# nosec # noqa"; "## nosec"; "#"; ""; "# nose"; "#	nosec"; "# n o s e c"; "'# nosec'"; "# noqa # x #nosec B1"].
Lemma C02_inst_marker_search :
  forallb (fun s => Bool.eqb (re_search re_nosec s)
                             (match after_nosec cs_nosec_space s with Some _ => true | None => false end)) probes = true.
Proof. vm_compute. reflexivity. Qed.
Print Assumptions C02_inst_marker_search.

(* every registered id and every registered name is a single token that resolves to its id *)
Definition all_rows := plugin_rows registry ++ dedup_rows (blacklist_rows blacklist).
Lemma C02_inst_ids_and_names_are_tokens :
  forallb (fun r =>
     list_eqb pstr_eqb (tokens cs_nosec_token (fst r)) [fst r]
     && list_eqb pstr_eqb (tokens cs_nosec_token (snd r)) [snd r]
     && list_eqb pstr_eqb (resolve_tokens registry blacklist builtin_ids [snd r]) [fst r]
     && list_eqb pstr_eqb (resolve_tokens registry blacklist builtin_ids [fst r]) [fst r]) all_rows = true.
Proof. vm_compute. reflexivity. Qed.
Print Assumptions C02_inst_ids_and_names_are_tokens.
