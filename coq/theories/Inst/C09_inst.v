(* Instance obligations of C09 over the regenerated registry and issue-field facts. *)
From Coq Require Import List NArith ZArith Bool String.
From Bandit Require Import Base.PyStr Engine.Types Engine.Scan Gen.Registry Gen.IssueFields.
Import ListNotations.
Local Open Scope string_scope.
Local Open Scope list_scope.

(* the nine formats of the statement are registered *)
Lemma C09_inst_formats :
  forallb (fun f => mem_pstr (s2p f) formatter_names) ["json"; "yaml"; "csv"; "xml"; "sarif"; "html"; "custom"; "txt"; "screen"] = true.
Proof. vm_compute. reflexivity. Qed.
Print Assumptions C09_inst_formats.

(* as_dict carries the six fields every record must show, under the documented keys *)
Lemma C09_inst_record_fields :
  forallb (fun kv => match assoc (s2p (fst kv)) AS_DICT_KEYS with Some a => pstr_eqb a (s2p (snd kv)) | None => false end)
    [("test_id", "test_id"); ("filename", "fname"); ("line_number", "lineno"); ("issue_severity", "severity");
     ("issue_confidence", "confidence"); ("issue_text", "text"); ("line_range", "linerange"); ("test_name", "test")] = true.
Proof. vm_compute. reflexivity. Qed.
Print Assumptions C09_inst_record_fields.

(* JSON and YAML order their records with a stable sort on the test name (-a vuln) or on the file name: the
   keys sort_by of Formats/Grouping.v is instantiated with in the grouping theorems *)
From Bandit Require Import Gen.FormatFacts.
Lemma C09_inst_sort_keys :
  (fix eqb (a b : list (pstr * (pstr * pstr))) : bool :=
     match a, b with
     | [], [] => true
     | x :: a', y :: b' => pstr_eqb (fst x) (fst y) && pstr_eqb (fst (snd x)) (fst (snd y)) && pstr_eqb (snd (snd x)) (snd (snd y)) && eqb a' b'
     | _, _ => false
     end) SORT_KEYS
    [(s2p "json", (s2p "test_name", s2p "filename")); (s2p "yaml", (s2p "test_name", s2p "filename"))] = true.
Proof. vm_compute. reflexivity. Qed.
Print Assumptions C09_inst_sort_keys.

(* every machine-readable formatter takes its records from one call of manager.get_issue_list with its own two
   thresholds and walks that list with loops that neither skip nor stop: one record per reported finding *)
Lemma C09_inst_record_loops :
  forallb (fun r => Z.eqb (fst (snd r)) 1 && Z.leb 1 (fst (snd (snd r))) && snd (snd (snd r))) RECORD_LOOPS = true
  /\ map fst RECORD_LOOPS = [s2p "json"; s2p "yaml"; s2p "csv"; s2p "xml"; s2p "html"; s2p "sarif"; s2p "custom"].
Proof. split; vm_compute; reflexivity. Qed.
Print Assumptions C09_inst_record_loops.
