(* Instance obligations of C09 over the regenerated registry and issue-field facts. *)
From Coq Require Import List NArith ZArith Bool String.
From Bandit Require Import Base.PyStr Engine.Types Engine.Scan Gen.Registry Gen.IssueFields.
Import ListNotations.
Local Open Scope string_scope.
Local Open Scope list_scope.

(* the nine formats of the statement are registered *)
Lemma C09_inst_formats :
  forallb (fun f => mem_pstr (s2p f) formatter_names) ["json"; "yaml"; "csv"; "xml"; "sarif"; "html"; "custom"; "txt"; "screen"] = true.
Proof. vm_compute. reflexivity. Qed.
Print Assumptions C09_inst_formats.

(* as_dict carries the six fields every record must show, under the documented keys *)
Lemma C09_inst_record_fields :
  forallb (fun kv => match assoc (s2p (fst kv)) AS_DICT_KEYS with Some a => pstr_eqb a (s2p (snd kv)) | None => false end)
    [("test_id", "test_id"); ("filename", "fname"); ("line_number", "lineno"); ("issue_severity", "severity");
     ("issue_confidence", "confidence"); ("issue_text", "text"); ("line_range", "linerange"); ("test_name", "test")] = true.
Proof. vm_compute. reflexivity. Qed.
Print Assumptions C09_inst_record_fields.
