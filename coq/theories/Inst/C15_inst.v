(* Instance obligations of C15 over the regenerated registry and defaults. *)
From Coq Require Import List NArith ZArith Bool String.
From Bandit Require Import Base.PyStr Engine.Types Engine.Tables Engine.Scan Gen.Registry Plugins.Crypto.
Import ListNotations.
Local Open Scope string_scope.
Local Open Scope list_scope.

Definition row_ok (id name func : string) (cfgname : option string) (checks : list string) : bool :=
  existsb (fun r => pstr_eqb (r_id r) (s2p id) && pstr_eqb (r_name r) (s2p name) && pstr_eqb (r_func r) (s2p func)
                    && list_eqb String.eqb (r_checks r) checks
                    && match r_cfg r, cfgname with
                       | Some k, Some k' => pstr_eqb k (s2p k') | None, None => true | _, _ => false end) registry.

Lemma C15_inst_registry :
  row_ok "B324" "hashlib_insecure_functions" "hashlib" None ["Call"]
  && row_ok "B505" "weak_cryptographic_key" "weak_cryptographic_key" (Some "weak_cryptographic_key") ["Call"]
  && row_ok "B502" "ssl_with_bad_version" "ssl_with_bad_version" (Some "ssl_with_bad_version") ["Call"]
  && row_ok "B503" "ssl_with_bad_defaults" "ssl_with_bad_defaults" (Some "ssl_with_bad_version") ["FunctionDef"; "AsyncFunctionDef"]
  && row_ok "B504" "ssl_with_no_version" "ssl_with_no_version" None ["Call"]
  && row_ok "B501" "request_with_no_cert_validation" "request_with_no_cert_validation" None ["Call"]
  && row_ok "B113" "request_without_timeout" "request_without_timeout" None ["Call"]
  && row_ok "B507" "ssh_no_host_key_verification" "ssh_no_host_key_verification" None ["Call"]
  && row_ok "B508" "snmp_insecure_version" "snmp_insecure_version_check" None ["Call"]
  && row_ok "B509" "snmp_weak_cryptography" "snmp_crypto_check" None ["Call"] = true.
Proof. vm_compute. reflexivity. Qed.
Print Assumptions C15_inst_registry.

Lemma C15_inst_modelled :
  forallb (fun n => match find_plugin (s2p n) crypto_plugins with Some _ => true | None => false end)
    ["hashlib_insecure_functions"; "weak_cryptographic_key"; "ssl_with_bad_version"; "ssl_with_bad_defaults";
     "ssl_with_no_version"; "request_with_no_cert_validation"; "request_without_timeout";
     "ssh_no_host_key_verification"; "snmp_insecure_version"; "snmp_weak_cryptography"] = true.
Proof. vm_compute. reflexivity. Qed.
Print Assumptions C15_inst_modelled.

(* default thresholds: HIGH threshold <= MEDIUM threshold for each key type (what keysize_monotone assumes) *)
Definition thr (k : string) : Z :=
  match assoc (s2p "weak_cryptographic_key") defaults with
  | Some d => match jget (s2p k) d with Some (JInt z) => z | _ => (-1)%Z end
  | None => (-1)%Z end.
Lemma C15_inst_default_thresholds :
  (0 <? thr "weak_key_size_dsa_high")%Z && (thr "weak_key_size_dsa_high" <=? thr "weak_key_size_dsa_medium")%Z
  && (0 <? thr "weak_key_size_rsa_high")%Z && (thr "weak_key_size_rsa_high" <=? thr "weak_key_size_rsa_medium")%Z
  && (0 <? thr "weak_key_size_ec_high")%Z && (thr "weak_key_size_ec_high" <=? thr "weak_key_size_ec_medium")%Z = true.
Proof. vm_compute. reflexivity. Qed.
Print Assumptions C15_inst_default_thresholds.

Lemma C15_inst_bad_protocols_nonempty :
  match assoc (s2p "ssl_with_bad_version") defaults with
  | Some d => match jget (s2p "bad_protocol_versions") d with
              | Some l => negb (match jstrs l with [] => true | _ => false end)
                          && mem_pstr (s2p "PROTOCOL_SSLv3") (jstrs l) && mem_pstr (s2p "PROTOCOL_TLSv1") (jstrs l)
              | None => false end
  | None => false end = true.
Proof. vm_compute. reflexivity. Qed.
Print Assumptions C15_inst_bad_protocols_nonempty.
