(* Instance obligations of C17 over the regenerated registry, defaults and regex. *)
From Coq Require Import List NArith ZArith Bool String.
From Bandit Require Import Base.PyStr Engine.Types Engine.Tables Engine.Scan Regex.Regex Gen.Registry Gen.Regexes
     Plugins.Inject Plugins.Misc.
Import ListNotations.
Local Open Scope string_scope.
Local Open Scope list_scope.

Definition row_ok (id name func : string) (cfgname : option string) (checks : list string) : bool :=
  existsb (fun r => pstr_eqb (r_id r) (s2p id) && pstr_eqb (r_name r) (s2p name) && pstr_eqb (r_func r) (s2p func)
                    && list_eqb String.eqb (r_checks r) checks
                    && match r_cfg r, cfgname with
                       | Some k, Some k' => pstr_eqb k (s2p k') | None, None => true | _, _ => false end) registry.

Lemma C17_inst_registry :
  row_ok "B608" "hardcoded_sql_expressions" "hardcoded_sql_expressions" None ["Str"]
  && row_ok "B610" "django_extra_used" "django_extra_used" None ["Call"]
  && row_ok "B611" "django_rawsql_used" "django_rawsql_used" None ["Call"]
  && row_ok "B701" "jinja2_autoescape_false" "jinja2_autoescape_false" None ["Call"]
  && row_ok "B702" "use_of_mako_templates" "use_of_mako_templates" None ["Call"]
  && row_ok "B703" "django_mark_safe" "django_mark_safe" None ["Call"]
  && row_ok "B704" "markupsafe_markup_xss" "markupsafe_markup_xss" (Some "markupsafe_xss") ["Call"]
  && row_ok "B506" "yaml_load" "yaml_load" None ["Call"]
  && row_ok "B614" "pytorch_load" "pytorch_load" None ["Call"]
  && row_ok "B202" "tarfile_unsafe_members" "tarfile_unsafe_members" None ["Call"]
  && row_ok "B201" "flask_debug_true" "flask_debug_true" None ["Call"]
  && row_ok "B612" "logging_config_insecure_listen" "logging_config_insecure_listen" None ["Call"]
  && row_ok "B601" "paramiko_calls" "paramiko_calls" None ["Call"]
  && row_ok "B102" "exec_used" "exec_used" None ["Call"]
  && row_ok "B101" "assert_used" "assert_used" (Some "assert_used") ["Assert"]
  && row_ok "B110" "try_except_pass" "try_except_pass" (Some "try_except_pass") ["ExceptHandler"]
  && row_ok "B112" "try_except_continue" "try_except_continue" (Some "try_except_continue") ["ExceptHandler"] = true.
Proof. vm_compute. reflexivity. Qed.
Print Assumptions C17_inst_registry.

Lemma C17_inst_modelled :
  forallb (fun n => match find_plugin (s2p n) (inject_plugins ++ misc_plugins) with Some _ => true | None => false end)
    ["hardcoded_sql_expressions"; "django_extra_used"; "django_rawsql_used"; "jinja2_autoescape_false"; "use_of_mako_templates";
     "django_mark_safe"; "markupsafe_markup_xss"; "yaml_load"; "pytorch_load"; "tarfile_unsafe_members"; "flask_debug_true";
     "logging_config_insecure_listen"; "paramiko_calls"; "exec_used"; "assert_used"; "try_except_pass"; "try_except_continue"] = true.
Proof. vm_compute. reflexivity. Qed.
Print Assumptions C17_inst_modelled.

(* the SQL pattern: the four verb forms of the documentation match, look-alikes do not *)
Definition sql_probes : list (string * bool) :=
  [("select a from b", true); ("SELECT * FROM t WHERE x=", true); ("delete from t where", true); ("insert into t (a) values (", true);
   ("update t set a = ", true); ("select a", false); ("from t select", false); ("deletefrom t", false); ("insert into t", false);
   ("update t", false); ("selected from the list", false); ("", false); ("  Select
   x From
   y", true)].
Lemma C17_inst_sql_regex :
  forallb (fun p => Bool.eqb (re_search re_simple_sql (s2p (fst p))) (snd p)) sql_probes = true.
Proof. vm_compute. reflexivity. Qed.
Print Assumptions C17_inst_sql_regex.

(* defaults: exception checks are off for typed exceptions, asserts are not skipped anywhere *)
Lemma C17_inst_defaults :
  match assoc (s2p "try_except_pass") defaults, assoc (s2p "try_except_continue") defaults, assoc (s2p "assert_used") defaults with
  | Some (JDict a), Some (JDict b), Some (JDict c) =>
      match assoc (s2p "check_typed_exception") a, assoc (s2p "check_typed_exception") b, assoc (s2p "skips") c with
      | Some (JBool false), Some (JBool false), Some (JList []) => true | _, _, _ => false end
  | _, _, _ => false end = true.
Proof. vm_compute. reflexivity. Qed.
Print Assumptions C17_inst_defaults.
