(* Instance obligations of C20 over the control-flow facts regenerated from bandit/cli/baseline.py. *)
From Coq Require Import List NArith ZArith Bool String.
From Bandit Require Import Base.PyStr Engine.Types Engine.Facts Cli.BaselineTool Gen.Ladders.
Import ListNotations.
Local Open Scope string_scope.
Local Open Scope list_scope.

Definition setup_fact := func_fact ladders (s2p "cli.baseline:baseline_setup").
Definition main_fact := func_fact ladders (s2p "cli.baseline:main").
Definition init_fact := func_fact ladders (s2p "cli.baseline:initialize").

(* the yield of the context manager sits inside a try whose finally removes the temporary directory and
   resets the repository; no yield is outside such a try *)
Definition cleanup_in_finally_gen : bool :=
  Nat.eqb (ff_unprotected_yields setup_fact) 0
  && existsb (fun t => t_yield_inside t && t_finally t
                       && mem_pstr (s2p "shutil.rmtree") (t_finally_calls t)
                       && mem_pstr (s2p "repo.head.reset") (t_finally_calls t)) (ff_tries setup_fact).

Definition handled_gen : list pstr :=
  match find (fun t => mem_pstr (s2p "subprocess.check_output") (t_calls t)) (ff_tries main_fact) with
  | Some t => flat_map h_types (t_handlers t) | None => [] end.

Definition tool_facts_gen : tool_facts := ToolFacts cleanup_in_finally_gen handled_gen exn_supers.

Lemma C20_inst_cleanup_in_finally : tf_cleanup_in_finally tool_facts_gen = true.
Proof. vm_compute. reflexivity. Qed.
Print Assumptions C20_inst_cleanup_in_finally.

(* a failing bandit subprocess (non-zero exit, killed by a signal) is handled as an exit status *)
Lemma C20_inst_called_process_error_handled :
  handled tool_facts_gen (s2p "subprocess.CalledProcessError") = true.
Proof. vm_compute. reflexivity. Qed.
Print Assumptions C20_inst_called_process_error_handled.

(* preconditions are evaluated before the first reset: initialize() precedes every repo.head.reset in main,
   and main exits with status 2 right after a failed initialize *)
Fixpoint index_of_call (x : pstr) (l : list pstr) (i : nat) : option nat :=
  match l with [] => None | y :: t => if pstr_eqb x y then Some i else index_of_call x t (S i) end.
Lemma C20_inst_preconditions_first :
  match index_of_call (s2p "initialize") (ff_calls main_fact) 0, index_of_call (s2p "sys.exit") (ff_calls main_fact) 0,
        index_of_call (s2p "repo.head.reset") (ff_calls main_fact) 0 with
  | Some a, Some b, Some c => Nat.ltb a b && Nat.ltb b c | _, _, _ => false end
  && mem_pstr (s2p "repo.is_dirty") (ff_calls init_fact) && mem_pstr (s2p "os.path.exists") (ff_calls init_fact) = true.
Proof. vm_compute. reflexivity. Qed.
Print Assumptions C20_inst_preconditions_first.
