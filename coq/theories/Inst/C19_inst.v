(* Instance obligations of C19 over the regenerated constants and registry. *)
From Coq Require Import List NArith ZArith Bool String.
From Bandit Require Import Base.PyStr Engine.Types Engine.Tables Engine.Scan Engine.Facts Gen.Constants Gen.Registry Gen.Ladders
     Plugins.Trojan Plugins.All.
Import ListNotations.
Local Open Scope string_scope.
Local Open Scope list_scope.

(* the ten bidirectional control characters of the documentation *)
Lemma C19_inst_bidi_characters :
  BIDI_CHARACTERS = [8234; 8235; 8236; 8237; 8238; 8294; 8295; 8296; 8297; 8207]%N.
Proof. vm_compute. reflexivity. Qed.
Print Assumptions C19_inst_bidi_characters.

(* B613 is a "File" check: it runs once per file, after the AST pass, whatever the tree looks like *)
Lemma C19_inst_registry :
  existsb (fun r => pstr_eqb (r_id r) (s2p "B613") && pstr_eqb (r_name r) (s2p "trojansource")
                    && list_eqb String.eqb (r_checks r) ["File"]) registry
  && match find_plugin (s2p "trojansource") all_plugins with Some _ => true | None => false end = true.
Proof. vm_compute. reflexivity. Qed.
Print Assumptions C19_inst_registry.

(* a file that cannot be decoded / parsed is skipped with a reason (handlers of _parse_file) *)
Definition parse_fact := func_fact ladders (s2p "core.manager:BanditManager._parse_file").
Definition skipped_on (cls : pstr) : bool :=
  existsb (fun t => match catching exn_supers (t_handlers t) cls with Some (ASkip r) => negb (match r with nil => true | _ => false end) | _ => false end)
          (ff_tries parse_fact).
Lemma C19_inst_undecodable_skipped :
  skipped_on (s2p "SyntaxError") && skipped_on (s2p "UnicodeDecodeError") && skipped_on (s2p "ValueError") = true.
Proof. vm_compute. reflexivity. Qed.
Print Assumptions C19_inst_undecodable_skipped.
