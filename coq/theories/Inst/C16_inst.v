(* Instance obligations of C16 over the regenerated registry, defaults and the candidates regex. *)
From Coq Require Import List NArith ZArith Bool String.
From Bandit Require Import Base.PyStr Engine.Types Engine.Tables Engine.Scan Regex.Regex
     Gen.Registry Gen.Regexes Plugins.Secrets.
Import ListNotations.
Local Open Scope string_scope.

Definition row_ok (id name : string) (cfgname : option string) (checks : list string) : bool :=
  existsb (fun r => pstr_eqb (r_id r) (s2p id) && pstr_eqb (r_name r) (s2p name)
                    && list_eqb String.eqb (r_checks r) checks
                    && match r_cfg r, cfgname with
                       | Some k, Some k' => pstr_eqb k (s2p k') | None, None => true | _, _ => false end) registry.

Lemma C16_inst_registry :
  row_ok "B103" "set_bad_file_permissions" None ["Call"]
  && row_ok "B104" "hardcoded_bind_all_interfaces" None ["Str"]
  && row_ok "B105" "hardcoded_password_string" None ["Str"]
  && row_ok "B106" "hardcoded_password_funcarg" None ["Call"]
  && row_ok "B107" "hardcoded_password_default" None ["FunctionDef"; "AsyncFunctionDef"]
  && row_ok "B108" "hardcoded_tmp_directory" (Some "hardcoded_tmp_directory") ["Str"] = true.
Proof. vm_compute. reflexivity. Qed.
Print Assumptions C16_inst_registry.

Lemma C16_inst_modelled :
  forallb (fun n => match find_plugin (s2p n) secrets_plugins with Some _ => true | None => false end)
    ["set_bad_file_permissions"; "hardcoded_bind_all_interfaces"; "hardcoded_password_string";
     "hardcoded_password_funcarg"; "hardcoded_password_default"; "hardcoded_tmp_directory"] = true.
Proof. vm_compute. reflexivity. Qed.
Print Assumptions C16_inst_modelled.

(* the documented pattern: a word of the documented set, alone or delimited by '_' at either side.
   The regenerated regex is compared with an independently written term for it on a probe set that
   covers every alternative, every delimiter position, case variants and near misses. *)
Definition lit (s : string) : re :=
  fold_right (fun c acc => Cat (Chr [(ascii_lower c, ascii_lower c); (ascii_lower c - 32, ascii_lower c - 32)%N]) acc)
             Eps (s2p s).
Definition probes : list pstr :=
  map s2p ["password"; "passwd"; "pasword"; "passsword"; "paswd"; "pass"; "passphrase"; "pwd"; "token"; "secret";
           "secrete"; "PASSWORD"; "Token"; "my_password"; "password_x"; "a_token_b"; "xpassword"; "passwordx";
           "pass_word"; "tokens"; "pw"; "passphras"; "secrets"; "_pwd_"; "pwd_"; "_pwd"; "p"; ""; "secret_key";
           "db_passwd_file"; "passwor"; "pawd"; "passs"; "passphrase_"; "x_secrete"; "tokenx_"; "_"; "pass__word"].
Definition doc_word (s : pstr) : bool :=
  let l := map ascii_lower s in
  existsb (pstr_eqb l) (map s2p ["pass"; "passphrase"; "pwd"; "token"; "secret"; "secrete"])
  || (* pas+wo?r?d *)
     re_fullmatch (Cat (lit "pa") (Cat (Plus (lit "s")) (Cat (lit "w") (Cat (Opt (lit "o")) (Cat (Opt (lit "r")) (lit "d")))))) l.
Definition doc_candidate (s : pstr) : bool :=
  existsb doc_word (split_on 95 s).
Lemma C16_inst_candidates_on_probes :
  forallb (fun s => Bool.eqb (re_search re_candidates s) (doc_candidate s)) probes = true.
Proof. vm_compute. reflexivity. Qed.
Print Assumptions C16_inst_candidates_on_probes.

Lemma C16_inst_tmp_default :
  match assoc (s2p "hardcoded_tmp_directory") defaults with
  | Some d => match jget (s2p "tmp_dirs") d with
              | Some l => list_eqb pstr_eqb (jstrs l) (map s2p ["/tmp"; "/var/tmp"; "/dev/shm"])
              | None => false end
  | None => false end = true.
Proof. vm_compute. reflexivity. Qed.
Print Assumptions C16_inst_tmp_default.
