(* Instance obligations of C06 over the regenerated registry and ladders. *)
From Coq Require Import List NArith ZArith Bool String.
From Bandit Require Import Base.PyStr Engine.Types Engine.Tables Engine.Scan Engine.Facts Plugins.All Gen.Registry Gen.Ladders.
Import ListNotations.
Local Open Scope string_scope.
Local Open Scope list_scope.

(* every registered check is one for which Props/C06.v holds a totality theorem (or, for B703, the proved
   list of the only shapes on which it raises): a new check without such a theorem breaks this obligation *)
Definition covered : list pstr := map s2p
  ["any_other_function_with_shell_equals_true"; "assert_used"; "django_extra_used"; "django_mark_safe"; "django_rawsql_used";
   "exec_used"; "flask_debug_true"; "hardcoded_bind_all_interfaces"; "hardcoded_password_default"; "hardcoded_password_funcarg";
   "hardcoded_password_string"; "hardcoded_sql_expressions"; "hardcoded_tmp_directory"; "hashlib_insecure_functions";
   "jinja2_autoescape_false"; "linux_commands_wildcard_injection"; "logging_config_insecure_listen"; "markupsafe_markup_xss";
   "paramiko_calls"; "pytorch_load"; "request_with_no_cert_validation"; "request_without_timeout"; "set_bad_file_permissions";
   "snmp_insecure_version"; "snmp_weak_cryptography"; "ssh_no_host_key_verification"; "ssl_with_bad_defaults";
   "ssl_with_bad_version"; "ssl_with_no_version"; "start_process_with_a_shell"; "start_process_with_no_shell";
   "start_process_with_partial_path"; "subprocess_popen_with_shell_equals_true"; "subprocess_without_shell_equals_true";
   "tarfile_unsafe_members"; "trojansource"; "try_except_continue"; "try_except_pass"; "use_of_mako_templates";
   "weak_cryptographic_key"; "yaml_load"].
Lemma C06_inst_every_check_covered :
  forallb (fun r => mem_pstr (r_name r) covered) registry
  && forallb (fun r => match find_plugin (r_name r) all_plugins with Some _ => true | None => false end) registry = true.
Proof. vm_compute. reflexivity. Qed.
Print Assumptions C06_inst_every_check_covered.

(* the tester catches every Exception a check raises, logs it and goes on with the next check: a check can
   never demote a file to "skipped" (outside --debug, where it re-raises by design) *)
Definition tester_fact := func_fact ladders (s2p "core.tester:BanditTester.run_tests").
Lemma C06_inst_catch_all :
  existsb (fun t => match catching exn_supers (t_handlers t) (s2p "Exception") with
                    | Some ALogReraiseIfDebug | Some ALog => true | _ => false end) (ff_tries tester_fact)
  && forallb (fun cls => existsb (fun t => match catching exn_supers (t_handlers t) (s2p cls) with
                                           | Some ALogReraiseIfDebug | Some ALog => true | _ => false end) (ff_tries tester_fact))
             ["TypeError"; "KeyError"; "IndexError"; "AttributeError"; "ValueError"; "RecursionError"; "UnicodeDecodeError"] = true.
Proof. vm_compute. reflexivity. Qed.
Print Assumptions C06_inst_catch_all.
