(* Decision-table theorems for the "secrets" plugin family (B103-B108). *)
From Coq Require Import List NArith ZArith Bool String Lia.
From Bandit Require Import Base.PyStr Ast.Node Engine.Types Engine.Resolve Engine.Context Engine.Tester
     Engine.Visitor Engine.Scan Regex.Regex Gen.Regexes Plugins.Secrets Proofs.PyStrFacts.
Import ListNotations.
Local Open Scope string_scope.
Local Open Scope list_scope.

#[local] Arguments is_candidate : simpl never.

(* ------------------------------------------------------------------------------------------ *)
(* constructor functions for the shapes the theorems talk about (CPython 3.12 _fields order)   *)

Definition mk_const (p : option pos4) (k : const) : node :=
  Node "Constant" p [("value", NConst k); ("kind", NNone)].
Definition mk_str (p : option pos4) (s : pstr) : node := mk_const p (CStr s).
Definition mk_int (p : option pos4) (z : Z) : node := mk_const p (CInt z).
Definition mk_name (p : option pos4) (id : pstr) : node :=
  Node "Name" p [("id", NId id); ("ctx", Node "Load" None [])].
Definition mk_attr (p : option pos4) (v : node) (a : pstr) : node :=
  Node "Attribute" p [("value", v); ("attr", NId a); ("ctx", Node "Load" None [])].
Definition mk_assign (p : option pos4) (targets : list node) (v : node) : node :=
  Node "Assign" p [("targets", NList targets); ("value", v); ("type_comment", NNone)].
Definition mk_subscript (p : option pos4) (v sl : node) : node :=
  Node "Subscript" p [("value", v); ("slice", sl); ("ctx", Node "Store" None [])].
Definition mk_compare (p : option pos4) (left : node) (ops comparators : list node) : node :=
  Node "Compare" p [("left", left); ("ops", NList ops); ("comparators", NList comparators)].
Definition mk_keyword (p : option pos4) (arg : node) (v : node) : node :=
  Node "keyword" p [("arg", arg); ("value", v)].
Definition mk_call (p : option pos4) (func : node) (args kws : list node) : node :=
  Node "Call" p [("func", func); ("args", NList args); ("keywords", NList kws)].
Definition mk_arg (p : option pos4) (name : pstr) (annotation : node) : node :=
  Node "arg" p [("arg", NId name); ("annotation", annotation); ("type_comment", NNone)].
Definition mk_arguments (posonly args : list node) (vararg : node) (kwonly kw_defaults : list node)
           (kwarg : node) (defaults : list node) : node :=
  Node "arguments" None [("posonlyargs", NList posonly); ("args", NList args); ("vararg", vararg);
                         ("kwonlyargs", NList kwonly); ("kw_defaults", NList kw_defaults);
                         ("kwarg", kwarg); ("defaults", NList defaults)].
Definition mk_funcdef (p : option pos4) (name : pstr) (args : node) (body decorators : list node) : node :=
  Node "FunctionDef" p [("name", NId name); ("args", args); ("body", NList body);
                        ("decorator_list", NList decorators); ("returns", NNone);
                        ("type_comment", NNone); ("type_params", NList [])].
Definition mk_expr (p : option pos4) (v : node) : node := Node "Expr" p [("value", v)].

(* a context as pre_visit + visit_Str / visit_Call / visit_FunctionDef leave it, positions elided *)
Definition ctx_at (n : node) (parents : list (node * node)) : ctx :=
  Ctx n parents NNone [] [] None None None [] None None None None (str_of n) None None [] None.
Definition call_ctx (call : node) (qual : pstr) (parents : list (node * node)) : ctx :=
  Ctx call parents NNone [] [] None None None [] (Some call) (Some qual) (Some (last_component qual))
      None None None None [] None.

(* ------------------------------------------------------------------------------------------ *)
(* generic facts                                                                               *)

Lemma const_of_inv n k :
  const_of n = Some k ->
  exists p fs, n = Node "Constant" p fs /\ lookup_field "value" fs = Some (NConst k).
Proof.
  destruct n as [cls p fs| | | | |]; simpl; try discriminate.
  destruct (String.eqb cls "Constant") eqn:E; [|discriminate].
  apply String.eqb_eq in E; subst cls.
  destruct (lookup_field "value" fs) as [[| |k'| | |]|] eqn:L; try discriminate.
  intro H; inversion H; subst. exists p, fs. split; [reflexivity | assumption].
Qed.

Lemma literal_value_const n k : const_of n = Some k -> literal_value n = Ok (const_value k).
Proof.
  intro H. destruct (const_of_inv _ _ H) as [p [fs [-> L]]].
  simpl. rewrite L. reflexivity.
Qed.

Lemma const_not_attribute n k : const_of n = Some k -> is_cls "Attribute" n = false.
Proof. intro H. destruct (const_of_inv _ _ H) as [p [fs [-> _]]]. reflexivity. Qed.

Lemma is_cls_inj a b n : is_cls a n = true -> is_cls b n = true -> a = b.
Proof.
  destruct n; try discriminate. unfold is_cls. intros H1 H2.
  apply String.eqb_eq in H1. apply String.eqb_eq in H2. congruence.
Qed.

Lemma is_Str_str_of n : is_Str n = false -> str_of n = None.
Proof. unfold is_Str, str_of. destruct (const_of n) as [[]|]; congruence. Qed.

Lemma str_of_const n s : str_of n = Some s -> const_of n = Some (CStr s).
Proof. unfold str_of. destruct (const_of n) as [[]|]; congruence. Qed.

Lemma ancestor_parent_n k c p : ancestor k c = Ok p -> parent_n k c = p.
Proof.
  unfold ancestor, parent_n. generalize (c_parents c). induction k as [|k IH]; intros [|[q s] l]; simpl;
    try discriminate.
  - intro H; inversion H; reflexivity.
  - apply IH.
Qed.

(* ------------------------------------------------------------------------------------------ *)
(* B103: the mode mask, for every integer                                                      *)

Section Chmod.
Local Open Scope Z_scope.

Lemma land_pow2_zero m k : 0 <= k -> (Z.land m (2 ^ k) = 0 <-> Z.testbit m k = false).
Proof.
  intro Hk. split.
  - intro H.
    assert (H0 : Z.testbit (Z.land m (2 ^ k)) k = false) by (rewrite H; apply Z.bits_0).
    rewrite Z.land_spec, Z.pow2_bits_true, andb_true_r in H0 by assumption. exact H0.
  - intro H. apply Z.bits_inj'. intros n Hn.
    rewrite Z.land_spec, Z.bits_0, Z.pow2_bits_eqb by assumption.
    destruct (Z.eqb_spec k n) as [->|_]; [rewrite H; reflexivity | apply andb_false_r].
Qed.

Lemma truthy_land_pow2 m k : 0 <= k -> truthy_Z (Z.land m (2 ^ k)) = Z.testbit m k.
Proof.
  intro Hk. unfold truthy_Z. destruct (Z.eqb_spec (Z.land m (2 ^ k)) 0) as [E|E]; simpl.
  - symmetry. apply land_pow2_zero; assumption.
  - destruct (Z.testbit m k) eqn:T; [reflexivity|]. exfalso. apply E. apply land_pow2_zero; assumption.
Qed.

Lemma stat_is_dangerous_bits m :
  stat_is_dangerous m = Z.testbit m 1 || Z.testbit m 4 || Z.testbit m 3 || Z.testbit m 0.
Proof.
  change (stat_is_dangerous m) with
    (truthy_Z (Z.land m (2 ^ 1)) || truthy_Z (Z.land m (2 ^ 4))
     || truthy_Z (Z.land m (2 ^ 3)) || truthy_Z (Z.land m (2 ^ 0)))%bool.
  rewrite !truthy_land_pow2 by lia. reflexivity.
Qed.

Lemma chmod_severity_bit m : chmod_severity m = if Z.testbit m 1 then HIGH else MEDIUM.
Proof.
  change (chmod_severity m) with (if truthy_Z (Z.land m (2 ^ 1)) then HIGH else MEDIUM).
  rewrite truthy_land_pow2 by lia. reflexivity.
Qed.

(* 0o033 = S_IWOTH | S_IWGRP | S_IXGRP | S_IXOTH *)
Lemma land_033_zero m :
  Z.land m 27 = 0 <->
  (Z.testbit m 1 = false /\ Z.testbit m 4 = false /\ Z.testbit m 3 = false /\ Z.testbit m 0 = false).
Proof.
  change 27 with (Z.lor (Z.lor (Z.lor (2 ^ 1) (2 ^ 4)) (2 ^ 3)) (2 ^ 0)).
  rewrite !Z.land_lor_distr_r, !Z.lor_eq_0_iff, !land_pow2_zero by lia. tauto.
Qed.

Lemma stat_is_dangerous_mask m : stat_is_dangerous m = negb (Z.land m 27 =? 0).
Proof.
  rewrite stat_is_dangerous_bits.
  destruct (Z.eqb_spec (Z.land m 27) 0) as [E|E]; cbv [negb].
  - apply land_033_zero in E. destruct E as [-> [-> [-> ->]]]. reflexivity.
  - destruct (Z.testbit m 1) eqn:T1, (Z.testbit m 4) eqn:T4, (Z.testbit m 3) eqn:T3,
             (Z.testbit m 0) eqn:T0; try reflexivity.
    exfalso. apply E. apply land_033_zero. auto.
Qed.

Lemma call_arg1_int c call a0 a1 m :
  c_call c = Some call -> field_list "args" call = [a0; a1] -> const_of a1 = Some (CInt m) ->
  call_args_count c = Some 2%nat /\ get_call_arg_at_position c 1 = Ok (PInt m).
Proof.
  intros Hc Ha Hk. unfold call_args_count, get_call_arg_at_position. rewrite Hc, Ha. simpl.
  rewrite (const_not_attribute _ _ Hk). simpl. rewrite (literal_value_const _ _ Hk). split; reflexivity.
Qed.

(* B103 on a two-positional-argument "...chmod..." call whose mode is the integer literal m,
   for EVERY integer m: the check fires iff m & 0o033 <> 0, i.e. iff one of the bits 0o002, 0o020,
   0o010, 0o001 is set; the severity is HIGH iff bit 0o002 is set, else MEDIUM; confidence HIGH,
   CWE 732.  (Rendering the file argument may itself raise: that is chmod_filename c.) *)
Theorem chmod_mask : forall (cfg : jv) (c : ctx) (call a0 a1 : node) (nm : pstr) (m : Z),
  c_name c = Some nm -> contains nm chmod_name = true ->
  c_call c = Some call -> field_list "args" call = [a0; a1] -> const_of a1 = Some (CInt m) ->
  let fires := negb (Z.land m 27 =? 0) in
  fires = (Z.testbit m 1 || Z.testbit m 4 || Z.testbit m 3 || Z.testbit m 0) /\
  set_bad_file_permissions cfg c =
    (if fires then
       do fn <- chmod_filename c;;
       Ok (Some (RIssue (if Z.testbit m 1 then HIGH else MEDIUM) HIGH 732 (chmod_text m fn)
                        None None None None))
     else Ok None) /\
  (Z.land m 27 = 0 -> set_bad_file_permissions cfg c = Ok None) /\
  (forall r, set_bad_file_permissions cfg c = Ok (Some r) ->
             Z.land m 27 <> 0 /\ ri_sev r = (if Z.testbit m 1 then HIGH else MEDIUM) /\ ri_conf r = HIGH) /\
  (forall fn, Z.land m 27 <> 0 -> chmod_filename c = Ok fn ->
              exists r, set_bad_file_permissions cfg c = Ok (Some r) /\
                        ri_sev r = (if Z.testbit m 1 then HIGH else MEDIUM) /\
                        ri_text r = chmod_text m fn).
Proof.
  intros cfg c call a0 a1 nm m Hn Hcm Hc Ha Hk fires.
  destruct (call_arg1_int _ _ _ _ _ Hc Ha Hk) as [Hcount Hmode].
  assert (Hf : fires = (Z.testbit m 1 || Z.testbit m 4 || Z.testbit m 3 || Z.testbit m 0)%bool).
  { unfold fires. rewrite <- stat_is_dangerous_mask. apply stat_is_dangerous_bits. }
  assert (Heq : set_bad_file_permissions cfg c =
                (if fires then
                   do fn <- chmod_filename c;;
                   Ok (Some (RIssue (if Z.testbit m 1 then HIGH else MEDIUM) HIGH 732 (chmod_text m fn)
                                    None None None None))
                 else Ok None)).
  { unfold set_bad_file_permissions. rewrite Hn, Hcm, Hcount. unfold chmod_check_mode. rewrite Hmode.
    simpl. rewrite stat_is_dangerous_mask. fold fires. destruct fires; [|reflexivity].
    unfold chmod_issue. rewrite chmod_severity_bit. reflexivity. }
  split; [exact Hf|]. split; [exact Heq|]. split; [|split].
  - intro Hz. rewrite Heq. unfold fires. rewrite Hz. reflexivity.
  - intros r Hr. rewrite Heq in Hr. unfold fires in Hr.
    destruct (Z.eqb_spec (Z.land m 27) 0) as [E|E]; simpl in Hr; [discriminate|].
    destruct (chmod_filename c) as [fn|e]; simpl in Hr; [|discriminate].
    inversion Hr; subst r. simpl. auto.
  - intros fn Hnz Hfn. rewrite Heq. unfold fires.
    destruct (Z.eqb_spec (Z.land m 27) 0) as [E|E]; [contradiction|]. simpl. rewrite Hfn. simpl.
    eexists. split; [reflexivity|]. simpl. auto.
Qed.

Example chmod_mask_ex :
  let call := mk_call None (mk_attr None (mk_name None (s2p "os")) (s2p "chmod"))
                      [mk_str None (s2p "/etc/passwd"); mk_int None 511] [] in
  set_bad_file_permissions JNull (call_ctx call (s2p "os.chmod") []) =
  Ok (Some (RIssue HIGH HIGH 732 (s2p "Chmod setting a permissive mask 0o777 on file (/etc/passwd).")
                   None None None None)).
Proof. vm_compute. reflexivity. Qed.

(* a mode outside the 12 permission bits, and a negative one (two's complement) *)
Example chmod_mask_ex_big : stat_is_dangerous (2 ^ 64 + 16) = true /\ chmod_severity (2 ^ 64 + 16) = MEDIUM
                            /\ stat_is_dangerous (-4) = true /\ stat_is_dangerous (2 ^ 64 + 4) = false.
Proof. vm_compute. auto. Qed.
End Chmod.

(* ------------------------------------------------------------------------------------------ *)
(* B105 / B106 / B107: the positions                                                           *)

Ltac unf := unfold mk_str, mk_int, mk_const, mk_name, mk_attr, mk_assign, mk_subscript, mk_compare,
                    mk_keyword, mk_call, mk_arg, mk_arguments, mk_funcdef, mk_expr in *.

(* the Assign branch in general: every target is looked at, the visited literal is what is quoted *)
Lemma password_assign_any_target : forall cfg c p1 lit p2 targets v sib rest,
  c_node c = mk_str p1 lit -> c_parents c = (mk_assign p2 targets v, sib) :: rest ->
  hardcoded_password_string cfg c =
    if existsb targ_matches targets then Ok (Some (pw_report lit)) else Ok None.
Proof.
  intros cfg c p1 lit p2 targets v sib rest Hn Hp.
  unfold hardcoded_password_string, ancestor. rewrite Hp, Hn. unf. cbn.
  unfold pw_assign_branch. cbn. destruct (existsb targ_matches targets); reflexivity.
Qed.

(* a keyword the B106 loop passes over whatever its name: its value is not a string literal, or it is a
   "**mapping" argument (kw.arg is None -- the shape that raised TypeError before the repair) *)
Definition kw_skipped (kw : node) : bool :=
  negb (is_Str (field "value" kw)) || match kw_arg kw with None => true | Some _ => false end.

Lemma kw_skipped_hit kw : kw_skipped kw = true -> kw_hit kw = None.
Proof.
  unfold kw_skipped, kw_hit. intro H. apply orb_true_iff in H as [H|H].
  - apply negb_true_iff in H. rewrite (is_Str_str_of _ H). reflexivity.
  - destruct (str_of (field "value" kw)); [|reflexivity]. destruct (kw_arg kw); [discriminate|reflexivity].
Qed.

Lemma funcarg_scan_skip pre kws :
  forallb kw_skipped pre = true -> funcarg_scan (pre ++ kws) = funcarg_scan kws.
Proof.
  induction pre as [|kw pre IH]; simpl; [reflexivity|].
  intro H. apply andb_true_iff in H as [H1 H2].
  rewrite (kw_skipped_hit _ H1). apply IH; exact H2.
Qed.

Lemma default_scan_skip_none pre l1 l2 :
  default_scan (combine (pre ++ l1) (repeat None (List.length pre) ++ l2)) = default_scan (combine l1 l2).
Proof.
  induction pre as [|a pre IH]; simpl; [reflexivity|].
  rewrite IH. destruct (is_cls "Name" a || is_cls "arg" a); reflexivity.
Qed.

(* The five positions.  In each, [name] is the identifier (or dict key) and [lit] the literal; the check
   returns the report quoting [lit] iff RE_CANDIDATES.search(name), else nothing. *)
Theorem password_positions :
  (* 1a. assignment to a name:   name = 'lit'          (B105, visiting 'lit') *)
  (forall cfg c p1 p2 p3 name lit sib rest,
     c_node c = mk_str p1 lit ->
     c_parents c = (mk_assign p2 [mk_name p3 name] (mk_str p1 lit), sib) :: rest ->
     hardcoded_password_string cfg c =
       if re_search re_candidates name then Ok (Some (pw_report lit)) else Ok None) /\
  (* 1b. assignment to an attribute:   obj.name = 'lit'   (B105, visiting 'lit') *)
  (forall cfg c p1 p2 p3 obj name lit sib rest,
     c_node c = mk_str p1 lit ->
     c_parents c = (mk_assign p2 [mk_attr p3 obj name] (mk_str p1 lit), sib) :: rest ->
     hardcoded_password_string cfg c =
       if re_search re_candidates name then Ok (Some (pw_report lit)) else Ok None) /\
  (* 2. dict-style subscript assignment:   d['name'] = 'lit'   (B105, visiting 'name') *)
  (forall cfg c p1 p2 p3 p4 d name lit others s1 s2 rest,
     c_node c = mk_str p1 name ->
     c_parents c = (mk_subscript p2 d (mk_str p1 name), s1)
                   :: (mk_assign p3 (mk_subscript p2 d (mk_str p1 name) :: others) (mk_str p4 lit), s2)
                   :: rest ->
     hardcoded_password_string cfg c =
       if re_search re_candidates name then Ok (Some (pw_report lit)) else Ok None) /\
  (* 3a. comparison with a name on the left:   name <op> 'lit' ...   (B105, visiting any string operand) *)
  (forall cfg c p2 p3 p4 name lit ops more sib rest,
     c_parents c = (mk_compare p2 (mk_name p3 name) ops (mk_str p4 lit :: more), sib) :: rest ->
     hardcoded_password_string cfg c =
       if re_search re_candidates name then Ok (Some (pw_report lit)) else Ok None) /\
  (* 3b. comparison with an attribute on the left:   obj.name <op> 'lit' *)
  (forall cfg c p2 p3 p4 obj name lit ops more sib rest,
     c_parents c = (mk_compare p2 (mk_attr p3 obj name) ops (mk_str p4 lit :: more), sib) :: rest ->
     hardcoded_password_string cfg c =
       if re_search re_candidates name then Ok (Some (pw_report lit)) else Ok None) /\
  (* 4. keyword argument:   f(..., k=<non-string>, **'x', ..., name='lit', ...)   (B106); the first
        named string-valued keyword decides when it matches, otherwise the scan goes on *)
  (forall cfg c p p2 p3 func args pre name lit post,
     c_node c = mk_call p func args (pre ++ mk_keyword p2 (NId name) (mk_str p3 lit) :: post) ->
     forallb kw_skipped pre = true ->
     hardcoded_password_funcarg cfg c =
       if re_search re_candidates name then Ok (Some (pw_report lit)) else Ok (funcarg_scan post)) /\
  (* 5. parameter default:   def f(p, ..., /, a, b, ..., name='lit')   (B107): last positional-or-keyword
        parameter carrying the only default *)
  (forall cfg c p fname posonly pre p2 name ann p3 lit vararg kwonly kwdefs kwarg body decos,
     c_node c = mk_funcdef p fname
                  (mk_arguments posonly (pre ++ [mk_arg p2 name ann]) vararg kwonly kwdefs kwarg
                                [mk_str p3 lit]) body decos ->
     hardcoded_password_default cfg c =
       if re_search re_candidates name then Ok (Some (pw_report lit)) else Ok None).
Proof.
  change re_search with (fun r s => re_search r s).
  repeat match goal with |- _ /\ _ => split end.
  - intros cfg c p1 p2 p3 name lit sib rest Hn Hp.
    rewrite (password_assign_any_target _ _ _ _ _ _ _ _ _ Hn Hp). unf. cbn. unfold targ_matches. cbn.
    change (re_search re_candidates name) with (is_candidate name).
    destruct (is_candidate name); reflexivity.
  - intros cfg c p1 p2 p3 obj name lit sib rest Hn Hp.
    rewrite (password_assign_any_target _ _ _ _ _ _ _ _ _ Hn Hp). unf. cbn. unfold targ_matches. cbn.
    change (re_search re_candidates name) with (is_candidate name).
    destruct (is_candidate name); reflexivity.
  - intros cfg c p1 p2 p3 p4 d name lit others s1 s2 rest Hn Hp.
    unfold hardcoded_password_string, ancestor. rewrite Hp, Hn. unf. cbn.
    change (re_search re_candidates name) with (is_candidate name).
    destruct (is_candidate name); [|reflexivity].
    unfold pw_subscript_branch, ancestor. rewrite Hp. unf. reflexivity.
  - intros cfg c p2 p3 p4 name lit ops more sib rest Hp.
    unfold hardcoded_password_string, ancestor. rewrite Hp. unf. cbn.
    unfold pw_compare_branch. cbn.
    change (re_search re_candidates name) with (is_candidate name).
    destruct (is_candidate name); reflexivity.
  - intros cfg c p2 p3 p4 obj name lit ops more sib rest Hp.
    unfold hardcoded_password_string, ancestor. rewrite Hp. unf. cbn.
    unfold pw_compare_branch. cbn.
    change (re_search re_candidates name) with (is_candidate name).
    destruct (is_candidate name); reflexivity.
  - intros cfg c p p2 p3 func args pre name lit post Hn Hpre.
    unfold hardcoded_password_funcarg. rewrite Hn. unf. cbn.
    rewrite (funcarg_scan_skip _ _ Hpre). cbn.
    change (re_search re_candidates name) with (is_candidate name).
    destruct (is_candidate name); reflexivity.
  - intros cfg c p fname posonly pre p2 name ann p3 lit vararg kwonly kwdefs kwarg body decos Hn.
    unfold hardcoded_password_default. rewrite Hn. unf. cbn. unfold pad_defaults.
    rewrite app_assoc, app_length. cbn. rewrite Nat.add_sub.
    rewrite default_scan_skip_none. cbn.
    change (re_search re_candidates name) with (is_candidate name).
    destruct (is_candidate name); reflexivity.
Qed.

Example password_positions_ex :
  let lit := mk_str None (s2p "hunter2") in
  let rep := Ok (Some (pw_report (s2p "hunter2"))) in
  let key := mk_str None (s2p "db_password") in
  let sub := mk_subscript None (mk_name None (s2p "d")) key in
  hardcoded_password_string JNull
    (ctx_at lit [(mk_assign None [mk_name None (s2p "db_password")] lit, NNone)]) = rep /\
  hardcoded_password_string JNull
    (ctx_at lit [(mk_assign None [mk_name None (s2p "passwordx")] lit, NNone)]) = Ok None /\
  hardcoded_password_string JNull
    (ctx_at lit [(mk_assign None [mk_attr None (mk_name None (s2p "self")) (s2p "TOKEN")] lit, NNone)]) = rep /\
  hardcoded_password_string JNull (ctx_at key [(sub, NNone); (mk_assign None [sub] lit, NNone)]) = rep /\
  hardcoded_password_string JNull
    (ctx_at lit [(mk_compare None (mk_name None (s2p "pwd")) [Node "Eq" None []] [lit], NNone)]) = rep /\
  hardcoded_password_funcarg JNull
    (call_ctx (mk_call None (mk_name None (s2p "f")) [] [mk_keyword None (NId (s2p "secret")) lit])
              (s2p "f") []) = rep /\
  hardcoded_password_default JNull
    (ctx_at (mk_funcdef None (s2p "f")
               (mk_arguments [] [mk_arg None (s2p "user") NNone; mk_arg None (s2p "passwd") NNone] NNone [] []
                             NNone [lit]) [] []) []) = rep.
Proof. vm_compute. repeat split. Qed.

(* B107 alignment (after the repair pairing args.defaults with args.posonlyargs + args.args) *)

Lemma combine_app_eq {A B} (l1 l2 : list A) (r1 r2 : list B) :
  List.length l1 = List.length r1 -> combine (l1 ++ l2) (r1 ++ r2) = combine l1 r1 ++ combine l2 r2.
Proof.
  revert r1; induction l1 as [|x l1 IH]; intros [|y r1]; simpl; try discriminate; intro H; [reflexivity|].
  f_equal. apply IH. congruence.
Qed.

Lemma combine_rev {A B} (l : list A) (r : list B) :
  List.length l = List.length r -> rev (combine l r) = combine (rev l) (rev r).
Proof.
  revert r; induction l as [|x l IH]; intros [|y r]; simpl; try discriminate; intro H; [reflexivity|].
  injection H as H. rewrite (IH r H). rewrite combine_app_eq by (rewrite !rev_length; exact H). reflexivity.
Qed.

Lemma rev_repeat_same {A} (x : A) n : rev (repeat x n) = repeat x n.
Proof.
  induction n as [|n IH]; simpl; [reflexivity|]. rewrite IH. clear IH.
  induction n as [|n IH]; simpl; [reflexivity|]. rewrite IH. reflexivity.
Qed.

Lemma In_skipn {A} (x : A) k l : In x (skipn k l) -> In x l.
Proof.
  revert l; induction k as [|k IH]; intros [|y l]; simpl; auto.
Qed.

(* a well-formed parameter: an ast.arg carrying its name *)
Definition wf_arg (k : node) : Prop := is_cls "arg" k = true /\ exists a, field_opt "arg" k = Some (NId a).

Lemma wf_mk_arg p name ann : wf_arg (mk_arg p name ann).
Proof. split; [reflexivity | exists name; reflexivity]. Qed.

(* (parameter, its default) is a hit: the default is a string literal and the name looks like a password *)
Definition param_hit (kv : node * node) : option pstr :=
  match str_of (snd kv) with
  | Some s => match field "arg" (fst kv) with
              | NId a => if is_candidate a then Some s else None
              | _ => None
              end
  | None => None
  end.

Fixpoint first_hit (l : list (node * node)) : option pstr :=
  match l with
  | [] => None
  | kv :: t => match param_hit kv with Some s => Some s | None => first_hit t end
  end.

Lemma first_hit_spec l s :
  first_hit l = Some s <->
  exists l1 kv l2, l = l1 ++ kv :: l2 /\ param_hit kv = Some s /\ forall x, In x l1 -> param_hit x = None.
Proof.
  induction l as [|kv l IH]; simpl.
  - split; [discriminate|]. intros [l1 [kv [l2 [H _]]]]. destruct l1; discriminate.
  - destruct (param_hit kv) as [s'|] eqn:E.
    + split.
      * intro H; inversion H; subst. exists [], kv, l. repeat split; auto. intros x [].
      * intros [l1 [kv' [l2 [H [Hh Hb]]]]]. destruct l1 as [|y l1]; simpl in H; inversion H; subst.
        -- congruence.
        -- rewrite (Hb y (or_introl eq_refl)) in E. discriminate.
    + rewrite IH. split.
      * intros [l1 [kv' [l2 [-> [Hh Hb]]]]]. exists (kv :: l1), kv', l2. repeat split; auto.
        intros x [<-|Hx]; auto.
      * intros [l1 [kv' [l2 [H [Hh Hb]]]]]. destruct l1 as [|y l1]; simpl in H; inversion H; subst.
        -- congruence.
        -- exists l1, kv', l2. repeat split; auto. intros x Hx. apply Hb. right. exact Hx.
Qed.

Lemma default_scan_first_hit ks ds :
  Forall wf_arg ks ->
  default_scan (combine ks (map Some ds)) =
    match first_hit (combine ks ds) with Some s => Ok (Some (pw_report s)) | None => Ok None end.
Proof.
  intro Hwf. revert ds. induction Hwf as [|k ks [Hcls [a Ha]] Hwf IH]; intros [|v ds]; simpl; try reflexivity.
  rewrite Hcls, orb_true_r. unfold param_hit. simpl. unfold field. rewrite Ha.
  unfold is_none_constant, str_of. destruct (const_of v) as [[]|]; simpl; try apply IH.
  destruct (is_candidate a); [reflexivity | apply IH].
Qed.

(* For a FunctionDef with positional-only parameters ps, regular parameters as_ and defaults ds
   (len ds <= len ps + len as_, as in every parsed program): the check scans ps ++ as_ in source order,
   the i-th parameter from the end paired with the i-th default from the end and the leading parameters
   with "no default"; hence what it reports is the default of the first parameter, in source order, whose
   default is a string literal and whose name matches RE_CANDIDATES. *)
Theorem password_default_alignment :
  forall cfg c p fname ps as_ vararg kwonly kwdefs kwarg ds body decos,
  c_node c = mk_funcdef p fname (mk_arguments ps as_ vararg kwonly kwdefs kwarg ds) body decos ->
  List.length ds <= List.length ps + List.length as_ ->
  let params := ps ++ as_ in
  let k := List.length params - List.length ds in
  hardcoded_password_default cfg c = default_scan (combine params (pad_defaults params ds)) /\
  rev (combine params (pad_defaults params ds)) = combine (rev params) (map Some (rev ds) ++ repeat None k) /\
  hardcoded_password_default cfg c = default_scan (combine (skipn k params) (map Some ds)) /\
  (Forall wf_arg params ->
   hardcoded_password_default cfg c =
     match first_hit (combine (skipn k params) ds) with
     | Some s => Ok (Some (pw_report s))
     | None => Ok None
     end).
Proof.
  intros cfg c p fname ps as_ vararg kwonly kwdefs kwarg ds body decos Hn Hlen params k.
  assert (Hlen' : List.length ds <= List.length params) by (unfold params; rewrite app_length; exact Hlen).
  assert (H1 : hardcoded_password_default cfg c = default_scan (combine params (pad_defaults params ds))).
  { unfold hardcoded_password_default. rewrite Hn. reflexivity. }
  assert (H3 : default_scan (combine params (pad_defaults params ds)) =
               default_scan (combine (skipn k params) (map Some ds))).
  { unfold pad_defaults. fold k.
    assert (Hk : List.length (firstn k params) = k) by (apply firstn_length_le; unfold k; lia).
    pose proof (default_scan_skip_none (firstn k params) (skipn k params) (map Some ds)) as Hs.
    rewrite Hk, firstn_skipn in Hs. exact Hs. }
  split; [exact H1|]. split; [|split].
  - unfold pad_defaults. fold k. rewrite combine_rev.
    + rewrite rev_app_distr, rev_repeat_same, map_rev. reflexivity.
    + rewrite app_length, repeat_length, map_length. unfold k. lia.
  - rewrite H1. exact H3.
  - intro Hwf. rewrite H1, H3. apply default_scan_first_hit.
    apply Forall_forall. intros x Hx. rewrite Forall_forall in Hwf. apply Hwf. exact (In_skipn _ _ _ Hx).
Qed.

(* def f(a='zzz', /, password='hunter2'): pass *)
Example password_default_alignment_ex :
  hardcoded_password_default JNull
    (ctx_at (mk_funcdef None (s2p "f")
               (mk_arguments [mk_arg None (s2p "a") NNone] [mk_arg None (s2p "password") NNone] NNone [] [] NNone
                             [mk_str None (s2p "zzz"); mk_str None (s2p "hunter2")]) [] []) [])
  = Ok (Some (pw_report (s2p "hunter2"))) /\
  (* def f(a='zzz', /, password=None): pass  -- nothing to report any more *)
  hardcoded_password_default JNull
    (ctx_at (mk_funcdef None (s2p "f")
               (mk_arguments [mk_arg None (s2p "a") NNone] [mk_arg None (s2p "password") NNone] NNone [] [] NNone
                             [mk_str None (s2p "zzz"); mk_const None CNone]) [] []) [])
  = Ok None.
Proof. vm_compute. split; reflexivity. Qed.

(* ------------------------------------------------------------------------------------------ *)
(* docstrings / bare expression strings never reach a Str check                                *)

Theorem password_docstring_silent : forall (E : env) (n : node) (s : pstr) (p psib : node)
                                           (rest : list (node * node)) (sib : node) (st : vstate),
  const_of n = Some (CStr s) -> is_cls "Expr" p = true ->
  visit_one E n ((p, psib) :: rest) sib st = st.
Proof.
  intros E n s p psib rest sib st Hk Hp.
  destruct (const_of_inv _ _ Hk) as [pos [fs [-> L]]].
  unfold visit_one. simpl. rewrite L, Hp. reflexivity.
Qed.

Example password_docstring_silent_ex :
  forall E st, visit_one E (mk_str None (s2p "password = 'x'"))
                         [(mk_expr None (mk_str None (s2p "password = 'x'")), NNone)] NNone st = st.
Proof. intros. apply (password_docstring_silent E _ (s2p "password = 'x'")); reflexivity. Qed.

(* ------------------------------------------------------------------------------------------ *)
(* B108                                                                                        *)

Lemma any_startswith_strs s dirs :
  any_startswith (Some s) (map JStr dirs) = Ok (existsb (startswith s) dirs).
Proof.
  induction dirs as [|d dirs IH]; simpl; [reflexivity|].
  destruct (startswith s d); simpl; [reflexivity | exact IH].
Qed.

Lemma tmp_dirs_default :
  tmp_dirs_of JNull = Ok (JList (map JStr [s2p "/tmp"; s2p "/var/tmp"; s2p "/dev/shm"])) /\
  (forall kv, assoc key_tmp_dirs kv = None ->
              tmp_dirs_of (JDict kv) = Ok (JList (map JStr [s2p "/tmp"; s2p "/var/tmp"; s2p "/dev/shm"]))) /\
  (forall kv v, assoc key_tmp_dirs kv = Some v -> tmp_dirs_of (JDict kv) = Ok v).
Proof.
  split; [reflexivity|]. split.
  - intros kv H. simpl. rewrite H. reflexivity.
  - intros kv v H. simpl. rewrite H. reflexivity.
Qed.

(* B108 fires iff some configured directory is a prefix of the string *)
Theorem tmp_prefix_rule : forall (cfg : jv) (c : ctx) (s : pstr) (dirs : list pstr),
  c_str c = Some s -> tmp_dirs_of cfg = Ok (JList (map JStr dirs)) ->
  hardcoded_tmp_directory cfg c =
    (if existsb (startswith s) dirs then Ok (Some tmp_issue) else Ok None) /\
  (hardcoded_tmp_directory cfg c = Ok (Some tmp_issue) <-> exists d t, In d dirs /\ s = d ++ t) /\
  (hardcoded_tmp_directory cfg c = Ok None <-> forall d t, In d dirs -> s <> d ++ t).
Proof.
  intros cfg c s dirs Hs Hd.
  assert (Heq : hardcoded_tmp_directory cfg c =
                (if existsb (startswith s) dirs then Ok (Some tmp_issue) else Ok None)).
  { unfold hardcoded_tmp_directory. rewrite Hd, Hs. simpl. rewrite any_startswith_strs. reflexivity. }
  split; [exact Heq|]. rewrite Heq. split.
  - destruct (existsb (startswith s) dirs) eqn:Ex.
    + split; [intros _|reflexivity]. apply existsb_exists in Ex as [d [Hin Hst]].
      apply startswith_spec in Hst as [t ->]. exists d, t. auto.
    + split; [discriminate|]. intros [d [t [Hin ->]]]. exfalso.
      assert (existsb (startswith (d ++ t)) dirs = true).
      { apply existsb_exists. exists d. split; [exact Hin|]. apply startswith_spec. exists t. reflexivity. }
      congruence.
  - destruct (existsb (startswith s) dirs) eqn:Ex.
    + split; [discriminate|]. intro H. exfalso. apply existsb_exists in Ex as [d [Hin Hst]].
      apply startswith_spec in Hst as [t Ht]. exact (H d t Hin Ht).
    + split; [intros _|reflexivity]. intros d t Hin ->.
      assert (existsb (startswith (d ++ t)) dirs = true).
      { apply existsb_exists. exists d. split; [exact Hin|]. apply startswith_spec. exists t. reflexivity. }
      congruence.
Qed.

Example tmp_prefix_rule_ex :
  hardcoded_tmp_directory JNull (ctx_at (mk_str None (s2p "/var/tmp/x")) []) = Ok (Some tmp_issue) /\
  hardcoded_tmp_directory JNull (ctx_at (mk_str None (s2p "/var/tm")) []) = Ok None /\
  hardcoded_tmp_directory (JDict [(key_tmp_dirs, JList [JStr (s2p "/custom")])])
                          (ctx_at (mk_str None (s2p "/tmp/x")) []) = Ok None /\
  (* a non-string entry in a user configuration is a TypeError, unless an earlier entry already matched *)
  hardcoded_tmp_directory (JDict [(key_tmp_dirs, JList [JStr (s2p "/custom"); JInt 5])])
                          (ctx_at (mk_str None (s2p "/tmp/x")) []) = Raise TypeError /\
  hardcoded_tmp_directory (JDict [(key_tmp_dirs, JList [JStr (s2p "/custom"); JInt 5])])
                          (ctx_at (mk_str None (s2p "/custom/x")) []) = Ok (Some tmp_issue).
Proof. vm_compute. repeat split. Qed.

(* ------------------------------------------------------------------------------------------ *)
(* B104                                                                                        *)

Theorem bind_all_rule : forall (cfg : jv) (c : ctx),
  (hardcoded_bind_all_interfaces cfg c = Ok (Some bind_all_issue) <-> c_str c = Some (s2p "0.0.0.0")) /\
  (c_str c <> Some (s2p "0.0.0.0") -> hardcoded_bind_all_interfaces cfg c = Ok None) /\
  (forall e, hardcoded_bind_all_interfaces cfg c <> Raise e).
Proof.
  intros cfg c. unfold hardcoded_bind_all_interfaces, all_interfaces.
  destruct (c_str c) as [s|].
  - destruct (pstr_eqb s (s2p "0.0.0.0")) eqn:E.
    + apply pstr_eqb_spec in E. subst s. repeat split; auto; try congruence.
    + apply pstr_eqb_neq in E. repeat split; congruence.
  - repeat split; congruence.
Qed.

Example bind_all_rule_ex :
  hardcoded_bind_all_interfaces JNull (ctx_at (mk_str None (s2p "0.0.0.0")) []) = Ok (Some bind_all_issue) /\
  hardcoded_bind_all_interfaces JNull (ctx_at (mk_str None (s2p "0.0.0.0:80")) []) = Ok None.
Proof. vm_compute. split; reflexivity. Qed.

(* ------------------------------------------------------------------------------------------ *)
(* only string literals are ever quoted                                                        *)

Lemma funcarg_scan_nonstr kws :
  forallb (fun kw => negb (is_Str (field "value" kw))) kws = true -> funcarg_scan kws = None.
Proof.
  intro H. rewrite <- (app_nil_r kws). rewrite funcarg_scan_skip; [reflexivity|].
  rewrite forallb_forall in *. intros kw Hin. unfold kw_skipped. rewrite (H kw Hin). reflexivity.
Qed.

Lemma default_scan_nonstr l :
  (forall k v, In (k, Some v) l -> is_Str v = false) -> default_scan l = Ok None.
Proof.
  induction l as [|[k [v|]] l IH]; intro H; simpl; [reflexivity| |].
  - assert (Hl : default_scan l = Ok None) by (apply IH; intros k' v' Hin; apply (H k' v'); right; exact Hin).
    rewrite (is_Str_str_of v (H k v (or_introl eq_refl))). rewrite Hl.
    destruct (is_cls "Name" k || is_cls "arg" k); [|reflexivity].
    destruct (is_none_constant v); reflexivity.
  - assert (Hl : default_scan l = Ok None) by (apply IH; intros k' v' Hin; apply (H k' v'); right; exact Hin).
    rewrite Hl. destruct (is_cls "Name" k || is_cls "arg" k); reflexivity.
Qed.

Lemma pw_assigned_value_some assign r :
  pw_assigned_value assign = Some r ->
  exists s, r = pw_report s /\ str_of (field "value" assign) = Some s.
Proof.
  unfold pw_assigned_value. destruct (is_cls "Assign" assign); [|discriminate].
  destruct (str_of (field "value" assign)) as [s|]; [|discriminate].
  intro H; inversion H. exists s. auto.
Qed.

Lemma pw_compare_some comp r :
  pw_compare_branch comp = Ok (Some r) ->
  exists s, r = pw_report s /\ str_of (hd NNone (field_list "comparators" comp)) = Some s.
Proof.
  assert (Hf : pw_compare_first comp = Ok (Some r) ->
               exists s, r = pw_report s /\ str_of (hd NNone (field_list "comparators" comp)) = Some s).
  { unfold pw_compare_first. destruct (field_list "comparators" comp) as [|c0 l]; [discriminate|].
    simpl. destruct (str_of c0) as [s|]; [|discriminate]. intro H; inversion H. exists s. auto. }
  unfold pw_compare_branch.
  destruct (is_cls "Name" (field "left" comp)).
  - destruct (is_candidate _); [exact Hf | discriminate].
  - destruct (is_cls "Attribute" (field "left" comp)); [|discriminate].
    destruct (is_candidate _); [exact Hf | discriminate].
Qed.

(* B106 / B107 never report when no keyword value / default is a string literal;
   whatever B105 reports quotes a string literal: the visited one (Assign branch), the value assigned to the
   subscript (Subscript / Index branches) or the first comparator (Compare branch) *)
Theorem secrets_nonliteral_silent :
  (forall cfg c,
     forallb (fun kw => negb (is_Str (field "value" kw))) (field_list "keywords" (c_node c)) = true ->
     hardcoded_password_funcarg cfg c = Ok None) /\
  (forall cfg c a,
     field_opt "args" (c_node c) = Some a ->
     forallb (fun d => negb (is_Str d)) (field_list "defaults" a) = true ->
     hardcoded_password_default cfg c = Ok None) /\
  (forall cfg c s0 r,
     str_of (c_node c) = Some s0 ->
     hardcoded_password_string cfg c = Ok (Some r) ->
     exists s, r = pw_report s /\
               ((is_cls "Assign" (parent_of c) = true /\ s = s0) \/
                (is_cls "Subscript" (parent_of c) = true /\ str_of (field "value" (parent_n 1 c)) = Some s) \/
                (is_cls "Index" (parent_of c) = true /\ str_of (field "value" (parent_n 2 c)) = Some s) \/
                (is_cls "Compare" (parent_of c) = true /\
                 str_of (hd NNone (field_list "comparators" (parent_of c))) = Some s))) /\
  (* in particular: a subscript assignment of a non-string, a comparison with a non-string *)
  (forall cfg c s0,
     str_of (c_node c) = Some s0 -> is_cls "Subscript" (parent_of c) = true ->
     is_Str (field "value" (parent_n 1 c)) = false ->
     forall r, hardcoded_password_string cfg c <> Ok (Some r)) /\
  (forall cfg c s0,
     str_of (c_node c) = Some s0 -> is_cls "Compare" (parent_of c) = true ->
     is_Str (hd NNone (field_list "comparators" (parent_of c))) = false ->
     forall r, hardcoded_password_string cfg c <> Ok (Some r)).
Proof.
  assert (B105 : forall cfg c s0 r,
     str_of (c_node c) = Some s0 ->
     hardcoded_password_string cfg c = Ok (Some r) ->
     exists s, r = pw_report s /\
               ((is_cls "Assign" (parent_of c) = true /\ s = s0) \/
                (is_cls "Subscript" (parent_of c) = true /\ str_of (field "value" (parent_n 1 c)) = Some s) \/
                (is_cls "Index" (parent_of c) = true /\ str_of (field "value" (parent_n 2 c)) = Some s) \/
                (is_cls "Compare" (parent_of c) = true /\
                 str_of (hd NNone (field_list "comparators" (parent_of c))) = Some s))).
  { intros cfg c s0 r Hs. unfold hardcoded_password_string.
    destruct (ancestor 0 c) as [parent|e] eqn:Ha; simpl; [|discriminate].
    assert (Hpar : parent_of c = parent).
    { apply ancestor_parent_n in Ha. unfold parent_n in Ha. unfold parent_of.
      destruct (c_parents c) as [|[q x] l]; simpl in *; exact Ha. }
    rewrite Hpar. pose proof (str_of_const _ _ Hs) as Hk.
    destruct (is_cls "Assign" parent) eqn:EA.
    - unfold pw_assign_branch, node_s_text. rewrite Hk. simpl.
      destruct (existsb targ_matches (field_list "targets" parent)); [|discriminate].
      intro H; inversion H. exists s0. auto.
    - unfold node_s_search. rewrite Hk.
      destruct (is_cls "Subscript" parent) eqn:ES; simpl.
      + destruct (is_candidate s0).
        * unfold pw_subscript_branch. destruct (ancestor 1 c) as [g|e] eqn:Hg; simpl; [|discriminate].
          intro H. inversion H as [H1]. destruct (pw_assigned_value_some _ _ H1) as [s [-> Hv]].
          exists s. split; [reflexivity|]. right. left. rewrite (ancestor_parent_n _ _ _ Hg). auto.
        * destruct (is_cls "Index" parent) eqn:EI; simpl.
          -- pose proof (is_cls_inj _ _ _ ES EI) as X; discriminate X.
          -- destruct (is_cls "Compare" parent) eqn:EC; [|discriminate].
             intro H. destruct (pw_compare_some _ _ H) as [s [-> Hv]]. exists s. auto 10.
      + destruct (is_cls "Index" parent) eqn:EI; simpl.
        * destruct (is_candidate s0).
          -- unfold pw_subscript_branch. destruct (ancestor 2 c) as [g|e] eqn:Hg; simpl; [|discriminate].
             intro H. inversion H as [H1]. destruct (pw_assigned_value_some _ _ H1) as [s [-> Hv]].
             exists s. split; [reflexivity|]. right. right. left.
             rewrite (ancestor_parent_n _ _ _ Hg). auto.
          -- destruct (is_cls "Compare" parent) eqn:EC; [|discriminate].
             intro H. destruct (pw_compare_some _ _ H) as [s [-> Hv]]. exists s. auto 10.
        * destruct (is_cls "Compare" parent) eqn:EC; [|discriminate].
          intro H. destruct (pw_compare_some _ _ H) as [s [-> Hv]]. exists s. auto 10. }
  split; [|split; [|split; [exact B105|split]]].
  - intros cfg c Hall. unfold hardcoded_password_funcarg.
    rewrite (funcarg_scan_nonstr _ Hall). reflexivity.
  - intros cfg c a Hf Hall. unfold hardcoded_password_default. rewrite Hf.
    apply default_scan_nonstr. intros k v Hin. apply in_combine_r in Hin.
    unfold pad_defaults in Hin. apply in_app_or in Hin as [Hin|Hin].
    + apply repeat_spec in Hin. discriminate.
    + apply in_map_iff in Hin as [d [Hd Hin]]. inversion Hd; subst d.
      rewrite forallb_forall in Hall. specialize (Hall _ Hin). apply negb_true_iff in Hall. exact Hall.
  - intros cfg c s0 Hs Hsub Hns r Hr.
    destruct (B105 cfg c s0 r Hs Hr) as [s [_ [[HA _]|[[_ Hv]|[[HI _]|[HC _]]]]]].
    + pose proof (is_cls_inj _ _ _ Hsub HA) as X; discriminate X.
    + rewrite (is_Str_str_of _ Hns) in Hv. discriminate.
    + pose proof (is_cls_inj _ _ _ Hsub HI) as X; discriminate X.
    + pose proof (is_cls_inj _ _ _ Hsub HC) as X; discriminate X.
  - intros cfg c s0 Hs Hcmp Hns r Hr.
    destruct (B105 cfg c s0 r Hs Hr) as [s [_ [[HA _]|[[HS _]|[[HI _]|[_ Hv]]]]]].
    + pose proof (is_cls_inj _ _ _ Hcmp HA) as X; discriminate X.
    + pose proof (is_cls_inj _ _ _ Hcmp HS) as X; discriminate X.
    + pose proof (is_cls_inj _ _ _ Hcmp HI) as X; discriminate X.
    + rewrite (is_Str_str_of _ Hns) in Hv. discriminate.
Qed.

Example secrets_nonliteral_silent_ex :
  let five := mk_int None 5 in
  let key := mk_str None (s2p "password") in
  let sub := mk_subscript None (mk_name None (s2p "d")) key in
  (* f(password=5, **kw) ; def f(password=5) ; d['password'] = 5 ; password == 5 (visiting another operand) *)
  hardcoded_password_funcarg JNull
    (call_ctx (mk_call None (mk_name None (s2p "f")) []
                       [mk_keyword None (NId (s2p "password")) five; mk_keyword None NNone (mk_name None (s2p "kw"))])
              (s2p "f") []) = Ok None /\
  hardcoded_password_default JNull
    (ctx_at (mk_funcdef None (s2p "f") (mk_arguments [] [mk_arg None (s2p "password") NNone] NNone [] [] NNone [five])
                        [] []) []) = Ok None /\
  hardcoded_password_string JNull (ctx_at key [(sub, NNone); (mk_assign None [sub] five, NNone)]) = Ok None /\
  hardcoded_password_string JNull
    (ctx_at key [(mk_compare None (mk_name None (s2p "password")) [Node "Eq" None []; Node "Eq" None []] [five; key],
                  NNone)]) = Ok None.
Proof. vm_compute. repeat split. Qed.

(* ------------------------------------------------------------------------------------------ *)
(* totality: which checks can no longer raise                                                  *)

(* B106 is total: "**mapping" keywords are skipped *)
Theorem funcarg_never_raises : forall cfg c, exists r, hardcoded_password_funcarg cfg c = Ok r.
Proof. intros cfg c. eexists. reflexivity. Qed.

Example funcarg_never_raises_ex :
  (* f( **'x', password='p') *)
  hardcoded_password_funcarg JNull
    (call_ctx (mk_call None (mk_name None (s2p "f")) []
                       [mk_keyword None NNone (mk_str None (s2p "x"));
                        mk_keyword None (NId (s2p "password")) (mk_str None (s2p "p"))])
              (s2p "f") []) = Ok (Some (pw_report (s2p "p"))).
Proof. vm_compute. reflexivity. Qed.

(* B104 is total *)
Theorem bind_all_never_raises : forall cfg c, exists r, hardcoded_bind_all_interfaces cfg c = Ok r.
Proof.
  intros cfg c. unfold hardcoded_bind_all_interfaces.
  destruct (c_str c) as [s|]; [destruct (pstr_eqb s all_interfaces)|]; eexists; reflexivity.
Qed.

(* B108 is total on every Str-check context (context.string_val is set) whenever the effective
   configuration yields a list of strings -- in particular under the default configuration, be it absent
   (None) or the gen_config dictionary *)
Theorem tmp_default_never_raises : forall c s,
  c_str c = Some s ->
  (exists r, hardcoded_tmp_directory JNull c = Ok r) /\
  (exists r, hardcoded_tmp_directory (JDict [(key_tmp_dirs, default_tmp_dirs)]) c = Ok r) /\
  (forall cfg dirs, tmp_dirs_of cfg = Ok (JList (map JStr dirs)) ->
                    exists r, hardcoded_tmp_directory cfg c = Ok r).
Proof.
  intros c s Hs.
  assert (G : forall cfg dirs, tmp_dirs_of cfg = Ok (JList (map JStr dirs)) ->
                               exists r, hardcoded_tmp_directory cfg c = Ok r).
  { intros cfg dirs Hd. destruct (tmp_prefix_rule cfg c s dirs Hs Hd) as [-> _].
    destruct (existsb (startswith s) dirs); eexists; reflexivity. }
  split; [|split; [|exact G]].
  - apply (G JNull [s2p "/tmp"; s2p "/var/tmp"; s2p "/dev/shm"]). reflexivity.
  - apply (G _ [s2p "/tmp"; s2p "/var/tmp"; s2p "/dev/shm"]). reflexivity.
Qed.

(* ... and it still raises under a user configuration (see tmp_prefix_rule_ex for a non-string entry) *)
Example tmp_user_config_raises :
  hardcoded_tmp_directory (JDict [(key_tmp_dirs, JNull)]) (ctx_at (mk_str None (s2p "x")) []) = Raise TypeError /\
  hardcoded_tmp_directory (JInt 5) (ctx_at (mk_str None (s2p "x")) []) = Raise TypeError.
Proof. vm_compute. split; reflexivity. Qed.

(* B105 is total on the contexts the visitor builds for a Str check: the visited node is a string
   Constant, it has a parent, a Subscript (Index) parent has itself a parent (two ancestors), and a
   Compare has at least one comparator *)
Theorem password_string_never_raises : forall cfg c s,
  str_of (c_node c) = Some s ->
  c_parents c <> [] ->
  (is_cls "Subscript" (parent_of c) = true -> 2 <= List.length (c_parents c)) ->
  (is_cls "Index" (parent_of c) = true -> 3 <= List.length (c_parents c)) ->
  (is_cls "Compare" (parent_of c) = true -> field_list "comparators" (parent_of c) <> []) ->
  exists r, hardcoded_password_string cfg c = Ok r.
Proof.
  intros cfg c s Hs Hne Hsub Hidx Hcmp.
  unfold hardcoded_password_string, parent_of in *.
  destruct (c_parents c) as [|[parent sib] rest] eqn:Hp; [contradiction|].
  unfold ancestor. rewrite Hp. simpl.
  pose proof (str_of_const _ _ Hs) as Hk.
  assert (Cmp : is_cls "Compare" parent = true -> exists r, pw_compare_branch parent = Ok r).
  { intro HC. specialize (Hcmp HC). unfold pw_compare_branch, pw_compare_first.
    destruct (field_list "comparators" parent) as [|c0 l]; [contradiction|].
    destruct (is_cls "Name" (field "left" parent)).
    - destruct (is_candidate _); [destruct (str_of c0)|]; eexists; reflexivity.
    - destruct (is_cls "Attribute" (field "left" parent)); [|eexists; reflexivity].
      destruct (is_candidate _); [destruct (str_of c0)|]; eexists; reflexivity. }
  assert (Tail : exists r, (if is_cls "Compare" parent then pw_compare_branch parent else Ok None) = Ok r).
  { destruct (is_cls "Compare" parent) eqn:EC; [apply Cmp; reflexivity | eexists; reflexivity]. }
  destruct (is_cls "Assign" parent).
  { unfold pw_assign_branch, node_s_text. rewrite Hk.
    destruct (existsb targ_matches (field_list "targets" parent)); eexists; reflexivity. }
  unfold node_s_search. rewrite Hk.
  destruct (is_cls "Subscript" parent) eqn:ES; simpl.
  - destruct (is_candidate s).
    + specialize (Hsub eq_refl). unfold pw_subscript_branch, ancestor. rewrite Hp.
      destruct rest as [|[g gs] rest']; [simpl in Hsub; lia|]. simpl. eexists; reflexivity.
    + destruct (is_cls "Index" parent) eqn:EI; simpl; [|exact Tail].
      pose proof (is_cls_inj _ _ _ ES EI) as X; discriminate X.
  - destruct (is_cls "Index" parent) eqn:EI; simpl; [|exact Tail].
    destruct (is_candidate s); [|exact Tail].
    specialize (Hidx eq_refl). unfold pw_subscript_branch, ancestor. rewrite Hp.
    destruct rest as [|[g gs] [|[g2 gs2] rest']]; simpl in Hidx; try lia. simpl. eexists; reflexivity.
Qed.

(* B107 is total on well-formed FunctionDef nodes (every parameter an ast.arg carrying its name) *)
Lemma default_scan_total l :
  (forall k v, In (k, v) l -> wf_arg k) -> exists r, default_scan l = Ok r.
Proof.
  induction l as [|[k v] l IH]; intro H; simpl; [eexists; reflexivity|].
  assert (Hl : exists r, default_scan l = Ok r) by (apply IH; intros k' v' Hin; apply (H k' v'); right; exact Hin).
  destruct (H k v (or_introl eq_refl)) as [Hcls [a Ha]].
  rewrite Hcls, orb_true_r, Ha.
  destruct v as [v|]; [|exact Hl].
  destruct (is_none_constant v); [exact Hl|].
  destruct (str_of v); [|exact Hl].
  destruct (is_candidate a); [eexists; reflexivity | exact Hl].
Qed.

Theorem password_default_never_raises : forall cfg c a,
  field_opt "args" (c_node c) = Some a ->
  Forall wf_arg (field_list "posonlyargs" a ++ field_list "args" a) ->
  exists r, hardcoded_password_default cfg c = Ok r.
Proof.
  intros cfg c a Hf Hwf. unfold hardcoded_password_default. rewrite Hf.
  apply default_scan_total. intros k v Hin. apply in_combine_l in Hin.
  rewrite Forall_forall in Hwf. exact (Hwf _ Hin).
Qed.

(* Context._get_literal_value no longer raises (a set display skips its unhashable elements) *)
Module LiteralTotal.
#[local] Arguments String.eqb : simpl never.

Definition lv_ok (n : node) : Prop := exists v, literal_value n = Ok v.

Ltac elts_ok H :=
  match goal with
  | |- exists v, bind ?e _ = Ok v =>
      let He := fresh "He" in
      assert (He : exists l, e = Ok l);
      [ clear - H; induction H as [|[k v] t Hv Ht IH]; simpl;
        [ eexists; reflexivity
        | destruct (String.eqb "elts" k); [|exact IH];
          destruct v; try (eexists; reflexivity);
          destruct Hv as [_ Hv]; specialize (Hv _ eq_refl); clear - Hv;
          induction Hv as [|i is' [x Hx] His IHi]; simpl;
          [ eexists; reflexivity
          | rewrite Hx; simpl; destruct IHi as [xs ->]; simpl; eexists; reflexivity ] ]
      | destruct He as [l ->]; simpl ]
  end.

Lemma literal_value_total_strong :
  forall n, lv_ok n /\ (forall l, n = NList l -> Forall lv_ok l).
Proof.
  induction n as [c p fs H|l H| | | |] using node_ind'.
  - split; [|discriminate]. unfold lv_ok. simpl.
    destruct (String.eqb c "Constant").
    { destruct (lookup_field "value" fs) as [[]|]; eexists; reflexivity. }
    destruct (String.eqb c "List"). { elts_ok H. eexists; reflexivity. }
    destruct (String.eqb c "Tuple"). { elts_ok H. eexists; reflexivity. }
    destruct (String.eqb c "Set").
    { elts_ok H. generalize (@nil pyval). induction l as [|v l IH]; intro acc; simpl.
      - eexists; reflexivity.
      - destruct (hashable v); apply IH. }
    destruct (String.eqb c "Dict"). { eexists; reflexivity. }
    destruct (String.eqb c "Name"); eexists; reflexivity.
  - split; [exists PNone; reflexivity|]. intros l' E; inversion E; subst.
    eapply Forall_impl; [|exact H]. intros a [Ha _]; exact Ha.
  - split; [exists PNone; reflexivity | discriminate].
  - split; [exists PNone; reflexivity | discriminate].
  - split; [exists PNone; reflexivity | discriminate].
  - split; [exists PNone; reflexivity | discriminate].
Qed.
End LiteralTotal.

Lemma literal_value_total n : exists v, literal_value n = Ok v.
Proof. exact (proj1 (LiteralTotal.literal_value_total_strong n)). Qed.

Lemma get_call_arg_at_position_total c i : exists v, get_call_arg_at_position c i = Ok v.
Proof.
  unfold get_call_arg_at_position. destruct (c_call c) as [call|]; [|eexists; reflexivity].
  destruct (Nat.ltb i (List.length (field_list "args" call))); [|eexists; reflexivity].
  destruct (is_cls "Attribute" (nth i (field_list "args" call) NNone)
            && truthy_str (attr_of (nth i (field_list "args" call) NNone))).
  - eexists; reflexivity.
  - apply literal_value_total.
Qed.

(* B103 is total on every Call-check context (context.call_function_name is set) *)
Theorem chmod_never_raises : forall cfg c nm,
  c_name c = Some nm -> exists r, set_bad_file_permissions cfg c = Ok r.
Proof.
  intros cfg c nm Hn. unfold set_bad_file_permissions. rewrite Hn.
  destruct (contains nm chmod_name); [|eexists; reflexivity].
  destruct (call_args_count c) as [[|[|[|k]]]|]; try (eexists; reflexivity).
  unfold chmod_check_mode.
  destruct (get_call_arg_at_position_total c 1) as [mode ->]. simpl.
  destruct mode; try (eexists; reflexivity).
  destruct (stat_is_dangerous z); [|eexists; reflexivity].
  unfold chmod_filename. destruct (get_call_arg_at_position_total c 0) as [v ->]. simpl.
  destruct v; simpl; eexists; reflexivity.
Qed.

Example chmod_never_raises_ex :
  (* os.chmod({[1]}, 0o777): the set display loses its unhashable element and renders as set() *)
  let lst := Node "List" None [("elts", NList [mk_int None 1]); ("ctx", Node "Load" None [])] in
  let st := Node "Set" None [("elts", NList [lst])] in
  set_bad_file_permissions JNull
    (call_ctx (mk_call None (mk_attr None (mk_name None (s2p "os")) (s2p "chmod")) [st; mk_int None 511] [])
              (s2p "os.chmod") []) =
  Ok (Some (RIssue HIGH HIGH 732 (s2p "Chmod setting a permissive mask 0o777 on file (set()).")
                   None None None None)).
Proof. vm_compute. reflexivity. Qed.
