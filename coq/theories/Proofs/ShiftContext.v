(* The Context accessors of Engine/Context.v commute with the line-insertion transformation of
   Engine/Shift.v.  Values returned by the accessors ([pyval]) may hold AST nodes (inside [PDict]); those
   are shifted by [sh_pyval]. *)
From Coq Require Import List NArith ZArith Bool String Lia.
From Bandit Require Import Base.PyStr Ast.Node Engine.Types Engine.Resolve Engine.Context Engine.Shift
     Proofs.ShiftFacts.
Import ListNotations.
Local Open Scope string_scope.
Local Open Scope list_scope.

(* ---------- results ---------- *)
Definition map_res {A B} (f : A -> B) (r : res A) : res B :=
  match r with Ok a => Ok (f a) | Raise e => Raise e end.

Lemma map_res_Ok {A B} (f : A -> B) a : map_res f (Ok a) = Ok (f a).
Proof. reflexivity. Qed.
Lemma map_res_Raise {A B} (f : A -> B) e : map_res f (Raise e) = Raise e.
Proof. reflexivity. Qed.
Lemma map_res_id {A} (r : res A) : map_res (fun x => x) r = r.
Proof. destruct r; reflexivity. Qed.
Lemma map_res_map_res {A B C} (f : A -> B) (g : B -> C) r : map_res g (map_res f r) = map_res (fun x => g (f x)) r.
Proof. destruct r; reflexivity. Qed.
Lemma map_res_ext {A B} (f g : A -> B) r : (forall x, f x = g x) -> map_res f r = map_res g r.
Proof. intro H. destruct r; cbn [map_res]; [rewrite H|]; reflexivity. Qed.
Lemma bind_map_res {A B C} (f : A -> B) (r : res A) (k : B -> res C) :
  bind (map_res f r) k = bind r (fun x => k (f x)).
Proof. destruct r; reflexivity. Qed.
Lemma map_res_bind {A B C} (f : B -> C) (r : res A) (k : A -> res B) :
  map_res f (bind r k) = bind r (fun x => map_res f (k x)).
Proof. destruct r; reflexivity. Qed.
Lemma bind_ext {A B} (r : res A) (k k' : A -> res B) : (forall x, k x = k' x) -> bind r k = bind r k'.
Proof. intro H. destruct r; cbn [bind]; [apply H | reflexivity]. Qed.
Lemma map_res_Ok_inv {A B} (f : A -> B) r b : map_res f r = Ok b <-> exists a, r = Ok a /\ b = f a.
Proof.
  destruct r as [a|e]; cbn [map_res]; split.
  - intro H; inversion H; subst. exists a. split; reflexivity.
  - intros [a' [H1 H2]]. inversion H1; subst. reflexivity.
  - discriminate.
  - intros [a' [H1 _]]. discriminate.
Qed.
Lemma map_res_Raise_inv {A B} (f : A -> B) r e : map_res f r = Raise e <-> r = Raise e.
Proof. destruct r as [a|e']; cbn [map_res]; split; intro H; try discriminate; inversion H; reflexivity. Qed.

(* mapM over a mapped list, when the element function commutes up to [h] *)
Lemma mapM_map_comm {A A' B B'} (f : A' -> res B') (f' : A -> res B) (g : A -> A') (h : B -> B') l :
  (forall x, f (g x) = map_res h (f' x)) -> mapM f (map g l) = map_res (map h) (mapM f' l).
Proof.
  intro H. induction l as [|x t IH]; [reflexivity|]. cbn [map mapM]. rewrite H, IH.
  destruct (f' x) as [y|e]; [|reflexivity]. cbn [map_res bind].
  destruct (mapM f' t) as [ys|e]; reflexivity.
Qed.
Lemma mapM_map_comm_in {A A' B B'} (f : A' -> res B') (f' : A -> res B) (g : A -> A') (h : B -> B') l :
  Forall (fun x => f (g x) = map_res h (f' x)) l -> mapM f (map g l) = map_res (map h) (mapM f' l).
Proof.
  induction 1 as [|x t Hx Ht IH]; [reflexivity|]. cbn [map mapM]. rewrite Hx, IH.
  destruct (f' x) as [y|e]; [|reflexivity]. cbn [map_res bind].
  destruct (mapM f' t) as [ys|e]; reflexivity.
Qed.

(* ---------- small list facts ---------- *)
Lemma existsb_ext' {A} (f g : A -> bool) l : (forall x, f x = g x) -> existsb f l = existsb g l.
Proof. intro H. induction l as [|x t IH]; [reflexivity|]. cbn [existsb]. rewrite H, IH. reflexivity. Qed.
Lemma existsb_map' {A B} (f : B -> bool) (g : A -> B) l : existsb f (map g l) = existsb (fun x => f (g x)) l.
Proof. induction l as [|x t IH]; [reflexivity|]. cbn [map existsb]. rewrite IH. reflexivity. Qed.
Lemma forallb_map' {A B} (f : B -> bool) (g : A -> B) l : forallb f (map g l) = forallb (fun x => f (g x)) l.
Proof. induction l as [|x t IH]; [reflexivity|]. cbn [map forallb]. rewrite IH. reflexivity. Qed.
Lemma find_map' {A B} (f : B -> bool) (g : A -> B) l : find f (map g l) = option_map g (find (fun x => f (g x)) l).
Proof. induction l as [|x t IH]; [reflexivity|]. cbn [map find]. destruct (f (g x)); [reflexivity | exact IH]. Qed.
Lemma find_ext' {A} (f g : A -> bool) l : (forall x, f x = g x) -> find f l = find g l.
Proof. intro H. induction l as [|x t IH]; [reflexivity|]. cbn [find]. rewrite H, IH. reflexivity. Qed.
Lemma combine_map' {A A' B B'} (f : A -> A') (g : B -> B') la lb :
  combine (map f la) (map g lb) = map (fun e => (f (fst e), g (snd e))) (combine la lb).
Proof.
  revert lb. induction la as [|a ta IH]; intro lb; [reflexivity|]. destruct lb as [|b tb]; [reflexivity|].
  cbn [map combine fst snd]. rewrite IH. reflexivity.
Qed.

(* ---------- induction over pyval with Forall premises ---------- *)
Section PyvalInd.
  Variable P : pyval -> Prop.
  Hypothesis HNone : P PNone.
  Hypothesis HInt : forall z, P (PInt z).
  Hypothesis HFloat : forall r t, P (PFloat r t).
  Hypothesis HComplex : forall r t, P (PComplex r t).
  Hypothesis HStr : forall s, P (PStr s).
  Hypothesis HBytes : forall b, P (PBytes b).
  Hypothesis HList : forall l, Forall P l -> P (PList l).
  Hypothesis HTuple : forall l, Forall P l -> P (PTuple l).
  Hypothesis HSet : forall l, Forall P l -> P (PSet l).
  Hypothesis HDict : forall kv, P (PDict kv).
  Fixpoint pyval_ind' (v : pyval) : P v :=
    let go := fix go (l : list pyval) : Forall P l :=
                match l with [] => Forall_nil _ | x :: t => Forall_cons x (pyval_ind' x) (go t) end in
    match v with
    | PNone => HNone | PInt z => HInt z | PFloat r t => HFloat r t | PComplex r t => HComplex r t
    | PStr s => HStr s | PBytes b => HBytes b
    | PList l => HList l (go l) | PTuple l => HTuple l (go l) | PSet l => HSet l (go l)
    | PDict kv => HDict kv
    end.
End PyvalInd.

(* ---------- literal_value through top-level pieces ---------- *)
Definition lit_go : list node -> res (list pyval) :=
  fix go (is : list node) : res (list pyval) :=
    match is with
    | [] => Ok []
    | i :: is' => do x <- literal_value i;; do xs <- go is';; Ok (x :: xs)
    end.
Definition lit_find : list (string * node) -> res (list pyval) :=
  fix find (l : list (string * node)) : res (list pyval) :=
    match l with
    | [] => Ok []
    | (k, v) :: t =>
        if String.eqb "elts" k then match v with NList its => lit_go its | _ => Ok [] end else find t
    end.
Definition lit_addall : list pyval -> list pyval -> res pyval :=
  fix addall (l : list pyval) (acc : list pyval) : res pyval :=
    match l with
    | [] => Ok (PSet acc)
    | v :: l' => if hashable v then addall l' (set_add_val v acc) else addall l' acc
    end.
(* the elements of the "elts" field, each evaluated *)
Definition lit_elts (fs : list (string * node)) : res (list pyval) :=
  match lookup_field "elts" fs with
  | Some (NList its) => mapM literal_value its
  | _ => Ok []
  end.
Definition lit_dict (fs : list (string * node)) : list (node * node) :=
  combine (items (match lookup_field "keys" fs with Some k => k | None => NNone end))
          (items (match lookup_field "values" fs with Some k => k | None => NNone end)).
Definition lit_body (c : string) (fs : list (string * node)) (elts : res (list pyval)) : res pyval :=
  if String.eqb c "Constant" then
    match lookup_field "value" fs with
    | Some (NConst k) => Ok (const_value k)
    | _ => Ok PNone
    end
  else if String.eqb c "List" then do l <- elts;; Ok (PList l)
  else if String.eqb c "Tuple" then do l <- elts;; Ok (PTuple l)
  else if String.eqb c "Set" then do l <- elts;; lit_addall l []
  else if String.eqb c "Dict" then Ok (PDict (lit_dict fs))
  else if String.eqb c "Name" then Ok (PStr (match lookup_field "id" fs with Some (NId s) => s | _ => [] end))
  else Ok PNone.

Lemma lit_go_mapM its : lit_go its = mapM literal_value its.
Proof. induction its as [|i t IH]; [reflexivity|]. cbn [lit_go mapM]. fold lit_go. rewrite IH. reflexivity. Qed.
Lemma lit_find_elts fs : lit_find fs = lit_elts fs.
Proof.
  unfold lit_elts. induction fs as [|[k v] t IH]; [reflexivity|]. cbn [lit_find lookup_field]. fold lit_find.
  destruct (String.eqb "elts" k); [|exact IH]. destruct v; try reflexivity. apply lit_go_mapM.
Qed.
(* the unfolding equation *)
Lemma literal_value_Node c p fs : literal_value (Node c p fs) = lit_body c fs (lit_elts fs).
Proof. rewrite <- lit_find_elts. reflexivity. Qed.
Lemma literal_value_nonast n : is_ast n = false -> literal_value n = Ok PNone.
Proof. destruct n; try reflexivity. discriminate. Qed.

Section Ctx.
  Variable at_ : Z.
  Variable ins : list pstr.
  Notation sh := (sh at_ ins).
  Notation sh_node := (sh_node at_ ins).
  Notation sh_ctx := (sh_ctx at_ ins).
  Notation sh_fields := (sh_fields at_ ins).

  (* ---------- shifting a dynamic value ---------- *)
  Fixpoint sh_pyval (v : pyval) : pyval :=
    match v with
    | PList l => PList ((fix go (l : list pyval) : list pyval :=
                           match l with [] => [] | x :: t => sh_pyval x :: go t end) l)
    | PTuple l => PTuple ((fix go (l : list pyval) : list pyval :=
                             match l with [] => [] | x :: t => sh_pyval x :: go t end) l)
    | PSet l => PSet ((fix go (l : list pyval) : list pyval :=
                         match l with [] => [] | x :: t => sh_pyval x :: go t end) l)
    | PDict kv => PDict (map (fun e => (sh_node (fst e), sh_node (snd e))) kv)
    | x => x
    end.
  Definition sh_kw (kv : option pstr * pyval) : option pstr * pyval := (fst kv, sh_pyval (snd kv)).

  Lemma sh_pyval_PList l : sh_pyval (PList l) = PList (map sh_pyval l).
  Proof. reflexivity. Qed.
  Lemma sh_pyval_PTuple l : sh_pyval (PTuple l) = PTuple (map sh_pyval l).
  Proof. reflexivity. Qed.
  Lemma sh_pyval_PSet l : sh_pyval (PSet l) = PSet (map sh_pyval l).
  Proof. reflexivity. Qed.
  Lemma sh_pyval_PDict kv : sh_pyval (PDict kv) = PDict (sh_ps at_ ins kv).
  Proof. reflexivity. Qed.

  (* ---------- shapes: what a consumer can see of a value without looking at dict contents ---------- *)
  Inductive ptag := TNone | TInt | TFloat | TComplex | TStr | TBytes | TList | TTuple | TSet | TDict.
  Definition pyval_tag (v : pyval) : ptag :=
    match v with
    | PNone => TNone | PInt _ => TInt | PFloat _ _ => TFloat | PComplex _ _ => TComplex | PStr _ => TStr
    | PBytes _ => TBytes | PList _ => TList | PTuple _ => TTuple | PSet _ => TSet | PDict _ => TDict
    end.
  Definition is_scalar (v : pyval) : bool :=
    match v with PList _ | PTuple _ | PSet _ | PDict _ => false | _ => true end.
  (* number of elements of a container (entries of a dict); None for scalars *)
  Definition pyval_len (v : pyval) : option nat :=
    match v with
    | PList l | PTuple l | PSet l => Some (List.length l)
    | PDict kv => Some (List.length kv)
    | _ => None
    end.
  (* no dict anywhere inside: such a value carries no AST node *)
  Fixpoint dict_free (v : pyval) : bool :=
    match v with
    | PList l | PTuple l | PSet l => forallb dict_free l
    | PDict _ => false
    | _ => true
    end.

  Lemma pyval_tag_sh v : pyval_tag (sh_pyval v) = pyval_tag v.
  Proof. destruct v; reflexivity. Qed.
  Lemma is_scalar_sh v : is_scalar (sh_pyval v) = is_scalar v.
  Proof. destruct v; reflexivity. Qed.
  Lemma pyval_len_sh v : pyval_len (sh_pyval v) = pyval_len v.
  Proof.
    destruct v; try reflexivity; cbn [pyval_len];
      first [ rewrite sh_pyval_PList | rewrite sh_pyval_PTuple | rewrite sh_pyval_PSet | rewrite sh_pyval_PDict ];
      cbn [pyval_len]; unfold sh_ps; rewrite map_length; reflexivity.
  Qed.
  Lemma sh_pyval_scalar v : is_scalar v = true -> sh_pyval v = v.
  Proof. destruct v; try reflexivity; discriminate. Qed.
  Lemma sh_pyval_dict_free : forall v, dict_free v = true -> sh_pyval v = v.
  Proof.
    assert (G : forall l, Forall (fun v => dict_free v = true -> sh_pyval v = v) l ->
                          forallb dict_free l = true -> map sh_pyval l = l).
    { induction 1 as [|x t Hx Ht IH]; intro H; [reflexivity|]. cbn [forallb] in H.
      apply andb_true_iff in H as [H1 H2]. cbn [map]. rewrite (Hx H1), (IH H2). reflexivity. }
    induction v as [ | | | | | | l IH | l IH | l IH | kv ] using pyval_ind'; intro H; try reflexivity.
    - rewrite sh_pyval_PList. f_equal. apply G; assumption.
    - rewrite sh_pyval_PTuple. f_equal. apply G; assumption.
    - rewrite sh_pyval_PSet. f_equal. apply G; assumption.
    - discriminate.
  Qed.
  Lemma dict_free_sh : forall v, dict_free (sh_pyval v) = dict_free v.
  Proof.
    assert (G : forall l, Forall (fun v => dict_free (sh_pyval v) = dict_free v) l ->
                          forallb dict_free (map sh_pyval l) = forallb dict_free l).
    { induction 1 as [|x t Hx Ht IH]; [reflexivity|]. cbn [map forallb]. rewrite Hx, IH. reflexivity. }
    induction v as [ | | | | | | l IH | l IH | l IH | kv ] using pyval_ind'; try reflexivity.
    - rewrite sh_pyval_PList. cbn [dict_free]. apply G; assumption.
    - rewrite sh_pyval_PTuple. cbn [dict_free]. apply G; assumption.
    - rewrite sh_pyval_PSet. cbn [dict_free]. apply G; assumption.
  Qed.

  (* inversions: a shifted value is a given scalar exactly when the original is *)
  Lemma sh_pyval_PNone_inv v : sh_pyval v = PNone <-> v = PNone.
  Proof. destruct v; split; intro H; try discriminate; try exact H; reflexivity. Qed.
  Lemma sh_pyval_PInt_inv v z : sh_pyval v = PInt z <-> v = PInt z.
  Proof. destruct v; split; intro H; try discriminate; exact H. Qed.
  Lemma sh_pyval_PFloat_inv v r t : sh_pyval v = PFloat r t <-> v = PFloat r t.
  Proof. destruct v; split; intro H; try discriminate; exact H. Qed.
  Lemma sh_pyval_PComplex_inv v r t : sh_pyval v = PComplex r t <-> v = PComplex r t.
  Proof. destruct v; split; intro H; try discriminate; exact H. Qed.
  Lemma sh_pyval_PStr_inv v s : sh_pyval v = PStr s <-> v = PStr s.
  Proof. destruct v; split; intro H; try discriminate; exact H. Qed.
  Lemma sh_pyval_PBytes_inv v b : sh_pyval v = PBytes b <-> v = PBytes b.
  Proof. destruct v; split; intro H; try discriminate; exact H. Qed.
  Lemma sh_pyval_PList_inv v l' : sh_pyval v = PList l' <-> exists l, v = PList l /\ l' = map sh_pyval l.
  Proof.
    split.
    - destruct v as [ | | | | | | l | l | l | kv ]; intro H; try discriminate.
      rewrite sh_pyval_PList in H. inversion H; subst. exists l. split; reflexivity.
    - intros [l [-> ->]]. reflexivity.
  Qed.
  Lemma sh_pyval_PTuple_inv v l' : sh_pyval v = PTuple l' <-> exists l, v = PTuple l /\ l' = map sh_pyval l.
  Proof.
    split.
    - destruct v as [ | | | | | | l | l | l | kv ]; intro H; try discriminate.
      rewrite sh_pyval_PTuple in H. inversion H; subst. exists l. split; reflexivity.
    - intros [l [-> ->]]. reflexivity.
  Qed.

  (* case analysis on a shifted value, one constructor at a time *)
  Lemma match_PNone_sh {A} (a d : A) v :
    match sh_pyval v with PNone => a | _ => d end = match v with PNone => a | _ => d end.
  Proof. destruct v; reflexivity. Qed.
  Lemma match_PInt_sh {A} (f : Z -> A) (d : A) v :
    match sh_pyval v with PInt z => f z | _ => d end = match v with PInt z => f z | _ => d end.
  Proof. destruct v; reflexivity. Qed.
  Lemma match_PStr_sh {A} (f : pstr -> A) (d : A) v :
    match sh_pyval v with PStr s => f s | _ => d end = match v with PStr s => f s | _ => d end.
  Proof. destruct v; reflexivity. Qed.
  Lemma match_PBytes_sh {A} (f : list N -> A) (d : A) v :
    match sh_pyval v with PBytes b => f b | _ => d end = match v with PBytes b => f b | _ => d end.
  Proof. destruct v; reflexivity. Qed.
  Lemma match_PFloat_sh {A} (f : pstr -> bool -> A) (d : A) v :
    match sh_pyval v with PFloat r t => f r t | _ => d end = match v with PFloat r t => f r t | _ => d end.
  Proof. destruct v; reflexivity. Qed.
  (* a consumer that only looks at scalars and at the shape of containers *)
  Lemma match_scalar_sh {A} (f : pyval -> A) (g : ptag -> option nat -> A) v :
    (if is_scalar (sh_pyval v) then f (sh_pyval v) else g (pyval_tag (sh_pyval v)) (pyval_len (sh_pyval v)))
    = (if is_scalar v then f v else g (pyval_tag v) (pyval_len v)).
  Proof.
    rewrite is_scalar_sh, pyval_tag_sh, pyval_len_sh. destruct (is_scalar v) eqn:E; [|reflexivity].
    rewrite sh_pyval_scalar by exact E. reflexivity.
  Qed.

  Lemma hd_sh_pyval l : hd PNone (map sh_pyval l) = sh_pyval (hd PNone l).
  Proof. destruct l; reflexivity. Qed.
  Lemma nth_sh_pyval i l : nth i (map sh_pyval l) PNone = sh_pyval (nth i l PNone).
  Proof. change PNone with (sh_pyval PNone) at 1. apply map_nth. Qed.

  (* ---------- hashable, equality, set insertion ---------- *)
  Lemma hashable_sh : forall v, hashable (sh_pyval v) = hashable v.
  Proof.
    induction v as [ | | | | | | l IH | l IH | l IH | kv ] using pyval_ind'; try reflexivity.
    rewrite sh_pyval_PTuple. cbn [hashable]. induction IH as [|x t Hx Ht IHt]; [reflexivity|].
    cbn [map forallb]. rewrite Hx, IHt. reflexivity.
  Qed.

  Definition eqb_list : list pyval -> list pyval -> bool :=
    fix go (l1 l2 : list pyval) : bool :=
      match l1, l2 with
      | [], [] => true
      | u :: l1', v :: l2' => pyval_eqb u v && go l1' l2'
      | _, _ => false
      end.
  Lemma pyval_eqb_PList x y : pyval_eqb (PList x) (PList y) = eqb_list x y.
  Proof. reflexivity. Qed.
  Lemma pyval_eqb_PTuple x y : pyval_eqb (PTuple x) (PTuple y) = eqb_list x y.
  Proof. reflexivity. Qed.

  (* [PDict] and [PSet] are equal to nothing under [pyval_eqb], so shifting one side changes nothing *)
  Lemma pyval_eqb_sh_l : forall a b, pyval_eqb (sh_pyval a) b = pyval_eqb a b.
  Proof.
    assert (G : forall l, Forall (fun a => forall b, pyval_eqb (sh_pyval a) b = pyval_eqb a b) l ->
                          forall l2, eqb_list (map sh_pyval l) l2 = eqb_list l l2).
    { induction 1 as [|x t Hx Ht IH]; intro l2; [reflexivity|]. destruct l2 as [|y t2]; [reflexivity|].
      cbn [map eqb_list]. fold eqb_list. rewrite Hx, IH. reflexivity. }
    induction a as [ | | | | | | l IH | l IH | l IH | kv ] using pyval_ind'; intro y; try reflexivity.
    - rewrite sh_pyval_PList. destruct y; try reflexivity. rewrite !pyval_eqb_PList. apply G. exact IH.
    - rewrite sh_pyval_PTuple. destruct y; try reflexivity. rewrite !pyval_eqb_PTuple. apply G. exact IH.
  Qed.
  Lemma pyval_eqb_sh_r : forall b a, pyval_eqb a (sh_pyval b) = pyval_eqb a b.
  Proof.
    assert (G : forall l, Forall (fun b => forall a, pyval_eqb a (sh_pyval b) = pyval_eqb a b) l ->
                          forall l1, eqb_list l1 (map sh_pyval l) = eqb_list l1 l).
    { induction 1 as [|x t Hx Ht IH]; intro l1; [reflexivity|]. destruct l1 as [|y t1]; [reflexivity|].
      cbn [map eqb_list]. fold eqb_list. rewrite Hx, IH. reflexivity. }
    induction b as [ | | | | | | l IH | l IH | l IH | kv ] using pyval_ind'; intro y; try (destruct y; reflexivity).
    - rewrite sh_pyval_PList. destruct y; try reflexivity. rewrite !pyval_eqb_PList. apply G. exact IH.
    - rewrite sh_pyval_PTuple. destruct y; try reflexivity. rewrite !pyval_eqb_PTuple. apply G. exact IH.
  Qed.
  Lemma pyval_eqb_sh a b : pyval_eqb (sh_pyval a) (sh_pyval b) = pyval_eqb a b.
  Proof. rewrite pyval_eqb_sh_l. apply pyval_eqb_sh_r. Qed.
  Lemma existsb_pyval_eqb_sh v vals : existsb (pyval_eqb (sh_pyval v)) vals = existsb (pyval_eqb v) vals.
  Proof. apply existsb_ext'. intro x. apply pyval_eqb_sh_l. Qed.
  Lemma existsb_pyval_eqb_sh_map v l : existsb (pyval_eqb (sh_pyval v)) (map sh_pyval l) = existsb (pyval_eqb v) l.
  Proof. rewrite existsb_map'. apply existsb_ext'. intro x. apply pyval_eqb_sh. Qed.

  Lemma set_add_val_sh v l : set_add_val (sh_pyval v) (map sh_pyval l) = map sh_pyval (set_add_val v l).
  Proof.
    unfold set_add_val. rewrite existsb_pyval_eqb_sh_map. destruct (existsb (pyval_eqb v) l); [reflexivity|].
    rewrite map_app. reflexivity.
  Qed.

  Lemma lit_addall_sh l : forall acc,
    lit_addall (map sh_pyval l) (map sh_pyval acc) = map_res sh_pyval (lit_addall l acc).
  Proof.
    induction l as [|v t IH]; intro acc; [reflexivity|]. cbn [map lit_addall]. fold lit_addall.
    rewrite hashable_sh. destruct (hashable v); [rewrite set_add_val_sh|]; apply IH.
  Qed.

  Lemma const_value_sh k : sh_pyval (const_value k) = const_value k.
  Proof. destruct k as [ | [|] | | | | | | ]; reflexivity. Qed.

  (* ---------- literal_value ---------- *)
  Lemma lit_dict_sh fs : lit_dict (sh_fields fs) = sh_ps at_ ins (lit_dict fs).
  Proof.
    unfold lit_dict. rewrite !lookup_field_sh.
    assert (E : forall o : option node,
               items (match option_map sh_node o with Some k => k | None => NNone end)
               = map sh_node (items (match o with Some k => k | None => NNone end))).
    { intros [x|]; [apply items_sh | reflexivity]. }
    rewrite !E. apply combine_map'.
  Qed.

  Lemma lit_body_sh c fs r r' : r' = map_res (map sh_pyval) r ->
    lit_body c (sh_fields fs) r' = map_res sh_pyval (lit_body c fs r).
  Proof.
    intros ->. unfold lit_body. rewrite !lookup_field_sh.
    destruct (String.eqb c "Constant").
    { destruct (lookup_field "value" fs) as [v|]; [|reflexivity].
      destruct v as [c' p' fs'| l | k | s | z |]; try reflexivity.
      cbn [option_map Shift.sh_node map_res]. rewrite const_value_sh. reflexivity. }
    destruct (String.eqb c "List"). { destruct r; reflexivity. }
    destruct (String.eqb c "Tuple"). { destruct r; reflexivity. }
    destruct (String.eqb c "Set").
    { destruct r as [l|e]; [|reflexivity]. cbn [map_res bind]. apply (lit_addall_sh l []). }
    destruct (String.eqb c "Dict"). { cbn [map_res]. rewrite lit_dict_sh. reflexivity. }
    destruct (String.eqb c "Name"); [|reflexivity].
    destruct (lookup_field "id" fs) as [v|]; [|reflexivity].
    destruct v as [c' p' fs'| l | k | s | z |]; reflexivity.
  Qed.

  Lemma lit_elts_sh fs :
    Forall (fun kv => Forall (fun n => literal_value (sh_node n) = map_res sh_pyval (literal_value n))
                             (items (snd kv))) fs ->
    lit_elts (sh_fields fs) = map_res (map sh_pyval) (lit_elts fs).
  Proof.
    intro H. unfold lit_elts. rewrite lookup_field_sh.
    destruct (lookup_field "elts" fs) as [v|] eqn:E; [|reflexivity].
    assert (Hv : Forall (fun n => literal_value (sh_node n) = map_res sh_pyval (literal_value n)) (items v)).
    { clear - H E. induction H as [|[k0 v0] t Hx Ht IH]; [discriminate|]. cbn [lookup_field] in E.
      destruct (String.eqb "elts" k0); [inversion E; subst; exact Hx | apply IH; exact E]. }
    destruct v as [c' p' fs'| l | k | s | z |]; try reflexivity.
    cbn [option_map]. rewrite sh_node_NList. cbn [items] in Hv.
    apply mapM_map_comm_in. exact Hv.
  Qed.

  Lemma literal_value_sh : forall n, literal_value (sh_node n) = map_res sh_pyval (literal_value n).
  Proof.
    set (P := fun n => literal_value (sh_node n) = map_res sh_pyval (literal_value n)).
    assert (G : forall n, P n /\ Forall P (items n)).
    { induction n as [c p fs IHfs | l IHl | | | | ] using node_ind'; try (split; [reflexivity | constructor]).
      - split; [|constructor]. unfold P. rewrite sh_node_Node, !literal_value_Node.
        apply lit_body_sh. apply lit_elts_sh. eapply Forall_impl; [|exact IHfs].
        intros kv [_ Hkv]. exact Hkv.
      - split; [reflexivity|]. cbn [items]. eapply Forall_impl; [|exact IHl]. intros x [Hx _]. exact Hx. }
    intro n. apply G.
  Qed.

  Lemma arg_value_sh a : arg_value (sh_node a) = map_res sh_pyval (arg_value a).
  Proof.
    unfold arg_value. rewrite is_cls_sh, attr_of_sh, literal_value_sh.
    destruct (is_cls "Attribute" a); reflexivity.
  Qed.

  (* ---------- context fields ---------- *)
  Lemma c_node_sh c : c_node (sh_ctx c) = sh_node (c_node c).
  Proof. reflexivity. Qed.
  Lemma c_parents_sh c : c_parents (sh_ctx c) = sh_ps at_ ins (c_parents c).
  Proof. reflexivity. Qed.
  Lemma c_sibling_sh c : c_sibling (sh_ctx c) = sh_node (c_sibling c).
  Proof. reflexivity. Qed.
  Lemma c_imports_sh c : c_imports (sh_ctx c) = c_imports c.
  Proof. reflexivity. Qed.
  Lemma c_aliases_sh c : c_aliases (sh_ctx c) = c_aliases c.
  Proof. reflexivity. Qed.
  Lemma c_lineno_sh c : c_lineno (sh_ctx c) = option_map sh (c_lineno c).
  Proof. reflexivity. Qed.
  Lemma c_col_sh c : c_col (sh_ctx c) = c_col c.
  Proof. reflexivity. Qed.
  Lemma c_ecol_sh c : c_ecol (sh_ctx c) = c_ecol c.
  Proof. reflexivity. Qed.
  Lemma c_linerange_sh c : c_linerange (sh_ctx c) = sh_range at_ ins (c_linerange c).
  Proof. reflexivity. Qed.
  Lemma c_call_sh c : c_call (sh_ctx c) = option_map sh_node (c_call c).
  Proof. reflexivity. Qed.
  Lemma c_qualname_sh c : c_qualname (sh_ctx c) = c_qualname c.
  Proof. reflexivity. Qed.
  Lemma c_name_sh c : c_name (sh_ctx c) = c_name c.
  Proof. reflexivity. Qed.
  Lemma c_module_sh c : c_module (sh_ctx c) = c_module c.
  Proof. reflexivity. Qed.
  Lemma c_str_sh c : c_str (sh_ctx c) = c_str c.
  Proof. reflexivity. Qed.
  Lemma c_bytes_sh c : c_bytes (sh_ctx c) = c_bytes c.
  Proof. reflexivity. Qed.
  Lemma c_function_sh c : c_function (sh_ctx c) = option_map sh_node (c_function c).
  Proof. reflexivity. Qed.
  Lemma c_filename_sh c : c_filename (sh_ctx c) = c_filename c.
  Proof. reflexivity. Qed.
  Lemma c_lines_sh c : c_lines (sh_ctx c) = option_map (sh_lines at_ ins) (c_lines c).
  Proof. reflexivity. Qed.

  Lemma parent_of_sh c : parent_of (sh_ctx c) = sh_node (parent_of c).
  Proof. unfold parent_of. rewrite c_parents_sh. destruct (c_parents c) as [|[p s] t]; reflexivity. Qed.
  Lemma parent_n_sh k c : parent_n k (sh_ctx c) = sh_node (parent_n k c).
  Proof.
    unfold parent_n. rewrite c_parents_sh. unfold sh_ps.
    change (NNone, NNone) with ((fun e : node * node => (sh_node (fst e), sh_node (snd e))) (NNone, NNone)) at 1.
    rewrite map_nth. reflexivity.
  Qed.

  (* ---------- call arguments ---------- *)
  Lemma call_args_sh c : call_args (sh_ctx c) = map_res (map sh_pyval) (call_args c).
  Proof.
    unfold call_args. rewrite c_call_sh. destruct (c_call c) as [call|]; [|reflexivity].
    cbn [option_map]. rewrite field_list_sh. apply mapM_map_comm. exact arg_value_sh.
  Qed.
  Lemma call_args_count_sh c : call_args_count (sh_ctx c) = call_args_count c.
  Proof.
    unfold call_args_count. rewrite c_call_sh. destruct (c_call c) as [call|]; [|reflexivity].
    cbn [option_map]. rewrite field_list_sh, map_length. reflexivity.
  Qed.

  Lemma kw_arg_sh k : kw_arg (sh_node k) = kw_arg k.
  Proof. unfold kw_arg. rewrite field_sh, id_of_sh. reflexivity. Qed.

  Lemma call_keywords_sh c :
    call_keywords (sh_ctx c)
    = map_res (option_map (map (fun kv => (fst kv, sh_pyval (snd kv))))) (call_keywords c).
  Proof.
    unfold call_keywords. rewrite c_call_sh. destruct (c_call c) as [call|]; [|reflexivity].
    cbn [option_map]. rewrite field_list_sh.
    rewrite (mapM_map_comm _ (fun k => do v <- arg_value (field "value" k);; Ok (kw_arg k, v)) sh_node
                           (fun kv => (fst kv, sh_pyval (snd kv)))).
    - destruct (mapM _ (field_list "keywords" call)); reflexivity.
    - intro k. rewrite field_sh, arg_value_sh, kw_arg_sh. destruct (arg_value (field "value" k)); reflexivity.
  Qed.

  Lemma kw_lookup_sh k l :
    kw_lookup k (map (fun kv => (fst kv, sh_pyval (snd kv))) l) = option_map sh_pyval (kw_lookup k l).
  Proof.
    induction l as [|[k' v] t IH]; [reflexivity|]. cbn [map kw_lookup fst snd]. rewrite IH.
    destruct (kw_lookup k t); [reflexivity|]. cbn [option_map]. destruct (okey_eqb (Some k) k'); reflexivity.
  Qed.
  Lemma kw_mem_sh k l : kw_mem k (map (fun kv => (fst kv, sh_pyval (snd kv))) l) = kw_mem k l.
  Proof. unfold kw_mem. rewrite kw_lookup_sh. destruct (kw_lookup k l); reflexivity. Qed.

  Lemma get_call_arg_value_sh c name :
    get_call_arg_value (sh_ctx c) name = map_res sh_pyval (get_call_arg_value c name).
  Proof.
    unfold get_call_arg_value. rewrite call_keywords_sh.
    destruct (call_keywords c) as [[l|]|e]; try reflexivity.
    cbn [map_res option_map bind]. rewrite kw_lookup_sh. destruct (kw_lookup name l); reflexivity.
  Qed.

  Lemma check_call_arg_value_sh c name vals :
    check_call_arg_value (sh_ctx c) name vals = check_call_arg_value c name vals.
  Proof.
    unfold check_call_arg_value. rewrite get_call_arg_value_sh.
    destruct (get_call_arg_value c name) as [v|e]; [|reflexivity]. cbn [map_res bind].
    destruct v; try reflexivity; cbn [sh_pyval];
      match goal with |- Ok (Some (existsb (pyval_eqb ?a) _)) = Ok (Some (existsb (pyval_eqb ?b) _)) =>
        change a with (sh_pyval b); rewrite existsb_pyval_eqb_sh; reflexivity end.
  Qed.

  Lemma get_lineno_for_call_arg_sh c name :
    get_lineno_for_call_arg (sh_ctx c) name = option_map sh (get_lineno_for_call_arg c name).
  Proof.
    unfold get_lineno_for_call_arg. rewrite c_node_sh, field_list_sh, find_map'.
    rewrite (find_ext' _ (fun k => okey_eqb (kw_arg k) (Some name))) by (intro x; rewrite kw_arg_sh; reflexivity).
    destruct (find _ (field_list "keywords" (c_node c))) as [k|]; [|reflexivity].
    cbn [option_map]. rewrite field_sh. apply lineno_of_sh.
  Qed.

  Lemma get_call_arg_at_position_sh c i :
    get_call_arg_at_position (sh_ctx c) i = map_res sh_pyval (get_call_arg_at_position c i).
  Proof.
    unfold get_call_arg_at_position. rewrite c_call_sh. destruct (c_call c) as [call|]; [|reflexivity].
    cbn [option_map]. rewrite field_list_sh, map_length.
    destruct (Nat.ltb i (List.length (field_list "args" call))); [|reflexivity].
    assert (E : nth i (map sh_node (field_list "args" call)) NNone = sh_node (nth i (field_list "args" call) NNone))
      by (change NNone with (sh_node NNone) at 1; apply map_nth).
    rewrite !E, is_cls_sh, attr_of_sh, literal_value_sh.
    destruct (is_cls "Attribute" (nth i (field_list "args" call) NNone) && truthy_str _); reflexivity.
  Qed.

  (* ---------- position-free accessors ---------- *)
  Lemma function_def_defaults_qual_sh c : function_def_defaults_qual (sh_ctx c) = function_def_defaults_qual c.
  Proof.
    unfold function_def_defaults_qual. rewrite c_node_sh, c_aliases_sh, field_sh, field_list_sh, map_map.
    apply map_ext. intro d. apply get_qual_attr_sh.
  Qed.
  Lemma is_module_being_imported_sh c m : is_module_being_imported (sh_ctx c) m = is_module_being_imported c m.
  Proof. reflexivity. Qed.
  Lemma is_module_imported_exact_sh c m : is_module_imported_exact (sh_ctx c) m = is_module_imported_exact c m.
  Proof. reflexivity. Qed.
  Lemma is_module_imported_like_sh c m : is_module_imported_like (sh_ctx c) m = is_module_imported_like c m.
  Proof. reflexivity. Qed.
  Lemma qualname_sh c : qualname (sh_ctx c) = qualname c.
  Proof. reflexivity. Qed.
End Ctx.

Arguments match_PNone_sh at_ ins {A} a d v.
Arguments match_PInt_sh at_ ins {A} f d v.
Arguments match_PStr_sh at_ ins {A} f d v.
Arguments match_PBytes_sh at_ ins {A} f d v.
Arguments match_PFloat_sh at_ ins {A} f d v.

(* ---------- rewriting database: push sh_node / sh_ctx / sh_pyval outwards ---------- *)
Create HintDb shift.

(* Ast.Node and Engine.Resolve accessors (Proofs.ShiftFacts) *)
#[global] Hint Rewrite cls_of_sh is_cls_sh is_ast_sh pos_of_sh lineno_of_sh fields_of_sh lookup_field_sh field_opt_sh
     field_sh has_field_sh items_sh field_list_sh id_of_sh const_of_sh str_of_sh is_Str_sh is_Bytes_sh is_Num_sh
     is_NameConstant_sh child_nodes_sh name_id_sh attr_of_sh attr_qual_name_sh get_call_name_sh get_qual_attr_sh
     get_called_name_sh alias_name_sh alias_asname_sh : shift.

(* context fields *)
#[global] Hint Rewrite c_node_sh c_parents_sh c_sibling_sh c_imports_sh c_aliases_sh c_lineno_sh c_col_sh c_ecol_sh
     c_linerange_sh c_call_sh c_qualname_sh c_name_sh c_module_sh c_str_sh c_bytes_sh c_function_sh c_filename_sh
     c_lines_sh parent_of_sh parent_n_sh : shift.

(* Engine.Context accessors *)
#[global] Hint Rewrite literal_value_sh arg_value_sh call_args_sh call_args_count_sh kw_arg_sh call_keywords_sh kw_lookup_sh
     kw_mem_sh get_call_arg_value_sh check_call_arg_value_sh get_lineno_for_call_arg_sh get_call_arg_at_position_sh
     function_def_defaults_qual_sh is_module_being_imported_sh is_module_imported_exact_sh
     is_module_imported_like_sh qualname_sh : shift.

(* dynamic values *)
#[global] Hint Rewrite hashable_sh pyval_eqb_sh_l pyval_eqb_sh_r existsb_pyval_eqb_sh set_add_val_sh const_value_sh
     pyval_tag_sh is_scalar_sh pyval_len_sh dict_free_sh hd_sh_pyval nth_sh_pyval
     match_PNone_sh match_PInt_sh match_PStr_sh match_PBytes_sh match_PFloat_sh : shift.

(* results *)
#[global] Hint Rewrite @map_res_Ok @map_res_Raise @bind_map_res @map_res_map_res : shift.

(* rewrite, then step under [do x <- r;; _] on both sides when the bound computation is the same *)
Ltac shift_binds := autorewrite with shift; repeat (apply bind_ext; intro; autorewrite with shift).
