From Coq Require Import List NArith ZArith Bool String Lia.
From Bandit Require Import Base.PyStr Ast.Node Engine.Types Engine.Tables Engine.Resolve Engine.Context
     Engine.Visitor Engine.Tester Plugins.Blacklist Proofs.PyStrFacts.
Import ListNotations.
Local Open Scope string_scope.
Local Open Scope list_scope.

(* ---------- the blacklist lookup returns exactly the first rule listing the name ---------- *)

Lemma first_rule_listing_some name rules r :
  first_rule_listing name rules = Some r ->
  exists l1 l2, rules = l1 ++ r :: l2 /\ In name (bl_qualnames r) /\
                forall r', In r' l1 -> ~ In name (bl_qualnames r').
Proof.
  induction rules as [|x t IH]; simpl; [discriminate|].
  destruct (mem_pstr name (bl_qualnames x)) eqn:E.
  - intro H; inversion H; subst. exists [], t. repeat split; auto.
    apply mem_pstr_In; exact E.
  - intro H. destruct (IH H) as [l1 [l2 [-> [Hin Hbefore]]]].
    exists (x :: l1), l2. repeat split; auto.
    intros r' [<-|Hr'].
    + intro Hc. apply mem_pstr_In in Hc. congruence.
    + apply Hbefore; exact Hr'.
Qed.

Lemma first_rule_listing_none name rules :
  first_rule_listing name rules = None <-> forall r, In r rules -> ~ In name (bl_qualnames r).
Proof.
  induction rules as [|x t IH]; simpl.
  - split; [intros _ r [] | reflexivity].
  - destruct (mem_pstr name (bl_qualnames x)) eqn:E.
    + split; [discriminate|]. intro H. exfalso. apply (H x); [auto | apply mem_pstr_In; exact E].
    + rewrite IH. split.
      * intros H r [<-|Hr]; [|auto]. intro Hc. apply mem_pstr_In in Hc. congruence.
      * intros H r Hr. apply H. auto.
Qed.

(* when no qualified name is listed by two rules, "the first rule listing it" is "the rule listing it" *)
Definition rules_disjoint (rules : list bl_rule) : Prop :=
  forall r1 r2 q, In r1 rules -> In r2 rules -> In q (bl_qualnames r1) -> In q (bl_qualnames r2) ->
                  bl_id r1 = bl_id r2.

Lemma first_rule_listing_unique name rules r r' :
  rules_disjoint rules ->
  first_rule_listing name rules = Some r -> In r' rules -> In name (bl_qualnames r') ->
  bl_id r' = bl_id r.
Proof.
  intros Hd Hf Hin Hq. destruct (first_rule_listing_some _ _ _ Hf) as [l1 [l2 [-> [Hn _]]]].
  apply (Hd r' r name); auto. apply in_or_app. right. left. reflexivity.
Qed.

(* ---------- fields of the issue the check builds ---------- *)
Lemma report_issue_fields r name :
  ri_sev (report_issue r name) = bl_level r /\ ri_conf (report_issue r name) = HIGH /\
  ri_test_id (report_issue r name) = Some (bl_id r) /\ ri_lineno (report_issue r name) = None /\
  ri_cwe (report_issue r name) = bl_cwe r.
Proof. repeat split. Qed.

(* ---------- name resolution over attribute chains ---------- *)

Definition mk_name (id : pstr) : node :=
  Node "Name" None [("id", NId id); ("ctx", Node "Load" None [])].
Definition mk_attr (v : node) (a : pstr) : node :=
  Node "Attribute" None [("value", v); ("attr", NId a); ("ctx", Node "Load" None [])].
Definition mk_chain (root : pstr) (attrs : list pstr) : node :=
  fold_left mk_attr attrs (mk_name root).

Definition dotted (root : pstr) (attrs : list pstr) : pstr :=
  fold_left (fun acc a => acc ++ [dot] ++ a) attrs root.

Definition keys_dotfree (A : list (pstr * pstr)) : Prop :=
  forall k, In k (map fst A) -> ~ In dot k.

Lemma alias_or_dotted_key A s a : keys_dotfree A -> alias_or A (s ++ [dot] ++ a) = s ++ [dot] ++ a.
Proof.
  intro Hk. unfold alias_or. rewrite assoc_None_notin; [reflexivity|].
  intro Hin. apply (Hk _ Hin). apply in_or_app. right. left. reflexivity.
Qed.

Lemma attr_qual_name_name id A : attr_qual_name (mk_name id) A = alias_or A id.
Proof. reflexivity. Qed.

Lemma attr_qual_name_attr v a A :
  attr_qual_name (mk_attr v a) A = alias_or A (attr_qual_name v A ++ [dot] ++ a).
Proof. reflexivity. Qed.

(* positions do not matter for resolution: the same holds for nodes with any pos; we state the
   theorem on position-less chains and the correspondence check exercises positioned ones. *)
Theorem resolve_chain A root attrs :
  keys_dotfree A ->
  attr_qual_name (mk_chain root attrs) A = dotted (alias_or A root) attrs.
Proof.
  intro Hk. unfold mk_chain, dotted.
  assert (G : forall attrs n s, attr_qual_name n A = s ->
            attr_qual_name (fold_left mk_attr attrs n) A
            = fold_left (fun acc a => acc ++ [dot] ++ a) attrs s).
  { clear root attrs. induction attrs as [|a t IH]; intros n s Hn; simpl; [exact Hn|].
    apply IH. rewrite attr_qual_name_attr, Hn. apply alias_or_dotted_key; exact Hk. }
  apply G. reflexivity.
Qed.

Definition mk_call (func : node) (args kws : list node) : node :=
  Node "Call" None [("func", func); ("args", NList args); ("keywords", NList kws)].

Theorem call_name_chain A root attrs args kws :
  keys_dotfree A ->
  get_call_name (mk_call (mk_chain root attrs) args kws) A = dotted (alias_or A root) attrs.
Proof.
  intro Hk. unfold get_call_name.
  induction attrs as [|a attrs _] using rev_ind.
  - reflexivity.
  - unfold mk_chain. rewrite fold_left_app. simpl.
    change (fold_left mk_attr attrs (mk_name root)) with (mk_chain root attrs).
    change (field "func" (mk_call (mk_attr (mk_chain root attrs) a) args kws))
      with (mk_attr (mk_chain root attrs) a).
    cbn [is_cls mk_attr String.eqb]. simpl.
    rewrite (resolve_chain A root attrs Hk).
    unfold dotted. rewrite fold_left_app. simpl.
    apply alias_or_dotted_key; exact Hk.
Qed.

(* ---------- what each import spelling does to the alias table ---------- *)

Definition mk_alias (name : pstr) (asname : option pstr) : node :=
  Node "alias" None [("name", NId name); ("asname", match asname with Some s => NId s | None => NNone end)].

Definition st0 (A : list (pstr * pstr)) (I : list pstr) : vstate := VState I A ts_init ([], []).

Lemma do_import_as A I m a :
  a <> [] ->
  v_aliases (fst (do_import [mk_alias m (Some a)] (st0 A I))) = assoc_set a m A.
Proof. intro Ha. destruct a; [contradiction|]. reflexivity. Qed.

Lemma do_import_plain A I m :
  v_aliases (fst (do_import [mk_alias m None] (st0 A I))) = A.
Proof. reflexivity. Qed.

Lemma do_import_from_plain A I m f :
  v_aliases (fst (do_import_from m [mk_alias f None] (st0 A I))) = assoc_set f (m ++ [dot] ++ f) A.
Proof. reflexivity. Qed.

Lemma do_import_from_as A I m f g :
  g <> [] ->
  v_aliases (fst (do_import_from m [mk_alias f (Some g)] (st0 A I))) = assoc_set g (m ++ [dot] ++ f) A.
Proof. intro Hg. destruct g; [contradiction|]. reflexivity. Qed.

Lemma keys_dotfree_set A k v : keys_dotfree A -> ~ In dot k -> keys_dotfree (assoc_set k v A).
Proof.
  intros HA Hk x Hx. apply assoc_set_keys in Hx. destruct Hx as [->|Hx]; auto.
Qed.

Lemma alias_or_set A k v : alias_or (assoc_set k v A) k = v.
Proof. unfold alias_or. rewrite assoc_set_same. reflexivity. Qed.

Lemma alias_or_set_other A k k' v : k <> k' -> alias_or (assoc_set k' v A) k = alias_or A k.
Proof. intro H. unfold alias_or. rewrite assoc_set_other; auto. Qed.

Lemma dotted_app root a b : dotted root (a ++ b) = dotted (dotted root a) b.
Proof. unfold dotted. apply fold_left_app. Qed.

(* The spellings.  q = dotted m0 (ms ++ rs) is the blacklisted name, with module part m0.ms and
   remainder rs; every local name bound by the import is dot-free. *)
Section Spellings.
  Variables (A : list (pstr * pstr)) (I : list pstr).
  Hypothesis HA : keys_dotfree A.
  Variables (m0 : pstr) (ms rs : list pstr) (args kws : list node).
  Let m := dotted m0 ms.
  Let q := dotted m0 (ms ++ rs).

  (* import m ; m.rs(...) : requires that the root name is not itself an alias *)
  Theorem spelling_import_m :
    assoc m0 A = None ->
    get_call_name (mk_call (mk_chain m0 (ms ++ rs)) args kws)
                  (v_aliases (fst (do_import [mk_alias m None] (st0 A I)))) = q.
  Proof.
    intro Hm0. rewrite do_import_plain, call_name_chain by exact HA.
    unfold alias_or. rewrite Hm0. reflexivity.
  Qed.

  (* import m as a ; a.rs(...) *)
  Theorem spelling_import_m_as a :
    a <> [] -> ~ In dot a ->
    get_call_name (mk_call (mk_chain a rs) args kws)
                  (v_aliases (fst (do_import [mk_alias m (Some a)] (st0 A I)))) = q.
  Proof.
    intros Ha Hd. rewrite do_import_as by exact Ha.
    rewrite call_name_chain by (apply keys_dotfree_set; assumption).
    rewrite alias_or_set. unfold q, m. symmetry. apply dotted_app.
  Qed.

  (* from p import x [as a] ; x.rs(...)   where p.x = m, i.e. ms = ps ++ [x] *)
  Theorem spelling_from_p_import_x ps x :
    ms = ps ++ [x] -> ~ In dot x ->
    get_call_name (mk_call (mk_chain x rs) args kws)
                  (v_aliases (fst (do_import_from (dotted m0 ps) [mk_alias x None] (st0 A I)))) = q.
  Proof.
    intros Hms Hd. rewrite do_import_from_plain.
    rewrite call_name_chain by (apply keys_dotfree_set; assumption).
    rewrite alias_or_set. unfold q. rewrite Hms, !dotted_app. reflexivity.
  Qed.

  Theorem spelling_from_p_import_x_as ps x a :
    ms = ps ++ [x] -> a <> [] -> ~ In dot a ->
    get_call_name (mk_call (mk_chain a rs) args kws)
                  (v_aliases (fst (do_import_from (dotted m0 ps) [mk_alias x (Some a)] (st0 A I)))) = q.
  Proof.
    intros Hms Ha Hd. rewrite do_import_from_as by exact Ha.
    rewrite call_name_chain by (apply keys_dotfree_set; assumption).
    rewrite alias_or_set. unfold q. rewrite Hms, !dotted_app. reflexivity.
  Qed.

  (* from m import f [as g] ; f(...)   where rs = [f] *)
  Theorem spelling_from_m_import_f f :
    rs = [f] -> ~ In dot f ->
    get_call_name (mk_call (mk_name f) args kws)
                  (v_aliases (fst (do_import_from m [mk_alias f None] (st0 A I)))) = q.
  Proof.
    intros Hrs Hd. rewrite do_import_from_plain.
    change (mk_name f) with (mk_chain f []).
    rewrite call_name_chain by (apply keys_dotfree_set; assumption).
    rewrite alias_or_set. unfold q, m. rewrite Hrs, dotted_app. reflexivity.
  Qed.

  Theorem spelling_from_m_import_f_as f g :
    rs = [f] -> g <> [] -> ~ In dot g ->
    get_call_name (mk_call (mk_name g) args kws)
                  (v_aliases (fst (do_import_from m [mk_alias f (Some g)] (st0 A I)))) = q.
  Proof.
    intros Hrs Hg Hd. rewrite do_import_from_as by exact Hg.
    change (mk_name g) with (mk_chain g []).
    rewrite call_name_chain by (apply keys_dotfree_set; assumption).
    rewrite alias_or_set. unfold q, m. rewrite Hrs, dotted_app. reflexivity.
  Qed.

  (* import top as a ; a.ms.rs(...) *)
  Theorem spelling_import_top_as a :
    a <> [] -> ~ In dot a ->
    get_call_name (mk_call (mk_chain a (ms ++ rs)) args kws)
                  (v_aliases (fst (do_import [mk_alias m0 (Some a)] (st0 A I)))) = q.
  Proof.
    intros Ha Hd. rewrite do_import_as by exact Ha.
    rewrite call_name_chain by (apply keys_dotfree_set; assumption).
    rewrite alias_or_set. reflexivity.
  Qed.
End Spellings.

(* a later import that binds a different local name does not disturb the resolution *)
Theorem later_import_preserves A k v root attrs args kws :
  keys_dotfree A -> ~ In dot k -> k <> root ->
  get_call_name (mk_call (mk_chain root attrs) args kws) (assoc_set k v A)
  = get_call_name (mk_call (mk_chain root attrs) args kws) A.
Proof.
  intros HA Hk Hne.
  rewrite !call_name_chain by (try apply keys_dotfree_set; assumption).
  rewrite alias_or_set_other by congruence. reflexivity.
Qed.

(* ---------- decidable form of rules_disjoint, for the instance obligation ---------- *)
Definition rules_disjointb (rules : list bl_rule) : bool :=
  forallb (fun r1 => forallb (fun r2 =>
     pstr_eqb (bl_id r1) (bl_id r2)
     || negb (existsb (fun q => mem_pstr q (bl_qualnames r2)) (bl_qualnames r1))) rules) rules.

Lemma rules_disjointb_sound rules : rules_disjointb rules = true -> rules_disjoint rules.
Proof.
  unfold rules_disjointb, rules_disjoint. intros H r1 r2 q H1 H2 Hq1 Hq2.
  rewrite forallb_forall in H. specialize (H r1 H1). rewrite forallb_forall in H. specialize (H r2 H2).
  apply orb_true_iff in H as [H|H].
  - apply pstr_eqb_spec; exact H.
  - exfalso. apply negb_true_iff in H.
    assert (existsb (fun q => mem_pstr q (bl_qualnames r2)) (bl_qualnames r1) = true).
    { apply existsb_exists. exists q. split; [exact Hq1 | apply mem_pstr_In; exact Hq2]. }
    congruence.
Qed.

(* the call-branch decision, end to end, for a resolved string name *)
Theorem blacklist_call_decision tab rules (c : ctx) s :
  cls_of (c_node c) = "Call" ->
  bl_lookup "Call" tab = Some rules ->
  blacklist_call_name c = Ok (PStr s) ->
  (forall r, first_rule_listing s rules = Some r -> blacklist tab c = Ok (Some (report_issue r s))) /\
  (first_rule_listing s rules = None -> blacklist tab c = Ok None).
Proof.
  intros Hc Ht Hn. unfold blacklist. rewrite Hc. simpl. rewrite Hn. simpl. rewrite Ht.
  split.
  - intros r Hr. rewrite Hr. reflexivity.
  - intro Hr. rewrite Hr. reflexivity.
Qed.

(* ---------- imports: a hit is exactly a dotted prefix ---------- *)
Definition dotted_prefix (full qn : pstr) : Prop := full = qn \/ exists t, full = qn ++ [dot] ++ t.

Lemma dotted_prefix_b_spec full qn : dotted_prefix_b full qn = true <-> dotted_prefix full qn.
Proof.
  unfold dotted_prefix_b, dotted_prefix. rewrite orb_true_iff, pstr_eqb_spec, startswith_spec.
  split; intros [H|[t H]]; auto; right; exists t; rewrite H; rewrite <- app_assoc; reflexivity.
Qed.

Definition alias_nm (a : node) : pstr := match field "name" a with NId s => s | _ => [] end.

Lemma import_hit_some prefix names r nm :
  import_hit prefix names r = Some nm ->
  exists a qn, In a names /\ alias_nm a = nm /\ In qn (bl_qualnames r) /\ dotted_prefix (prefix ++ nm) qn.
Proof.
  unfold import_hit. destruct (find _ names) as [a|] eqn:F; [|discriminate].
  intro H; inversion H; subst. apply find_some in F as [Hin Hex].
  apply existsb_exists in Hex as [qn [Hq Hd]]. exists a, qn. repeat split; auto.
  apply dotted_prefix_b_spec. exact Hd.
Qed.

Lemma import_hit_none prefix names r :
  import_hit prefix names r = None <->
  forall a qn, In a names -> In qn (bl_qualnames r) -> ~ dotted_prefix (prefix ++ alias_nm a) qn.
Proof.
  unfold import_hit. split.
  - destruct (find _ names) as [a|] eqn:F; [discriminate|]. intros _ a qn Ha Hq Hd.
    pose proof (find_none _ _ F a Ha) as Hn. simpl in Hn.
    assert (existsb (fun qn0 => dotted_prefix_b (prefix ++ alias_nm a) qn0) (bl_qualnames r) = true).
    { apply existsb_exists. exists qn. split; [exact Hq | apply dotted_prefix_b_spec; exact Hd]. }
    exact (eq_true_false_abs _ H Hn).
  - intro H. destruct (find _ names) as [a|] eqn:F; [|reflexivity]. exfalso.
    apply find_some in F as [Hin Hex]. apply existsb_exists in Hex as [qn [Hq Hd]].
    apply (H a qn Hin Hq). apply dotted_prefix_b_spec. exact Hd.
Qed.

(* the import check reports iff some listed module is a dotted prefix of an imported name *)
Theorem import_reported_iff prefix names rules :
  (exists r nm, first_import_rule prefix names rules = Some (r, nm)) <->
  (exists r a qn, In r rules /\ In a names /\ In qn (bl_qualnames r)
                  /\ dotted_prefix (prefix ++ alias_nm a) qn).
Proof.
  induction rules as [|x t IH]; simpl.
  - split; [intros [r [nm H]]; discriminate | intros [r [a [qn [[] _]]]]].
  - destruct (import_hit prefix names x) as [nm|] eqn:E.
    + split; [|intros _; exists x, nm; reflexivity].
      intros _. apply import_hit_some in E as [a [qn [Ha [Hn [Hq Hd]]]]].
      exists x, a, qn. subst nm. auto.
    + rewrite IH. split.
      * intros [r [a [qn [Hr H]]]]. exists r, a, qn. tauto.
      * intros [r [a [qn [[<-|Hr] [Ha [Hq Hd]]]]]].
        -- exfalso. rewrite import_hit_none in E. apply (E a qn Ha Hq Hd).
        -- exists r, a, qn. auto.
Qed.
