(* Position-equivariance of the "shell" plugin family (B602..B607, B609). *)
From Coq Require Import List NArith ZArith Bool String Lia.
From Bandit Require Import Base.PyStr Ast.Node Engine.Types Engine.Resolve Engine.Context Engine.Scan
     Engine.Shift Plugins.Shell Proofs.ShiftFacts Proofs.ShiftContext.
Import ListNotations.
Local Open Scope string_scope.
Local Open Scope list_scope.

Section S.
  Variable at_ : Z.
  Variable ins : list pstr.
  Notation sh := (sh at_ ins).
  Notation sh_node := (sh_node at_ ins).
  Notation sh_ctx := (sh_ctx at_ ins).
  Notation sh_res := (sh_res at_ ins).
  Notation sh_ri := (sh_ri at_ ins).
  Notation sh_pyval := (sh_pyval at_ ins).

  (* ---------- configuration side: only the qualified name of the call is read ---------- *)
  Lemma in_section_sh k cfg c : in_section k cfg (sh_ctx c) = in_section k cfg c.
  Proof. reflexivity. Qed.
  Lemma in_any_section_sh cfg c : in_any_section cfg (sh_ctx c) = in_any_section cfg c.
  Proof. reflexivity. Qed.

  Lemma nonempty_map {A B} (f : A -> B) l : nonempty (map f l) = nonempty l.
  Proof. destruct l; reflexivity. Qed.

  (* ---------- has_shell ---------- *)
  Lemma shell_value_truth_sh v : shell_value_truth (sh_node v) = shell_value_truth v.
  Proof.
    unfold shell_value_truth.
    rewrite (is_Num_sh at_ ins), (const_of_sh at_ ins), !(is_cls_sh at_ ins), !(field_list_sh at_ ins),
      !nonempty_map, (is_Str_sh at_ ins), (is_Bytes_sh at_ ins), (name_id_sh at_ ins), (is_NameConstant_sh at_ ins).
    reflexivity.
  Qed.

  Lemma is_shell_kw_sh k : is_shell_kw (sh_node k) = is_shell_kw k.
  Proof. unfold is_shell_kw. rewrite (kw_arg_sh at_ ins). reflexivity. Qed.

  Lemma has_shell_loop_sh kws : has_shell_loop (map sh_node kws) = has_shell_loop kws.
  Proof.
    unfold has_shell_loop.
    set (step := fun (r : bool) (k : node) => if is_shell_kw k then shell_value_truth (field "value" k) else r).
    assert (G : forall b0, fold_left step (map sh_node kws) b0 = fold_left step kws b0).
    { induction kws as [|k t IH]; intro b0; [reflexivity|]. cbn [map fold_left].
      replace (step b0 (sh_node k)) with (step b0 k); [apply IH|].
      unfold step. rewrite is_shell_kw_sh, (field_sh at_ ins), shell_value_truth_sh. reflexivity. }
    apply G.
  Qed.

  Lemma has_shell_sh c : has_shell (sh_ctx c) = has_shell c.
  Proof.
    unfold has_shell. rewrite (c_node_sh at_ ins), (field_opt_sh at_ ins).
    destruct (field_opt "keywords" (c_node c)) as [kws|]; [|reflexivity]. cbn [option_map].
    rewrite (call_keywords_sh at_ ins). destruct (call_keywords c) as [[d|]|e]; try reflexivity.
    cbn [map_res option_map bind]. rewrite (kw_mem_sh at_ ins), (items_sh at_ ins), has_shell_loop_sh. reflexivity.
  Qed.

  (* ---------- _evaluate_shell_call ---------- *)
  Lemma first_arg_sh c : first_arg (sh_ctx c) = map_res sh_node (first_arg c).
  Proof.
    unfold first_arg. rewrite (c_node_sh at_ ins), (field_opt_sh at_ ins).
    destruct (field_opt "args" (c_node c)) as [a|]; [|reflexivity]. cbn [option_map].
    rewrite (items_sh at_ ins). destruct (items a); reflexivity.
  Qed.

  Lemma grade_sh a : grade (sh_node a) = grade a.
  Proof. unfold grade. rewrite (is_Str_sh at_ ins). reflexivity. Qed.

  Lemma evaluate_shell_call_sh c : evaluate_shell_call (sh_ctx c) = evaluate_shell_call c.
  Proof.
    unfold evaluate_shell_call. rewrite first_arg_sh. destruct (first_arg c) as [a|e]; [|reflexivity].
    cbn [map_res bind]. rewrite grade_sh. reflexivity.
  Qed.

  Lemma nonempty_call_args_sh {A} c (k1 k2 : res A) :
    (do args <- call_args (sh_ctx c);; if nonempty args then k1 else k2)
    = (do args <- call_args c;; if nonempty args then k1 else k2).
  Proof.
    rewrite (call_args_sh at_ ins). destruct (call_args c) as [l|e]; [|reflexivity].
    cbn [map_res bind]. rewrite nonempty_map. reflexivity.
  Qed.

  (* ---------- issues ---------- *)
  Lemma issue_sh sev conf cwe text ln : sh_ri (issue sev conf cwe text ln) = issue sev conf cwe text (option_map sh ln).
  Proof. reflexivity. Qed.
  Lemma shell_line_sh c : shell_line (sh_ctx c) = option_map sh (shell_line c).
  Proof. apply get_lineno_for_call_arg_sh. Qed.

  Lemma b602_issue_sh sev c : b602_issue sev (sh_ctx c) = sh_ri (b602_issue sev c).
  Proof. unfold b602_issue. rewrite shell_line_sh. destruct sev; reflexivity. Qed.
  Lemma b603_issue_sh c : b603_issue (sh_ctx c) = sh_ri (b603_issue c).
  Proof. unfold b603_issue. rewrite shell_line_sh. reflexivity. Qed.
  Lemma b604_issue_sh c : b604_issue (sh_ctx c) = sh_ri (b604_issue c).
  Proof. unfold b604_issue. rewrite shell_line_sh. reflexivity. Qed.
  Lemma b605_issue_sh sev : sh_ri (b605_issue sev) = b605_issue sev.
  Proof. destruct sev; reflexivity. Qed.
  Lemma b606_issue_sh : sh_ri b606_issue = b606_issue.
  Proof. reflexivity. Qed.
  Lemma b607_issue_sh : sh_ri b607_issue = b607_issue.
  Proof. reflexivity. Qed.
  Lemma b609_issue_sh c : b609_issue (sh_ctx c) = sh_ri (b609_issue c).
  Proof. unfold b609_issue. rewrite shell_line_sh. reflexivity. Qed.

  (* ---------- B602 ---------- *)
  Lemma b602_shift : forall cfg c, b602 cfg (sh_ctx c) = sh_res (b602 cfg c).
  Proof.
    intros cfg c. unfold b602. destruct (cfg_truthy cfg); [|reflexivity].
    rewrite in_section_sh. destruct (in_section sec_subprocess cfg c) as [[|]|e]; try reflexivity. cbn [bind].
    rewrite has_shell_sh. destruct (has_shell c) as [[|]|e]; try reflexivity. cbn [bind].
    rewrite (call_args_sh at_ ins). destruct (call_args c) as [l|e]; [|reflexivity]. cbn [map_res bind].
    rewrite nonempty_map. destruct (nonempty l); [|reflexivity].
    rewrite evaluate_shell_call_sh. destruct (evaluate_shell_call c) as [sev|e]; [|reflexivity]. cbn [bind].
    rewrite b602_issue_sh. reflexivity.
  Qed.

  (* ---------- B603 ---------- *)
  Lemma b603_shift : forall cfg c, b603 cfg (sh_ctx c) = sh_res (b603 cfg c).
  Proof.
    intros cfg c. unfold b603. destruct (cfg_truthy cfg); [|reflexivity].
    rewrite in_section_sh. destruct (in_section sec_subprocess cfg c) as [[|]|e]; try reflexivity. cbn [bind].
    rewrite has_shell_sh. destruct (has_shell c) as [[|]|e]; try reflexivity. cbn [bind].
    rewrite b603_issue_sh. reflexivity.
  Qed.

  (* ---------- B604 ---------- *)
  Lemma b604_shift : forall cfg c, b604 cfg (sh_ctx c) = sh_res (b604 cfg c).
  Proof.
    intros cfg c. unfold b604. destruct (cfg_truthy cfg); [|reflexivity].
    rewrite in_section_sh. destruct (in_section sec_subprocess cfg c) as [[|]|e]; try reflexivity. cbn [bind].
    rewrite has_shell_sh. destruct (has_shell c) as [[|]|e]; try reflexivity. cbn [bind].
    rewrite b604_issue_sh. reflexivity.
  Qed.

  (* ---------- B605 ---------- *)
  Lemma b605_shift : forall cfg c, b605 cfg (sh_ctx c) = sh_res (b605 cfg c).
  Proof.
    intros cfg c. unfold b605. destruct (cfg_truthy cfg); [|reflexivity].
    rewrite in_section_sh. destruct (in_section sec_shell cfg c) as [[|]|e]; try reflexivity. cbn [bind].
    rewrite (call_args_sh at_ ins). destruct (call_args c) as [l|e]; [|reflexivity]. cbn [map_res bind].
    rewrite nonempty_map. destruct (nonempty l); [|reflexivity].
    rewrite evaluate_shell_call_sh. destruct (evaluate_shell_call c) as [sev|e]; [|reflexivity]. cbn [bind].
    cbn [Shift.sh_res]. rewrite b605_issue_sh. reflexivity.
  Qed.

  (* ---------- B606 ---------- *)
  Lemma b606_shift : forall cfg c, b606 cfg (sh_ctx c) = sh_res (b606 cfg c).
  Proof.
    intros cfg c. unfold b606. destruct (cfg_truthy cfg); [|reflexivity].
    rewrite in_section_sh. destruct (in_section sec_no_shell cfg c) as [[|]|e]; reflexivity.
  Qed.

  (* ---------- B607 ---------- *)
  Lemma path_node_sh a : path_node (sh_node a) = sh_node (path_node a).
  Proof.
    unfold path_node. rewrite (is_cls_sh at_ ins), (field_list_sh at_ ins).
    destruct (is_cls "List" a); [|reflexivity]. destruct (field_list "elts" a); reflexivity.
  Qed.
  Lemma is_partial_path_sh n : is_partial_path (sh_node n) = is_partial_path n.
  Proof. unfold is_partial_path. rewrite (str_of_sh at_ ins). reflexivity. Qed.

  Lemma b607_shift : forall cfg c, b607 cfg (sh_ctx c) = sh_res (b607 cfg c).
  Proof.
    intros cfg c. unfold b607. destruct (cfg_truthy cfg); [|reflexivity].
    rewrite (call_args_sh at_ ins). destruct (call_args c) as [l|e]; [|reflexivity]. cbn [map_res bind].
    rewrite nonempty_map. destruct (nonempty l); [|reflexivity].
    rewrite in_any_section_sh. destruct (in_any_section cfg c) as [[|]|e]; try reflexivity. cbn [bind].
    rewrite first_arg_sh. destruct (first_arg c) as [a|e]; [|reflexivity]. cbn [map_res bind].
    rewrite path_node_sh, is_partial_path_sh. destruct (is_partial_path (path_node a)); reflexivity.
  Qed.

  (* ---------- B609 ---------- *)
  Lemma fmt_elem_sh v : fmt_elem (sh_pyval v) = fmt_elem v.
  Proof. destruct v; reflexivity. Qed.

  Lemma argument_string_sh v : argument_string (sh_pyval v) = argument_string v.
  Proof.
    destruct v as [ | | | | | | l | l | l | kv ]; try reflexivity.
    rewrite (sh_pyval_PList at_ ins). cbn [argument_string].
    induction l as [|x t IH]; [reflexivity|]. cbn [map flat_map]. rewrite fmt_elem_sh, IH. reflexivity.
  Qed.

  Lemma b609_applies_sh cfg c : b609_applies cfg (sh_ctx c) = b609_applies cfg c.
  Proof.
    unfold b609_applies. rewrite !in_section_sh.
    apply bind_ext. intros [|]; [reflexivity|]. apply bind_ext. intros [|]; [|reflexivity]. apply has_shell_sh.
  Qed.

  Lemma b609_shift : forall cfg c, b609 cfg (sh_ctx c) = sh_res (b609 cfg c).
  Proof.
    intros cfg c. unfold b609. destruct (b609_cfg_ok cfg) as [ok|e]; [|reflexivity]. cbn [bind].
    destruct (negb ok); [reflexivity|].
    rewrite b609_applies_sh. destruct (b609_applies cfg c) as [[|]|e]; try reflexivity. cbn [bind].
    rewrite (call_args_count_sh at_ ins). destruct (call_args_count c) as [n|]; [|reflexivity].
    destruct (Nat.leb 1 n); [|reflexivity].
    rewrite (get_call_arg_at_position_sh at_ ins).
    destruct (get_call_arg_at_position c 0) as [a|e]; [|reflexivity]. cbn [map_res bind].
    rewrite argument_string_sh. destruct (wildcard_hit (argument_string a)); [|reflexivity].
    rewrite b609_issue_sh. reflexivity.
  Qed.

  (* ---------- the family ---------- *)
  Theorem shell_plugins_equiv :
    Forall (fun p => forall cfg c, pl_fn p cfg (sh_ctx c) = sh_res (pl_fn p cfg c)) shell_plugins.
  Proof.
    unfold shell_plugins. repeat constructor; cbn [pl_fn].
    - apply b602_shift.
    - apply b603_shift.
    - apply b604_shift.
    - apply b605_shift.
    - apply b606_shift.
    - apply b607_shift.
    - apply b609_shift.
  Qed.
End S.
