From Coq Require Import List NArith ZArith Bool String Arith Lia.
From Bandit Require Import Base.PyStr Engine.Types Engine.Tester Cli.Thresholds Proofs.PyStrFacts.
Import ListNotations.

Lemma index_of_std r : index_of (rank_name r) std_ranking = Some (rank_ord r).
Proof. destruct r; vm_compute; reflexivity. Qed.

Lemma index_ge_std a b : index_ge std_ranking (rank_name a) (rank_name b) = Some (Nat.leb (rank_ord b) (rank_ord a)).
Proof. unfold index_ge. rewrite !index_of_std. reflexivity. Qed.

Lemma issue_filter_std sev conf f :
  issue_filter std_ranking (rank_name sev) (rank_name conf) f = Some (meets sev conf f).
Proof.
  unfold issue_filter, meets. rewrite index_ge_std.
  destruct (Nat.leb (rank_ord sev) (rank_ord (f_sev f))); simpl; [apply index_ge_std | reflexivity].
Qed.

Lemma filter_results_std sev conf l :
  filter_results std_ranking (rank_name sev) (rank_name conf) l = Some (filter (meets sev conf) l).
Proof.
  induction l as [|f t IH]; simpl; [reflexivity|].
  rewrite issue_filter_std, IH. destruct (meets sev conf f); reflexivity.
Qed.

(* the report is exactly the sub-list meeting both thresholds, order preserved *)
Theorem report_exact sev conf ez l :
  snd (exit_status std_ranking (rank_name sev) (rank_name conf) ez l) = filter (meets sev conf) l.
Proof. unfold exit_status. rewrite filter_results_std. reflexivity. Qed.

Theorem exit_iff sev conf ez l :
  fst (exit_status std_ranking (rank_name sev) (rank_name conf) ez l) = Exit 1
  <-> (ez = false /\ exists f, In f l /\ meets sev conf f = true).
Proof.
  unfold exit_status. rewrite filter_results_std. simpl.
  destruct (filter (meets sev conf) l) as [|x t] eqn:E; simpl.
  - split; [discriminate|]. intros [_ [f [Hin Hm]]].
    assert (In f (filter (meets sev conf) l)) by (apply filter_In; auto). rewrite E in H. destruct H.
  - destruct ez; simpl.
    + split; [discriminate | intros [H _]; discriminate].
    + split; [|reflexivity]. intros _. split; [reflexivity|].
      exists x. apply filter_In. rewrite E. left. reflexivity.
Qed.

Theorem exit_otherwise_zero sev conf ez l :
  fst (exit_status std_ranking (rank_name sev) (rank_name conf) ez l) = Exit 1 \/
  fst (exit_status std_ranking (rank_name sev) (rank_name conf) ez l) = Exit 0.
Proof.
  unfold exit_status. rewrite filter_results_std. simpl.
  destruct (negb (List.length (filter (meets sev conf) l) =? 0) && negb ez); auto.
Qed.

Theorem exit_zero_always_zero sev conf l :
  fst (exit_status std_ranking (rank_name sev) (rank_name conf) true l) = Exit 0.
Proof. unfold exit_status. rewrite filter_results_std. simpl. rewrite andb_false_r. reflexivity. Qed.

(* the list deciding the exit status is the list handed to the formatter *)
Theorem same_list sev conf ez l :
  let '(o, rep) := exit_status std_ranking (rank_name sev) (rank_name conf) ez l in
  (o = Exit 1 <-> (rep <> [] /\ ez = false)).
Proof.
  unfold exit_status. rewrite filter_results_std.
  destruct (filter (meets sev conf) l) as [|x t]; destruct ez; simpl; split; intro H.
  - discriminate.
  - destruct H as [_ H]; discriminate.
  - discriminate.
  - destruct H as [H _]; exfalso; apply H; reflexivity.
  - discriminate.
  - destruct H as [_ H]; discriminate.
  - split; [discriminate | reflexivity].
  - reflexivity.
Qed.

(* raising a threshold only removes findings *)
Theorem threshold_monotone s1 s2 c1 c2 l f :
  rank_ord s1 <= rank_ord s2 -> rank_ord c1 <= rank_ord c2 ->
  In f (filter (meets s2 c2) l) -> In f (filter (meets s1 c1) l).
Proof.
  intros Hs Hc Hin. apply filter_In in Hin as [Hl Hm]. apply filter_In. split; [exact Hl|].
  unfold meets in *. apply andb_true_iff in Hm as [H1 H2]. apply Nat.leb_le in H1, H2.
  apply andb_true_iff. split; apply Nat.leb_le; lia.
Qed.

(* a finding below either threshold is never reported *)
Theorem below_threshold_not_reported sev conf l f :
  In f (filter (meets sev conf) l) ->
  rank_ord sev <= rank_ord (f_sev f) /\ rank_ord conf <= rank_ord (f_conf f).
Proof.
  intro H. apply filter_In in H as [_ Hm]. unfold meets in Hm.
  apply andb_true_iff in Hm as [H1 H2]. apply Nat.leb_le in H1, H2. tauto.
Qed.

(* -l x k  and the k-th --severity-level choice give the same rank, for any ranking constant *)
Theorem count_levels_std k r :
  nth_error all_ranks k = Some r -> level_of_count std_ranking (S k) = Some (rank_name r).
Proof.
  intro H. simpl. unfold std_ranking. rewrite nth_error_map, H. reflexivity.
Qed.

Theorem count_out_of_range ranking k : List.length ranking <= k -> level_of_count ranking (S k) = None.
Proof. intro H. simpl. apply nth_error_None. exact H. Qed.
