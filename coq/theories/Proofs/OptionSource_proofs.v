From Coq Require Import List NArith Bool.
From Bandit Require Import Base.PyStr Proofs.PyStrFacts Cli.Config Cli.OptionSource.
Import ListNotations.

Lemma opt_eqb_true a b : opt_eqb a b = true <-> a = b.
Proof.
  destruct a as [x|], b as [y|]; simpl; split; intro H; try discriminate; try reflexivity.
  - apply pstr_eqb_spec in H. subst. reflexivity.
  - injection H as ->. apply pstr_eqb_refl.
Qed.

(* an option with a parser default: whatever the command line says, if it is not the default, is what applies - the empty
   string included (-x '' switches the default excludes off, and a .bandit value does not bring them back) *)
Theorem cli_value_wins d a ini : Some d <> a -> log_option_source (Some d) a ini = a.
Proof.
  intro H. unfold log_option_source. destruct (opt_eqb (Some d) a) eqn:E; [|reflexivity].
  apply opt_eqb_true in E. congruence.
Qed.

(* nothing given on the command line (the value is the default): the .bandit value if it has one, else the default *)
Theorem ini_then_default d ini :
  log_option_source (Some d) (Some d) ini = if truthy ini then ini else Some d.
Proof. unfold log_option_source. rewrite (proj2 (opt_eqb_true (Some d) (Some d)) eq_refl). reflexivity. Qed.

(* an option without a parser default (-t, -s, -c, ...): the command line, then the .bandit file; this is Config.option_source *)
Theorem no_default_is_option_source a ini : log_option_source None a ini = option_source a ini.
Proof. unfold log_option_source, option_source, truthy. destruct a as [[|c s]|], ini as [[|c' s']|]; reflexivity. Qed.

(* the result is always one of the three inputs (nothing is invented) *)
Theorem result_is_an_input d a ini :
  log_option_source d a ini = a \/ log_option_source d a ini = ini \/ log_option_source d a ini = None.
Proof.
  unfold log_option_source. destruct d as [d|].
  - destruct (opt_eqb (Some d) a); [destruct (truthy ini)|]; auto.
  - destruct (truthy a); [auto|]. destruct (truthy ini); auto.
Qed.
