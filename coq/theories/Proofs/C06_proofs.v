From Coq Require Import List NArith ZArith Bool String Lia.
From Bandit Require Import Base.PyStr Ast.Node Engine.Types Engine.Tables Engine.Resolve Engine.Context Engine.Tester
     Engine.Visitor Engine.Scan Plugins.Blacklist Plugins.Trojan Proofs.PyStrFacts Proofs.Shell_proofs Proofs.C05_proofs.
Import ListNotations.
Local Open Scope string_scope.
Local Open Scope list_scope.

(* ---------- the built-in blacklist check never raises on a context the visitor builds ---------- *)
Theorem blacklist_never_raises tab c call :
  c_call c = Some call ->
  (bl_lookup (cls_of (c_node c)) tab = None ->
     cls_of (c_node c) <> "Call" /\ cls_of (c_node c) <> "Import" /\ cls_of (c_node c) <> "ImportFrom") ->
  exists r, blacklist tab c = Ok r.
Proof.
  intros Hcall Htab. unfold blacklist.
  destruct (String.eqb (cls_of (c_node c)) "Call") eqn:E1.
  - assert (Hn : exists v, blacklist_call_name c = Ok v).
    { unfold blacklist_call_name.
      destruct (is_cls "Name" (field "func" (c_node c)) && pstr_eqb (name_id (field "func" (c_node c))) (s2p "__import__")).
      - destruct (field_list "args" (c_node c)) as [|a ?]; [eexists; reflexivity|].
        destruct (str_of a); eexists; reflexivity.
      - destruct (c_qualname c) as [q|]; [|eexists; reflexivity].
        destruct (mem_pstr q _); [|eexists; reflexivity].
        destruct (call_args_count c) as [[|n]|].
        + destruct (call_keywords_never_raises c call Hcall) as [d Hd]. rewrite Hd. simpl.
          destruct (kw_lookup (s2p "name") d); eexists; reflexivity.
        + destruct (call_args_never_raises c) as [vs Hv]. rewrite Hv. simpl. eexists; reflexivity.
        + destruct (call_keywords_never_raises c call Hcall) as [d Hd]. rewrite Hd. simpl.
          destruct (kw_lookup (s2p "name") d); eexists; reflexivity. }
    destruct Hn as [v Hv]. rewrite Hv. simpl.
    destruct (bl_lookup (cls_of (c_node c)) tab) as [rules|] eqn:El.
    + destruct v; try (eexists; reflexivity). destruct (first_rule_listing s rules); eexists; reflexivity.
    + exfalso. destruct (Htab eq_refl) as [H _]. apply String.eqb_eq in E1. contradiction.
  - destruct (String.eqb (cls_of (c_node c)) "Import" || String.eqb (cls_of (c_node c)) "ImportFrom") eqn:E2; [|eexists; reflexivity].
    destruct (bl_lookup (cls_of (c_node c)) tab) as [rules|] eqn:El.
    + destruct (first_import_rule _ _ rules) as [[r nm]|]; eexists; reflexivity.
    + exfalso. destruct (Htab eq_refl) as [_ [H1 H2]]. apply orb_true_iff in E2 as [E2|E2]; apply String.eqb_eq in E2; contradiction.
Qed.

(* ---------- B613 never raises once the file data could be read ---------- *)
Theorem trojansource_never_raises bidi cfg c ls : c_lines c = Some ls -> exists r, trojansource bidi cfg c = Ok r.
Proof. intro H. unfold trojansource. rewrite H. eexists; reflexivity. Qed.

(* ---------- a check that raises is recorded and costs nothing else ---------- *)
(* the findings of a run_tests call are the concatenation of what each test keeps; a raising test keeps nothing
   and does not disturb the others (from C05's decomposition) *)
Theorem raising_check_loses_only_its_own K tests m c ct ts :
  ts_results (fst (run_tests K tests m c ct ts)) = ts_results ts ++ flat_map (kept_of m c) (tests_for tests ct).
Proof. apply run_tests_results. Qed.

Lemma kept_of_raise m c t e : t_fn t c = Raise e -> kept_of m c t = [].
Proof. intro H. unfold kept_of. rewrite H. reflexivity. Qed.

(* every internal error in the state comes from a test that raised or from scoring an unknown rank; none is lost *)
Lemma run_one_errors K m c t ts sc :
  exists extra, ts_errors (fst (run_one K m c t (ts, sc))) = ts_errors ts ++ extra /\
                (forall e, t_fn t c = Raise e -> extra = [(t_name t, e)]) /\
                (t_fn t c = Ok None -> extra = []).
Proof.
  unfold run_one. destruct (t_fn t c) as [[r|]|e] eqn:E; cbn [fst ts_errors].
  - set (f := fill_defaults t c r).
    destruct (nosecs_from_contexts m (c_linerange c) (ri_lineno r)) as [[|i ids]|].
    + exists []. rewrite app_nil_r. repeat split; intros; discriminate.
    + destruct (mem_pstr (f_test_id f) (i :: ids)).
      * exists []. rewrite app_nil_r. repeat split; intros; discriminate.
      * destruct (score_one K f sc); cbn [fst ts_errors];
          [exists []; rewrite app_nil_r | eexists]; repeat split; intros; try discriminate; reflexivity.
    + destruct (score_one K f sc); cbn [fst ts_errors];
        [exists []; rewrite app_nil_r | eexists]; repeat split; intros; try discriminate; reflexivity.
  - exists []. rewrite app_nil_r. repeat split; intros; try discriminate; reflexivity.
  - exists [(t_name t, e)]. repeat split; intros; try discriminate. inversion H; reflexivity.
Qed.
