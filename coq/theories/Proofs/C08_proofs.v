From Coq Require Import List NArith ZArith Bool String Lia Permutation.
From Bandit Require Import Base.PyStr Ast.Node Engine.Types Engine.Tables Engine.Tester Engine.Visitor Engine.Scan
     Manager.History Proofs.PyStrFacts.
Import ListNotations.

(* ---------- the shared registry ---------- *)
Lemma reg_set_same k v r : assoc k (reg_set k v r) = Some v.
Proof.
  induction r as [|[k' v'] t IH]; simpl; [rewrite pstr_eqb_refl; reflexivity|].
  destruct (pstr_eqb k k') eqn:E; simpl; [rewrite pstr_eqb_refl; reflexivity | rewrite E; exact IH].
Qed.

Lemma reg_set_other k k' v r : k <> k' -> assoc k (reg_set k' v r) = assoc k r.
Proof.
  intro H. apply pstr_eqb_neq in H. induction r as [|[k2 v2] t IH]; simpl; [rewrite H; reflexivity|].
  destruct (pstr_eqb k' k2) eqn:E; simpl.
  - apply pstr_eqb_spec in E; subst k2. rewrite H. reflexivity.
  - destruct (pstr_eqb k k2); [reflexivity | exact IH].
Qed.

Lemma fold_set_notin f l : forall r, ~ In f (map fst l) ->
  assoc f (fold_left (fun acc kv => reg_set (fst kv) (snd kv) acc) l r) = assoc f r.
Proof.
  induction l as [|[k v] t IH]; intros r H; simpl; [reflexivity|].
  rewrite IH by (intro Hc; apply H; right; exact Hc).
  apply reg_set_other. intro Hc. apply H. left. simpl. congruence.
Qed.

Lemma construct_assoc m r f :
  NoDup (map fst (m_wish m)) ->
  assoc f (construct m r) = match assoc f (m_wish m) with Some v => Some v | None => assoc f r end.
Proof.
  unfold construct. generalize (m_wish m) as l. intro l. revert r.
  induction l as [|[k v] t IH]; intros r Hnd; simpl; [reflexivity|].
  inversion Hnd as [|? ? Hnot Hnd']; subst.
  destruct (pstr_eqb f k) eqn:E.
  - apply pstr_eqb_spec in E; subst k. rewrite fold_set_notin by exact Hnot. apply reg_set_same.
  - rewrite (IH _ Hnd'). destruct (assoc f t); [reflexivity|].
    apply reg_set_other. apply pstr_eqb_neq. exact E.
Qed.

(* right after its own construction a manager sees its own configuration, whatever happened before *)
Theorem fresh_manager_sees_own m r : wf_manager m -> effective m (construct m r) = own m.
Proof.
  intros [Hw Hnd]. unfold effective, own. apply map_ext_in. intros f Hf.
  rewrite (construct_assoc m r f Hnd). destruct (Hw f Hf) as [v Hv]. rewrite Hv. reflexivity.
Qed.

(* ... and keeps seeing it while every manager constructed meanwhile is compatible with it *)
Theorem history_independent_guarded m mids : forall r,
  wf_manager m -> Forall (fun m' => compatible m m' /\ NoDup (map fst (m_wish m'))) mids ->
  effective m (fold_left (fun r m' => construct m' r) mids (construct m r)) = own m.
Proof.
  intros r Hwf Hc.
  assert (G : forall mids r0, Forall (fun m' => compatible m m' /\ NoDup (map fst (m_wish m'))) mids ->
             effective m r0 = own m -> effective m (fold_left (fun r m' => construct m' r) mids r0) = own m).
  { clear mids r Hc. induction mids as [|m' t IH]; intros r0 Hc H0; simpl; [exact H0|].
    inversion Hc as [|? ? [Hcomp Hnd'] Hc']; subst. apply IH; [exact Hc'|].
    unfold effective, own in *. apply map_ext_in. intros f Hf.
    rewrite (construct_assoc m' r0 f Hnd').
    destruct (assoc f (m_wish m')) as [v'|] eqn:E.
    - rewrite (Hcomp f v' Hf E). reflexivity.
    - assert (In (f, assoc f r0) (map (fun f0 => (f0, assoc f0 r0)) (m_funcs m))) by (apply in_map_iff; exists f; auto).
      rewrite H0 in H. apply in_map_iff in H as [f' [He Hin]]. inversion He; subst. congruence. }
  apply G; [exact Hc | apply fresh_manager_sees_own; exact Hwf].
Qed.

(* without the guard the statement is false: two managers that configure the shared blacklist differently *)
Definition mA : manager := Manager 1 [(s2p "blacklist", JStr (s2p "B301"))] [s2p "blacklist"].
Definition mB : manager := Manager 2 [(s2p "blacklist", JStr (s2p "B302"))] [s2p "blacklist"].
Theorem history_independent_full_refuted :
  exists m m' r, wf_manager m /\ effective m (construct m' (construct m r)) <> own m.
Proof.
  exists mA, mB, []. split.
  - split; [|repeat constructor; simpl; tauto].
    intros f [<-|[]]. exists (JStr (s2p "B301")). reflexivity.
  - vm_compute. discriminate.
Qed.

(* ---------- files are scanned independently of one another ---------- *)
(* a run is the concatenation of per-file scans, each with a fresh visitor *)
Definition scan_file (K : consts) (tests : list test) (file : pstr * nosec_map * option (list pstr) * node) : list finding :=
  let '(fname, m, lines, module) := file in o_results (scan K tests m fname lines module).
Definition run_all (K : consts) (tests : list test) (files : list (pstr * nosec_map * option (list pstr) * node)) :=
  flat_map (scan_file K tests) files.

Theorem file_findings_independent K tests before after before' after' f :
  exists p q p' q',
    run_all K tests (before ++ f :: after) = p ++ scan_file K tests f ++ q /\
    run_all K tests (before' ++ f :: after') = p' ++ scan_file K tests f ++ q'.
Proof.
  unfold run_all. rewrite !flat_map_app. simpl.
  exists (flat_map (scan_file K tests) before), (flat_map (scan_file K tests) after),
         (flat_map (scan_file K tests) before'), (flat_map (scan_file K tests) after'). auto.
Qed.

Theorem permuting_files_permutes_findings K tests l1 l2 :
  Permutation l1 l2 -> Permutation (run_all K tests l1) (run_all K tests l2).
Proof.
  intro H. unfold run_all. induction H; simpl.
  - constructor.
  - apply Permutation_app_head. exact IHPermutation.
  - rewrite !app_assoc. apply Permutation_app_tail. apply Permutation_app_comm.
  - eapply Permutation_trans; eauto.
Qed.

(* ---------- discovery sorts: the scan order does not depend on the enumeration order ---------- *)
Fixpoint pstr_leb (a b : pstr) : bool :=
  match a, b with
  | [], _ => true
  | _ :: _, [] => false
  | x :: a', y :: b' => if N.ltb x y then true else if N.ltb y x then false else pstr_leb a' b'
  end.
Fixpoint insert (x : pstr) (l : list pstr) : list pstr :=
  match l with
  | [] => [x]
  | y :: t => if pstr_leb x y then x :: l else y :: insert x t
  end.
Definition isort (l : list pstr) : list pstr := fold_right insert [] l.

Lemma pstr_leb_total a b : pstr_leb a b = true \/ pstr_leb b a = true.
Proof.
  revert b. induction a as [|x a IH]; intros [|y b]; simpl; auto.
  destruct (N.ltb x y) eqn:E1; destruct (N.ltb y x) eqn:E2; auto.
Qed.
Lemma pstr_leb_antisym a b : pstr_leb a b = true -> pstr_leb b a = true -> a = b.
Proof.
  revert b. induction a as [|x a IH]; intros [|y b]; simpl; auto; try discriminate.
  destruct (N.ltb x y) eqn:E1; destruct (N.ltb y x) eqn:E2; try discriminate.
  - apply N.ltb_lt in E1, E2. lia.
  - intros H1 H2. apply N.ltb_ge in E1, E2. assert (x = y) by lia. subst. f_equal. auto.
Qed.
Lemma pstr_leb_trans a b c : pstr_leb a b = true -> pstr_leb b c = true -> pstr_leb a c = true.
Proof.
  revert b c. induction a as [|x a IH]; intros [|y b] [|z c]; simpl; auto; try discriminate.
  destruct (N.ltb x y) eqn:E1; destruct (N.ltb y x) eqn:E2; try discriminate;
  destruct (N.ltb y z) eqn:E3; destruct (N.ltb z y) eqn:E4; try discriminate;
  destruct (N.ltb x z) eqn:E5; destruct (N.ltb z x) eqn:E6; auto;
  try apply N.ltb_lt in E1; try apply N.ltb_lt in E2; try apply N.ltb_lt in E3; try apply N.ltb_lt in E4;
  try apply N.ltb_lt in E5; try apply N.ltb_lt in E6;
  try apply N.ltb_ge in E1; try apply N.ltb_ge in E2; try apply N.ltb_ge in E3; try apply N.ltb_ge in E4;
  try apply N.ltb_ge in E5; try apply N.ltb_ge in E6; try lia; intros; try discriminate.
  eapply IH; eauto.
Qed.

Inductive sorted : list pstr -> Prop :=
| sorted_nil : sorted []
| sorted_one x : sorted [x]
| sorted_cons x y t : pstr_leb x y = true -> sorted (y :: t) -> sorted (x :: y :: t).

Lemma insert_sorted x l : sorted l -> sorted (insert x l).
Proof.
  induction 1 as [|y|y z t Hyz Hs IH]; simpl.
  - constructor.
  - destruct (pstr_leb x y) eqn:E; [constructor; [exact E | constructor]|].
    destruct (pstr_leb_total x y) as [H|H]; [congruence|]. constructor; [exact H | constructor].
  - destruct (pstr_leb x y) eqn:E; [constructor; [exact E | constructor; assumption]|].
    simpl in IH. destruct (pstr_leb x z) eqn:E2.
    + destruct (pstr_leb_total x y) as [H|H]; [congruence|]. constructor; [exact H | constructor; assumption].
    + constructor; assumption.
Qed.
Lemma isort_sorted l : sorted (isort l).
Proof. induction l; simpl; [constructor | apply insert_sorted; assumption]. Qed.
Lemma insert_perm x l : Permutation (x :: l) (insert x l).
Proof.
  induction l as [|y t IH]; simpl; [apply Permutation_refl|].
  destruct (pstr_leb x y); [apply Permutation_refl|].
  eapply Permutation_trans; [apply perm_swap | apply perm_skip; exact IH].
Qed.
Lemma isort_perm l : Permutation l (isort l).
Proof.
  induction l as [|x t IH]; simpl; [constructor|].
  eapply Permutation_trans; [apply perm_skip; exact IH | apply insert_perm].
Qed.

Lemma sorted_head_le x t : sorted (x :: t) -> forall y, In y t -> pstr_leb x y = true.
Proof.
  revert x. induction t as [|z t IH]; intros x Hs y Hy; [destruct Hy|].
  inversion Hs; subst. destruct Hy as [<-|Hy]; [assumption|].
  eapply pstr_leb_trans; [eassumption | apply IH; assumption].
Qed.

Lemma sorted_perm_eq l1 : forall l2, sorted l1 -> sorted l2 -> Permutation l1 l2 -> l1 = l2.
Proof.
  induction l1 as [|x t1 IH]; intros l2 H1 H2 Hp.
  - apply Permutation_nil in Hp. auto.
  - destruct l2 as [|y t2]; [apply Permutation_sym, Permutation_nil in Hp; discriminate|].
    assert (Hxy : x = y).
    { assert (Hx : In x (y :: t2)) by (eapply Permutation_in; [exact Hp | left; reflexivity]).
      assert (Hy : In y (x :: t1)) by (eapply Permutation_in; [apply Permutation_sym; exact Hp | left; reflexivity]).
      destruct Hx as [->|Hx]; [reflexivity|]. destruct Hy as [->|Hy]; [reflexivity|].
      apply pstr_leb_antisym; [apply (sorted_head_le x t1 H1 y Hy) | apply (sorted_head_le y t2 H2 x Hx)]. }
    subst y. f_equal. apply IH.
    + inversion H1; subst; [constructor | assumption].
    + inversion H2; subst; [constructor | assumption].
    + eapply Permutation_cons_inv; exact Hp.
Qed.

Theorem discovery_order_insensitive l1 l2 : Permutation l1 l2 -> isort l1 = isort l2.
Proof.
  intro H. apply sorted_perm_eq; try apply isort_sorted.
  eapply Permutation_trans; [apply Permutation_sym, isort_perm|].
  eapply Permutation_trans; [exact H | apply isort_perm].
Qed.
