From Coq Require Import List NArith ZArith Bool String Lia.
From Bandit Require Import Base.PyStr Engine.Types Plugins.Misc Manager.Discover Proofs.PyStrFacts.
Import ListNotations.

Definition walked (w : walk_listing) : list pstr := flat_map (fun rf => map (path_join (fst rf)) (snd rf)) w.

(* every walked file is in exactly one of the two lists *)
Theorem partition_dir w inc exc p :
  In p (walked w) ->
  (In p (fst (files_from_dir w inc exc)) /\ ~ In p (snd (files_from_dir w inc exc))) \/
  (~ In p (fst (files_from_dir w inc exc)) /\ In p (snd (files_from_dir w inc exc))).
Proof.
  intro H. unfold files_from_dir. fold (walked w). cbn [fst snd].
  destruct (is_file_included p inc exc true) eqn:E.
  - left. split; [apply filter_In; auto|]. intro Hc. apply filter_In in Hc as [_ Hc]. rewrite E in Hc. discriminate.
  - right. split; [|apply filter_In; rewrite E; auto]. intro Hc. apply filter_In in Hc as [_ Hc]. congruence.
Qed.

Theorem nothing_lost w inc exc p :
  In p (walked w) <-> In p (fst (files_from_dir w inc exc)) \/ In p (snd (files_from_dir w inc exc)).
Proof.
  unfold files_from_dir. fold (walked w). cbn [fst snd]. rewrite !filter_In. split.
  - intro H. destruct (is_file_included p inc exc true); [left | right]; auto.
  - intros [[H _]|[H _]]; exact H.
Qed.

(* a walked file is in scope iff its path matches an include glob, matches no exclude glob, and contains no
   exclude string (the code's criterion; the substring clause is what the known finding is about) *)
Theorem included_iff w inc exc p :
  In p (fst (files_from_dir w inc exc)) <->
  In p (walked w) /\ (exists g, In g inc /\ fnmatch_b p g = true)
  /\ (forall x, In x exc -> fnmatch_b p x = false /\ contains p x = false).
Proof.
  unfold files_from_dir. fold (walked w). cbn [fst]. rewrite filter_In. unfold is_file_included, matches_glob_list.
  rewrite !andb_true_iff, orb_false_r, !negb_true_iff, existsb_exists. split.
  - intros [Hw [[Hi He1] He2]]. split; [exact Hw|]. split; [exact Hi|].
    intros x Hx. split.
    + destruct (fnmatch_b p x) eqn:E; [|reflexivity]. exfalso.
      assert (existsb (fun g => fnmatch_b p g) exc = true) by (apply existsb_exists; exists x; auto). congruence.
    + destruct (contains p x) eqn:E; [|reflexivity]. exfalso.
      assert (existsb (fun x0 => contains p x0) exc = true) by (apply existsb_exists; exists x; auto). congruence.
  - intros [Hw [Hi He]]. split; [exact Hw|]. split; [split; [exact Hi|]|].
    + destruct (existsb (fun g => fnmatch_b p g) exc) eqn:E; [|reflexivity].
      apply existsb_exists in E as [x [Hx Hm]]. destruct (He x Hx). congruence.
    + destruct (existsb (fun x0 => contains p x0) exc) eqn:E; [|reflexivity].
      apply existsb_exists in E as [x [Hx Hm]]. destruct (He x Hx). congruence.
Qed.

(* a file named explicitly is scanned whatever its name, unless an exclude pattern hits it *)
Theorem explicit_file fs inc cfgx t xp :
  fs_isdir fs t = false ->
  (forall x, In x (exclude_globs fs cfgx xp) -> fnmatch_b t x = false /\ contains t x = false) ->
  fst (discover fs inc cfgx [t] false xp) = [if pstr_eqb t dash then t else path_join [46%N] t]
  /\ snd (discover fs inc cfgx [t] false xp) = [].
Proof.
  intros Hd Hx. unfold discover. cbn [fold_left]. rewrite Hd.
  assert (E : is_file_included t inc (exclude_globs fs cfgx xp) false = true).
  { unfold is_file_included, matches_glob_list. rewrite orb_true_r. cbn [andb].
    apply andb_true_iff. split; apply negb_true_iff.
    - destruct (existsb _ _) eqn:E; [|reflexivity]. apply existsb_exists in E as [x [H1 H2]]. destruct (Hx x H1). congruence.
    - destruct (existsb _ _) eqn:E; [|reflexivity]. apply existsb_exists in E as [x [H1 H2]]. destruct (Hx x H1). congruence. }
  rewrite E. split; reflexivity.
Qed.

(* a directory given without -r contributes nothing *)
Theorem no_descend fs inc cfgx t xp :
  fs_isdir fs t = true -> discover fs inc cfgx [t] false xp = ([], []).
Proof. intro Hd. unfold discover. cbn [fold_left]. rewrite Hd. reflexivity. Qed.

(* each target contributes independently: discovery over a list is the concatenation per target *)
Theorem discover_app fs inc cfgx xp rec t1 t2 :
  discover fs inc cfgx (t1 ++ t2) rec xp =
  (fst (discover fs inc cfgx t1 rec xp) ++ fst (discover fs inc cfgx t2 rec xp),
   snd (discover fs inc cfgx t1 rec xp) ++ snd (discover fs inc cfgx t2 rec xp)).
Proof.
  unfold discover. set (exc := exclude_globs fs cfgx xp).
  set (step := fun (acc : list pstr * list pstr) t =>
                 if fs_isdir fs t then
                   if rec then let '(a, b) := files_from_dir (fs_walk fs t) inc exc in (fst acc ++ a, snd acc ++ b) else acc
                 else if is_file_included t inc exc false
                      then (fst acc ++ [if pstr_eqb t dash then t else path_join [46%N] t], snd acc)
                      else (fst acc, snd acc ++ [t])).
  assert (S : forall t a b, step (a, b) t = (a ++ fst (step ([], []) t), b ++ snd (step ([], []) t))).
  { intros t a b. unfold step. destruct (fs_isdir fs t).
    - destruct rec; [|cbn [fst snd]; rewrite !app_nil_r; reflexivity].
      destruct (files_from_dir (fs_walk fs t) inc exc) as [x y]. reflexivity.
    - destruct (is_file_included t inc exc false); cbn [fst snd app]; rewrite ?app_nil_r; reflexivity. }
  assert (G : forall l a b, fold_left step l (a, b) =
               (a ++ fst (fold_left step l ([], [])), b ++ snd (fold_left step l ([], [])))).
  { induction l as [|t l IH]; intros a b; cbn [fold_left].
    - cbn [fst snd]. rewrite !app_nil_r. reflexivity.
    - rewrite (S t a b). destruct (step ([], []) t) as [da db] eqn:E. cbn [fst snd].
      rewrite (IH (a ++ da) (b ++ db)), (IH da db). cbn [fst snd]. rewrite !app_assoc. reflexivity. }
  rewrite fold_left_app. destruct (fold_left step t1 ([], [])) as [a b] eqn:E. rewrite (G t2 a b). reflexivity.
Qed.
