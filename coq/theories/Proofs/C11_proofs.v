From Coq Require Import List NArith ZArith Bool String Lia.
From Bandit Require Import Base.PyStr Engine.Types Plugins.Misc Manager.Discover Proofs.PyStrFacts.
Import ListNotations.

Definition walked (w : walk_listing) : list pstr := flat_map (fun rf => map (path_join (fst rf)) (snd rf)) w.

(* every walked file is in exactly one of the two lists *)
Theorem partition_dir w inc exc p :
  In p (walked w) ->
  (In p (fst (files_from_dir w inc exc)) /\ ~ In p (snd (files_from_dir w inc exc))) \/
  (~ In p (fst (files_from_dir w inc exc)) /\ In p (snd (files_from_dir w inc exc))).
Proof.
  intro H. unfold files_from_dir. fold (walked w). cbn [fst snd].
  destruct (is_file_included p inc exc true) eqn:E.
  - left. split; [apply filter_In; auto|]. intro Hc. apply filter_In in Hc as [_ Hc]. rewrite E in Hc. discriminate.
  - right. split; [|apply filter_In; rewrite E; auto]. intro Hc. apply filter_In in Hc as [_ Hc]. congruence.
Qed.

Theorem nothing_lost w inc exc p :
  In p (walked w) <-> In p (fst (files_from_dir w inc exc)) \/ In p (snd (files_from_dir w inc exc)).
Proof.
  unfold files_from_dir. fold (walked w). cbn [fst snd]. rewrite !filter_In. split.
  - intro H. destruct (is_file_included p inc exc true); [left | right]; auto.
  - intros [[H _]|[H _]]; exact H.
Qed.

(* a walked file is in scope iff its path matches an include glob, matches no exclude glob, and contains no
   exclude string (the code's criterion; the substring clause is what the known finding is about) *)
Theorem included_iff w inc exc p :
  In p (fst (files_from_dir w inc exc)) <->
  In p (walked w) /\ (exists g, In g inc /\ fnmatch_b p g = true)
  /\ (forall x, In x exc -> fnmatch_b p x = false /\ contains p x = false).
Proof.
  unfold files_from_dir. fold (walked w). cbn [fst]. rewrite filter_In. unfold is_file_included, matches_glob_list.
  rewrite !andb_true_iff, orb_false_r, !negb_true_iff, existsb_exists. split.
  - intros [Hw [[Hi He1] He2]]. split; [exact Hw|]. split; [exact Hi|].
    intros x Hx. split.
    + destruct (fnmatch_b p x) eqn:E; [|reflexivity]. exfalso.
      assert (existsb (fun g => fnmatch_b p g) exc = true) by (apply existsb_exists; exists x; auto). congruence.
    + destruct (contains p x) eqn:E; [|reflexivity]. exfalso.
      assert (existsb (fun x0 => contains p x0) exc = true) by (apply existsb_exists; exists x; auto). congruence.
  - intros [Hw [Hi He]]. split; [exact Hw|]. split; [split; [exact Hi|]|].
    + destruct (existsb (fun g => fnmatch_b p g) exc) eqn:E; [|reflexivity].
      apply existsb_exists in E as [x [Hx Hm]]. destruct (He x Hx). congruence.
    + destruct (existsb (fun x0 => contains p x0) exc) eqn:E; [|reflexivity].
      apply existsb_exists in E as [x [Hx Hm]]. destruct (He x Hx). congruence.
Qed.

(* a file named explicitly is scanned whatever its name, unless an exclude pattern hits it *)
Theorem explicit_file fs inc cfgx t xp :
  fs_isdir fs t = false ->
  (forall x, In x (exclude_globs fs cfgx xp) -> fnmatch_b t x = false /\ contains t x = false) ->
  fst (discover fs inc cfgx [t] false xp) = [if pstr_eqb t dash then t else path_join [46%N] t]
  /\ snd (discover fs inc cfgx [t] false xp) = [].
Proof.
  intros Hd Hx. unfold discover. cbn [fold_left]. rewrite Hd.
  assert (E : is_file_included t inc (exclude_globs fs cfgx xp) false = true).
  { unfold is_file_included, matches_glob_list. rewrite orb_true_r. cbn [andb].
    apply andb_true_iff. split; apply negb_true_iff.
    - destruct (existsb _ _) eqn:E; [|reflexivity]. apply existsb_exists in E as [x [H1 H2]]. destruct (Hx x H1). congruence.
    - destruct (existsb _ _) eqn:E; [|reflexivity]. apply existsb_exists in E as [x [H1 H2]]. destruct (Hx x H1). congruence. }
  rewrite E. split; reflexivity.
Qed.

(* a directory given without -r contributes nothing *)
Theorem no_descend fs inc cfgx t xp :
  fs_isdir fs t = true -> discover fs inc cfgx [t] false xp = ([], []).
Proof. intro Hd. unfold discover. cbn [fold_left]. rewrite Hd. reflexivity. Qed.

(* each target contributes independently: discovery over a list is the concatenation per target *)
Theorem discover_app fs inc cfgx xp rec t1 t2 :
  discover fs inc cfgx (t1 ++ t2) rec xp =
  (fst (discover fs inc cfgx t1 rec xp) ++ fst (discover fs inc cfgx t2 rec xp),
   snd (discover fs inc cfgx t1 rec xp) ++ snd (discover fs inc cfgx t2 rec xp)).
Proof.
  unfold discover. set (exc := exclude_globs fs cfgx xp).
  set (step := fun (acc : list pstr * list pstr) t =>
                 if fs_isdir fs t then
                   if rec then let '(a, b) := files_from_dir (fs_walk fs t) inc exc in (fst acc ++ a, snd acc ++ b) else acc
                 else if is_file_included t inc exc false
                      then (fst acc ++ [if pstr_eqb t dash then t else path_join [46%N] t], snd acc)
                      else (fst acc, snd acc ++ [t])).
  assert (S : forall t a b, step (a, b) t = (a ++ fst (step ([], []) t), b ++ snd (step ([], []) t))).
  { intros t a b. unfold step. destruct (fs_isdir fs t).
    - destruct rec; [|cbn [fst snd]; rewrite !app_nil_r; reflexivity].
      destruct (files_from_dir (fs_walk fs t) inc exc) as [x y]. reflexivity.
    - destruct (is_file_included t inc exc false); cbn [fst snd app]; rewrite ?app_nil_r; reflexivity. }
  assert (G : forall l a b, fold_left step l (a, b) =
               (a ++ fst (fold_left step l ([], [])), b ++ snd (fold_left step l ([], [])))).
  { induction l as [|t l IH]; intros a b; cbn [fold_left].
    - cbn [fst snd]. rewrite !app_nil_r. reflexivity.
    - rewrite (S t a b). destruct (step ([], []) t) as [da db] eqn:E. cbn [fst snd].
      rewrite (IH (a ++ da) (b ++ db)), (IH da db). cbn [fst snd]. rewrite !app_assoc. reflexivity. }
  rewrite fold_left_app. destruct (fold_left step t1 ([], [])) as [a b] eqn:E. rewrite (G t2 a b). reflexivity.
Qed.

(* an explicit file that an exclude pattern hits (as a glob or as a substring) is listed as excluded, not scanned *)
Theorem explicit_excluded fs inc cfgx t xp :
  fs_isdir fs t = false ->
  (exists x, In x (exclude_globs fs cfgx xp) /\ (fnmatch_b t x = true \/ contains t x = true)) ->
  discover fs inc cfgx [t] false xp = ([], [t]).
Proof.
  intros Hd [x [Hx Hm]]. unfold discover. cbn [fold_left]. rewrite Hd.
  assert (E : is_file_included t inc (exclude_globs fs cfgx xp) false = false).
  { unfold is_file_included, matches_glob_list. rewrite orb_true_r. cbn [andb].
    apply andb_false_iff. destruct Hm as [Hm|Hm]; [left|right]; apply negb_false_iff, existsb_exists; exists x; auto. }
  rewrite E. reflexivity.
Qed.

(* one directory target under -r is exactly the partition of its walk *)
Lemma discover_one_dir fs inc cfgx t xp :
  fs_isdir fs t = true ->
  discover fs inc cfgx [t] true xp = files_from_dir (fs_walk fs t) inc (exclude_globs fs cfgx xp).
Proof.
  intro Hd. unfold discover. cbn [fold_left]. rewrite Hd.
  destruct (files_from_dir (fs_walk fs t) inc (exclude_globs fs cfgx xp)) as [a b]. reflexivity.
Qed.

(* the whole run over any number of directory targets: a path is in scope iff some target's walk lists it and the
   one predicate accepts it; it is listed as excluded iff some target's walk lists it and the predicate rejects it *)
Theorem discover_dirs_scope fs inc cfgx xp ts p :
  (forall t, In t ts -> fs_isdir fs t = true) ->
  (In p (fst (discover fs inc cfgx ts true xp)) <->
   (exists t, In t ts /\ In p (walked (fs_walk fs t))) /\ is_file_included p inc (exclude_globs fs cfgx xp) true = true)
  /\
  (In p (snd (discover fs inc cfgx ts true xp)) <->
   (exists t, In t ts /\ In p (walked (fs_walk fs t))) /\ is_file_included p inc (exclude_globs fs cfgx xp) true = false).
Proof.
  induction ts as [|t ts IH]; intro Hd.
  - unfold discover. cbn [fold_left fst snd]. split; split; first [ intros [[t [[] _]] _] | intros [] ].
  - change (t :: ts) with ([t] ++ ts). rewrite discover_app. cbn [fst snd].
    rewrite (discover_one_dir fs inc cfgx t xp (Hd t (or_introl eq_refl))).
    destruct (IH (fun u Hu => Hd u (or_intror Hu))) as [IH1 IH2].
    unfold files_from_dir. fold (walked (fs_walk fs t)). cbn [fst snd].
    rewrite !in_app_iff, !filter_In, IH1, IH2, negb_true_iff. split; split.
    + intros [[Hw Hi]|[[u [Hu Hw]] Hi]]; (split; [|exact Hi]); [exists t | exists u]; cbn [In app]; auto.
    + intros [[u [[Hu|Hu] Hw]] Hi]; [subst u; left; auto | right; split; [exists u; auto | exact Hi]].
    + intros [[Hw Hi]|[[u [Hu Hw]] Hi]]; (split; [|exact Hi]); [exists t | exists u]; cbn [In app]; auto.
    + intros [[u [[Hu|Hu] Hw]] Hi]; [subst u; left; auto | right; split; [exists u; auto | exact Hi]].
Qed.

(* hence, over directory targets, no path is in both lists ... *)
Theorem discover_dirs_disjoint fs inc cfgx xp ts p :
  (forall t, In t ts -> fs_isdir fs t = true) ->
  ~ (In p (fst (discover fs inc cfgx ts true xp)) /\ In p (snd (discover fs inc cfgx ts true xp))).
Proof.
  intros Hd [H1 H2]. destruct (discover_dirs_scope fs inc cfgx xp ts p Hd) as [S1 S2].
  apply S1 in H1 as [_ H1]. apply S2 in H2 as [_ H2]. congruence.
Qed.

(* ... and none that any target's walk lists is in neither *)
Theorem discover_dirs_nothing_lost fs inc cfgx xp ts p :
  (forall t, In t ts -> fs_isdir fs t = true) ->
  ((exists t, In t ts /\ In p (walked (fs_walk fs t))) <->
   In p (fst (discover fs inc cfgx ts true xp)) \/ In p (snd (discover fs inc cfgx ts true xp))).
Proof.
  intro Hd. destruct (discover_dirs_scope fs inc cfgx xp ts p Hd) as [S1 S2]. split.
  - intro Hw. destruct (is_file_included p inc (exclude_globs fs cfgx xp) true) eqn:E;
      [left; apply S1 | right; apply S2]; auto.
  - intros [H|H]; [apply S1 in H | apply S2 in H]; tauto.
Qed.

(* non-vacuity: two directory targets, one file each, one of them rejected by the include globs *)
Example discover_dirs_example :
  let a := [97%N] in let b := [98%N] in
  let fs := FS (fun _ => true) (fun t => [(t, [[120%N; 46%N; 112%N; 121%N]; [121%N]])]) in
  let r := discover fs [[42%N; 46%N; 112%N; 121%N]] [] [a; b] true [] in
  List.length (fst r) = 2 /\ List.length (snd r) = 2.
Proof. vm_compute. split; reflexivity. Qed.
