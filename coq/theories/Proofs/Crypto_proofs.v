(* Decision-table theorems for the "crypto" plugin family (Plugins/Crypto.v). *)
From Coq Require Import List NArith ZArith Bool String Lia.
From Bandit Require Import Base.PyStr Ast.Node Engine.Types Engine.Resolve Engine.Context Engine.Visitor
     Engine.Scan Plugins.Crypto Proofs.PyStrFacts.
Import ListNotations.
Local Open Scope string_scope.
Local Open Scope list_scope.

(* ------------------------------------------------------------------------------------------------ *)
(* Concrete contexts for the satisfiability examples                                                 *)
(* ------------------------------------------------------------------------------------------------ *)

Definition ex_pos (l : Z) : option pos4 := Some (Pos l 0 l 10).
Definition ex_const (k : const) : node := Node "Constant" (ex_pos 1) [("value", NConst k); ("kind", NNone)].
Definition ex_name (id : string) : node := Node "Name" (ex_pos 1) [("id", NId (s2p id)); ("ctx", Node "Load" None [])].
Definition ex_attr (v : node) (a : string) : node :=
  Node "Attribute" (ex_pos 1) [("value", v); ("attr", NId (s2p a)); ("ctx", Node "Load" None [])].
Definition ex_kw (name : string) (v : node) : node :=
  Node "keyword" (ex_pos 1) [("arg", NId (s2p name)); ("value", v)].
Definition ex_call (f : node) (args kws : list node) : node :=
  Node "Call" (ex_pos 1) [("func", f); ("args", NList args); ("keywords", NList kws)].
(* the context the visitor builds for a Call node whose resolved qualified name is q *)
Definition ex_ctx (imports : list pstr) (q : string) (call : node) : ctx :=
  Ctx call [] NNone imports [] (Some 1%Z) (Some 0%Z) (Some 10%Z) [1%Z]
      (Some call) (Some (s2p q)) (Some (last_component (s2p q))) None None None None (s2p "t.py") None.

(* ------------------------------------------------------------------------------------------------ *)
(* Small facts                                                                                       *)
(* ------------------------------------------------------------------------------------------------ *)

Lemma bind_ok {A B} (a : A) (f : A -> res B) : bind (Ok a) f = f a.
Proof. reflexivity. Qed.

Lemma bind_id {A} (r : res (option A)) :
  bind r (fun x => match x with Some i => Ok (Some i) | None => Ok None end) = r.
Proof. destruct r as [[a|]|e]; reflexivity. Qed.

Lemma check_value_single c name v x :
  get_call_arg_value c name = Ok v ->
  check_call_arg_value c name [x] =
  Ok (match v with PNone => None | _ => Some (pyval_eqb v x) end).
Proof.
  intro H. unfold check_call_arg_value. rewrite H. cbn [bind existsb].
  destruct v; rewrite ?orb_false_r; reflexivity.
Qed.

Definition is_pnone (v : pyval) : bool := match v with PNone => true | _ => false end.

(* ------------------------------------------------------------------------------------------------ *)
(* B505: key sizes                                                                                   *)
(* ------------------------------------------------------------------------------------------------ *)

Record int_thresholds (cfg : jv) (dh dm rh rm eh em : Z) : Prop := IntThresholds {
  it_dh : cfg_item cfg (s2p "weak_key_size_dsa_high") = Ok (JInt dh);
  it_dm : cfg_item cfg (s2p "weak_key_size_dsa_medium") = Ok (JInt dm);
  it_rh : cfg_item cfg (s2p "weak_key_size_rsa_high") = Ok (JInt rh);
  it_rm : cfg_item cfg (s2p "weak_key_size_rsa_medium") = Ok (JInt rm);
  it_eh : cfg_item cfg (s2p "weak_key_size_ec_high") = Ok (JInt eh);
  it_em : cfg_item cfg (s2p "weak_key_size_ec_medium") = Ok (JInt em)
}.

Definition pick (kt : key_type) (d r e : Z) : Z := match kt with DSA => d | RSA => r | EC => e end.

Lemma thresholds_int cfg dh dm rh rm eh em kt :
  int_thresholds cfg dh dm rh rm eh em ->
  thresholds cfg kt = Ok (JInt (pick kt dh rh eh), JInt (pick kt dm rm em)).
Proof.
  intros [H1 H2 H3 H4 H5 H6]. unfold thresholds.
  rewrite H1, H2, H3, H4, H5, H6. cbn [bind]. destruct kt; reflexivity.
Qed.

(* HIGH below the high threshold, else MEDIUM below the medium threshold, else nothing: for each key type,
   every configuration with integer thresholds and every integer key size *)
Theorem keysize_classify cfg dh dm rh rm eh em kt k :
  int_thresholds cfg dh dm rh rm eh em ->
  classify_key_size cfg kt (PInt k) =
  Ok (if (k <? pick kt dh rh eh)%Z then Some (key_issue kt HIGH (JInt (pick kt dh rh eh)))
      else if (k <? pick kt dm rm em)%Z then Some (key_issue kt MEDIUM (JInt (pick kt dm rm em)))
      else None).
Proof.
  intro H. unfold classify_key_size. cbn [is_number]. rewrite (thresholds_int _ _ _ _ _ _ _ kt H).
  cbn [bind fst snd]. unfold lt_threshold. cbn [thr_num bind].
  destruct (k <? pick kt dh rh eh)%Z; [reflexivity|].
  destruct (k <? pick kt dm rm em)%Z; reflexivity.
Qed.

Example keysize_classify_ex : int_thresholds weak_key_default_cfg 1024 2048 1024 2048 160 224.
Proof. constructor; reflexivity. Qed.

Corollary keysize_classify_severity cfg dh dm rh rm eh em kt k :
  int_thresholds cfg dh dm rh rm eh em ->
  option_map ri_sev (match classify_key_size cfg kt (PInt k) with Ok r => r | Raise _ => None end) =
  if (k <? pick kt dh rh eh)%Z then Some HIGH
  else if (k <? pick kt dm rm em)%Z then Some MEDIUM else None.
Proof.
  intro H. rewrite (keysize_classify _ _ _ _ _ _ _ kt k H).
  destruct (k <? pick kt dh rh eh)%Z; [reflexivity|].
  destruct (k <? pick kt dm rm em)%Z; reflexivity.
Qed.

(* which keyword carries the key size, per keyed qualified name (EC takes a curve, not a size) *)
Definition keyed_keyword (q : pstr) : option (pstr * key_type) :=
  match assoc q cryptography_io_funcs with
  | Some EC => None
  | Some kt => Some (s2p "key_size", kt)
  | None => match assoc q pycrypto_funcs with
            | Some kt => Some (s2p "bits", kt)
            | None => None
            end
  end.

Lemma io_keyed_not_pycrypto q kt :
  assoc q cryptography_io_funcs = Some kt -> assoc q pycrypto_funcs = None.
Proof.
  unfold cryptography_io_funcs. cbn [assoc].
  repeat match goal with
         | |- context [pstr_eqb q ?x] =>
             let E := fresh "E" in
             destruct (pstr_eqb q x) eqn:E; [apply pstr_eqb_spec in E; subst q; intros _; reflexivity|]
         end.
  intro H; discriminate H.
Qed.

Lemma key_size_of_kw c kw pos k :
  get_call_arg_value c kw = Ok (PInt k) -> k <> 0%Z -> key_size_of c kw pos = Ok (PInt k).
Proof.
  intros H Hk. unfold key_size_of. rewrite H. cbn [bind truthy].
  destruct (Z.eqb_spec k 0); [contradiction|reflexivity].
Qed.

(* a non-zero integer literal given as the keyword decides the classification *)
Lemma weak_key_keyword c cfg q kw kt k :
  c_qualname c = Some q -> keyed_keyword q = Some (kw, kt) ->
  get_call_arg_value c kw = Ok (PInt k) -> k <> 0%Z ->
  weak_cryptographic_key c cfg = classify_key_size cfg kt (PInt k).
Proof.
  intros Hq Hk Hv Hnz. unfold keyed_keyword in Hk.
  unfold weak_cryptographic_key, weak_crypto_key_size_cryptography_io, weak_crypto_key_size_pycrypto,
    func_key_type. rewrite Hq.
  destruct (assoc q cryptography_io_funcs) as [kt0|] eqn:Eio.
  - rewrite (io_keyed_not_pycrypto _ _ Eio).
    destruct kt0; try discriminate; inversion Hk; subst kw kt;
      rewrite (key_size_of_kw _ _ _ _ Hv Hnz); cbn [bind]; apply bind_id.
  - cbn [bind]. destruct (assoc q pycrypto_funcs) as [kt1|] eqn:Epc; [|discriminate].
    inversion Hk; subst kw kt. rewrite (key_size_of_kw _ _ _ _ Hv Hnz). reflexivity.
Qed.

Definition rank_num (r : rank) : Z :=
  match r with UNDEFINED => 1 | LOW => 2 | MEDIUM => 3 | HIGH => 4 end%Z.
(* "no finding" ranks lowest *)
Definition finding_rank (r : res (option rissue)) : Z :=
  match r with Ok (Some i) => rank_num (ri_sev i) | _ => 0%Z end.

Lemma classify_rank cfg dh dm rh rm eh em kt k :
  int_thresholds cfg dh dm rh rm eh em ->
  finding_rank (classify_key_size cfg kt (PInt k)) =
  (if (k <? pick kt dh rh eh)%Z then 4 else if (k <? pick kt dm rm em)%Z then 3 else 0)%Z.
Proof.
  intro H. rewrite (keysize_classify _ _ _ _ _ _ _ kt k H).
  destruct (k <? pick kt dh rh eh)%Z; [reflexivity|].
  destruct (k <? pick kt dm rm em)%Z; reflexivity.
Qed.

(* a larger key (given as the keyword literal) never gets a more severe finding *)
Theorem keysize_monotone cfg dh dm rh rm eh em c1 c2 q kw kt k1 k2 :
  int_thresholds cfg dh dm rh rm eh em ->
  (pick kt dh rh eh <= pick kt dm rm em)%Z ->
  c_qualname c1 = Some q -> c_qualname c2 = Some q -> keyed_keyword q = Some (kw, kt) ->
  get_call_arg_value c1 kw = Ok (PInt k1) -> get_call_arg_value c2 kw = Ok (PInt k2) ->
  (1 <= k1)%Z -> (k1 <= k2)%Z ->
  (finding_rank (weak_cryptographic_key c2 cfg) <= finding_rank (weak_cryptographic_key c1 cfg))%Z.
Proof.
  intros H Hle Hq1 Hq2 Hk Hv1 Hv2 H1 H12.
  rewrite (weak_key_keyword c1 cfg q kw kt k1 Hq1 Hk Hv1) by lia.
  rewrite (weak_key_keyword c2 cfg q kw kt k2 Hq2 Hk Hv2) by lia.
  rewrite (classify_rank _ _ _ _ _ _ _ kt k1 H), (classify_rank _ _ _ _ _ _ _ kt k2 H).
  destruct (Z.ltb_spec k1 (pick kt dh rh eh)), (Z.ltb_spec k2 (pick kt dh rh eh)),
           (Z.ltb_spec k1 (pick kt dm rm em)), (Z.ltb_spec k2 (pick kt dm rm em)); lia.
Qed.

Definition ex_dsa_q : string := "cryptography.hazmat.primitives.asymmetric.dsa.generate_private_key".
Definition ex_dsa_ctx (k : Z) : ctx :=
  ex_ctx [] ex_dsa_q
         (ex_call (ex_attr (ex_name "dsa") "generate_private_key") [] [ex_kw "key_size" (ex_const (CInt k))]).

Example keysize_monotone_ex :
  c_qualname (ex_dsa_ctx 512) = Some (s2p ex_dsa_q) /\
  keyed_keyword (s2p ex_dsa_q) = Some (s2p "key_size", DSA) /\
  get_call_arg_value (ex_dsa_ctx 512) (s2p "key_size") = Ok (PInt 512) /\
  get_call_arg_value (ex_dsa_ctx 1536) (s2p "key_size") = Ok (PInt 1536) /\
  finding_rank (weak_cryptographic_key (ex_dsa_ctx 512) weak_key_default_cfg) = 4%Z /\
  finding_rank (weak_cryptographic_key (ex_dsa_ctx 1536) weak_key_default_cfg) = 3%Z.
Proof. repeat split; reflexivity. Qed.

(* The documented rule "a key size below the threshold is reported" is false for key_size=0: the
   `or` chain discards the falsy 0, falls through to the (absent) positional argument and then to 2048. *)
Theorem keysize_zero_refuted :
  exists c cfg q kw kt,
    int_thresholds cfg 1024 2048 1024 2048 160 224 /\
    c_qualname c = Some q /\ keyed_keyword q = Some (kw, kt) /\
    get_call_arg_value c kw = Ok (PInt 0) /\
    (0 < pick kt 1024 1024 160)%Z /\
    weak_cryptographic_key c cfg = Ok None.
Proof.
  exists (ex_dsa_ctx 0), weak_key_default_cfg, (s2p ex_dsa_q), (s2p "key_size"), DSA.
  repeat split; reflexivity.
Qed.

(* ... and a positional argument then decides instead of the keyword *)
Example keysize_zero_falls_through :
  let c := ex_ctx [] ex_dsa_q
                  (ex_call (ex_attr (ex_name "dsa") "generate_private_key") [ex_const (CInt 512)]
                           [ex_kw "key_size" (ex_const (CInt 0))]) in
  option_map ri_sev (match weak_cryptographic_key c weak_key_default_cfg with Ok r => r | _ => None end)
  = Some HIGH.
Proof. reflexivity. Qed.

(* ------------------------------------------------------------------------------------------------ *)
(* B505: the curve table                                                                             *)
(* ------------------------------------------------------------------------------------------------ *)

(* every curve of the table is classified with the size the table (= the Python dict) gives it *)
Theorem curve_table_inst :
  forall name size, In (name, size) curve_table -> curve_size (Some (PStr (s2p name))) = size.
Proof.
  assert (H : forallb (fun kv => Z.eqb (curve_size (Some (PStr (s2p (fst kv))))) (snd kv)) curve_table = true)
    by (vm_compute; reflexivity).
  rewrite forallb_forall in H. intros name size Hin. specialize (H _ Hin). cbn [fst snd] in H.
  apply Z.eqb_eq in H. exact H.
Qed.

Example curve_table_inst_ex : In ("SECT571R1", 570%Z) curve_table /\ In ("SECP192R1", 192%Z) curve_table.
Proof. split; vm_compute; tauto. Qed.

Lemma curve_table_keys_nodup : NoDup (map fst curve_table).
Proof.
  assert (H : forall l : list string,
             (fix nd (l : list string) : bool :=
                match l with
                | [] => true
                | x :: t => negb (existsb (String.eqb x) t) && nd t
                end) l = true -> NoDup l).
  { induction l as [|x t IH]; intro Hn; constructor.
    - apply andb_true_iff in Hn as [Hx _]. intro Hin. apply negb_true_iff in Hx.
      assert (existsb (String.eqb x) t = true) by (apply existsb_exists; exists x; split; [exact Hin|apply String.eqb_refl]).
      congruence.
    - apply IH. apply andb_true_iff in Hn as [_ Ht]. exact Ht. }
  apply H. vm_compute. reflexivity.
Qed.

Lemma curve_unknown_default s :
  assoc s curve_key_sizes = None -> curve_size (Some (PStr s)) = 224%Z.
Proof. intro H. unfold curve_size. rewrite H. reflexivity. Qed.

(* only a str is looked up: every other value (and the Python False of a call without arguments) gives 224 *)
Lemma curve_non_str_default v :
  (forall s, v <> Some (PStr s)) -> curve_size v = 224%Z.
Proof. intro H. destruct v as [[]|]; try reflexivity. exfalso. eapply H. reflexivity. Qed.

(* EC keys: a curve given as the keyword (attribute, name or string) is classified by its table size *)
Definition ec_q : pstr := s2p "cryptography.hazmat.primitives.asymmetric.ec.generate_private_key".

Lemma ec_curve_keyword c cfg s :
  c_qualname c = Some ec_q ->
  get_call_arg_value c (s2p "curve") = Ok (PStr s) -> s <> [] ->
  weak_cryptographic_key c cfg =
  classify_key_size cfg EC (PInt (match assoc s curve_key_sizes with Some z => z | None => 224%Z end)).
Proof.
  intros Hq Hv Hs.
  unfold weak_cryptographic_key, weak_crypto_key_size_cryptography_io, weak_crypto_key_size_pycrypto,
    func_key_type. rewrite Hq.
  change (assoc ec_q cryptography_io_funcs) with (Some EC).
  change (assoc ec_q pycrypto_funcs) with (@None key_type).
  unfold ec_curve. rewrite Hv. cbn [bind truthy truthy_str].
  destruct s as [|x s]; [contradiction|]. cbn [bind curve_size]. apply bind_id.
Qed.

Example ec_curve_keyword_ex :
  let c := ex_ctx [] "cryptography.hazmat.primitives.asymmetric.ec.generate_private_key"
                  (ex_call (ex_attr (ex_name "ec") "generate_private_key") []
                           [ex_kw "curve" (ex_attr (ex_name "ec") "SECT163K1")]) in
  get_call_arg_value c (s2p "curve") = Ok (PStr (s2p "SECT163K1")) /\
  option_map ri_sev (match weak_cryptographic_key c weak_key_default_cfg with Ok r => r | _ => None end)
  = Some MEDIUM.
Proof. split; reflexivity. Qed.

(* the curve given the way the cryptography API wants it -- an instance, ec.SECP192R1() -- is not a
   literal: the table is never consulted and the default 224 applies *)
Example ec_curve_instance_missed :
  let c := ex_ctx [] "cryptography.hazmat.primitives.asymmetric.ec.generate_private_key"
                  (ex_call (ex_attr (ex_name "ec") "generate_private_key")
                           [ex_call (ex_attr (ex_name "ec") "SECP192R1") [] []] []) in
  weak_cryptographic_key c weak_key_default_cfg = Ok None.
Proof. reflexivity. Qed.

(* ------------------------------------------------------------------------------------------------ *)
(* B324                                                                                              *)
(* ------------------------------------------------------------------------------------------------ *)

(* keywords.get("usedforsecurity", "True") == "True" *)
Definition ufs (kws : list (option pstr * pyval)) : bool :=
  match kw_lookup (s2p "usedforsecurity") kws with
  | Some v => pyval_eqb v (PStr (s2p "True"))
  | None => true
  end.

Lemma used_for_security_ufs kws : used_for_security (Some kws) = Ok (ufs kws).
Proof. unfold used_for_security, kw_get_default, ufs. cbn [bind]. destruct (kw_lookup _ kws); reflexivity. Qed.

Lemma report_weak_hash_eq c kws l name :
  lineno_of (c_node c) = Some l ->
  report_weak_hash c (Some kws) name = Ok (if ufs kws then Some (hash_issue (upper name) l) else None).
Proof.
  intro Hl. unfold report_weak_hash. rewrite used_for_security_ufs. cbn [bind].
  unfold node_lineno. rewrite Hl. destruct (ufs kws); reflexivity.
Qed.

Lemma new_not_weak : mem_pstr (s2p "new") weak_hashes = false.
Proof. reflexivity. Qed.

Theorem hash_rule c q kws l :
  c_qualname c = Some q ->
  mem_pstr (s2p "hashlib") (split_on dot q) = true ->
  call_keywords c = Ok (Some kws) ->
  lineno_of (c_node c) = Some l ->
  let func := last (split_on dot q) [] in
  (* hashlib.md5(...) and friends *)
  (mem_pstr func weak_hashes = true ->
   hashlib c = Ok (if ufs kws then Some (hash_issue (upper func) l) else None)) /\
  (* hashlib.new(<name>, ...) / hashlib.new(name=<name>, ...) *)
  (func = s2p "new" ->
   forall args, call_args c = Ok args ->
     let name := match args with
                 | a :: _ => a
                 | [] => match kw_lookup (s2p "name") kws with Some v => v | None => PNone end
                 end in
     hashlib c = Ok (match name with
                     | PStr s => if mem_pstr (lower s) weak_hashes && ufs kws
                                 then Some (hash_issue (upper s) l) else None
                     | _ => None
                     end)).
Proof.
  intros Hq Hh Hk Hl func. split.
  - intro Hw. unfold hashlib. rewrite Hq. cbn zeta. rewrite Hh. unfold hashlib_func. rewrite Hk.
    cbn [bind]. fold func. rewrite Hw. apply report_weak_hash_eq. exact Hl.
  - intros Hf args Ha name. unfold hashlib. rewrite Hq. cbn zeta. rewrite Hh. unfold hashlib_func.
    rewrite Hk. cbn [bind]. fold func. rewrite Hf. rewrite new_not_weak.
    replace (pstr_eqb (s2p "new") (s2p "new")) with true by reflexivity.
    rewrite Ha. cbn [bind]. unfold hash_new_name, kw_get_default.
    assert (Hn : match args with
                 | a :: _ => Ok a
                 | [] => Ok match kw_lookup (s2p "name") kws with Some v => v | None => PNone end
                 end = Ok name) by (unfold name; destruct args; reflexivity).
    rewrite Hn. cbn [bind].
    destruct name; try reflexivity.
    destruct (mem_pstr (lower s) weak_hashes); [|reflexivity].
    cbn [andb]. apply report_weak_hash_eq. exact Hl.
Qed.

Definition ex_md5_ctx : ctx :=
  ex_ctx [s2p "hashlib"] "hashlib.md5" (ex_call (ex_attr (ex_name "hashlib") "md5") [] []).
Definition ex_new_ctx : ctx :=
  ex_ctx [s2p "hashlib"] "hashlib.new"
         (ex_call (ex_attr (ex_name "hashlib") "new") [ex_const (CStr (s2p "MD5"))]
                  [ex_kw "usedforsecurity" (ex_const (CBool true))]).

Example hash_rule_ex :
  (c_qualname ex_md5_ctx = Some (s2p "hashlib.md5") /\
   mem_pstr (s2p "hashlib") (split_on dot (s2p "hashlib.md5")) = true /\
   call_keywords ex_md5_ctx = Ok (Some []) /\ lineno_of (c_node ex_md5_ctx) = Some 1%Z /\
   mem_pstr (last (split_on dot (s2p "hashlib.md5")) []) weak_hashes = true /\
   hashlib ex_md5_ctx = Ok (Some (hash_issue (s2p "MD5") 1))) /\
  (last (split_on dot (s2p "hashlib.new")) [] = s2p "new" /\
   call_args ex_new_ctx = Ok [PStr (s2p "MD5")] /\
   hashlib ex_new_ctx = Ok (Some (hash_issue (s2p "MD5") 1))).
Proof. repeat split; reflexivity. Qed.

(* usedforsecurity=<a name> silences the check, although nothing is known about the value *)
Example hash_rule_nonliteral_flag :
  hashlib (ex_ctx [s2p "hashlib"] "hashlib.md5"
                  (ex_call (ex_attr (ex_name "hashlib") "md5") []
                           [ex_kw "usedforsecurity" (ex_name "flag")])) = Ok None.
Proof. reflexivity. Qed.

(* ------------------------------------------------------------------------------------------------ *)
(* B501 / B113                                                                                       *)
(* ------------------------------------------------------------------------------------------------ *)

Definition http_keyed (c : ctx) (h : pstr) : bool := is_requests_call c h || is_httpx_call c h.

Theorem verify_false_rule c q v :
  c_qualname c = Some q ->
  get_call_arg_value c (s2p "verify") = Ok v ->
  let h := hd [] (split_on dot q) in
  request_with_no_cert_validation c =
  Ok (if http_keyed c h && pyval_eqb v (PStr (s2p "False"))
      then Some (verify_issue h (get_lineno_for_call_arg c (s2p "verify")))
      else None).
Proof.
  intros Hq Hv h. unfold request_with_no_cert_validation, qual_head. rewrite Hq. cbn [bind]. fold h.
  unfold http_keyed. destruct (is_requests_call c h || is_httpx_call c h); [|reflexivity].
  rewrite (check_value_single _ _ _ _ Hv). cbn [bind andb].
  destruct v; cbn [is_true pyval_eqb]; try reflexivity.
  destruct (pstr_eqb s (s2p "False")); reflexivity.
Qed.

Definition ex_requests_ctx (verb : string) (kws : list node) : ctx :=
  ex_ctx [s2p "requests"] ("requests." ++ verb) (ex_call (ex_attr (ex_name "requests") verb) [ex_name "url"] kws).

Example verify_false_rule_ex :
  let c := ex_requests_ctx "get" [ex_kw "verify" (ex_const (CBool false))] in
  c_qualname c = Some (s2p "requests.get") /\
  get_call_arg_value c (s2p "verify") = Ok (PStr (s2p "False")) /\
  http_keyed c (s2p "requests") = true /\
  request_with_no_cert_validation c = Ok (Some (verify_issue (s2p "requests") (Some 1%Z))).
Proof. repeat split; reflexivity. Qed.

(* B113.  get_call_arg_value yields PNone both when the keyword is absent and when its value is not a
   literal (a call, an expression, `...`), and the string "None" for the constant None as well as for
   the name or string literal None. *)
Theorem timeout_rule c q v :
  c_qualname c = Some q ->
  get_call_arg_value c (s2p "timeout") = Ok v ->
  let h := hd [] (split_on dot q) in
  request_without_timeout c =
  Ok (if is_requests_call c h && is_pnone v then Some (timeout_issue (txt_without_timeout h))
      else if http_keyed c h && pyval_eqb v (PStr (s2p "None")) then Some (timeout_issue (txt_timeout_none h))
      else None).
Proof.
  intros Hq Hv h. unfold request_without_timeout, qual_head. rewrite Hq. cbn [bind]. fold h.
  unfold http_keyed.
  destruct (is_requests_call c h) eqn:Er.
  - rewrite (check_value_single _ _ _ _ Hv). cbn [bind andb orb].
    rewrite (check_value_single _ _ _ _ Hv).
    destruct v; cbn [is_none is_pnone is_true pyval_eqb bind]; try reflexivity.
    destruct (pstr_eqb s (s2p "None")); reflexivity.
  - cbn [bind andb orb]. destruct (is_httpx_call c h); [|reflexivity].
    rewrite (check_value_single _ _ _ _ Hv). cbn [bind].
    destruct v; cbn [is_true pyval_eqb]; try reflexivity.
    destruct (pstr_eqb s (s2p "None")); reflexivity.
Qed.

(* fires iff: requests verb and (no literal timeout value or the literal 'None'), or httpx attribute and 'None' *)
Corollary timeout_rule_iff c q v :
  c_qualname c = Some q ->
  get_call_arg_value c (s2p "timeout") = Ok v ->
  let h := hd [] (split_on dot q) in
  (exists i, request_without_timeout c = Ok (Some i)) <->
  (is_requests_call c h = true /\ (v = PNone \/ v = PStr (s2p "None"))) \/
  (is_httpx_call c h = true /\ v = PStr (s2p "None")).
Proof.
  intros Hq Hv h. rewrite (timeout_rule c q v Hq Hv). fold h. unfold http_keyed.
  assert (Hs : pyval_eqb v (PStr (s2p "None")) = true <-> v = PStr (s2p "None")).
  { destruct v; cbn [pyval_eqb]; split; intro H; try discriminate.
    - apply pstr_eqb_spec in H. congruence.
    - inversion H. apply pstr_eqb_refl. }
  assert (Hp : is_pnone v = true <-> v = PNone) by (destruct v; cbn; split; intro; congruence).
  destruct (is_requests_call c h), (is_httpx_call c h), (is_pnone v) eqn:En,
           (pyval_eqb v (PStr (s2p "None"))) eqn:Es; cbn [andb orb];
    (split; [intros [i Hi]; try discriminate | intros Hc]);
    try (left; split; [reflexivity|]; first [left; apply Hp; reflexivity | right; apply Hs; reflexivity]);
    try (right; split; [reflexivity|]; apply Hs; reflexivity);
    try (eexists; reflexivity);
    try (destruct Hc as [[Hc1 [Hc2|Hc2]]|[Hc1 Hc2]]; try discriminate;
         first [apply Hp in Hc2 | apply Hs in Hc2]; congruence).
Qed.

Example timeout_rule_ex :
  let c := ex_requests_ctx "post" [ex_kw "timeout" (ex_const CNone)] in
  c_qualname c = Some (s2p "requests.post") /\
  get_call_arg_value c (s2p "timeout") = Ok (PStr (s2p "None")) /\
  is_requests_call c (s2p "requests") = true /\
  request_without_timeout c = Ok (Some (timeout_issue (txt_timeout_none (s2p "requests")))).
Proof. repeat split; reflexivity. Qed.

(* The rule as documented ("fires iff keyed and the timeout keyword is absent or None") is false in both
   directions: a present, non-literal timeout is reported as missing, and an httpx call without a
   timeout is not reported. *)
Theorem timeout_rule_documented_refuted :
  (exists c kws, call_keywords c = Ok (Some kws) /\ kw_mem (s2p "timeout") kws = true /\
                 is_requests_call c (s2p "requests") = true /\
                 request_without_timeout c = Ok (Some (timeout_issue (txt_without_timeout (s2p "requests"))))) /\
  (exists c kws, call_keywords c = Ok (Some kws) /\ kw_mem (s2p "timeout") kws = false /\
                 is_httpx_call c (s2p "httpx") = true /\
                 request_without_timeout c = Ok None).
Proof.
  split.
  - exists (ex_requests_ctx "get" [ex_kw "timeout" (ex_call (ex_name "get_timeout") [] [])]).
    eexists. repeat split; reflexivity.
  - exists (ex_ctx [s2p "httpx"] "httpx.get" (ex_call (ex_attr (ex_name "httpx") "get") [ex_name "url"] [])).
    eexists. repeat split; reflexivity.
Qed.

(* ------------------------------------------------------------------------------------------------ *)
(* B507                                                                                              *)
(* ------------------------------------------------------------------------------------------------ *)

Theorem hostkey_rule c a rest :
  is_module_imported_like c (s2p "paramiko") = true ->
  c_name c = Some s_set_policy ->
  field_opt "args" (c_node c) = Some (NList (a :: rest)) ->
  ssh_no_host_key_verification c =
  Ok (match policy_argument_value a with
      | Some v => if mem_pstr v bad_policies
                  then Some (hostkey_issue (get_lineno_for_call_arg c s_set_policy)) else None
      | None => None
      end).
Proof.
  intros Hi Hn Ha. unfold ssh_no_host_key_verification, name_in. rewrite Hi, Hn.
  replace (mem_pstr s_set_policy [s_set_policy]) with true by reflexivity.
  cbn [andb]. rewrite Ha. cbn [items].
  destruct (policy_argument_value a) as [v|]; [|reflexivity].
  destruct (mem_pstr v bad_policies); reflexivity.
Qed.

(* the policy as a Name, an Attribute, or a Call of either *)
Lemma policy_value_name p fs :
  policy_argument_value (Node "Name" p fs) = Some (name_id (Node "Name" p fs)).
Proof. reflexivity. Qed.
Lemma policy_value_attribute p fs :
  policy_argument_value (Node "Attribute" p fs) = Some (attr_of (Node "Attribute" p fs)).
Proof. reflexivity. Qed.
Lemma policy_value_call p fs :
  policy_argument_value (Node "Call" p fs) =
  let f := field "func" (Node "Call" p fs) in
  if is_cls "Attribute" f then Some (attr_of f) else if is_cls "Name" f then Some (name_id f) else None.
Proof. reflexivity. Qed.
Lemma policy_value_other cls p fs :
  cls <> "Name" -> cls <> "Attribute" -> cls <> "Call" -> policy_argument_value (Node cls p fs) = None.
Proof.
  intros H1 H2 H3. unfold policy_argument_value, is_cls.
  apply String.eqb_neq in H1, H2, H3. rewrite (String.eqb_sym "Attribute"), (String.eqb_sym "Name"), (String.eqb_sym "Call").
  rewrite H1, H2, H3. reflexivity.
Qed.

Definition ex_hostkey_ctx (arg : node) : ctx :=
  ex_ctx [s2p "paramiko"] "client.set_missing_host_key_policy"
         (ex_call (ex_attr (ex_name "client") "set_missing_host_key_policy") [arg] []).

Example hostkey_rule_ex :
  let c := ex_hostkey_ctx (ex_call (ex_attr (ex_name "paramiko") "AutoAddPolicy") [] []) in
  is_module_imported_like c (s2p "paramiko") = true /\ c_name c = Some s_set_policy /\
  ssh_no_host_key_verification c = Ok (Some (hostkey_issue None)) /\
  ssh_no_host_key_verification (ex_hostkey_ctx (ex_name "WarningPolicy")) = Ok (Some (hostkey_issue None)) /\
  ssh_no_host_key_verification (ex_hostkey_ctx (ex_attr (ex_name "paramiko") "AutoAddPolicy")) = Ok (Some (hostkey_issue None)) /\
  ssh_no_host_key_verification (ex_hostkey_ctx (ex_attr (ex_name "paramiko") "RejectPolicy")) = Ok None.
Proof. repeat split; reflexivity. Qed.

(* ------------------------------------------------------------------------------------------------ *)
(* B502 / B504                                                                                       *)
(* ------------------------------------------------------------------------------------------------ *)

(* check_call_arg_value(name, bad_versions) is True *)
Definition bad_hit (bad : jv) (v : pyval) : bool :=
  match v with PNone => false | _ => existsb (pv_eq_jv v) (cfg_values bad) end.

Lemma check_cfg_hit c name bad v :
  get_call_arg_value c name = Ok v ->
  bind (check_call_arg_cfg c name bad) (fun r => Ok (is_true r)) = Ok (bad_hit bad v).
Proof.
  intro H. unfold check_call_arg_cfg. rewrite H. cbn [bind].
  destruct v; cbn [bind is_true bad_hit]; try reflexivity;
    match goal with |- Ok (match ?b with _ => _ end) = _ => destruct b; reflexivity end.
Qed.

Lemma check_cfg_hit' c name bad v :
  get_call_arg_value c name = Ok v ->
  exists r, check_call_arg_cfg c name bad = Ok r /\ is_true r = bad_hit bad v.
Proof.
  intro H. unfold check_call_arg_cfg. rewrite H. cbn [bind].
  destruct v; eexists; (split; [reflexivity|]); cbn [is_true bad_hit]; try reflexivity;
    match goal with |- match ?b with _ => _ end = _ => destruct b; reflexivity end.
Qed.

Theorem ssl_bad_version_rule c cfg bad vs vm :
  cfg_item cfg (s2p "bad_protocol_versions") = Ok bad ->
  get_call_arg_value c (s2p "ssl_version") = Ok vs ->
  get_call_arg_value c (s2p "method") = Ok vm ->
  ssl_with_bad_version c cfg =
  Ok (if qual_is c q_wrap_socket then
        if bad_hit bad vs
        then Some (ssl_issue HIGH HIGH txt_wrap_socket_bad (get_lineno_for_call_arg c (s2p "ssl_version")))
        else None
      else if qual_is c q_ssl_context then
        if bad_hit bad vm
        then Some (ssl_issue HIGH HIGH txt_context_bad (get_lineno_for_call_arg c (s2p "method")))
        else None
      else
        if bad_hit bad vm || bad_hit bad vs
        then Some (ssl_issue MEDIUM MEDIUM txt_other_bad
                             (match get_lineno_for_call_arg c (s2p "method") with
                              | Some l => Some l
                              | None => get_lineno_for_call_arg c (s2p "ssl_version")
                              end))
        else None).
Proof.
  intros Hc Hs Hm. unfold ssl_with_bad_version, get_bad_proto_versions. rewrite Hc. cbn [bind].
  destruct (check_cfg_hit' c _ bad vs Hs) as [rs [Ers Hrs]].
  destruct (check_cfg_hit' c _ bad vm Hm) as [rm [Erm Hrm]].
  rewrite Ers, Erm. cbn [bind]. rewrite Hrs, Hrm.
  destruct (qual_is c q_wrap_socket).
  - destruct (bad_hit bad vs); reflexivity.
  - destruct (qual_is c q_ssl_context).
    + destruct (bad_hit bad vm); reflexivity.
    + destruct (bad_hit bad vm); cbn [bind orb]; [reflexivity|].
      destruct (bad_hit bad vs); reflexivity.
Qed.

(* with a list of strings as configuration, a str value (attribute name, name or string literal) hits iff listed *)
Lemma bad_hit_str names s :
  bad_hit (JList (map JStr names)) (PStr s) = mem_pstr s names.
Proof.
  unfold bad_hit, cfg_values, mem_pstr. induction names as [|n t IH]; [reflexivity|].
  cbn [map existsb]. rewrite IH. reflexivity.
Qed.

Definition ex_wrap_ctx (kws : list node) : ctx :=
  ex_ctx [s2p "ssl"] "ssl.wrap_socket" (ex_call (ex_attr (ex_name "ssl") "wrap_socket") [] kws).

Example ssl_bad_version_rule_ex :
  let c := ex_wrap_ctx [ex_kw "ssl_version" (ex_attr (ex_name "ssl") "PROTOCOL_SSLv3")] in
  cfg_item ssl_default_cfg (s2p "bad_protocol_versions") <> Raise KeyError /\
  get_call_arg_value c (s2p "ssl_version") = Ok (PStr (s2p "PROTOCOL_SSLv3")) /\
  get_call_arg_value c (s2p "method") = Ok PNone /\
  qual_is c q_wrap_socket = true /\
  ssl_with_bad_version c ssl_default_cfg = Ok (Some (ssl_issue HIGH HIGH txt_wrap_socket_bad (Some 1%Z))).
Proof. repeat split; try reflexivity. discriminate. Qed.

Theorem ssl_no_version_rule c v :
  get_call_arg_value c (s2p "ssl_version") = Ok v ->
  ssl_with_no_version c =
  Ok (if qual_is c q_wrap_socket && is_pnone v
      then Some (ssl_issue LOW MEDIUM txt_no_version (get_lineno_for_call_arg c (s2p "ssl_version")))
      else None).
Proof.
  intro Hv. unfold ssl_with_no_version. destruct (qual_is c q_wrap_socket); [|reflexivity].
  rewrite (check_value_single _ _ _ _ Hv). cbn [bind andb]. destruct v; reflexivity.
Qed.

Example ssl_no_version_rule_ex :
  get_call_arg_value (ex_wrap_ctx []) (s2p "ssl_version") = Ok PNone /\
  ssl_with_no_version (ex_wrap_ctx []) = Ok (Some (ssl_issue LOW MEDIUM txt_no_version None)) /\
  (* a non-literal version is reported as "no version", at the line of the keyword value *)
  ssl_with_no_version (ex_wrap_ctx [ex_kw "ssl_version" (ex_call (ex_name "pick") [] [])])
  = Ok (Some (ssl_issue LOW MEDIUM txt_no_version (Some 1%Z))).
Proof. repeat split; reflexivity. Qed.

(* ------------------------------------------------------------------------------------------------ *)
(* B508 / B509                                                                                       *)
(* ------------------------------------------------------------------------------------------------ *)

Theorem snmp_rules c :
  (forall v, get_call_arg_value c (s2p "mpModel") = Ok v ->
     snmp_insecure_version_check c =
     Ok (if qual_is c q_community_data && (pv_eq_Z v 0 || pv_eq_Z v 1)
         then Some (snmp_version_issue (get_lineno_for_call_arg c (s2p "CommunityData"))) else None)) /\
  (forall n, call_args_count c = Some n ->
     snmp_crypto_check c =
     Ok (if qual_is c q_usm_user_data && Nat.ltb n 3
         then Some (snmp_crypto_issue (get_lineno_for_call_arg c (s2p "UsmUserData"))) else None)).
Proof.
  split.
  - intros v Hv. unfold snmp_insecure_version_check. destruct (qual_is c q_community_data); [|reflexivity].
    unfold check_call_arg_int. rewrite Hv. cbn [bind andb].
    set (b0 := pv_eq_Z v 0). set (b1 := pv_eq_Z v 1).
    destruct v; try (destruct b0, b1; reflexivity).
    subst b0 b1. reflexivity.
  - intros n Hn. unfold snmp_crypto_check. destruct (qual_is c q_usm_user_data); [|reflexivity].
    rewrite Hn. cbn [andb]. destruct (Nat.ltb n 3); reflexivity.
Qed.

Example snmp_rules_ex :
  let c := ex_ctx [] "pysnmp.hlapi.CommunityData"
                  (ex_call (ex_name "CommunityData") [ex_const (CStr (s2p "public"))]
                           [ex_kw "mpModel" (ex_const (CInt 0))]) in
  let u := ex_ctx [] "pysnmp.hlapi.UsmUserData"
                  (ex_call (ex_name "UsmUserData") [ex_const (CStr (s2p "user"))] []) in
  get_call_arg_value c (s2p "mpModel") = Ok (PInt 0) /\ qual_is c q_community_data = true /\
  snmp_insecure_version_check c = Ok (Some (snmp_version_issue None)) /\
  call_args_count u = Some 1%nat /\ snmp_crypto_check u = Ok (Some (snmp_crypto_issue None)).
Proof. repeat split; reflexivity. Qed.

(* mpModel=0.0 and mpModel=1.0 compare equal to 0 and 1 in Python *)
Example snmp_float_version :
  snmp_insecure_version_check
    (ex_ctx [] "pysnmp.hlapi.CommunityData"
            (ex_call (ex_name "CommunityData") [] [ex_kw "mpModel" (ex_const (CFloat (s2p "1.0") true))]))
  = Ok (Some (snmp_version_issue None)).
Proof. reflexivity. Qed.

(* ------------------------------------------------------------------------------------------------ *)
(* the secure variant of each call is silent                                                         *)
(* ------------------------------------------------------------------------------------------------ *)

Lemma bind_ok_none {A} (r : res A) (k : A -> res (option rissue)) a :
  r = Ok a -> k a = Ok None -> bind r k = Ok None.
Proof. intros -> H. exact H. Qed.

Theorem crypto_secure_variant_silent :
  (* B324: no `hashlib`/`crypt` component in the qualified name; or usedforsecurity=False *)
  (forall c q, c_qualname c = Some q ->
     mem_pstr (s2p "hashlib") (split_on dot q) = false -> mem_pstr (s2p "crypt") (split_on dot q) = false ->
     hashlib c = Ok None) /\
  (forall c q kws args, c_qualname c = Some q -> mem_pstr (s2p "hashlib") (split_on dot q) = true ->
     call_keywords c = Ok (Some kws) -> call_args c = Ok args ->
     kw_lookup (s2p "usedforsecurity") kws = Some (PStr (s2p "False")) ->
     hashlib c = Ok None) /\
  (* B505: not a keyed name; or an integer keyword literal at or above the medium threshold *)
  (forall c cfg q, c_qualname c = Some q ->
     assoc q cryptography_io_funcs = None -> assoc q pycrypto_funcs = None ->
     weak_cryptographic_key c cfg = Ok None) /\
  (forall c cfg dh dm rh rm eh em q kw kt k,
     int_thresholds cfg dh dm rh rm eh em -> c_qualname c = Some q -> keyed_keyword q = Some (kw, kt) ->
     get_call_arg_value c kw = Ok (PInt k) ->
     (1 <= k)%Z -> (pick kt dh rh eh <= k)%Z -> (pick kt dm rm em <= k)%Z ->
     weak_cryptographic_key c cfg = Ok None) /\
  (* B502: neither ssl_version= nor method= carries a literal value *)
  (forall c cfg bad, cfg_item cfg (s2p "bad_protocol_versions") = Ok bad ->
     get_call_arg_value c (s2p "ssl_version") = Ok PNone -> get_call_arg_value c (s2p "method") = Ok PNone ->
     ssl_with_bad_version c cfg = Ok None) /\
  (* B503: a function without positional defaults *)
  (forall c cfg bad, cfg_item cfg (s2p "bad_protocol_versions") = Ok bad ->
     function_def_defaults_qual c = [] -> ssl_with_bad_defaults c cfg = Ok None) /\
  (* B504: an explicit literal ssl_version *)
  (forall c v, get_call_arg_value c (s2p "ssl_version") = Ok v -> v <> PNone -> ssl_with_no_version c = Ok None) /\
  (* B501: verify is anything but the literal False *)
  (forall c q v, c_qualname c = Some q -> get_call_arg_value c (s2p "verify") = Ok v ->
     v <> PStr (s2p "False") -> request_with_no_cert_validation c = Ok None) /\
  (* B113: a literal timeout other than None *)
  (forall c q v, c_qualname c = Some q -> get_call_arg_value c (s2p "timeout") = Ok v ->
     v <> PNone -> v <> PStr (s2p "None") -> request_without_timeout c = Ok None) /\
  (* B507: paramiko is not imported; or the policy is not one of the two trusting ones *)
  (forall c, is_module_imported_like c (s2p "paramiko") = false -> ssh_no_host_key_verification c = Ok None) /\
  (forall c a rest v, field_opt "args" (c_node c) = Some (NList (a :: rest)) ->
     policy_argument_value a = Some v -> mem_pstr v bad_policies = false ->
     ssh_no_host_key_verification c = Ok None) /\
  (* B508: mpModel is a literal other than 0 and 1;  B509: at least three positional arguments *)
  (forall c v, get_call_arg_value c (s2p "mpModel") = Ok v -> pv_eq_Z v 0 = false -> pv_eq_Z v 1 = false ->
     snmp_insecure_version_check c = Ok None) /\
  (forall c n, call_args_count c = Some n -> (3 <= n)%nat -> snmp_crypto_check c = Ok None).
Proof.
  repeat split.
  - intros c q Hq Hh Hc. unfold hashlib. rewrite Hq. cbn zeta. rewrite Hh, Hc. reflexivity.
  - intros c q kws args Hq Hh Hk Ha Hu.
    assert (Hufs : ufs kws = false) by (unfold ufs; rewrite Hu; reflexivity).
    unfold hashlib. rewrite Hq. cbn zeta. rewrite Hh. unfold hashlib_func. rewrite Hk. cbn [bind].
    assert (Hr : forall nm, report_weak_hash c (Some kws) nm = Ok None).
    { intro nm. unfold report_weak_hash. rewrite used_for_security_ufs, Hufs. reflexivity. }
    destruct (mem_pstr (last (split_on dot q) []) weak_hashes); [apply Hr|].
    destruct (pstr_eqb (last (split_on dot q) []) (s2p "new")); [|reflexivity].
    rewrite Ha. cbn [bind]. unfold hash_new_name, kw_get_default.
    destruct args as [|a args']; cbn [bind].
    + destruct (match kw_lookup (s2p "name") kws with Some v => v | None => PNone end); try reflexivity.
      destruct (mem_pstr (lower s) weak_hashes); [apply Hr|reflexivity].
    + destruct a; try reflexivity. destruct (mem_pstr (lower s) weak_hashes); [apply Hr|reflexivity].
  - intros c cfg q Hq H1 H2.
    unfold weak_cryptographic_key, weak_crypto_key_size_cryptography_io, weak_crypto_key_size_pycrypto,
      func_key_type. rewrite Hq, H1, H2. reflexivity.
  - intros c cfg dh dm rh rm eh em q kw kt k Hi Hq Hk Hv H1 Hh Hm.
    rewrite (weak_key_keyword c cfg q kw kt k Hq Hk Hv) by lia.
    rewrite (keysize_classify _ _ _ _ _ _ _ kt k Hi).
    destruct (Z.ltb_spec k (pick kt dh rh eh)); [lia|].
    destruct (Z.ltb_spec k (pick kt dm rm em)); [lia|]. reflexivity.
  - intros c cfg bad Hc Hs Hm. rewrite (ssl_bad_version_rule c cfg bad PNone PNone Hc Hs Hm).
    cbn [bad_hit orb]. destruct (qual_is c q_wrap_socket); [reflexivity|].
    destruct (qual_is c q_ssl_context); reflexivity.
  - intros c cfg bad Hc Hd. unfold ssl_with_bad_defaults, get_bad_proto_versions. rewrite Hc, Hd. reflexivity.
  - intros c v Hv Hn. rewrite (ssl_no_version_rule c v Hv).
    destruct v; [contradiction| ..]; cbn [is_pnone]; rewrite andb_false_r; reflexivity.
  - intros c q v Hq Hv Hn. rewrite (verify_false_rule c q v Hq Hv).
    destruct (pyval_eqb v (PStr (s2p "False"))) eqn:E; [|rewrite andb_false_r; reflexivity].
    exfalso. apply Hn. destruct v; cbn [pyval_eqb] in E; try discriminate.
    apply pstr_eqb_spec in E. congruence.
  - intros c q v Hq Hv Hn1 Hn2. rewrite (timeout_rule c q v Hq Hv).
    assert (E1 : is_pnone v = false) by (destruct v; try reflexivity; contradiction).
    assert (E2 : pyval_eqb v (PStr (s2p "None")) = false).
    { destruct (pyval_eqb v (PStr (s2p "None"))) eqn:E; [|reflexivity].
      exfalso. apply Hn2. destruct v; cbn [pyval_eqb] in E; try discriminate.
      apply pstr_eqb_spec in E. congruence. }
    rewrite E1, E2, !andb_false_r. reflexivity.
  - intros c Hi. unfold ssh_no_host_key_verification. rewrite Hi. reflexivity.
  - intros c a rest v Ha Hp Hm. unfold ssh_no_host_key_verification.
    destruct (is_module_imported_like c (s2p "paramiko") && name_in c [s_set_policy]); [|reflexivity].
    rewrite Ha. cbn [items]. rewrite Hp, Hm. reflexivity.
  - intros c v Hv H0 H1. destruct (snmp_rules c) as [Hr _]. rewrite (Hr v Hv), H0, H1, andb_false_r. reflexivity.
  - intros c n Hn Hge. destruct (snmp_rules c) as [_ Hr]. rewrite (Hr n Hn).
    destruct (Nat.ltb_spec n 3); [lia|]. rewrite andb_false_r. reflexivity.
Qed.

(* the hypotheses of each clause hold on a concrete secure call *)
Example crypto_secure_variant_silent_ex :
  hashlib (ex_ctx [s2p "hashlib"] "hashlib.sha256" (ex_call (ex_attr (ex_name "hashlib") "sha256") [] [])) = Ok None /\
  weak_cryptographic_key (ex_dsa_ctx 4096) weak_key_default_cfg = Ok None /\
  get_call_arg_value (ex_dsa_ctx 4096) (s2p "key_size") = Ok (PInt 4096) /\
  ssl_with_bad_version (ex_wrap_ctx [ex_kw "ssl_version" (ex_attr (ex_name "ssl") "PROTOCOL_TLSv1_2")]) ssl_default_cfg = Ok None /\
  ssl_with_no_version (ex_wrap_ctx [ex_kw "ssl_version" (ex_attr (ex_name "ssl") "PROTOCOL_TLSv1_2")]) = Ok None /\
  request_with_no_cert_validation (ex_requests_ctx "get" [ex_kw "verify" (ex_const (CBool true))]) = Ok None /\
  request_without_timeout (ex_requests_ctx "get" [ex_kw "timeout" (ex_const (CInt 5))]) = Ok None /\
  get_call_arg_value (ex_requests_ctx "get" [ex_kw "timeout" (ex_const (CInt 5))]) (s2p "timeout") = Ok (PInt 5) /\
  ssh_no_host_key_verification (ex_hostkey_ctx (ex_attr (ex_name "paramiko") "RejectPolicy")) = Ok None /\
  snmp_crypto_check (ex_ctx [] "pysnmp.hlapi.UsmUserData"
                            (ex_call (ex_name "UsmUserData") [ex_name "u"; ex_name "a"; ex_name "p"] [])) = Ok None.
Proof. repeat split; reflexivity. Qed.

(* ------------------------------------------------------------------------------------------------ *)
(* Totality: which checks can still raise                                                            *)
(* ------------------------------------------------------------------------------------------------ *)
(* Since Context._get_literal_value skips unhashable set elements (e3b31e7), no Context accessor raises
   any more; what is left are the configuration look-ups, the threshold comparison, and attribute
   accesses that the visitor's contexts always satisfy. *)

Definition total {A} (r : res A) : Prop := exists a, r = Ok a.

Lemma mapM_total {A B} (f : A -> res B) l : Forall (fun x => total (f x)) l -> total (mapM f l).
Proof.
  induction 1 as [|x l [y Hy] _ [ys Hys]]; [eexists; reflexivity|].
  cbn [mapM]. rewrite Hy, Hys. eexists; reflexivity.
Qed.

Lemma literal_value_total n : total (literal_value n).
Proof.
  enough (H : total (literal_value n) /\
              forall its, n = NList its -> Forall (fun i => total (literal_value i)) its) by apply H.
  induction n as [c p fs IH | l IH | | | |] using node_ind';
    try (split; [eexists; reflexivity | intros its E; discriminate E]).
  - split; [|intros its E; discriminate E].
    cbn [literal_value].
    assert (Hf : total ((fix find (l : list (string * node)) : res (list pyval) :=
          match l with
          | [] => Ok []
          | (k, v) :: t =>
              if "elts" =? k
              then
               match v with
               | NList its =>
                   (fix go (is : list node) : res (list pyval) :=
                      match is with
                      | [] => Ok []
                      | i :: is' =>
                          do x <- literal_value i;;
                          do xs <- go is';; Ok (x :: xs)
                      end) its
               | _ => Ok []
               end
              else find t
          end) fs)).
    { induction IH as [|[k v] t [_ Hv] _ IHt]; [eexists; reflexivity|].
      cbn [snd] in Hv. destruct ("elts" =? k); [|exact IHt].
      destruct v as [| its | | | |]; try (eexists; reflexivity).
      specialize (Hv its eq_refl).
      induction Hv as [|i its' [x Hx] _ [xs Hxs]]; [eexists; reflexivity|].
      rewrite Hx. cbn [bind]. rewrite Hxs. eexists; reflexivity. }
    destruct Hf as [l Hl]. rewrite Hl. cbn [bind].
    destruct (c =? "Constant").
    { destruct (lookup_field "value" fs) as [[]|]; eexists; reflexivity. }
    destruct (c =? "List"); [eexists; reflexivity|].
    destruct (c =? "Tuple"); [eexists; reflexivity|].
    destruct (c =? "Set").
    { clear Hl. generalize (@nil pyval). induction l as [|v l IHl]; intro acc; [eexists; reflexivity|].
      simpl. destruct (hashable v); apply IHl. }
    destruct (c =? "Dict"); [eexists; reflexivity|].
    destruct (c =? "Name"); eexists; reflexivity.
  - split; [eexists; reflexivity|]. intros its E. inversion E; subst its.
    eapply Forall_impl; [|exact IH]. intros a [Ha _]. exact Ha.
Qed.

Lemma arg_value_total a : total (arg_value a).
Proof. unfold arg_value. destruct (is_cls "Attribute" a); [eexists; reflexivity|apply literal_value_total]. Qed.

Lemma call_args_total c : total (call_args c).
Proof.
  unfold call_args. destruct (c_call c); [|eexists; reflexivity].
  apply mapM_total. apply Forall_forall. intros x _. apply arg_value_total.
Qed.

Lemma call_keywords_total c : total (call_keywords c).
Proof.
  unfold call_keywords. destruct (c_call c) as [call|]; [|eexists; reflexivity].
  assert (H : total (mapM (fun k => do v <- arg_value (field "value" k);; Ok (kw_arg k, v))
                          (field_list "keywords" call))).
  { apply mapM_total. apply Forall_forall. intros k _.
    destruct (arg_value_total (field "value" k)) as [v Hv]. rewrite Hv. eexists; reflexivity. }
  destruct H as [l Hl]. rewrite Hl. eexists; reflexivity.
Qed.

Lemma call_keywords_some c call : c_call c = Some call -> exists l, call_keywords c = Ok (Some l).
Proof.
  intro H. destruct (call_keywords_total c) as [r Hr]. unfold call_keywords in *. rewrite H in *.
  destruct (mapM _ _) as [l|e]; [|discriminate]. eexists; reflexivity.
Qed.

Lemma get_call_arg_value_total c name : total (get_call_arg_value c name).
Proof.
  unfold get_call_arg_value. destruct (call_keywords_total c) as [[l|] Hr]; rewrite Hr; cbn [bind].
  - destruct (kw_lookup name l); eexists; reflexivity.
  - eexists; reflexivity.
Qed.

Lemma get_call_arg_at_position_total c i : total (get_call_arg_at_position c i).
Proof.
  unfold get_call_arg_at_position. destruct (c_call c); [|eexists; reflexivity].
  destruct (Nat.ltb _ _); [|eexists; reflexivity].
  destruct (_ && _); [eexists; reflexivity|apply literal_value_total].
Qed.

Lemma check_call_arg_value_total c name vals : total (check_call_arg_value c name vals).
Proof.
  unfold check_call_arg_value. destruct (get_call_arg_value_total c name) as [v Hv]. rewrite Hv.
  destruct v; eexists; reflexivity.
Qed.

Lemma bind_total {A B} (r : res A) (k : A -> res B) :
  total r -> (forall a, total (k a)) -> total (bind r k).
Proof. intros [a ->] H. apply H. Qed.

Lemma ok_total {A} (a : A) : total (Ok a).
Proof. eexists; reflexivity. Qed.

(* --- B505 --- *)

(* all six thresholds present and numeric (int, or bool counting as 0/1) *)
Definition numeric_cfg (cfg : jv) : Prop :=
  forall kt, exists h m, thresholds cfg kt = Ok (h, m) /\ thr_num h <> None /\ thr_num m <> None.

Lemma default_cfg_numeric : numeric_cfg weak_key_default_cfg.
Proof. intro kt. destruct kt; eexists; eexists; (split; [reflexivity|split; discriminate]). Qed.

Lemma int_thresholds_numeric cfg dh dm rh rm eh em :
  int_thresholds cfg dh dm rh rm eh em -> numeric_cfg cfg.
Proof.
  intros H kt. rewrite (thresholds_int _ _ _ _ _ _ _ kt H). eexists; eexists.
  split; [reflexivity|split; discriminate].
Qed.

Lemma classify_total cfg kt k : numeric_cfg cfg -> total (classify_key_size cfg kt k).
Proof.
  intro H. unfold classify_key_size. destruct (is_number k) eqn:En; [|apply ok_total].
  destruct (H kt) as (h & m & Ht & Hh & Hm). rewrite Ht. cbn [bind fst snd]. unfold lt_threshold.
  destruct (thr_num h) as [zh|]; [|contradiction]. destruct (thr_num m) as [zm|]; [|contradiction].
  destruct k; try discriminate En; cbn [bind].
  - destruct (z <? zh)%Z; [apply ok_total|]. cbn [bind]. destruct (z <? zm)%Z; apply ok_total.
  - destruct (float_ltb_Z r zh); [apply ok_total|]. cbn [bind]. destruct (float_ltb_Z r zm); apply ok_total.
Qed.

(* a key size that is not a number is never classified -- and never looks at the configuration *)
Lemma classify_non_number cfg kt k : is_number k = false -> classify_key_size cfg kt k = Ok None.
Proof. intro H. unfold classify_key_size. rewrite H. reflexivity. Qed.

Lemma key_size_of_total c kw pos : total (key_size_of c kw pos).
Proof.
  unfold key_size_of. apply bind_total; [apply get_call_arg_value_total|]. intro a.
  destruct (truthy a); [apply ok_total|].
  apply bind_total; [apply get_call_arg_at_position_total|]. intro b. destruct (truthy b); apply ok_total.
Qed.

Lemma ec_curve_total c : total (ec_curve c).
Proof.
  unfold ec_curve. apply bind_total; [apply get_call_arg_value_total|]. intro v.
  destruct (truthy v); [apply ok_total|].
  apply bind_total; [apply call_args_total|]. intros [|a l]; apply ok_total.
Qed.

Theorem weak_key_never_raises_numeric cfg c :
  numeric_cfg cfg -> total (weak_cryptographic_key c cfg).
Proof.
  intro H. unfold weak_cryptographic_key. apply bind_total.
  - unfold weak_crypto_key_size_cryptography_io.
    destruct (func_key_type cryptography_io_funcs c) as [[]|]; try apply ok_total.
    + apply bind_total; [apply key_size_of_total|]. intro k. apply classify_total, H.
    + apply bind_total; [apply key_size_of_total|]. intro k. apply classify_total, H.
    + apply bind_total; [apply ec_curve_total|]. intro k. apply classify_total, H.
  - intros [i|]; [apply ok_total|]. unfold weak_crypto_key_size_pycrypto.
    destruct (func_key_type pycrypto_funcs c); [|apply ok_total].
    apply bind_total; [apply key_size_of_total|]. intro ks. apply classify_total, H.
Qed.

(* under the default configuration B505 returns normally on every context whatsoever *)
Theorem weak_key_never_raises_default :
  forall c, exists r, weak_cryptographic_key c weak_key_default_cfg = Ok r.
Proof. intro c. apply weak_key_never_raises_numeric, default_cfg_numeric. Qed.

Definition weak_cryptographic_key_never_raises := weak_key_never_raises_default.

(* The configuration shapes on which B505 still raises -- each needs a keyed call whose key size is a
   number (int or float literal, the 2048 default, or any EC call):
     - the configuration is not a mapping              -> TypeError
     - one of the six keys is missing                   -> KeyError (even for a call of another key type)
     - a threshold is not an int/bool (str, None, list) -> TypeError *)
Example weak_key_still_raises :
  let c := ex_dsa_ctx 512 in
  weak_cryptographic_key c (JList [JInt 1024]) = Raise TypeError /\
  weak_cryptographic_key c (JDict [(s2p "weak_key_size_dsa_high", JInt 1024)]) = Raise KeyError /\
  weak_cryptographic_key c (JDict [(s2p "weak_key_size_dsa_high", JStr (s2p "1024"));
                                   (s2p "weak_key_size_dsa_medium", JInt 2048);
                                   (s2p "weak_key_size_rsa_high", JInt 1024); (s2p "weak_key_size_rsa_medium", JInt 2048);
                                   (s2p "weak_key_size_ec_high", JInt 160); (s2p "weak_key_size_ec_medium", JInt 224)])
  = Raise TypeError /\
  (* ... while a non-numeric key size is now silent even with a broken configuration *)
  weak_cryptographic_key
    (ex_ctx [] ex_dsa_q (ex_call (ex_attr (ex_name "dsa") "generate_private_key") []
                                 [ex_kw "key_size" (Node "List" (ex_pos 1) [("elts", NList [ex_const (CInt 512)]); ("ctx", Node "Load" None [])])]))
    (JList []) = Ok None.
Proof. repeat split; reflexivity. Qed.

(* --- B502 / B503 / B504 --- *)

Lemma check_call_arg_cfg_total c name bad : total (check_call_arg_cfg c name bad).
Proof.
  unfold check_call_arg_cfg. apply bind_total; [apply get_call_arg_value_total|].
  intro v. destruct v; apply ok_total.
Qed.

(* B502 returns normally as soon as the configuration has the key, whatever its value *)
Theorem ssl_with_bad_version_never_raises_cfg cfg bad c :
  cfg_item cfg (s2p "bad_protocol_versions") = Ok bad -> total (ssl_with_bad_version c cfg).
Proof.
  intro H. unfold ssl_with_bad_version, get_bad_proto_versions. rewrite H. cbn [bind].
  destruct (qual_is c q_wrap_socket).
  { apply bind_total; [apply check_call_arg_cfg_total|]. intro r. destruct (is_true r); apply ok_total. }
  destruct (qual_is c q_ssl_context).
  { apply bind_total; [apply check_call_arg_cfg_total|]. intro r. destruct (is_true r); apply ok_total. }
  apply bind_total; [apply check_call_arg_cfg_total|]. intro r1.
  apply bind_total.
  - destruct (is_true r1); [apply ok_total|].
    apply bind_total; [apply check_call_arg_cfg_total|]. intro r2. apply ok_total.
  - intros []; apply ok_total.
Qed.

Theorem ssl_with_bad_version_never_raises :
  forall c, exists r, ssl_with_bad_version c ssl_default_cfg = Ok r.
Proof. intro c. eapply ssl_with_bad_version_never_raises_cfg. reflexivity. Qed.

(* `val in bad_ssl_versions` needs a container: list, str or mapping *)
Definition container (bad : jv) : bool :=
  match bad with JList _ | JStr _ | JDict _ => true | _ => false end.

Lemma first_bad_default_total bad ds : container bad = true -> total (first_bad_default bad ds).
Proof.
  intro H. induction ds as [|d t IH]; [apply ok_total|]. cbn [first_bad_default].
  apply bind_total.
  - destruct bad; try discriminate H; apply ok_total.
  - intros []; [apply ok_total|exact IH].
Qed.

Theorem ssl_with_bad_defaults_never_raises_cfg cfg bad c :
  cfg_item cfg (s2p "bad_protocol_versions") = Ok bad -> container bad = true ->
  total (ssl_with_bad_defaults c cfg).
Proof.
  intros H Hc. unfold ssl_with_bad_defaults, get_bad_proto_versions. rewrite H. cbn [bind].
  apply bind_total; [apply first_bad_default_total, Hc|]. intros []; apply ok_total.
Qed.

Theorem ssl_with_bad_defaults_never_raises :
  forall c, exists r, ssl_with_bad_defaults c ssl_default_cfg = Ok r.
Proof. intro c. eapply ssl_with_bad_defaults_never_raises_cfg; reflexivity. Qed.

(* what still raises: no `bad_protocol_versions` key (KeyError, B502 on every call and B503 on every
   def), a configuration that is not a mapping (TypeError), and for B503 a value that is not a
   container (int, bool, None: TypeError) as soon as the function has one positional default *)
Example ssl_still_raises :
  let f := ex_ctx [] "f" (Node "FunctionDef" (ex_pos 1)
             [("name", NId (s2p "f"));
              ("args", Node "arguments" None [("defaults", NList [ex_const (CInt 1)])])]) in
  ssl_with_bad_version (ex_wrap_ctx []) (JDict []) = Raise KeyError /\
  ssl_with_bad_version (ex_wrap_ctx []) (JList []) = Raise TypeError /\
  ssl_with_bad_defaults f (JDict []) = Raise KeyError /\
  ssl_with_bad_defaults f (JDict [(s2p "bad_protocol_versions", JInt 3)]) = Raise TypeError /\
  ssl_with_bad_version (ex_wrap_ctx []) (JDict [(s2p "bad_protocol_versions", JInt 3)]) = Ok None.
Proof. repeat split; reflexivity. Qed.

Theorem ssl_with_no_version_never_raises : forall c, exists r, ssl_with_no_version c = Ok r.
Proof.
  intro c. unfold ssl_with_no_version. destruct (qual_is c q_wrap_socket); [|apply ok_total].
  apply bind_total; [apply check_call_arg_value_total|]. intro r. destruct (is_none r); apply ok_total.
Qed.

(* --- B501 / B113: total on every context with a qualified name (every Call context has one) --- *)

Theorem request_with_no_cert_validation_never_raises :
  forall c q, c_qualname c = Some q -> exists r, request_with_no_cert_validation c = Ok r.
Proof.
  intros c q Hq. unfold request_with_no_cert_validation, qual_head. rewrite Hq. cbn [bind].
  destruct (_ || _); [|apply ok_total].
  apply bind_total; [apply check_call_arg_value_total|]. intro r. destruct (is_true r); apply ok_total.
Qed.

Theorem request_without_timeout_never_raises :
  forall c q, c_qualname c = Some q -> exists r, request_without_timeout c = Ok r.
Proof.
  intros c q Hq. unfold request_without_timeout, qual_head. rewrite Hq. cbn [bind].
  apply bind_total.
  - destruct (is_requests_call c _); [|apply ok_total].
    apply bind_total; [apply check_call_arg_value_total|]. intro r. apply ok_total.
  - intros []; [apply ok_total|]. destruct (_ || _); [|apply ok_total].
    apply bind_total; [apply check_call_arg_value_total|]. intro r. destruct (is_true r); apply ok_total.
Qed.

(* --- B324: total on every context that has a call and a positioned node --- *)

Lemma report_weak_hash_total c kws l name :
  lineno_of (c_node c) = Some l -> total (report_weak_hash c (Some kws) name).
Proof. intro Hl. rewrite (report_weak_hash_eq c kws l name Hl). apply ok_total. Qed.

Lemma report_weak_crypt_total c l name :
  lineno_of (c_node c) = Some l -> total (report_weak_crypt c name).
Proof.
  intro Hl. unfold report_weak_crypt, node_lineno. rewrite Hl.
  destruct name; try apply ok_total. destruct (mem_pstr s weak_crypt_hashes); apply ok_total.
Qed.

Theorem hashlib_never_raises :
  forall c call l, c_call c = Some call -> lineno_of (c_node c) = Some l -> exists r, hashlib c = Ok r.
Proof.
  intros c call l Hc Hl. unfold hashlib. destruct (c_qualname c) as [q|]; [|apply ok_total]. cbn zeta.
  destruct (call_keywords_some c call Hc) as [kws Hk].
  destruct (mem_pstr (s2p "hashlib") (split_on dot q)).
  - unfold hashlib_func. rewrite Hk. cbn [bind].
    destruct (mem_pstr _ weak_hashes); [eapply report_weak_hash_total, Hl|].
    destruct (pstr_eqb _ (s2p "new")); [|apply ok_total].
    apply bind_total; [apply call_args_total|]. intro args.
    apply bind_total; [destruct args; apply ok_total|]. intro name.
    destruct name; try apply ok_total.
    destruct (mem_pstr (lower s) weak_hashes); [eapply report_weak_hash_total, Hl|apply ok_total].
  - destruct (_ && _); [|apply ok_total]. unfold crypt_crypt.
    apply bind_total; [apply call_args_total|]. intro args. rewrite Hk. cbn [bind].
    destruct (pstr_eqb _ (s2p "crypt")).
    { apply bind_total; [destruct args as [|? [|? ?]]; apply ok_total|]. intro n. eapply report_weak_crypt_total, Hl. }
    destruct (pstr_eqb _ (s2p "mksalt")); [|apply ok_total].
    apply bind_total; [destruct args; apply ok_total|]. intro n. eapply report_weak_crypt_total, Hl.
Qed.

(* --- B507: total on every context whose node has an `args` field (every Call node) --- *)

Theorem ssh_no_host_key_verification_never_raises :
  forall c a, field_opt "args" (c_node c) = Some a -> exists r, ssh_no_host_key_verification c = Ok r.
Proof.
  intros c a Ha. unfold ssh_no_host_key_verification. destruct (_ && _); [|apply ok_total].
  rewrite Ha. destruct (items a) as [|x t]; [apply ok_total|].
  destruct (policy_argument_value x) as [v|]; [|apply ok_total].
  destruct (mem_pstr v bad_policies); apply ok_total.
Qed.

(* --- B508 total everywhere; B509 on every context with a call --- *)

Theorem snmp_insecure_version_check_never_raises :
  forall c, exists r, snmp_insecure_version_check c = Ok r.
Proof.
  intro c. unfold snmp_insecure_version_check. destruct (qual_is c q_community_data); [|apply ok_total].
  assert (Hc : forall z, total (check_call_arg_int c (s2p "mpModel") z)).
  { intro z. unfold check_call_arg_int. apply bind_total; [apply get_call_arg_value_total|].
    intro v. destruct v; apply ok_total. }
  apply bind_total; [apply Hc|]. intro r0. apply bind_total.
  - destruct (is_true r0); [apply ok_total|]. apply bind_total; [apply Hc|]. intro r1. apply ok_total.
  - intros []; apply ok_total.
Qed.

Theorem snmp_crypto_check_never_raises :
  forall c call, c_call c = Some call -> exists r, snmp_crypto_check c = Ok r.
Proof.
  intros c call Hc. unfold snmp_crypto_check. destruct (qual_is c q_usm_user_data); [|apply ok_total].
  unfold call_args_count. rewrite Hc. destruct (Nat.ltb _ 3); apply ok_total.
Qed.

(* The side conditions above hold in every context the visitor hands to a Call check: *)
Definition visitor_call_ctx (c : ctx) : Prop :=
  c_call c = Some (c_node c) /\ (exists q, c_qualname c = Some q) /\
  (exists l, lineno_of (c_node c) = Some l) /\ (exists a, field_opt "args" (c_node c) = Some a).

Lemma ctx_set_call_shape c q :
  c_call (Visitor.ctx_set_call c (c_node c) q) = Some (c_node (Visitor.ctx_set_call c (c_node c) q)) /\
  c_qualname (Visitor.ctx_set_call c (c_node c) q) = Some q.
Proof. split; reflexivity. Qed.

(* all Call checks of the family are total under the default configuration *)
Theorem crypto_call_checks_never_raise c :
  visitor_call_ctx c ->
  total (hashlib c) /\ total (weak_cryptographic_key c weak_key_default_cfg) /\
  total (ssl_with_bad_version c ssl_default_cfg) /\ total (ssl_with_no_version c) /\
  total (request_with_no_cert_validation c) /\ total (request_without_timeout c) /\
  total (ssh_no_host_key_verification c) /\ total (snmp_insecure_version_check c) /\
  total (snmp_crypto_check c).
Proof.
  intros (Hc & [q Hq] & [l Hl] & [a Ha]). repeat split.
  - eapply hashlib_never_raises; eassumption.
  - apply weak_key_never_raises_default.
  - apply ssl_with_bad_version_never_raises.
  - apply ssl_with_no_version_never_raises.
  - eapply request_with_no_cert_validation_never_raises; eassumption.
  - eapply request_without_timeout_never_raises; eassumption.
  - eapply ssh_no_host_key_verification_never_raises; eassumption.
  - apply snmp_insecure_version_check_never_raises.
  - eapply snmp_crypto_check_never_raises; eassumption.
Qed.

Example visitor_call_ctx_ex : visitor_call_ctx ex_md5_ctx.
Proof. repeat split; eexists; reflexivity. Qed.

(* outside such contexts the attribute accesses do raise: a context without a call *)
Example no_call_context_raises :
  let c := Ctx NNone [] NNone [] [] None None None [] None (Some (s2p "hashlib.md5")) (Some (s2p "md5"))
               None None None None (s2p "t.py") None in
  hashlib c = Raise AttributeError /\
  snmp_crypto_check (Ctx NNone [] NNone [] [] None None None [] None (Some q_usm_user_data) None
                         None None None None (s2p "t.py") None) = Raise TypeError /\
  request_without_timeout (Ctx NNone [] NNone [] [] None None None [] None None None
                               None None None None (s2p "t.py") None) = Raise AttributeError.
Proof. repeat split; reflexivity. Qed.
