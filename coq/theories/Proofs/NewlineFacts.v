(* Line splitting is blind to the line-end convention; so is everything computed from the lines. *)
From Coq Require Import List NArith ZArith Bool Lia.
From Bandit Require Import Base.PyStr Engine.Types Formats.Newlines Plugins.Trojan.
Import ListNotations.
Local Open Scope N_scope.

Lemma ulines_aux_crlf s : ~ In 13 s -> forall cur, ulines_aux (to_crlf s) cur = ulines_aux s cur.
Proof.
  induction s as [|c t IH]; intros H cur; [reflexivity|].
  assert (Hc : c <> 13) by (intro E; apply H; left; exact E).
  assert (Ht : ~ In 13 t) by (intro E; apply H; right; exact E).
  unfold to_crlf. cbn [flat_map]. fold (to_crlf t).
  destruct (c =? 10) eqn:E10.
  - cbn [app ulines_aux]. rewrite E10. replace (13 =? 10) with false by reflexivity. replace (13 =? 13) with true by reflexivity.
    replace (10 =? 10) with true by reflexivity. rewrite IH by exact Ht. reflexivity.
  - cbn [app ulines_aux]. rewrite E10. destruct (c =? 13) eqn:E13; [apply N.eqb_eq in E13; contradiction|].
    apply IH. exact Ht.
Qed.

Theorem ulines_crlf s : ~ In 13 s -> ulines (to_crlf s) = ulines s.
Proof. intro H. apply ulines_aux_crlf. exact H. Qed.

Lemma ulines_aux_cr s : ~ In 13 s -> forall cur, ulines_aux (to_cr s) cur = ulines_aux s cur.
Proof.
  induction s as [|c t IH]; intros H cur; [reflexivity|].
  assert (Hc : c <> 13) by (intro E; apply H; left; exact E).
  assert (Ht : ~ In 13 t) by (intro E; apply H; right; exact E).
  unfold to_cr. cbn [map]. fold (to_cr t).
  destruct (c =? 10) eqn:E10.
  - cbn [ulines_aux]. rewrite E10. replace (13 =? 10) with false by reflexivity. replace (13 =? 13) with true by reflexivity.
    (* the next character of the converted text is never LF *)
    destruct t as [|d t'].
    + reflexivity.
    + cbn [to_cr map]. fold (to_cr t').
      assert (Hd : ((if d =? 10 then 13 else d) =? 10) = false).
      { destruct (d =? 10) eqn:Ed; [reflexivity | exact Ed]. }
      rewrite Hd. f_equal. apply (IH Ht []).
  - cbn [ulines_aux]. rewrite E10. destruct (c =? 13) eqn:E13; [apply N.eqb_eq in E13; contradiction|].
    apply IH. exact Ht.
Qed.

Theorem ulines_cr s : ~ In 13 s -> ulines (to_cr s) = ulines s.
Proof. intro H. apply ulines_aux_cr. exact H. Qed.

Theorem decode_sig_bom s : decode_sig (with_bom s) = s.
Proof. reflexivity. Qed.

(* hence the trojan-source check answers the same for every line-end convention and with or without a BOM *)
Theorem trojan_newline_invariant bidi s n : ~ In 13 s ->
  scan_lines bidi (ulines (to_crlf s)) n = scan_lines bidi (ulines s) n
  /\ scan_lines bidi (ulines (to_cr s)) n = scan_lines bidi (ulines s) n.
Proof. intro H. rewrite ulines_crlf, ulines_cr by exact H. split; reflexivity. Qed.

Theorem trojan_bom_invariant bidi s n :
  scan_lines bidi (ulines (decode_sig (with_bom s))) n = scan_lines bidi (ulines s) n.
Proof. reflexivity. Qed.

Example ulines_demo : ulines [97; 13; 10; 98; 13; 99; 10; 100] = [[97; 10]; [98; 10]; [99; 10]; [100]].
Proof. vm_compute. reflexivity. Qed.
