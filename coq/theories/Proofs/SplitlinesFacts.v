(* bytes.splitlines() (the lines count_locs sees) is blind to the line-end convention: the loc metric of a
   program is the same with LF, CRLF or lone-CR line ends. *)
From Coq Require Import List NArith ZArith Bool Lia.
From Bandit Require Import Base.PyStr Engine.Types Engine.Tester Engine.Metrics Formats.Newlines.
Import ListNotations.
Local Open Scope N_scope.

(* the literal patterns of splitlines_aux, as tests *)
Ltac dN c := destruct c as [|[[[[?|?|]|[?|?|]|]|[[?|?|]|[?|?|]|]|]|[[[?|?|]|[?|?|]|]|[[?|?|]|[?|?|]|]|]|]].

Lemma splitlines_aux_step c t cur :
  splitlines_aux (c :: t) cur =
  if c =? 10 then rev cur :: splitlines_aux t []
  else if c =? 13 then
    match t with
    | d :: t' => if d =? 10 then rev cur :: splitlines_aux t' [] else rev cur :: splitlines_aux t []
    | [] => [rev cur]
    end
  else splitlines_aux t (c :: cur).
Proof.
  dN c; try reflexivity.
  (* c = 13: look at the next byte *)
  destruct t as [|d t']; [reflexivity|]. dN d; reflexivity.
Qed.

Lemma splitlines_aux_crlf s : ~ In 13 s -> forall cur, splitlines_aux (to_crlf s) cur = splitlines_aux s cur.
Proof.
  induction s as [|c t IH]; intros H cur; [reflexivity|].
  assert (Hc : c <> 13) by (intro E; apply H; left; exact E).
  assert (Ht : ~ In 13 t) by (intro E; apply H; right; exact E).
  unfold to_crlf. cbn [flat_map]. fold (to_crlf t). rewrite (splitlines_aux_step c t).
  destruct (c =? 10) eqn:E10.
  - cbn [app]. rewrite (splitlines_aux_step 13). replace (13 =? 10) with false by reflexivity. replace (13 =? 13) with true by reflexivity.
    replace (10 =? 10) with true by reflexivity. rewrite IH by exact Ht. reflexivity.
  - cbn [app]. rewrite (splitlines_aux_step c). rewrite E10. destruct (c =? 13) eqn:E13; [apply N.eqb_eq in E13; contradiction|].
    apply IH. exact Ht.
Qed.

Theorem splitlines_crlf s : ~ In 13 s -> splitlines (to_crlf s) = splitlines s.
Proof. intro H. apply splitlines_aux_crlf. exact H. Qed.

Lemma splitlines_aux_cr s : ~ In 13 s -> forall cur, splitlines_aux (to_cr s) cur = splitlines_aux s cur.
Proof.
  induction s as [|c t IH]; intros H cur; [reflexivity|].
  assert (Hc : c <> 13) by (intro E; apply H; left; exact E).
  assert (Ht : ~ In 13 t) by (intro E; apply H; right; exact E).
  unfold to_cr. cbn [map]. fold (to_cr t). rewrite (splitlines_aux_step c t).
  destruct (c =? 10) eqn:E10.
  - rewrite (splitlines_aux_step 13). replace (13 =? 10) with false by reflexivity. replace (13 =? 13) with true by reflexivity.
    destruct t as [|d t'].
    + reflexivity.
    + cbn [to_cr map]. fold (to_cr t').
      assert (Hd : ((if d =? 10 then 13 else d) =? 10) = false).
      { destruct (d =? 10) eqn:Ed; [reflexivity | exact Ed]. }
      rewrite Hd. f_equal. apply (IH Ht []).
  - rewrite (splitlines_aux_step c). rewrite E10. destruct (c =? 13) eqn:E13; [apply N.eqb_eq in E13; contradiction|].
    apply IH. exact Ht.
Qed.

Theorem splitlines_cr s : ~ In 13 s -> splitlines (to_cr s) = splitlines s.
Proof. intro H. apply splitlines_aux_cr. exact H. Qed.

(* C12: the loc metric does not depend on the line-end convention *)
Theorem loc_newline_invariant s : ~ In 13 s ->
  count_locs (splitlines (to_crlf s)) = count_locs (splitlines s)
  /\ count_locs (splitlines (to_cr s)) = count_locs (splitlines s).
Proof. intro H. rewrite splitlines_crlf, splitlines_cr by exact H. split; reflexivity. Qed.

Example loc_demo : count_locs (splitlines [35; 32; 99; 13; 10; 120; 61; 49; 13; 13; 121; 10]) = 2%Z.
Proof. vm_compute. reflexivity. Qed.

(* C10/C12: inserting blank or comment-only lines between the lines of a file leaves the loc metric alone (the first line
   keeps its place, so a byte order mark stays where strip_bom looks for it) *)
Definition strip_first (l : list N) : list N :=
  match l with 239 :: 187 :: 191 :: rest => rest | _ => l end.
Lemma strip_bom_cons first t : strip_bom (first :: t) = strip_first first :: t.
Proof.
  unfold strip_bom, strip_first.
  repeat match goal with |- context [match ?x with _ => _ end] => destruct x end; reflexivity.
Qed.

Lemma count_locs_insert first rest1 rest2 ins :
  Forall (fun l => is_loc l = false) ins ->
  count_locs (first :: rest1 ++ ins ++ rest2) = count_locs (first :: rest1 ++ rest2).
Proof.
  intro H. unfold count_locs. rewrite !strip_bom_cons. cbn [filter].
  assert (G : filter is_loc ins = []).
  { induction H as [|x t Hx Ht IH]; [reflexivity|]. cbn [filter]. rewrite Hx. exact IH. }
  destruct (is_loc (strip_first first)); cbn [List.length]; rewrite !filter_app, G; reflexivity.
Qed.
