From Coq Require Import List NArith ZArith Bool String Lia Permutation.
From Bandit Require Import Base.PyStr Ast.Node Engine.Types Engine.Tester Engine.Visitor Engine.Metrics
     Cli.Thresholds Proofs.PyStrFacts Proofs.VisitorFacts.
Import ListNotations.
Local Open Scope Z_scope.

(* the constants module with arbitrary weights *)
Definition K_std (wU wL wM wH : Z) : consts :=
  Consts std_ranking [(rank_name UNDEFINED, wU); (rank_name LOW, wL); (rank_name MEDIUM, wM); (rank_name HIGH, wH)].

Definition w_of (wU wL wM wH : Z) (r : rank) : Z :=
  match r with UNDEFINED => wU | LOW => wL | MEDIUM => wM | HIGH => wH end.

Definition vec (wU wL wM wH : Z) (fs : list finding) : scores :=
  ([wU * count_sev UNDEFINED fs; wL * count_sev LOW fs; wM * count_sev MEDIUM fs; wH * count_sev HIGH fs],
   [wU * count_conf UNDEFINED fs; wL * count_conf LOW fs; wM * count_conf MEDIUM fs; wH * count_conf HIGH fs]).

Lemma pair4 (a b c d e g h i a' b' c' d' e' g' h' i' : Z) :
  a = a' -> b = b' -> c = c' -> d = d' -> e = e' -> g = g' -> h = h' -> i = i' ->
  ([a; b; c; d], [e; g; h; i]) = ([a'; b'; c'; d'], [e'; g'; h'; i']).
Proof. intros; subst; reflexivity. Qed.
Lemma some_pair4 (a b c d e g h i a' b' c' d' e' g' h' i' : Z) :
  a = a' -> b = b' -> c = c' -> d = d' -> e = e' -> g = g' -> h = h' -> i = i' ->
  Some ([a; b; c; d], [e; g; h; i]) = Some ([a'; b'; c'; d'], [e'; g'; h'; i']).
Proof. intros; subst; reflexivity. Qed.

Lemma count_sev_cons r f fs :
  count_sev r (f :: fs) = (if rank_eqb (f_sev f) r then 1 else 0) + count_sev r fs.
Proof. unfold count_sev. cbn [filter]. destruct (rank_eqb (f_sev f) r); cbn [List.length]; rewrite ?Nat2Z.inj_succ; lia. Qed.
Lemma count_conf_cons r f fs :
  count_conf r (f :: fs) = (if rank_eqb (f_conf f) r then 1 else 0) + count_conf r fs.
Proof. unfold count_conf. cbn [filter]. destruct (rank_eqb (f_conf f) r); cbn [List.length]; rewrite ?Nat2Z.inj_succ; lia. Qed.
Lemma count_sev_app r a b : count_sev r (a ++ b) = count_sev r a + count_sev r b.
Proof. unfold count_sev. rewrite filter_app, app_length. lia. Qed.
Lemma count_conf_app r a b : count_conf r (a ++ b) = count_conf r a + count_conf r b.
Proof. unfold count_conf. rewrite filter_app, app_length. lia. Qed.

Section W.
  Variables wU wL wM wH : Z.
  Let K := K_std wU wL wM wH.

  Lemma score_one_std f a b c d e g h i :
    score_one K f ([a; b; c; d], [e; g; h; i]) =
    Some (match f_sev f with
          | UNDEFINED => [a + wU; b; c; d] | LOW => [a; b + wL; c; d]
          | MEDIUM => [a; b; c + wM; d] | HIGH => [a; b; c; d + wH] end,
          match f_conf f with
          | UNDEFINED => [e + wU; g; h; i] | LOW => [e; g + wL; h; i]
          | MEDIUM => [e; g; h + wM; i] | HIGH => [e; g; h; i + wH] end).
  Proof. destruct f as [? ? s c0 ? ? ? ? ? ?]; destruct s, c0; reflexivity. Qed.

  Lemma scores_fold fs : forall a b c d e g h i,
    fold_left (fun acc f => match acc with Some sc => score_one K f sc | None => None end) fs
              (Some ([a; b; c; d], [e; g; h; i])) =
    Some ([a + wU * count_sev UNDEFINED fs; b + wL * count_sev LOW fs;
           c + wM * count_sev MEDIUM fs; d + wH * count_sev HIGH fs],
          [e + wU * count_conf UNDEFINED fs; g + wL * count_conf LOW fs;
           h + wM * count_conf MEDIUM fs; i + wH * count_conf HIGH fs]).
  Proof.
    induction fs as [|f fs IH]; intros a b c d e g h i.
    - simpl. unfold count_sev, count_conf. simpl. apply some_pair4; lia.
    - cbn [fold_left]. rewrite score_one_std.
      rewrite !count_sev_cons, !count_conf_cons.
      destruct (f_sev f), (f_conf f); rewrite IH; cbn [rank_eqb]; apply some_pair4; lia.
  Qed.

  Theorem scores_of_vec fs : scores_of K fs = Some (vec wU wL wM wH fs).
  Proof.
    unfold scores_of. change (zero_scores K) with ([0;0;0;0], [0;0;0;0]).
    rewrite scores_fold. unfold vec. apply some_pair4; lia.
  Qed.

  Lemma vec_app a b : vec wU wL wM wH (a ++ b) = add_scores (vec wU wL wM wH a) (vec wU wL wM wH b).
  Proof.
    unfold vec, add_scores. cbn [fst snd zip_add].
    rewrite !count_sev_app, !count_conf_app. apply pair4; lia.
  Qed.

  Hypothesis HU : 0 < wU.
  Hypothesis HL : 0 < wL.
  Hypothesis HM : 0 < wM.
  Hypothesis HH : 0 < wH.

  (* per-rank counts reported in the metrics equal the number of findings of that rank *)
  Theorem counts_exact fs :
    counts_of K (fst (vec wU wL wM wH fs)) =
      [(rank_name UNDEFINED, count_sev UNDEFINED fs); (rank_name LOW, count_sev LOW fs);
       (rank_name MEDIUM, count_sev MEDIUM fs); (rank_name HIGH, count_sev HIGH fs)]
    /\ counts_of K (snd (vec wU wL wM wH fs)) =
      [(rank_name UNDEFINED, count_conf UNDEFINED fs); (rank_name LOW, count_conf LOW fs);
       (rank_name MEDIUM, count_conf MEDIUM fs); (rank_name HIGH, count_conf HIGH fs)].
  Proof.
    unfold counts_of, vec, K, K_std. cbn [fst snd k_ranking std_ranking all_ranks map combine k_values].
    unfold weight. cbn [k_values].
    assert (E1 : forall n, wU * n / wU = n) by (intro; rewrite Z.mul_comm; apply Z.div_mul; lia).
    assert (E2 : forall n, wL * n / wL = n) by (intro; rewrite Z.mul_comm; apply Z.div_mul; lia).
    assert (E3 : forall n, wM * n / wM = n) by (intro; rewrite Z.mul_comm; apply Z.div_mul; lia).
    assert (E4 : forall n, wH * n / wH = n) by (intro; rewrite Z.mul_comm; apply Z.div_mul; lia).
    split; vm_compute assoc; cbn; rewrite ?E1, ?E2, ?E3, ?E4; reflexivity.
  Qed.

  (* ---- the visitor's accumulated scores are the scores of exactly the reported findings ---- *)
  Definition ScoreInv (st : vstate) : Prop := v_scores st = vec wU wL wM wH (ts_results (v_tester st)).

  Lemma run_one_inv m c t st0 ts sc new :
    ts_results ts = ts_results st0 ++ new -> sc = vec wU wL wM wH new ->
    exists new', ts_results (fst (run_one K m c t (ts, sc))) = ts_results st0 ++ new'
                 /\ snd (run_one K m c t (ts, sc)) = vec wU wL wM wH new'.
  Proof.
    intros Hr Hs. unfold run_one.
    destruct (t_fn t c) as [[r|]|e]; cbn [fst snd ts_results].
    - set (f := fill_defaults t c r).
      assert (Hsc : score_one K f sc = Some (vec wU wL wM wH (new ++ [f]))).
      { subst sc. unfold vec at 1. rewrite score_one_std.
        rewrite vec_app. unfold vec, add_scores. cbn [fst snd zip_add].
        rewrite !count_sev_cons, !count_conf_cons. unfold count_sev, count_conf. cbn [filter List.length].
        destruct (f_sev f), (f_conf f); cbn [rank_eqb]; apply some_pair4; lia. }
      rewrite Hsc.
      destruct (nosecs_from_contexts m (c_linerange c) (ri_lineno r)) as [[|i ids]|].
      + exists new. auto.
      + destruct (mem_pstr (f_test_id f) (i :: ids)).
        * exists new. auto.
        * exists (new ++ [f]). cbn [fst snd ts_results]. rewrite Hr, app_assoc. auto.
      + exists (new ++ [f]). cbn [fst snd ts_results]. rewrite Hr, app_assoc. auto.
    - exists new. auto.
    - exists new. auto.
  Qed.

  Lemma run_tests_inv tests m c ct st0 :
    exists new, ts_results (fst (run_tests K tests m c ct st0)) = ts_results st0 ++ new
                /\ snd (run_tests K tests m c ct st0) = vec wU wL wM wH new.
  Proof.
    unfold run_tests.
    assert (G : forall l ts sc new, ts_results ts = ts_results st0 ++ new -> sc = vec wU wL wM wH new ->
              exists new', ts_results (fst (fold_left (fun acc t => run_one K m c t acc) l (ts, sc))) = ts_results st0 ++ new'
                           /\ snd (fold_left (fun acc t => run_one K m c t acc) l (ts, sc)) = vec wU wL wM wH new').
    { induction l as [|t l IH]; intros ts sc new Hr Hs; [exists new; auto|].
      cbn [fold_left].
      destruct (run_one_inv m c t st0 ts sc new Hr Hs) as [new' [H1 H2]].
      destruct (run_one K m c t (ts, sc)) as [ts' sc'] eqn:E. cbn [fst snd] in H1, H2.
      apply (IH ts' sc' new' H1 H2). }
    apply (G _ st0 (zero_scores K) []).
    - rewrite app_nil_r. reflexivity.
    - unfold vec, count_sev, count_conf. cbn [filter List.length Z.of_nat]. rewrite !Z.mul_0_r. reflexivity.
  Qed.

  Variables (tests : list test) (m : nosec_map) (fname : pstr) (lines : option (list pstr)).
  Let E := Env K tests m fname lines.

  Lemma with_tests_inv c ct st : ScoreInv st -> ScoreInv (with_tests E c ct st).
  Proof.
    unfold ScoreInv, with_tests. intro H.
    destruct (run_tests_inv tests m c ct (v_tester st)) as [new [H1 H2]].
    cbn [e_consts e_tests e_nosec E].
    destruct (run_tests K tests m c ct (v_tester st)) as [ts sc]. cbn [fst snd] in H1, H2.
    cbn [v_scores v_tester]. rewrite H, H1, H2, vec_app. reflexivity.
  Qed.

  Lemma fold_import_scores names st :
    v_scores (fst (do_import names st)) = v_scores st /\ v_tester (fst (do_import names st)) = v_tester st.
  Proof.
    unfold do_import.
    assert (G : forall l acc, v_scores (fst (fold_left (fun acc a =>
               let st := fst acc in
               let al := match alias_asname a with
                         | Some asn => assoc_set asn (alias_name a) (v_aliases st)
                         | None => v_aliases st end in
               (VState (set_add (alias_name a) (v_imports st)) al (v_tester st) (v_scores st), Some (alias_name a))) l acc))
               = v_scores (fst acc) /\
               v_tester (fst (fold_left (fun acc a =>
               let st := fst acc in
               let al := match alias_asname a with
                         | Some asn => assoc_set asn (alias_name a) (v_aliases st)
                         | None => v_aliases st end in
               (VState (set_add (alias_name a) (v_imports st)) al (v_tester st) (v_scores st), Some (alias_name a))) l acc))
               = v_tester (fst acc)).
    { induction l as [|a l IH]; intros acc; [split; reflexivity|]. cbn [fold_left]. rewrite (proj1 (IH _)), (proj2 (IH _)). split; reflexivity. }
    apply G.
  Qed.

  Lemma fold_import_from_scores md names st :
    v_scores (fst (do_import_from md names st)) = v_scores st /\
    v_tester (fst (do_import_from md names st)) = v_tester st.
  Proof.
    unfold do_import_from.
    assert (G : forall l acc,
      v_scores (fst (fold_left (fun acc a =>
               let st := fst acc in
               let full := md ++ [dot] ++ alias_name a in
               let key := match alias_asname a with Some asn => asn | None => alias_name a end in
               (VState (set_add full (v_imports st)) (assoc_set key full (v_aliases st)) (v_tester st) (v_scores st),
                Some (alias_name a))) l acc)) = v_scores (fst acc) /\
      v_tester (fst (fold_left (fun acc a =>
               let st := fst acc in
               let full := md ++ [dot] ++ alias_name a in
               let key := match alias_asname a with Some asn => asn | None => alias_name a end in
               (VState (set_add full (v_imports st)) (assoc_set key full (v_aliases st)) (v_tester st) (v_scores st),
                Some (alias_name a))) l acc)) = v_tester (fst acc)).
    { induction l as [|a l IH]; intros acc; [split; reflexivity|]. cbn [fold_left]. rewrite (proj1 (IH _)), (proj2 (IH _)). split; reflexivity. }
    apply G.
  Qed.

  Lemma visit_one_inv n ps sib st : ScoreInv st -> ScoreInv (visit_one E n ps sib st).
  Proof.
    intro H. unfold visit_one.
    repeat match goal with
           | |- ScoreInv (if ?b then _ else _) => destruct b
           | |- ScoreInv (let '(_, _) := ?x in _) => destruct x eqn:?
           | |- ScoreInv (match ?x with _ => _ end) => destruct x eqn:?
           | |- ScoreInv (with_tests _ _ _ _) => apply with_tests_inv
           end; try exact H.
    - match goal with Hd : do_import ?ns ?s = (?v, _) |- _ =>
        pose proof (fold_import_scores ns s) as [A B]; rewrite Hd in A, B; cbn [fst] in A, B end.
      unfold ScoreInv in *. congruence.
    - match goal with Hd : do_import_from ?md ?ns ?s = (?v, _) |- _ =>
        pose proof (fold_import_from_scores md ns s) as [A B]; rewrite Hd in A, B; cbn [fst] in A, B end.
      unfold ScoreInv in *. congruence.
  Qed.

  (* scores returned by process = weights x number of *reported* findings of each rank *)
  Theorem process_scores module :
    v_scores (process E module) = vec wU wL wM wH (ts_results (v_tester (process E module))).
  Proof.
    unfold process. apply with_tests_inv.
    apply (generic_visit_inv E ScoreInv).
    - intros; apply visit_one_inv; assumption.
    - unfold ScoreInv, vec, count_sev, count_conf. cbn [v_init v_scores v_tester ts_init ts_results filter List.length Z.of_nat].
      rewrite !Z.mul_0_r. reflexivity.
  Qed.
End W.

(* totals are sums over the per-file blocks *)
Theorem totals_are_sums K blocks :
  tt_loc (aggregate K blocks) = sumZ (map fb_loc blocks) /\
  tt_nosec (aggregate K blocks) = sumZ (map fb_nosec blocks) /\
  tt_skipped (aggregate K blocks) = sumZ (map fb_skipped blocks) /\
  (forall r, In r (k_ranking K) ->
     In (r, sumZ (map (fun b => block_rank (fb_sev b) r) blocks)) (tt_sev (aggregate K blocks)) /\
     In (r, sumZ (map (fun b => block_rank (fb_conf b) r) blocks)) (tt_conf (aggregate K blocks))).
Proof.
  repeat split; try reflexivity; unfold aggregate; cbn [tt_sev tt_conf];
    apply in_map_iff; exists r; auto.
Qed.

(* ----- totals do not depend on the order in which the files were scanned, and compose over parts of a run ----- *)
Lemma sumZ_app l1 l2 : sumZ (l1 ++ l2) = sumZ l1 + sumZ l2.
Proof. unfold sumZ. induction l1 as [|x l1 IH]; cbn [app fold_right]; [reflexivity | rewrite IH; lia]. Qed.

Lemma sumZ_perm l l' : Permutation l l' -> sumZ l = sumZ l'.
Proof.
  unfold sumZ. induction 1 as [|x l l' _ IH|x y l|l l' l'' _ IH1 _ IH2]; cbn [fold_right]; [reflexivity | rewrite IH; reflexivity | lia | congruence].
Qed.

Theorem totals_order_insensitive K blocks blocks' :
  Permutation blocks blocks' -> aggregate K blocks = aggregate K blocks'.
Proof.
  intro P. unfold aggregate.
  rewrite (sumZ_perm _ _ (Permutation_map fb_loc P)),
          (sumZ_perm _ _ (Permutation_map fb_nosec P)),
          (sumZ_perm _ _ (Permutation_map fb_skipped P)).
  f_equal; apply map_ext; intro r; f_equal; apply sumZ_perm, Permutation_map, P.
Qed.

Theorem totals_compose K b1 b2 :
  tt_loc (aggregate K (b1 ++ b2)) = tt_loc (aggregate K b1) + tt_loc (aggregate K b2) /\
  tt_nosec (aggregate K (b1 ++ b2)) = tt_nosec (aggregate K b1) + tt_nosec (aggregate K b2) /\
  tt_skipped (aggregate K (b1 ++ b2)) = tt_skipped (aggregate K b1) + tt_skipped (aggregate K b2) /\
  tt_sev (aggregate K (b1 ++ b2)) =
    map (fun r => (r, sumZ (map (fun b => block_rank (fb_sev b) r) b1) + sumZ (map (fun b => block_rank (fb_sev b) r) b2))) (k_ranking K) /\
  tt_conf (aggregate K (b1 ++ b2)) =
    map (fun r => (r, sumZ (map (fun b => block_rank (fb_conf b) r) b1) + sumZ (map (fun b => block_rank (fb_conf b) r) b2))) (k_ranking K).
Proof.
  unfold aggregate. cbn [tt_loc tt_nosec tt_skipped tt_sev tt_conf]. rewrite !map_app, !sumZ_app.
  repeat split; apply map_ext; intro r; rewrite map_app, sumZ_app; reflexivity.
Qed.

(* lines of code: neither blank (ASCII whitespace only) nor comment-only *)
Definition blank (l : list N) : Prop := forall c, In c l -> is_ascii_ws c = true.
Definition comment_only (l : list N) : Prop :=
  exists ws rest, l = ws ++ 35%N :: rest /\ (forall c, In c ws -> is_ascii_ws c = true).

Lemma lstrip_ws_spec l :
  exists ws, l = ws ++ lstrip_ws l /\ (forall c, In c ws -> is_ascii_ws c = true) /\
             match lstrip_ws l with [] => True | c :: _ => is_ascii_ws c = false end.
Proof.
  induction l as [|c l IH]; simpl.
  - exists []. split; [reflexivity|]. split; [intros c []|exact I].
  - destruct (is_ascii_ws c) eqn:E.
    + destruct IH as [ws [H1 [H2 H3]]]. exists (c :: ws). split; [|split].
      * simpl. congruence.
      * intros x [<-|Hx]; auto.
      * exact H3.
    + exists []. split; [reflexivity|]. split; [intros x []|exact E].
Qed.

Lemma first_nonws_unique : forall a b x y xs ys,
  a ++ x :: xs = b ++ y :: ys ->
  (forall c, In c a -> is_ascii_ws c = true) -> (forall c, In c b -> is_ascii_ws c = true) ->
  is_ascii_ws x = false -> is_ascii_ws y = false -> x = y.
Proof.
  induction a as [|a0 a IH]; intros [|b0 b] x y xs ys Heq Ha Hb Hx Hy; simpl in Heq.
  - injection Heq as E1 _. exact E1.
  - injection Heq as E1 _. exfalso. specialize (Hb b0 (or_introl eq_refl)). congruence.
  - injection Heq as E1 _. exfalso. specialize (Ha a0 (or_introl eq_refl)). congruence.
  - injection Heq as _ E2. apply (IH b x y xs ys E2); auto; intros; [apply Ha | apply Hb]; right; assumption.
Qed.

Theorem is_loc_spec l : is_loc l = true <-> ~ blank l /\ ~ comment_only l.
Proof.
  unfold is_loc. destruct (lstrip_ws_spec l) as [ws [H1 [H2 H3]]].
  destruct (lstrip_ws l) as [|c r] eqn:E.
  - split; [discriminate|]. intros [Hb _]. exfalso. apply Hb. intros x Hx.
    rewrite H1, app_nil_r in Hx. auto.
  - split.
    + intro Hc. apply negb_true_iff in Hc. apply N.eqb_neq in Hc. split.
      * intro Hb. assert (Hin : In c l) by (rewrite H1; apply in_or_app; right; left; reflexivity).
        specialize (Hb c Hin). congruence.
      * intros [ws' [rest [Hl Hws']]].
        assert (Heq : c = 35%N).
        { apply (first_nonws_unique ws ws' c 35%N r rest); auto. congruence. }
        contradiction.
    + intros [_ Hnc]. apply negb_true_iff. apply N.eqb_neq. intro Hc. subst c.
      apply Hnc. exists ws, r. split; auto.
Qed.

Theorem count_locs_spec lines :
  count_locs lines = Z.of_nat (List.length (filter is_loc (strip_bom lines))).
Proof. reflexivity. Qed.
