From Coq Require Import List NArith ZArith Bool String Lia.
From Bandit Require Import Base.PyStr Ast.Node Engine.Types Engine.Scan Plugins.Trojan.
Import ListNotations.
Local Open Scope Z_scope.

Lemma index_char_none c line : index_char c line = None <-> ~ In c line.
Proof.
  induction line as [|x t IH]; simpl; [tauto|].
  destruct (N.eqb x c) eqn:E.
  - apply N.eqb_eq in E. split; [discriminate | intro H; exfalso; apply H; auto].
  - apply N.eqb_neq in E. destruct (index_char c t) eqn:Ei; simpl.
    + split; [discriminate|]. intro H. exfalso. assert (G : Some n = None) by (apply IH; tauto). discriminate.
    + split; [|reflexivity]. intros _ [H|H]; [congruence|]. apply (proj1 IH eq_refl H).
Qed.

Lemma index_char_some c line i :
  index_char c line = Some i -> nth_error line i = Some c /\ ~ In c (firstn i line).
Proof.
  revert i. induction line as [|x t IH]; intros i; simpl; [discriminate|].
  destruct (N.eqb x c) eqn:E.
  - apply N.eqb_eq in E. intro H; inversion H; subst. simpl. split; [reflexivity | tauto].
  - apply N.eqb_neq in E. destruct (index_char c t) as [j|] eqn:Ei; simpl; [|discriminate].
    intro H; inversion H; subst. destruct (IH j eq_refl) as [H1 H2]. simpl. split; [exact H1|].
    intros [Hx|Hx]; [congruence | contradiction].
Qed.

Lemma first_bidi_none bidi line : first_bidi bidi line = None <-> forall c, In c bidi -> ~ In c line.
Proof.
  induction bidi as [|b t IH]; simpl; [split; [intros _ c [] | reflexivity]|].
  destruct (index_char b line) as [i|] eqn:E.
  - split; [discriminate|]. intro H. exfalso. apply (H b (or_introl eq_refl)).
    destruct (index_char_some _ _ _ E) as [Hn _]. eapply nth_error_In; exact Hn.
  - rewrite IH. apply index_char_none in E. split.
    + intros H c [<-|Hc]; auto.
    + intros H c Hc. apply H. auto.
Qed.

Lemma first_bidi_some bidi line c i :
  first_bidi bidi line = Some (c, i) -> In c bidi /\ nth_error line i = Some c /\ ~ In c (firstn i line).
Proof.
  induction bidi as [|b t IH]; simpl; [discriminate|].
  destruct (index_char b line) as [j|] eqn:E.
  - intro H; inversion H; subst. destruct (index_char_some _ _ _ E). auto.
  - intro H. destruct (IH H) as [H1 H2]. auto.
Qed.

Definition clean (bidi : list N) (line : pstr) : Prop := forall c, In c bidi -> ~ In c line.

(* no finding iff no line contains a listed character *)
Theorem scan_lines_none bidi lines n :
  scan_lines bidi lines n = None <-> Forall (clean bidi) lines.
Proof.
  revert n. induction lines as [|l t IH]; intro n; simpl.
  - split; [constructor | reflexivity].
  - destruct (first_bidi bidi l) as [[c i]|] eqn:E.
    + split; [discriminate|]. intro H. inversion H; subst. pose proof (proj2 (first_bidi_none bidi l) H2) as Hc. congruence.
    + rewrite IH. pose proof (proj1 (first_bidi_none bidi l) E) as Hc. split; intro H; [constructor; assumption | inversion H; assumption].
Qed.

(* a finding is located on the first line that contains a listed character, numbered from n, at the
   1-based column of the first-listed character occurring in it, HIGH / MEDIUM *)
Theorem scan_lines_some bidi lines n r :
  scan_lines bidi lines n = Some r ->
  exists k line c i,
    nth_error lines k = Some line /\ Forall (clean bidi) (firstn k lines) /\
    In c bidi /\ nth_error line i = Some c /\ ~ In c (firstn i line) /\
    ri_lineno r = Some (n + Z.of_nat k) /\ ri_col r = Some (Z.of_nat i + 1) /\
    ri_linerange r = Some [n + Z.of_nat k] /\ ri_sev r = HIGH /\ ri_conf r = MEDIUM /\ ri_text r = trojan_text c.
Proof.
  revert n. induction lines as [|l t IH]; intro n; simpl; [discriminate|].
  destruct (first_bidi bidi l) as [[c i]|] eqn:E.
  - intro H; inversion H; subst. destruct (first_bidi_some _ _ _ _ E) as [H1 [H2 H3]].
    exists O, l, c, i. cbn [nth_error firstn ri_lineno ri_col ri_linerange ri_sev ri_conf ri_text Z.of_nat].
    rewrite Z.add_0_r. repeat split; auto.
  - intro H. destruct (IH (n + 1) H) as [k [line [c [i [H1 [H2 [H3 [H4 [H5 [H6 [H7 [H8 H9]]]]]]]]]]]].
    exists (S k), line, c, i. cbn [nth_error firstn].
    split; [exact H1|]. split; [constructor; [exact (proj1 (first_bidi_none bidi l) E) | exact H2]|].
    split; [exact H3|]. split; [exact H4|]. split; [exact H5|].
    split; [rewrite H6; f_equal; lia|]. split; [exact H7|].
    split; [rewrite H8; do 2 f_equal; lia | exact H9].
Qed.

(* bidirectional control characters anywhere in the decoded text are reported *)
Theorem bidi_reported bidi cfg c ls :
  c_lines c = Some ls -> (exists l ch, In l ls /\ In ch bidi /\ In ch l) ->
  exists r, trojansource bidi cfg c = Ok (Some r) /\ ri_sev r = HIGH /\ ri_conf r = MEDIUM.
Proof.
  intros Hl [l [ch [H1 [H2 H3]]]]. unfold trojansource. rewrite Hl.
  destruct (scan_lines bidi ls 1) as [r|] eqn:E.
  - exists r. split; [reflexivity|].
    destruct (scan_lines_some _ _ _ _ E) as [k [line [c0 [i [_ [_ [_ [_ [_ [_ [_ [_ [Hs [Hc _]]]]]]]]]]]]]]. auto.
  - exfalso. pose proof (proj1 (scan_lines_none bidi ls 1) E) as F. rewrite Forall_forall in F. apply (F l H1 ch H2 H3).
Qed.

Theorem bidi_absent_silent bidi cfg c ls :
  c_lines c = Some ls -> Forall (clean bidi) ls -> trojansource bidi cfg c = Ok None.
Proof.
  intros Hl H. unfold trojansource. rewrite Hl. rewrite (proj2 (scan_lines_none bidi ls 1) H). reflexivity.
Qed.
