From Coq Require Import List NArith ZArith Bool String Arith Lia.
From Bandit Require Import Base.PyStr Engine.Types Engine.Tester Cli.Thresholds Manager.BaselineFilter Proofs.PyStrFacts.
Import ListNotations.

(* ---------- Issue.__eq__ on the seven identity fields is an equivalence ---------- *)
Lemma rank_eqb_spec a b : rank_eqb a b = true <-> a = b.
Proof. destruct a, b; simpl; split; intro H; congruence. Qed.

Definition ident (a : bissue) := (f_text (snd a), f_sev (snd a), f_cwe (snd a), f_conf (snd a), fst a, f_test (snd a), f_test_id (snd a)).

Lemma issue_eqb_ident a b : issue_eqb a b = true <-> ident a = ident b.
Proof.
  unfold issue_eqb, ident.
  rewrite !andb_true_iff, !pstr_eqb_spec, !rank_eqb_spec, Z.eqb_eq.
  split.
  - intros [H1 [H2 [H3 [H4 [H5 [H6 [H7 _]]]]]]]. congruence.
  - intro H. inversion H. repeat split; auto.
Qed.

Lemma issue_eqb_is_std a b : issue_eqb_on std_match_types a b = issue_eqb a b.
Proof. reflexivity. Qed.

Lemma issue_eqb_refl a : issue_eqb a a = true.
Proof. apply issue_eqb_ident. reflexivity. Qed.
Lemma issue_eqb_sym a b : issue_eqb a b = issue_eqb b a.
Proof.
  destruct (issue_eqb a b) eqn:E1, (issue_eqb b a) eqn:E2; auto.
  - apply issue_eqb_ident in E1. symmetry in E1. apply issue_eqb_ident in E1. congruence.
  - apply issue_eqb_ident in E2. symmetry in E2. apply issue_eqb_ident in E2. congruence.
Qed.
Lemma issue_eqb_trans a b c : issue_eqb a b = true -> issue_eqb b c = issue_eqb a c.
Proof.
  intro H. apply issue_eqb_ident in H.
  destruct (issue_eqb b c) eqn:E1, (issue_eqb a c) eqn:E2; auto.
  - apply issue_eqb_ident in E1. assert (ident a = ident c) by congruence. apply issue_eqb_ident in H0. congruence.
  - apply issue_eqb_ident in E2. assert (ident b = ident c) by congruence. apply issue_eqb_ident in H0. congruence.
Qed.

(* line numbers, ranges, columns do not take part *)
Definition relocate (g : finding -> Z * list Z * Z * Z) (a : bissue) : bissue :=
  let f := snd a in
  let '(ln, lr, c, ec) := g f in
  (fst a, Finding (f_test_id f) (f_test f) (f_sev f) (f_conf f) (f_cwe f) (f_text f) ln lr c ec).

Lemma relocate_ident g a : ident (relocate g a) = ident a.
Proof. unfold relocate, ident. destruct (g (snd a)) as [[[ln lr] c] ec]. reflexivity. Qed.

Lemma issue_eqb_relocate_l g a b : issue_eqb (relocate g a) b = issue_eqb a b.
Proof.
  destruct (issue_eqb (relocate g a) b) eqn:E1, (issue_eqb a b) eqn:E2; auto.
  - apply issue_eqb_ident in E1. rewrite relocate_ident in E1. apply issue_eqb_ident in E1. congruence.
  - apply issue_eqb_ident in E2. rewrite <- (relocate_ident g a) in E2. apply issue_eqb_ident in E2. congruence.
Qed.

(* ---------- counting ---------- *)
Definition cnt (x : bissue) (l : list bissue) : nat := List.length (filter (issue_eqb x) l).

Lemma cnt_cons x b t : cnt x (b :: t) = (if issue_eqb x b then 1 else 0) + cnt x t.
Proof. unfold cnt. cbn [filter]. destruct (issue_eqb x b); reflexivity. Qed.

Lemma eqb_transfer a b x : issue_eqb a b = true -> issue_eqb x a = issue_eqb x b.
Proof.
  intro H. rewrite (issue_eqb_sym x a), (issue_eqb_sym x b).
  rewrite issue_eqb_sym in H. apply (issue_eqb_trans b a x H).
Qed.

Lemma remove_first_some a l rem x :
  remove_first issue_eqb a l = Some rem ->
  cnt x l = cnt x rem + (if issue_eqb x a then 1 else 0).
Proof.
  revert rem. induction l as [|b t IH]; intros rem; cbn [remove_first]; [discriminate|].
  destruct (issue_eqb a b) eqn:E.
  - intro H; inversion H; subst. rewrite cnt_cons, (eqb_transfer a b x E). lia.
  - destruct (remove_first issue_eqb a t) as [t'|] eqn:R; [|discriminate].
    intro H; inversion H; subst. specialize (IH t' eq_refl). rewrite !cnt_cons, IH. lia.
Qed.

Lemma remove_first_none a l : remove_first issue_eqb a l = None -> cnt a l = 0.
Proof.
  induction l as [|b t IH]; cbn [remove_first]; [reflexivity|].
  destruct (issue_eqb a b) eqn:E; [discriminate|].
  destruct (remove_first issue_eqb a t); [discriminate|]. intros _. rewrite cnt_cons, E, IH; reflexivity.
Qed.

Lemma cnt_eq_of_eqb x a l : issue_eqb x a = true -> cnt x l = cnt a l.
Proof.
  intro H. induction l as [|b t IH]; [reflexivity|]. rewrite !cnt_cons, IH. f_equal.
  rewrite (issue_eqb_trans x a b H). reflexivity.
Qed.

(* the number of unmatched occurrences of an identity is how many more there are now than in the baseline *)
Theorem unmatched_count results : forall baseline x,
  cnt x (compare_baseline issue_eqb baseline results) = cnt x results - cnt x baseline.
Proof.
  induction results as [|a t IH]; intros baseline x; cbn [compare_baseline]; [reflexivity|].
  destruct (remove_first issue_eqb a baseline) as [rem|] eqn:R.
  - rewrite IH, cnt_cons, (remove_first_some a baseline rem x R). lia.
  - rewrite !cnt_cons, IH. destruct (issue_eqb x a) eqn:E; [|lia].
    rewrite (cnt_eq_of_eqb x a baseline E), (remove_first_none a baseline R). lia.
Qed.

(* every unmatched issue is one of the current results *)
Lemma compare_baseline_incl results : forall baseline a,
  In a (compare_baseline issue_eqb baseline results) -> In a results.
Proof.
  induction results as [|r t IH]; intros baseline a; cbn [compare_baseline]; [intros []|].
  destruct (remove_first issue_eqb r baseline); [intro H; right; eapply IH; eauto|].
  intros [H|H]; [left; exact H | right; eapply IH; eauto].
Qed.

Lemma cnt_pos_In x l : 0 < cnt x l -> exists y, In y l /\ issue_eqb x y = true.
Proof.
  induction l as [|b t IH]; [unfold cnt; simpl; lia|]. rewrite cnt_cons.
  destruct (issue_eqb x b) eqn:E; [intros _; exists b; simpl; auto|]. intro H. destruct (IH H) as [y [H1 H2]]. exists y. simpl; auto.
Qed.

(* a finding with a new identity is always reported *)
Theorem new_identity_reported baseline results a :
  In a results -> cnt a baseline = 0 ->
  exists u, In u (compare_baseline issue_eqb baseline results) /\ issue_eqb a u = true.
Proof.
  intros Hin Hb. apply cnt_pos_In. rewrite unmatched_count, Hb.
  assert (0 < cnt a results).
  { clear Hb. induction results as [|r t IH]; [destruct Hin|]. rewrite cnt_cons.
    destruct Hin as [->|Hin]; [rewrite issue_eqb_refl; lia|]. specialize (IH Hin). lia. }
  lia.
Qed.

(* an identity that occurs more often now than in the baseline is reported, with all its occurrences as candidates *)
Theorem more_often_reported baseline results a :
  cnt a baseline < cnt a results ->
  exists u cands, In (u, cands) (find_candidates issue_eqb (compare_baseline issue_eqb baseline results) results)
                  /\ issue_eqb a u = true /\ List.length cands = cnt a results.
Proof.
  intro H.
  destruct (cnt_pos_In a (compare_baseline issue_eqb baseline results)) as [u [Hu He]]; [rewrite unmatched_count; lia|].
  exists u, (filter (fun i => issue_eqb u i) results). split; [|split; [exact He|]].
  - unfold find_candidates. apply in_map_iff. exists u. auto.
  - change (cnt u results = cnt a results). symmetry. apply cnt_eq_of_eqb. exact He.
Qed.

(* an identity that does not occur more often than in the baseline is withheld *)
Theorem accounted_withheld baseline results a :
  cnt a results <= cnt a baseline ->
  forall u, In u (compare_baseline issue_eqb baseline results) -> issue_eqb a u = false.
Proof.
  intros H u Hu. destruct (issue_eqb a u) eqn:E; [|reflexivity]. exfalso.
  assert (0 < cnt a (compare_baseline issue_eqb baseline results)).
  { induction (compare_baseline issue_eqb baseline results) as [|b t IH]; [destruct Hu|]. rewrite cnt_cons.
    destruct Hu as [->|Hu]; [rewrite E; lia|]. specialize (IH Hu). lia. }
  rewrite unmatched_count in H0. lia.
Qed.

(* re-scanning unchanged code against its own report yields nothing: any baseline with the same identities *)
Theorem own_report_nothing results baseline :
  (forall x, cnt x results <= cnt x baseline) -> compare_baseline issue_eqb baseline results = [].
Proof.
  intro H. destruct (compare_baseline issue_eqb baseline results) as [|u t] eqn:E; [reflexivity|]. exfalso.
  assert (Hu : In u (compare_baseline issue_eqb baseline results)) by (rewrite E; left; reflexivity).
  pose proof (accounted_withheld baseline results u (H u) u Hu) as F. rewrite issue_eqb_refl in F. discriminate.
Qed.

(* a change of line numbers alone never makes an old finding reappear *)
Lemma remove_first_relocate g a l : remove_first issue_eqb (relocate g a) l = remove_first issue_eqb a l.
Proof.
  induction l as [|b t IH]; cbn [remove_first]; [reflexivity|]. rewrite issue_eqb_relocate_l, IH. reflexivity.
Qed.

Theorem lines_irrelevant g results : forall baseline,
  compare_baseline issue_eqb baseline (map (relocate g) results)
  = map (relocate g) (compare_baseline issue_eqb baseline results).
Proof.
  induction results as [|a t IH]; intro baseline; cbn [map compare_baseline]; [reflexivity|].
  rewrite remove_first_relocate. destruct (remove_first issue_eqb a baseline); cbn [map]; rewrite IH; reflexivity.
Qed.

(* ----- the filter only ever withholds: what it reports is a subsequence of the current findings, for any equality ----- *)
Inductive subseq {A} : list A -> list A -> Prop :=
| ss_nil : subseq [] []
| ss_skip x l l' : subseq l l' -> subseq l (x :: l')
| ss_take x l l' : subseq l l' -> subseq (x :: l) (x :: l').

Theorem reported_is_subsequence (eqb : bissue -> bissue -> bool) results :
  forall baseline, subseq (compare_baseline eqb baseline results) results.
Proof.
  induction results as [|a t IH]; intro baseline; cbn [compare_baseline]; [constructor|].
  destruct (remove_first eqb a baseline) as [rem|]; [apply ss_skip | apply ss_take]; apply IH.
Qed.

Lemma subseq_In {A} (l l' : list A) x : subseq l l' -> In x l -> In x l'.
Proof. induction 1 as [|y l l' _ IH|y l l' _ IH]; intro H; [exact H | right; auto | destruct H as [->|H]; [left; auto | right; auto]]. Qed.

Theorem never_invents (eqb : bissue -> bissue -> bool) baseline results u :
  In u (compare_baseline eqb baseline results) -> In u results.
Proof. apply subseq_In, reported_is_subsequence. Qed.

(* an empty baseline withholds nothing *)
Theorem empty_baseline_reports_all (eqb : bissue -> bissue -> bool) results :
  compare_baseline eqb [] results = results.
Proof. induction results as [|a t IH]; cbn [compare_baseline remove_first]; [reflexivity | rewrite IH; reflexivity]. Qed.
