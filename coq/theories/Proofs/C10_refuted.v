(* C10, first sentence, at full strength is false of the faithful model - and of bandit (known finding
   line-outside-range:string-used-as-decorator): a string used directly as a decorator is reported on its own
   line with the range of the decorated def, which starts below it. *)
From Coq Require Import List NArith ZArith Bool String.
From Bandit Require Import Base.PyStr Ast.Node Engine.Types Engine.Tester Engine.Visitor Engine.Scan
     Plugins.All Gen.Constants Gen.Blacklists Gen.Registry.
Import ListNotations.
Local Open Scope string_scope.
Local Open Scope list_scope.

(* ast.parse("@'0.0.0.0'\ndef f():\n    pass\n") *)
Definition decorated : node := (Node "Module" None [("body", (NList [(Node "FunctionDef" (Some (Pos 2%Z 0%Z 3%Z 8%Z)) [("name", (NId [102]%N)); ("args", (Node "arguments" None [("posonlyargs", (NList (@nil (node)))); ("args", (NList (@nil (node)))); ("vararg", NNone); ("kwonlyargs", (NList (@nil (node)))); ("kw_defaults", (NList (@nil (node)))); ("kwarg", NNone); ("defaults", (NList (@nil (node))))])); ("body", (NList [(Node "Pass" (Some (Pos 3%Z 4%Z 3%Z 8%Z)) (@nil (string * node)))])); ("decorator_list", (NList [(Node "Constant" (Some (Pos 1%Z 1%Z 1%Z 10%Z)) [("value", NConst (CStr [48;46;48;46;48;46;48]%N)); ("kind", NNone)])])); ("returns", NNone); ("type_comment", NNone); ("type_params", (NList (@nil (node))))])])); ("type_ignores", (NList (@nil (node))))]).

Definition tests_all : list test := build_tests registry all_plugins defaults [] (fun _ => true) blacklist.

Definition decorated_results : list finding :=
  Eval vm_compute in o_results (scan consts_gen tests_all [] (s2p "t.py") None decorated).

Lemma decorated_results_eq : o_results (scan consts_gen tests_all [] (s2p "t.py") None decorated) = decorated_results.
Proof. vm_compute. reflexivity. Qed.

Theorem line_in_range_refuted :
  exists module f, In f (o_results (scan consts_gen tests_all [] (s2p "t.py") None module))
                   /\ ~ In (f_lineno f) (f_linerange f).
Proof.
  exists decorated. rewrite decorated_results_eq. unfold decorated_results.
  eexists. split; [left; reflexivity|].
  cbn [f_lineno f_linerange In]. intros [H|[H|[]]]; discriminate.
Qed.
