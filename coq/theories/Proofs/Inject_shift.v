(* Position-equivariance of the "inject" plugin family (Plugins/Inject.v). *)
From Coq Require Import List NArith ZArith Bool String Lia.
From Bandit Require Import Base.PyStr Ast.Node Engine.Types Engine.Resolve Engine.Context Engine.Scan
     Engine.Shift Plugins.Inject Proofs.ShiftFacts Proofs.ShiftContext.
Import ListNotations.
Local Open Scope string_scope.
Local Open Scope list_scope.

(* ---------- unfolding equations for the nested fixpoints of Plugins/Inject.v ---------- *)
Definition node_eqb_fields : list (string * node) -> list (string * node) -> bool :=
  fix go (l l' : list (string * node)) : bool :=
    match l, l' with
    | [], [] => true
    | (k, v) :: t, (k', v') :: t' => String.eqb k k' && node_eqb v v' && go t t'
    | _, _ => false
    end.
Definition node_eqb_list : list node -> list node -> bool :=
  fix go (l l' : list node) : bool :=
    match l, l' with
    | [], [] => true
    | v :: t, v' :: t' => node_eqb v v' && go t t'
    | _, _ => false
    end.
Lemma node_eqb_Node c p fs c' p' fs' :
  node_eqb (Node c p fs) (Node c' p' fs') = String.eqb c c' && pos_eqb p p' && node_eqb_fields fs fs'.
Proof. reflexivity. Qed.
Lemma node_eqb_NList l l' : node_eqb (NList l) (NList l') = node_eqb_list l l'.
Proof. reflexivity. Qed.

Definition cs_find (stop : node) (key : string) : list (string * node) -> list node :=
  fix find (l : list (string * node)) : list node :=
    match l with
    | [] => []
    | (k, v) :: t =>
        if String.eqb key k
        then (if is_cls "BinOp" v then cs_get stop v ++ [NNone] else [v])
        else find t
    end.
Lemma cs_get_Node stop c p fs :
  cs_get stop (Node c p fs) =
  if node_eqb (Node c p fs) stop then [] else cs_find stop "left" fs ++ cs_find stop "right" fs.
Proof. reflexivity. Qed.

(* DeepAssignation.is_assigned, one level at a time *)
Definition ia_go (id : pstr) : list node -> res (list node) :=
  fix go (is : list node) : res (list node) :=
    match is with
    | [] => Ok []
    | i :: is' => do a <- is_assigned id i;; do r <- go is';; Ok (asg_flat a ++ r)
    end.
Definition ia_in_field (id : pstr) (f : string) : list (string * node) -> res (list node) :=
  fix find (l : list (string * node)) : res (list node) :=
    match l with
    | [] => Ok []
    | (k, v) :: t =>
        if String.eqb f k then match v with NList its => ia_go id its | _ => Ok [] end else find t
    end.
Definition ia_expr (id : pstr) : list (string * node) -> res asg :=
  fix find (l : list (string * node)) : res asg :=
    match l with
    | [] => Ok AFalse
    | (k, v) :: t => if String.eqb "value" k then is_assigned id v else find t
    end.
Definition ia_scan (id : pstr) (value : node) : list node -> nat -> res asg :=
  fix scan (ts : list node) (pos : nat) : res asg :=
    match ts with
    | [] => Ok AFalse
    | t :: ts' =>
        match field_opt "id" t with
        | Some (NId s) =>
            if pstr_eqb s id then
              match nth_error (field_list "elts" value) pos with
              | Some v => Ok (ANode v)
              | None => Raise IndexError
              end
            else scan ts' (S pos)
        | _ => Raise AttributeError
        end
    end.
Definition ia_body (id : pstr) (c : string) (n : node) (fs : list (string * node)) : res asg :=
  if String.eqb c "Expr" then ia_expr id fs
  else if String.eqb c "FunctionDef" then
    do l <- ia_in_field id "body" fs;; Ok (AList l)
  else if String.eqb c "With" then
    let hits := map (fun it => getattr_id_is (field "optional_vars" it) id) (field_list "items" n) in
    if forallb (fun b => b) hits then
      Ok (match hits with [] => AFalse | _ => ANode n end)
    else
      do l <- ia_in_field id "body" fs;;
      Ok (if last hits false then ANode n else AList l)
  else if String.eqb c "Try" then
    do a <- ia_in_field id "body" fs;; do b <- ia_in_field id "handlers" fs;;
    do c' <- ia_in_field id "orelse" fs;; do d <- ia_in_field id "finalbody" fs;;
    Ok (AList (a ++ b ++ c' ++ d))
  else if String.eqb c "ExceptHandler" then
    do a <- ia_in_field id "body" fs;; Ok (AList a)
  else if String.eqb c "If" || String.eqb c "For" || String.eqb c "While" then
    do a <- ia_in_field id "body" fs;; do b <- ia_in_field id "orelse" fs;; Ok (AList (a ++ b))
  else if String.eqb c "AugAssign" then
    let target := field "target" n in
    if is_cls "Name" target && pstr_eqb (name_id target) id then Ok (ANode (field "value" n))
    else Ok AFalse
  else if String.eqb c "Assign" then
    match field_list "targets" n with
    | [] => Ok AFalse
    | target :: _ =>
        let value := field "value" n in
        if is_cls "Name" target then
          if pstr_eqb (name_id target) id then Ok (ANode value) else Ok AFalse
        else if is_cls "Tuple" target && is_cls "Tuple" value then
          ia_scan id value (field_list "elts" target) O
        else Ok AFalse
    end
  else Ok AFalse.
Lemma is_assigned_Node id c p fs : is_assigned id (Node c p fs) = ia_body id c (Node c p fs) fs.
Proof. reflexivity. Qed.

Lemma ia_in_field_lookup id f fs :
  ia_in_field id f fs = match lookup_field f fs with Some (NList its) => ia_go id its | _ => Ok [] end.
Proof.
  induction fs as [|[k v] t IH]; [reflexivity|]. cbn [ia_in_field lookup_field]. fold (ia_in_field id f).
  destruct (String.eqb f k); [|exact IH]. destruct v; reflexivity.
Qed.
Lemma ia_expr_lookup id fs :
  ia_expr id fs = match lookup_field "value" fs with Some v => is_assigned id v | None => Ok AFalse end.
Proof.
  induction fs as [|[k v] t IH]; [reflexivity|]. cbn [ia_expr lookup_field]. fold (ia_expr id).
  destruct (String.eqb "value" k); [reflexivity | exact IH].
Qed.
Lemma lookup_field_Forall (Q : node -> Prop) f fs v :
  Forall (fun kv => Q (snd kv)) fs -> lookup_field f fs = Some v -> Q v.
Proof.
  induction 1 as [|[k0 v0] t Hx Ht IH]; [discriminate|]. cbn [lookup_field].
  destruct (String.eqb f k0); [intro E; inversion E; subst; exact Hx | exact IH].
Qed.

(* ---------- small list facts ---------- *)
Lemma filter_map' {A B} (f : B -> bool) (g : A -> B) l :
  filter f (map g l) = map g (filter (fun x => f (g x)) l).
Proof. induction l as [|x t IH]; [reflexivity|]. cbn [map filter]. destruct (f (g x)); cbn [map]; rewrite IH; reflexivity. Qed.
Lemma filter_ext' {A} (f g : A -> bool) l : (forall x, f x = g x) -> filter f l = filter g l.
Proof. intro H. induction l as [|x t IH]; [reflexivity|]. cbn [filter]. rewrite H, IH. reflexivity. Qed.
Lemma forallb_ext' {A} (f g : A -> bool) l : (forall x, f x = g x) -> forallb f l = forallb g l.
Proof. intro H. induction l as [|x t IH]; [reflexivity|]. cbn [forallb]. rewrite H, IH. reflexivity. Qed.
Lemma flat_map_map' {A B C} (f : B -> list C) (g : A -> B) l : flat_map f (map g l) = flat_map (fun x => f (g x)) l.
Proof. induction l as [|x t IH]; [reflexivity|]. cbn [map flat_map]. rewrite IH. reflexivity. Qed.
Lemma flat_map_ext' {A B} (f g : A -> list B) l : (forall x, f x = g x) -> flat_map f l = flat_map g l.
Proof. intro H. induction l as [|x t IH]; [reflexivity|]. cbn [flat_map]. rewrite H, IH. reflexivity. Qed.
Lemma map_flat_map' {A B C} (f : A -> list B) (g : B -> C) l : map g (flat_map f l) = flat_map (fun x => map g (f x)) l.
Proof. induction l as [|x t IH]; [reflexivity|]. cbn [flat_map]. rewrite map_app, IH. reflexivity. Qed.

Section S.
  Variable at_ : Z.
  Variable ins : list pstr.
  Notation sh := (sh at_ ins).
  Notation sh_node := (sh_node at_ ins).
  Notation sh_ctx := (sh_ctx at_ ins).
  Notation sh_res := (sh_res at_ ins).
  Notation sh_ps := (sh_ps at_ ins).
  Notation sh_fields := (sh_fields at_ ins).

  (* ---------- shared helpers ---------- *)
  Lemma sh_eqb a b : Z.eqb (sh a) (sh b) = Z.eqb a b.
  Proof.
    destruct (Z.eqb a b) eqn:E.
    - apply Z.eqb_eq in E. subst. apply Z.eqb_refl.
    - apply Z.eqb_neq. intro H. apply (sh_inj at_ ins) in H. apply Z.eqb_neq in E. contradiction.
  Qed.
  Lemma sh_geb a b : Z.geb (sh a) (sh b) = Z.geb a b.
  Proof.
    rewrite !Z.geb_leb. destruct (Z.leb b a) eqn:E.
    - apply Z.leb_le in E. apply Z.leb_le. destruct (Z.eq_dec b a) as [->|N]; [lia|].
      pose proof (sh_mono at_ ins b a). lia.
    - apply Z.leb_gt in E. apply Z.leb_gt. apply (sh_mono at_ ins). exact E.
  Qed.

  Lemma pos_eqb_sh p q : pos_eqb (option_map (sh_pos at_ ins) p) (option_map (sh_pos at_ ins) q) = pos_eqb p q.
  Proof.
    destruct p as [p|], q as [q|]; try reflexivity. cbn [option_map pos_eqb sh_pos p_line p_col p_eline p_ecol].
    rewrite !sh_eqb. reflexivity.
  Qed.

  Lemma node_eqb_sh : forall a b, node_eqb (sh_node a) (sh_node b) = node_eqb a b.
  Proof.
    induction a as [c p fs IH | l IH | | | | ] using node_ind'; intro b.
    - destruct b as [c' p' fs'| | | | |]; try reflexivity.
      rewrite !sh_node_Node, !node_eqb_Node, pos_eqb_sh. f_equal.
      revert fs'. induction IH as [|[k v] t Hv Ht IHt]; intros [|[k' v'] t']; try reflexivity.
      cbn [ShiftFacts.sh_fields map fst snd node_eqb_fields]. cbn [snd] in Hv. rewrite Hv. f_equal. apply IHt.
    - destruct b as [| l' | | | |]; try reflexivity.
      rewrite !sh_node_NList, !node_eqb_NList.
      revert l'. induction IH as [|v t Hv Ht IHt]; intros [|v' t']; try reflexivity.
      cbn [map node_eqb_list]. rewrite Hv. f_equal. apply IHt.
    - destruct b; reflexivity.
    - destruct b; reflexivity.
    - destruct b; reflexivity.
    - destruct b; reflexivity.
  Qed.

  Lemma match_NId_sh {A} (f : pstr -> A) (d : A) n :
    match sh_node n with NId s => f s | _ => d end = match n with NId s => f s | _ => d end.
  Proof. destruct n; reflexivity. Qed.
  Lemma match_opt_NId_sh {A} (f : pstr -> A) (d : A) o :
    match option_map sh_node o with Some (NId s) => f s | _ => d end = match o with Some (NId s) => f s | _ => d end.
  Proof. destruct o as [n|]; [destruct n|]; reflexivity. Qed.

  Lemma getattr_id_is_sh n s : getattr_id_is (sh_node n) s = getattr_id_is n s.
  Proof. unfold getattr_id_is. rewrite (field_opt_sh at_ ins). apply match_opt_NId_sh. Qed.
  Lemma getattr_attr_is_sh n s : getattr_attr_is (sh_node n) s = getattr_attr_is n s.
  Proof. unfold getattr_attr_is. rewrite (field_opt_sh at_ ins). apply match_opt_NId_sh. Qed.
  Lemma getattr_value_is_bool_sh n b : getattr_value_is_bool (sh_node n) b = getattr_value_is_bool n b.
  Proof.
    unfold getattr_value_is_bool. rewrite (field_opt_sh at_ ins).
    destruct (field_opt "value" n) as [v|]; [destruct v|]; reflexivity.
  Qed.

  Lemma kw_last_sh k kws : kw_last k (map sh_node kws) = option_map sh_node (kw_last k kws).
  Proof.
    unfold kw_last. change (@None node) with (option_map sh_node None) at 1. generalize (@None node).
    induction kws as [|kw t IH]; intro acc; [reflexivity|]. cbn [map fold_left].
    rewrite (is_cls_sh at_ ins), (kw_arg_sh at_ ins), (field_sh at_ ins).
    destruct (is_cls "keyword" kw && okey_eqb (kw_arg kw) (Some k)); [apply (IH (Some (field "value" kw))) | apply IH].
  Qed.

  Lemma hd_sh_node l : hd NNone (map sh_node l) = sh_node (hd NNone l).
  Proof. destruct l; reflexivity. Qed.
  Lemma filter_is_Str_sh l : filter is_Str (map sh_node l) = map sh_node (filter is_Str l).
  Proof. rewrite filter_map'. f_equal. apply filter_ext'. intro x. apply (is_Str_sh at_ ins). Qed.
  Lemma all_str_sh l : all_str (map sh_node l) = all_str l.
  Proof. unfold all_str. rewrite forallb_map'. apply forallb_ext'. intro x. apply (is_Str_sh at_ ins). Qed.

  (* ---------- B608 hardcoded_sql_expressions ---------- *)
  Lemma cs_find_sh stop key fs :
    Forall (fun kv => cs_get (sh_node stop) (sh_node (snd kv)) = map sh_node (cs_get stop (snd kv))) fs ->
    cs_find (sh_node stop) key (sh_fields fs) = map sh_node (cs_find stop key fs).
  Proof.
    induction 1 as [|[k v] t Hv Ht IH]; [reflexivity|]. cbn [ShiftFacts.sh_fields map fst snd cs_find].
    destruct (String.eqb key k); [|exact IH]. rewrite (is_cls_sh at_ ins). cbn [snd] in Hv.
    destruct (is_cls "BinOp" v); [|reflexivity]. rewrite Hv, map_app. reflexivity.
  Qed.

  Lemma cs_get_sh stop : forall n, cs_get (sh_node stop) (sh_node n) = map sh_node (cs_get stop n).
  Proof.
    induction n as [c p fs IH | l IH | | | | ] using node_ind'; try reflexivity.
    rewrite (cs_get_Node stop), sh_node_Node, cs_get_Node.
    rewrite <- (sh_node_Node at_ ins c p fs), node_eqb_sh.
    destruct (node_eqb (Node c p fs) stop); [reflexivity|].
    rewrite map_app, !cs_find_sh by exact IH. reflexivity.
  Qed.

  Lemma binop_top_sh ps : forall cur,
    binop_top (sh_node cur) (sh_ps ps) = (sh_node (fst (binop_top cur ps)), sh_ps (snd (binop_top cur ps))).
  Proof.
    induction ps as [|[p s] t IH]; intro cur; [reflexivity|].
    cbn [Shift.sh_ps map fst snd binop_top]. rewrite (is_cls_sh at_ ins).
    destruct (is_cls "BinOp" p); [apply IH | reflexivity].
  Qed.

  Lemma str_parts_sh bits : str_parts (map sh_node bits) = str_parts bits.
  Proof. unfold str_parts. rewrite flat_map_map'. apply flat_map_ext'. intro x. rewrite (str_of_sh at_ ins). reflexivity. Qed.

  Lemma concat_string_sh n ps stop :
    concat_string (sh_node n) (sh_ps ps) (sh_node stop)
    = (sh_node (fst (concat_string n ps stop)), snd (concat_string n ps stop)).
  Proof.
    unfold concat_string. rewrite binop_top_sh. destruct (binop_top n ps) as [top rest]. cbn [fst snd].
    rewrite (is_cls_sh at_ ins). f_equal.
    - destruct rest as [|[w s] t]; reflexivity.
    - f_equal. destruct (is_cls "BinOp" top).
      + rewrite cs_get_sh. exact (str_parts_sh (n :: cs_get stop top)).
      + exact (str_parts_sh [n]).
  Qed.

  Lemma sql_kind_of_sh c : sql_kind_of (sh_ctx c) = sql_kind_of c.
  Proof.
    unfold sql_kind_of. rewrite (parent_of_sh at_ ins), (c_node_sh at_ ins), !(is_cls_sh at_ ins), (attr_of_sh at_ ins), (field_list_sh at_ ins).
    rewrite filter_is_Str_sh.
    destruct (filter is_Str (field_list "values" (parent_of c))) as [|s0 t]; [reflexivity|].
    cbn [map]. rewrite node_eqb_sh. reflexivity.
  Qed.

  Lemma node_s_sh n : node_s (sh_node n) = node_s n.
  Proof. unfold node_s. rewrite (str_of_sh at_ ins). reflexivity. Qed.

  Lemma ancestor_sh k c : ancestor k (sh_ctx c) = map_res sh_node (ancestor k c).
  Proof.
    unfold ancestor. rewrite (c_parents_sh at_ ins). unfold Shift.sh_ps. rewrite nth_error_map.
    destruct (nth_error (c_parents c) k) as [[p s]|]; reflexivity.
  Qed.

  Definition sh_sql (e : node * pstr * bool) : node * pstr * bool := (sh_node (fst (fst e)), snd (fst e), snd e).

  Lemma sql_evaluate_sh c : sql_evaluate (sh_ctx c) = map_res sh_sql (sql_evaluate c).
  Proof.
    unfold sql_evaluate. rewrite sql_kind_of_sh.
    destruct (sql_kind_of c).
    - rewrite (c_node_sh at_ ins), (c_parents_sh at_ ins), (parent_of_sh at_ ins), concat_string_sh.
      destruct (concat_string (c_node c) (c_parents c) (parent_of c)) as [w s]. reflexivity.
    - rewrite ancestor_sh, (c_node_sh at_ ins), node_s_sh. destruct (ancestor 2 c); reflexivity.
    - rewrite ancestor_sh, (c_node_sh at_ ins), node_s_sh. destruct (ancestor 2 c); reflexivity.
    - rewrite ancestor_sh, (parent_of_sh at_ ins), (field_list_sh at_ ins), filter_is_Str_sh, map_map.
      rewrite (map_ext (fun x => node_s (sh_node x)) node_s node_s_sh).
      destruct (ancestor 1 c); reflexivity.
    - reflexivity.
    - reflexivity.
  Qed.

  Lemma sql_execute_call_sh w : sql_execute_call (sh_node w) = sql_execute_call w.
  Proof. unfold sql_execute_call. rewrite (is_cls_sh at_ ins), (get_called_name_sh at_ ins). reflexivity. Qed.

  Lemma hardcoded_sql_expressions_shift cfg c :
    hardcoded_sql_expressions cfg (sh_ctx c) = sh_res (hardcoded_sql_expressions cfg c).
  Proof.
    unfold hardcoded_sql_expressions. rewrite sql_evaluate_sh.
    destruct (sql_evaluate c) as [[[w stmt] rep]|e]; [|reflexivity].
    cbn [map_res bind sh_sql fst snd]. rewrite sql_execute_call_sh.
    destruct (check_string stmt); reflexivity.
  Qed.

  (* ---------- B610 django_extra_used / B611 django_rawsql_used ---------- *)
  Lemma extra_arg_sh call k pos : extra_arg (sh_node call) k pos = option_map sh_node (extra_arg call k pos).
  Proof.
    unfold extra_arg. rewrite !(field_list_sh at_ ins), nth_error_map.
    destruct (nth_error (field_list "args" call) pos); [reflexivity | apply kw_last_sh].
  Qed.
  Lemma extra_list_ok_sh v : extra_list_ok (sh_node v) = extra_list_ok v.
  Proof. unfold extra_list_ok. rewrite (is_cls_sh at_ ins), (field_list_sh at_ ins), all_str_sh. reflexivity. Qed.
  Lemma extra_select_ok_sh v : extra_select_ok (sh_node v) = extra_select_ok v.
  Proof. unfold extra_select_ok. rewrite (is_cls_sh at_ ins), !(field_list_sh at_ ins), !all_str_sh. reflexivity. Qed.
  Lemma extra_part_ok_sh call k pos ok : (forall v, ok (sh_node v) = ok v) ->
    extra_part_ok (sh_node call) k pos ok = extra_part_ok call k pos ok.
  Proof. intro H. unfold extra_part_ok. rewrite extra_arg_sh. destruct (extra_arg call k pos); [apply H | reflexivity]. Qed.
  Lemma extra_literal_only_sh call : extra_literal_only (sh_node call) = extra_literal_only call.
  Proof.
    unfold extra_literal_only.
    rewrite !(extra_part_ok_sh _ _ _ extra_list_ok extra_list_ok_sh), (extra_part_ok_sh _ _ _ extra_select_ok extra_select_ok_sh).
    reflexivity.
  Qed.

  Lemma django_extra_used_shift cfg c : django_extra_used cfg (sh_ctx c) = sh_res (django_extra_used cfg c).
  Proof.
    unfold django_extra_used. rewrite (c_name_sh at_ ins), (c_node_sh at_ ins), extra_literal_only_sh.
    destruct (opt_is (c_name c) (s2p "extra")); [|reflexivity].
    destruct (extra_literal_only (c_node c)); reflexivity.
  Qed.

  Lemma rawsql_sql_sh call : rawsql_sql (sh_node call) = option_map sh_node (rawsql_sql call).
  Proof.
    unfold rawsql_sql. rewrite !(field_list_sh at_ ins).
    destruct (field_list "args" call); [apply kw_last_sh | reflexivity].
  Qed.

  Lemma django_rawsql_used_shift cfg c : django_rawsql_used cfg (sh_ctx c) = sh_res (django_rawsql_used cfg c).
  Proof.
    unfold django_rawsql_used. change (rawsql_applies (sh_ctx c)) with (rawsql_applies c).
    destruct (rawsql_applies c); [|reflexivity]. rewrite (c_node_sh at_ ins), rawsql_sql_sh.
    destruct (rawsql_sql (c_node c)) as [sql|]; [|reflexivity]. cbn [option_map]. rewrite (is_Str_sh at_ ins).
    destruct (is_Str sql); reflexivity.
  Qed.

  (* ---------- B701 jinja2_autoescape_false ---------- *)
  Lemma node_size_sh : forall n, node_size (sh_node n) = node_size n.
  Proof.
    induction n as [c p fs IH | l IH | | | | ] using node_ind'; try reflexivity.
    - rewrite sh_node_Node. cbn [node_size]. f_equal.
      induction IH as [|[f v] t Hv Ht IHt]; [reflexivity|]. cbn [ShiftFacts.sh_fields map fst snd]. cbn [snd] in Hv.
      rewrite Hv. f_equal. exact IHt.
    - rewrite sh_node_NList. cbn [node_size]. f_equal.
      induction IH as [|v t Hv Ht IHt]; [reflexivity|]. cbn [map]. rewrite Hv. f_equal. exact IHt.
  Qed.

  Lemma flat_map_child_nodes_sh level :
    flat_map child_nodes (map sh_node level) = map sh_node (flat_map child_nodes level).
  Proof.
    rewrite flat_map_map', map_flat_map'. apply flat_map_ext'. intro x. apply (child_nodes_sh at_ ins).
  Qed.

  Lemma walk_levels_sh fuel : forall level, walk_levels fuel (map sh_node level) = map sh_node (walk_levels fuel level).
  Proof.
    induction fuel as [|f IH]; intros [|x t]; try reflexivity.
    cbn [map walk_levels]. change (sh_node x :: map sh_node t) with (map sh_node (x :: t)).
    rewrite flat_map_child_nodes_sh, IH, <- map_app. reflexivity.
  Qed.
  Lemma ast_walk_sh n : ast_walk (sh_node n) = map sh_node (ast_walk n).
  Proof. unfold ast_walk. rewrite node_size_sh. exact (walk_levels_sh (node_size n) [n]). Qed.

  Lemma is_autoescape_kw_sh n : is_autoescape_kw (sh_node n) = is_autoescape_kw n.
  Proof. unfold is_autoescape_kw. rewrite (is_cls_sh at_ ins), (field_opt_sh at_ ins), match_opt_NId_sh. reflexivity. Qed.

  Lemma jinja_autoescape_value_sh call :
    jinja_autoescape_value (sh_node call) = option_map sh_node (jinja_autoescape_value call).
  Proof.
    unfold jinja_autoescape_value. rewrite ast_walk_sh, find_map'.
    rewrite (find_ext' _ is_autoescape_kw) by exact is_autoescape_kw_sh.
    destruct (find is_autoescape_kw (ast_walk call)) as [kw|]; [|reflexivity].
    cbn [option_map]. rewrite (field_sh at_ ins). reflexivity.
  Qed.

  Lemma is_select_autoescape_call_sh v : is_select_autoescape_call (sh_node v) = is_select_autoescape_call v.
  Proof.
    unfold is_select_autoescape_call.
    rewrite (is_cls_sh at_ ins), (field_sh at_ ins), getattr_attr_is_sh, getattr_id_is_sh. reflexivity.
  Qed.
  Lemma autoescape_form_of_sh v : autoescape_form_of (sh_node v) = autoescape_form_of v.
  Proof.
    unfold autoescape_form_of.
    rewrite !getattr_id_is_sh, !getattr_value_is_bool_sh, is_select_autoescape_call_sh. reflexivity.
  Qed.
  Lemma jinja_decide_sh v : jinja_decide (option_map sh_node v) = jinja_decide v.
  Proof. destruct v as [v|]; [|reflexivity]. cbn [option_map jinja_decide]. rewrite autoescape_form_of_sh. reflexivity. Qed.

  Lemma jinja2_autoescape_false_shift cfg c :
    jinja2_autoescape_false cfg (sh_ctx c) = sh_res (jinja2_autoescape_false cfg c).
  Proof.
    unfold jinja2_autoescape_false. change (jinja_applies (sh_ctx c)) with (jinja_applies c).
    destruct (jinja_applies c); [|reflexivity].
    rewrite (c_node_sh at_ ins), jinja_autoescape_value_sh, jinja_decide_sh.
    unfold jinja_decide. destruct (jinja_autoescape_value (c_node c)) as [v|]; [|reflexivity].
    destruct (autoescape_form_of v); reflexivity.
  Qed.

  (* ---------- B702 use_of_mako_templates ---------- *)
  Lemma use_of_mako_templates_shift cfg c :
    use_of_mako_templates cfg (sh_ctx c) = sh_res (use_of_mako_templates cfg c).
  Proof.
    unfold use_of_mako_templates. change (mako_applies (sh_ctx c)) with (mako_applies c).
    destruct (mako_applies c); reflexivity.
  Qed.

  (* ---------- B704 markupsafe_markup_xss ---------- *)
  Lemma markup_allowed_call_sh cfg c a :
    markup_allowed_call cfg (sh_ctx c) (sh_node a) = markup_allowed_call cfg c a.
  Proof.
    unfold markup_allowed_call. rewrite (is_cls_sh at_ ins), (get_call_name_sh at_ ins), (c_aliases_sh at_ ins). reflexivity.
  Qed.
  Lemma markup_arg_constant_sh call : markup_arg_constant (sh_node call) = markup_arg_constant call.
  Proof.
    unfold markup_arg_constant. rewrite (field_list_sh at_ ins).
    destruct (field_list "args" call) as [|a t]; [reflexivity|]. cbn [map]. apply (is_cls_sh at_ ins).
  Qed.

  Lemma markupsafe_markup_xss_shift cfg c :
    markupsafe_markup_xss cfg (sh_ctx c) = sh_res (markupsafe_markup_xss cfg c).
  Proof.
    unfold markupsafe_markup_xss. rewrite (qualname_sh at_ ins), (c_node_sh at_ ins), (c_name_sh at_ ins).
    destruct (markup_applies cfg (qualname c)) as [ap|e]; [|reflexivity]. cbn [bind].
    destruct (negb ap); [reflexivity|]. rewrite markup_arg_constant_sh.
    destruct (markup_arg_constant (c_node c)); [reflexivity|].
    rewrite (field_list_sh at_ ins), hd_sh_node, markup_allowed_call_sh.
    destruct (markup_allowed_call cfg c (hd NNone (field_list "args" (c_node c)))) as [al|e]; [|reflexivity].
    cbn [bind]. destruct al; reflexivity.
  Qed.

  (* ---------- B703 django_mark_safe ---------- *)
  Definition sh_asg (a : asg) : asg :=
    match a with AFalse => AFalse | ANode n => ANode (sh_node n) | AList l => AList (map sh_node l) end.
  Lemma asg_flat_sh a : asg_flat (sh_asg a) = map sh_node (asg_flat a).
  Proof. destruct a; reflexivity. Qed.

  Section Assigned.
    Variable id : pstr.
    Let P (n : node) : Prop := is_assigned id (sh_node n) = map_res sh_asg (is_assigned id n).

    Lemma ia_go_sh its : Forall P its -> ia_go id (map sh_node its) = map_res (map sh_node) (ia_go id its).
    Proof.
      induction 1 as [|x t Hx Ht IH]; [reflexivity|]. cbn [map ia_go]. fold (ia_go id).
      unfold P in Hx. rewrite Hx, IH. destruct (is_assigned id x) as [a|e]; [|reflexivity]. cbn [map_res bind].
      destruct (ia_go id t) as [r|e]; [|reflexivity]. cbn [map_res bind]. rewrite asg_flat_sh, map_app. reflexivity.
    Qed.

    Lemma ia_in_field_sh f fs : Forall (fun kv => Forall P (items (snd kv))) fs ->
      ia_in_field id f (sh_fields fs) = map_res (map sh_node) (ia_in_field id f fs).
    Proof.
      intro H. rewrite !ia_in_field_lookup, (lookup_field_sh at_ ins).
      destruct (lookup_field f fs) as [v|] eqn:E; [|reflexivity].
      pose proof (lookup_field_Forall (fun v => Forall P (items v)) f fs v H E) as Hv.
      destruct v as [c' p' fs'| l | | | |]; try reflexivity.
      cbn [option_map]. rewrite sh_node_NList. apply ia_go_sh. exact Hv.
    Qed.

    Lemma ia_expr_sh fs : Forall (fun kv => P (snd kv)) fs ->
      ia_expr id (sh_fields fs) = map_res sh_asg (ia_expr id fs).
    Proof.
      intro H. rewrite !ia_expr_lookup, (lookup_field_sh at_ ins).
      destruct (lookup_field "value" fs) as [v|] eqn:E; [|reflexivity].
      exact (lookup_field_Forall P "value" fs v H E).
    Qed.

    Lemma ia_scan_sh value ts : forall pos,
      ia_scan id (sh_node value) (map sh_node ts) pos = map_res sh_asg (ia_scan id value ts pos).
    Proof.
      induction ts as [|t ts' IH]; intro pos; [reflexivity|]. cbn [map ia_scan]. fold (ia_scan id (sh_node value)).
      fold (ia_scan id value). rewrite (field_opt_sh at_ ins).
      destruct (field_opt "id" t) as [v|]; [|reflexivity].
      destruct v as [c' p' fs'| l | | s | |]; try reflexivity. cbn [option_map Shift.sh_node].
      destruct (pstr_eqb s id); [|apply IH].
      rewrite (field_list_sh at_ ins), nth_error_map.
      destruct (nth_error (field_list "elts" value) pos); reflexivity.
    Qed.

    Lemma ia_body_sh c n fs :
      Forall (fun kv => P (snd kv)) fs -> Forall (fun kv => Forall P (items (snd kv))) fs ->
      ia_body id c (sh_node n) (sh_fields fs) = map_res sh_asg (ia_body id c n fs).
    Proof.
      intros H1 H2. unfold ia_body.
      destruct (String.eqb c "Expr"); [apply ia_expr_sh; exact H1|].
      destruct (String.eqb c "FunctionDef").
      { rewrite ia_in_field_sh by exact H2. destruct (ia_in_field id "body" fs); reflexivity. }
      destruct (String.eqb c "With").
      { cbv zeta. rewrite (field_list_sh at_ ins), map_map.
        rewrite (map_ext (fun it => getattr_id_is (field "optional_vars" (sh_node it)) id)
                         (fun it => getattr_id_is (field "optional_vars" it) id))
          by (intro it; rewrite (field_sh at_ ins); apply getattr_id_is_sh).
        set (hits := map _ (field_list "items" n)).
        destruct (forallb (fun b => b) hits); [destruct hits; reflexivity|].
        rewrite ia_in_field_sh by exact H2. destruct (ia_in_field id "body" fs); [|reflexivity].
        cbn [map_res bind]. destruct (last hits false); reflexivity. }
      destruct (String.eqb c "Try").
      { rewrite !ia_in_field_sh by exact H2.
        destruct (ia_in_field id "body" fs); [|reflexivity]. cbn [map_res bind].
        destruct (ia_in_field id "handlers" fs); [|reflexivity]. cbn [map_res bind].
        destruct (ia_in_field id "orelse" fs); [|reflexivity]. cbn [map_res bind].
        destruct (ia_in_field id "finalbody" fs); [|reflexivity]. cbn [map_res bind sh_asg].
        rewrite !map_app. reflexivity. }
      destruct (String.eqb c "ExceptHandler").
      { rewrite ia_in_field_sh by exact H2. destruct (ia_in_field id "body" fs); reflexivity. }
      destruct (String.eqb c "If" || String.eqb c "For" || String.eqb c "While").
      { rewrite !ia_in_field_sh by exact H2.
        destruct (ia_in_field id "body" fs); [|reflexivity]. cbn [map_res bind].
        destruct (ia_in_field id "orelse" fs); [|reflexivity]. cbn [map_res bind sh_asg].
        rewrite map_app. reflexivity. }
      destruct (String.eqb c "AugAssign").
      { cbv zeta. rewrite !(field_sh at_ ins), (is_cls_sh at_ ins), (name_id_sh at_ ins).
        destruct (is_cls "Name" (field "target" n) && pstr_eqb (name_id (field "target" n)) id); reflexivity. }
      destruct (String.eqb c "Assign"); [|reflexivity].
      rewrite (field_list_sh at_ ins). destruct (field_list "targets" n) as [|target ts]; [reflexivity|].
      cbn [map]. cbv zeta. rewrite !(is_cls_sh at_ ins), (name_id_sh at_ ins), (field_sh at_ ins), (is_cls_sh at_ ins).
      destruct (is_cls "Name" target); [destruct (pstr_eqb (name_id target) id); reflexivity|].
      destruct (is_cls "Tuple" target && is_cls "Tuple" (field "value" n)); [|reflexivity].
      rewrite (field_list_sh at_ ins). apply ia_scan_sh.
    Qed.

    Lemma is_assigned_sh : forall n, is_assigned id (sh_node n) = map_res sh_asg (is_assigned id n).
    Proof.
      assert (G : forall n, P n /\ Forall P (items n)).
      { induction n as [c p fs IHfs | l IHl | | | | ] using node_ind'; try (split; [reflexivity | constructor]).
        - split; [|constructor]. unfold P. rewrite is_assigned_Node.
          rewrite sh_node_Node at 1. rewrite is_assigned_Node. rewrite <- (sh_node_Node at_ ins c p fs).
          apply ia_body_sh; (eapply Forall_impl; [|exact IHfs]); intros kv [Ha Hb]; assumption.
        - split; [reflexivity|]. cbn [items]. eapply Forall_impl; [|exact IHl]. intros x [Hx _]. exact Hx. }
      intro n. apply G.
    Qed.
  End Assigned.

  Lemma is_param_sh parent id : is_param (sh_node parent) id = is_param parent id.
  Proof.
    unfold is_param. rewrite (is_cls_sh at_ ins), (field_sh at_ ins), (field_list_sh at_ ins), existsb_map'.
    f_equal. apply existsb_ext'. intro a. rewrite (field_sh at_ ins). apply match_NId_sh.
  Qed.
  Lemma is_format_call_sh call : is_format_call (sh_node call) = is_format_call call.
  Proof.
    unfold is_format_call.
    rewrite (is_cls_sh at_ ins), !(field_sh at_ ins), (is_cls_sh at_ ins), (is_Str_sh at_ ins), (attr_of_sh at_ ins), (field_list_sh at_ ins).
    destruct (field_list "keywords" call); reflexivity.
  Qed.
  Lemma is_starred_display_sh a : is_starred_display (sh_node a) = is_starred_display a.
  Proof. unfold is_starred_display. rewrite (is_cls_sh at_ ins), (field_sh at_ ins), !(is_cls_sh at_ ins). reflexivity. Qed.
  Lemma is_scope_sh n : is_scope (sh_node n) = is_scope n.
  Proof. unfold is_scope. rewrite !(is_cls_sh at_ ins). reflexivity. Qed.
  Lemma is_mod_of_literal_sh v : is_mod_of_literal (sh_node v) = is_mod_of_literal v.
  Proof. unfold is_mod_of_literal. rewrite !(field_sh at_ ins), !(is_cls_sh at_ ins), (is_Str_sh at_ ins). reflexivity. Qed.

  Lemma enclosing_scope_sh c : enclosing_scope (sh_ctx c) = map_res sh_node (enclosing_scope c).
  Proof.
    unfold enclosing_scope. rewrite (c_parents_sh at_ ins). unfold Shift.sh_ps. rewrite find_map'.
    rewrite (find_ext' _ (fun p => is_scope (fst p))) by (intros [p s]; apply is_scope_sh).
    destruct (find (fun p => is_scope (fst p)) (c_parents c)) as [[p s]|]; reflexivity.
  Qed.

  Lemma transform2call_sh v : transform2call (sh_node v) = sh_node (transform2call v).
  Proof.
    unfold transform2call. rewrite !(field_sh at_ ins), (pos_of_sh at_ ins), (is_cls_sh at_ ins), (field_list_sh at_ ins).
    destruct (is_cls "Tuple" (field "right" v)); reflexivity.
  Qed.

  (* A statement without a position counts as line 0 in django_xss, and line 0 must stay line 0:
     this is where the insertion point has to be a real line. *)
  Hypothesis Hat : (1 <= at_)%Z.

  Lemma node_line_sh n : node_line (sh_node n) = sh (node_line n).
  Proof.
    unfold node_line. rewrite (lineno_of_sh at_ ins). destruct (lineno_of n); [reflexivity|].
    symmetry. apply (sh_0 at_ ins Hat).
  Qed.

  Definition sh_task (t : xtask) : xtask :=
    match t with
    | TVar id until => TVar id (sh until)
    | TCall call => TCall (sh_node call)
    | TArgs ln q => TArgs (sh ln) (map sh_node q)
    end.

  Section Step.
    Variables rec rec' : xtask -> res bool.
    Hypothesis Hrec : forall t, rec' (sh_task t) = rec t.
    Variable parent : node.
    Ltac use_rec t := let E := fresh "E" in pose proof (Hrec t) as E; cbn [sh_task] in E; rewrite E; clear E.

    Lemma xss_all_sh ln l : xss_all rec' (sh ln) (map sh_node l) = xss_all rec ln l.
    Proof.
      induction l as [|x t IH]; [reflexivity|]. cbn [map xss_all]. rewrite (is_Str_sh at_ ins), (is_cls_sh at_ ins), (name_id_sh at_ ins).
      destruct (is_Str x); [exact IH|]. destruct (is_cls "Name" x); [|reflexivity].
      use_rec (TVar (name_id x) ln). destruct (rec (TVar (name_id x) ln)) as [[|]|e]; try reflexivity. exact IH.
    Qed.

    Lemma xss_loop_sh id until body : forall secure,
      xss_loop rec' id (sh until) (map sh_node body) secure = xss_loop rec id until body secure.
    Proof.
      induction body as [|st rest IH]; intro secure; [reflexivity|]. cbn [map xss_loop].
      rewrite node_line_sh, sh_geb. destruct (Z.geb (node_line st) until); [reflexivity|].
      rewrite is_assigned_sh. destruct (is_assigned id st) as [[|v|l]|e]; cbn [map_res bind sh_asg]; [apply IH| | |reflexivity].
      - rewrite (is_Str_sh at_ ins), !(is_cls_sh at_ ins), (name_id_sh at_ ins), node_line_sh.
        destruct (is_Str v); [apply IH|]. destruct (is_cls "Name" v).
        + use_rec (TVar (name_id v) (node_line v)). destruct (rec (TVar (name_id v) (node_line v))); [apply IH | reflexivity].
        + destruct (is_cls "Call" v); [|reflexivity].
          use_rec (TCall v). destruct (rec (TCall v)); [apply IH | reflexivity].
      - destruct l as [|x l]; [apply IH|]. cbn [map].
        change (sh_node x :: map sh_node l) with (map sh_node (x :: l)). rewrite xss_all_sh.
        destruct (xss_all rec (node_line st) (x :: l)) as [[|]|e]; try reflexivity. apply IH.
    Qed.

    Lemma xss_args_sh ln q : forall pending,
      xss_args rec' (sh ln) (map sh_node q) (map sh_node pending) = xss_args rec ln q pending.
    Proof.
      induction q as [|a q' IH]; intro pending.
      - cbn [map xss_args]. destruct pending as [|x t]; [reflexivity|]. exact (Hrec (TArgs ln (x :: t))).
      - cbn [map xss_args]. rewrite (is_Str_sh at_ ins), !(is_cls_sh at_ ins), (name_id_sh at_ ins), is_starred_display_sh.
        destruct (is_Str a); [apply IH|]. destruct (is_cls "Name" a).
        { use_rec (TVar (name_id a) ln). destruct (rec (TVar (name_id a) ln)) as [[|]|e]; try reflexivity. apply IH. }
        destruct (is_cls "Call" a).
        { use_rec (TCall a). destruct (rec (TCall a)) as [[|]|e]; try reflexivity. apply IH. }
        destruct (is_starred_display a); [|reflexivity].
        rewrite (field_sh at_ ins), (field_list_sh at_ ins), <- map_app. apply IH.
    Qed.

    Lemma xss_step_sh t : xss_step rec' (sh_node parent) (sh_task t) = xss_step rec parent t.
    Proof.
      destruct t as [id until | call | ln queue]; cbn [sh_task xss_step].
      - rewrite is_param_sh. destruct (is_param parent id); [reflexivity|].
        rewrite (field_list_sh at_ ins). apply xss_loop_sh.
      - rewrite is_format_call_sh. destruct (is_format_call call); [|reflexivity].
        rewrite node_line_sh, (field_list_sh at_ ins). exact (Hrec (TArgs (node_line call) (field_list "args" call))).
      - exact (xss_args_sh ln queue []).
    Qed.
  End Step.

  Lemma xss_eval_sh fuel parent : forall t, xss_eval fuel (sh_node parent) (sh_task t) = xss_eval fuel parent t.
  Proof.
    induction fuel as [|f IH]; intro t; [reflexivity|]. cbn [xss_eval]. apply xss_step_sh. exact IH.
  Qed.

  Lemma xss_fuel_sh parent : xss_fuel (sh_node parent) = xss_fuel parent.
  Proof. unfold xss_fuel. rewrite node_size_sh. reflexivity. Qed.

  Lemma mark_safe_secure_sh c xss : mark_safe_secure (sh_ctx c) (sh_node xss) = mark_safe_secure c xss.
  Proof.
    unfold mark_safe_secure.
    rewrite !(is_cls_sh at_ ins), is_mod_of_literal_sh, enclosing_scope_sh, (name_id_sh at_ ins), (c_node_sh at_ ins), node_line_sh.
    destruct (is_cls "Name" xss).
    { destruct (enclosing_scope c) as [parent|e]; [|reflexivity]. cbn [map_res bind].
      rewrite is_param_sh, xss_fuel_sh. destruct (is_param parent (name_id xss)); [reflexivity|].
      exact (xss_eval_sh _ parent (TVar (name_id xss) (node_line (c_node c)))). }
    destruct (is_cls "Call" xss).
    { destruct (enclosing_scope c) as [parent|e]; [|reflexivity]. cbn [map_res bind].
      rewrite xss_fuel_sh. exact (xss_eval_sh _ parent (TCall xss)). }
    destruct (is_mod_of_literal xss); [|reflexivity].
    destruct (enclosing_scope c) as [parent|e]; [|reflexivity]. cbn [map_res bind].
    rewrite xss_fuel_sh, transform2call_sh. exact (xss_eval_sh _ parent (TCall (transform2call xss))).
  Qed.

  Lemma django_mark_safe_shift cfg c : django_mark_safe cfg (sh_ctx c) = sh_res (django_mark_safe cfg c).
  Proof.
    unfold django_mark_safe. change (mark_safe_applies (sh_ctx c)) with (mark_safe_applies c).
    destruct (mark_safe_applies c); [|reflexivity]. rewrite (c_node_sh at_ ins), (field_list_sh at_ ins).
    destruct (field_list "args" (c_node c)) as [|xss t]; [reflexivity|]. cbn [map]. rewrite (is_Str_sh at_ ins).
    destruct (is_Str xss); [reflexivity|]. unfold check_risk. rewrite mark_safe_secure_sh.
    destruct (mark_safe_secure c xss) as [[|]|e]; reflexivity.
  Qed.

  Theorem inject_plugins_equiv :
    Forall (fun p => forall cfg c, pl_fn p cfg (sh_ctx c) = sh_res (pl_fn p cfg c)) inject_plugins.
  Proof.
    repeat constructor; intros cfg c; cbn [pl_fn].
    - apply hardcoded_sql_expressions_shift.
    - apply django_extra_used_shift.
    - apply django_rawsql_used_shift.
    - apply jinja2_autoescape_false_shift.
    - apply use_of_mako_templates_shift.
    - apply markupsafe_markup_xss_shift.
    - apply django_mark_safe_shift.
  Qed.
End S.

(* [Hat] cannot be dropped from [django_mark_safe_shift]: django_xss compares statement lines with
   [node_line], which reads a missing position as line 0.  With the (meaningless) insertion point 0 a call
   located on "line 0" moves to line 1 while a position-less statement stays on line 0, and the
   "statement.lineno >= until" test flips.  No such witness exists for at_ >= 1. *)
Lemma django_mark_safe_shift_needs_Hat : exists at_ ins cfg c,
  django_mark_safe cfg (sh_ctx at_ ins c) <> sh_res at_ ins (django_mark_safe cfg c).
Proof.
  pose (x := Node "Name" None [("id", NId (s2p "x"))]).
  pose (asg := Node "Assign" None [("targets", NList [x]);
                                   ("value", Node "Constant" None [("value", NConst (CStr (s2p "s")))])]).
  pose (call := Node "Call" (Some (Pos 0 0 0 0))
                     [("func", Node "Name" None [("id", NId (s2p "mark_safe"))]);
                      ("args", NList [x]); ("keywords", NList [])]).
  exists 0%Z, [[]], JNull,
    (Ctx call [(Node "Module" None [("body", NList [asg])], NNone)] NNone [s2p "django.utils.safestring"] []
         (Some 0%Z) None None [0%Z] (Some call) (Some (s2p "django.utils.safestring.mark_safe"))
         (Some (s2p "mark_safe")) None None None None (s2p "f.py") None).
  vm_compute. discriminate.
Qed.
