From Coq Require Import List NArith ZArith Bool String Lia.
From Bandit Require Import Base.PyStr Ast.Node Engine.Types Engine.Tables Engine.Tester Engine.Visitor
     Manager.Registry Manager.NosecParse Proofs.PyStrFacts Proofs.VisitorFacts Proofs.C18_proofs.
Import ListNotations.

(* ---------- sets of ids as lists ---------- *)
Lemma set_add_In x y l : In x (set_add y l) <-> x = y \/ In x l.
Proof.
  unfold set_add. destruct (mem_pstr y l) eqn:E.
  - apply mem_pstr_In in E. split; [auto|]. intros [->|H]; auto.
  - rewrite in_app_iff. simpl. intuition congruence.
Qed.

Lemma union_ids_In x a b : In x (union_ids a b) <-> In x a \/ In x b.
Proof.
  unfold union_ids. revert a. induction b as [|y b IH]; intros a; simpl.
  - tauto.
  - rewrite IH, set_add_In. intuition congruence.
Qed.

Lemma union_ids_nonempty a b : a <> [] -> union_ids a b <> [].
Proof.
  intros Ha H. destruct a as [|x a]; [contradiction|].
  assert (In x (union_ids (x :: a) b)) by (apply union_ids_In; left; left; reflexivity).
  rewrite H in H0. destruct H0.
Qed.

(* ---------- the span lookup ---------- *)
Definition has_bare (m : nosec_map) (lr : list Z) : Prop := exists l, In l lr /\ nosec_get m l = Some [].
Definition names_in (m : nosec_map) (lr : list Z) (id : pstr) : Prop :=
  exists l ids, In l lr /\ nosec_get m l = Some ids /\ In id ids.
Definition any_comment (m : nosec_map) (lr : list Z) : Prop := exists l ids, In l lr /\ nosec_get m l = Some ids.

Definition step_acc (found : option (list pstr)) (s : list pstr) : option (list pstr) :=
  Some (match found with Some f => union_ids f s | None => s end).

Lemma step_acc_nonbare found s : found <> Some [] -> s <> [] -> step_acc found s <> Some [].
Proof.
  intros Hf Hs. unfold step_acc. destruct found as [f|].
  - intro H. inversion H as [H1]. destruct f as [|x f]; [elim Hf; reflexivity|].
    revert H1. apply union_ids_nonempty. discriminate.
  - intro H. inversion H. contradiction.
Qed.

Lemma acc_bare m lr : forall found, found <> Some [] ->
  (get_nosec_acc m lr found = Some [] <-> has_bare m lr).
Proof.
  induction lr as [|l t IH]; intros found Hf; simpl.
  - split; [intro H; congruence | intros [x [[] _]]].
  - destruct (nosec_get m l) as [[|i s]|] eqn:E.
    + split; [intros _; exists l; simpl; auto | reflexivity].
    + change (Some (match found with Some f => union_ids f (i :: s) | None => i :: s end)) with (step_acc found (i :: s)).
      rewrite IH by (apply step_acc_nonbare; [exact Hf | discriminate]).
      split; intros [x [Hx Hb]]; [exists x; simpl; auto|].
      destruct Hx as [<-|Hx]; [congruence | exists x; auto].
    + rewrite IH by exact Hf.
      split; intros [x [Hx Hb]]; [exists x; simpl; auto|].
      destruct Hx as [<-|Hx]; [congruence | exists x; auto].
Qed.

Lemma acc_none m lr : forall found,
  (get_nosec_acc m lr found = None <-> found = None /\ ~ any_comment m lr).
Proof.
  induction lr as [|l t IH]; intros found; simpl.
  - split; [intro H; split; [exact H | intros [x [ids [[] _]]]] | intros [H _]; exact H].
  - destruct (nosec_get m l) as [[|i s]|] eqn:E.
    + split; [discriminate|]. intros [_ H]. exfalso. apply H. exists l, []. simpl; auto.
    + rewrite IH. split; [intros [H _]; discriminate|].
      intros [_ H]. exfalso. apply H. exists l, (i :: s). simpl; auto.
    + rewrite IH. split; intros [H1 H2]; (split; [exact H1|]).
      * intros [x [ids [[<-|Hx] Hs]]]; [congruence|]. apply H2. exists x, ids. auto.
      * intros [x [ids [Hx Hs]]]. apply H2. exists x, ids. simpl; auto.
Qed.

Lemma acc_mem m lr : forall found, found <> Some [] -> ~ has_bare m lr ->
  forall id, (exists ids, get_nosec_acc m lr found = Some ids /\ In id ids)
             <-> (exists f, found = Some f /\ In id f) \/ names_in m lr id.
Proof.
  induction lr as [|l t IH]; intros found Hf Hnb id; simpl.
  - split.
    + intros [ids [H Hin]]. left. exists ids. auto.
    + intros [[f [H Hin]]|[x [ids [[] _]]]]. exists f. auto.
  - assert (Hnb' : ~ has_bare m t) by (intros [x [Hx Hb]]; apply Hnb; exists x; simpl; auto).
    destruct (nosec_get m l) as [[|i s]|] eqn:E.
    + exfalso. apply Hnb. exists l. simpl; auto.
    + change (Some (match found with Some f => union_ids f (i :: s) | None => i :: s end)) with (step_acc found (i :: s)).
      rewrite (IH (step_acc found (i :: s))) by (try apply step_acc_nonbare; try exact Hf; try exact Hnb'; discriminate).
      unfold step_acc. split.
      * intros [[f [H Hin]]|[x [ids [Hx [Hs Hi]]]]].
        -- destruct found as [f0|]; injection H as <-.
           ++ change (union_ids (set_add i f0) s) with (union_ids f0 (i :: s)) in Hin. apply union_ids_In in Hin. destruct Hin as [Hin|Hin]; [left; exists f0; auto|].
              right. exists l, (i :: s). simpl; auto.
           ++ right. exists l, (i :: s). simpl; auto.
        -- right. exists x, ids. simpl; auto.
      * intros [[f [H Hin]]|[x [ids [[<-|Hx] [Hs Hi]]]]].
        -- left. subst found. exists (union_ids f (i :: s)). split; [reflexivity|]. apply union_ids_In. auto.
        -- rewrite E in Hs. inversion Hs; subst. left.
           exists (match found with Some f0 => union_ids f0 (i :: s) | None => i :: s end).
           split; [reflexivity|]. destruct found; [apply union_ids_In; auto | exact Hi].
        -- right. exists x, ids. auto.
    + rewrite (IH found Hf Hnb'). split.
      * intros [H|[x [ids [Hx Hs]]]]; [auto|]. right. exists x, ids. simpl; tauto.
      * intros [H|[x [ids [[<-|Hx] [Hs Hi]]]]]; [auto | congruence |]. right. exists x, ids. auto.
Qed.

(* ---------- the decision the tester takes, against the statement ---------- *)
Definition code_withheld (m : nosec_map) (lr : list Z) (lineno : option Z) (id : pstr) : bool :=
  match nosecs_from_contexts m lr lineno with
  | None => false
  | Some [] => true
  | Some ids => mem_pstr id ids
  end.

(* a nosec comment on one of [lines] that is bare or names [id] *)
Definition spec_withheld (m : nosec_map) (lines : list Z) (id : pstr) : Prop :=
  exists l ids, In l lines /\ nosec_get m l = Some ids /\ (ids = [] \/ In id ids).

Definition lines_of (lr : list Z) (lineno : option Z) : list Z :=
  match lineno with Some l => l :: lr | None => lr end.

Theorem withheld_iff m lr lineno id :
  code_withheld m lr lineno id = true <-> spec_withheld m (lines_of lr lineno) id.
Proof.
  unfold code_withheld, nosecs_from_contexts, get_nosec.
  pose proof (acc_bare m lr None ltac:(discriminate)) as G1.
  pose proof (acc_none m lr None) as G2.
  set (base := match lineno with Some l => nosec_get m l | None => None end).
  assert (Hspec : spec_withheld m (lines_of lr lineno) id <->
                  (exists ids, base = Some ids /\ (ids = [] \/ In id ids)) \/ spec_withheld m lr id).
  { unfold spec_withheld, lines_of, base. destruct lineno as [l0|].
    - split.
      + intros [l [ids [[<-|Hl] [Hs Hd]]]]; [left; exists ids; auto | right; exists l, ids; auto].
      + intros [[ids [Hs Hd]]|[l [ids [Hl [Hs Hd]]]]]; [exists l0, ids; simpl; auto | exists l, ids; simpl; auto].
    - split; [auto|]. intros [[ids [H _]]|H]; [discriminate | exact H]. }
  rewrite Hspec. clear Hspec.
  destruct (get_nosec_acc m lr None) as [[|c cs]|] eqn:Ec.
  - (* a bare comment in the span *)
    assert (Hb : has_bare m lr) by (apply G1; reflexivity).
    assert (R : match base, Some (@nil pstr) with
                | Some [], _ | _, Some [] => Some []
                | None, None => None | Some b, None => Some b | None, Some c => Some c
                | Some b, Some c => Some (union_ids b c) end = Some (@nil pstr))
      by (destruct base as [[|? ?]|]; reflexivity).
    rewrite R. split; [|reflexivity]. intros _. right. destruct Hb as [l [Hl Hs]]. exists l, []. auto.
  - (* specific comments only in the span *)
    assert (Hnb : ~ has_bare m lr) by (intro H; apply G1 in H; discriminate).
    pose proof (acc_mem m lr None ltac:(discriminate) Hnb id) as Hin. rewrite Ec in Hin.
    assert (Hspan : spec_withheld m lr id <-> In id (c :: cs)).
    { split.
      - intros [l [ids [Hl [Hs [->|Hd]]]]]; [exfalso; apply Hnb; exists l; auto|].
        destruct (proj2 Hin) as [ids' [He Hi]]; [right; exists l, ids; auto|]. inversion He; subst. exact Hi.
      - intro H. destruct (proj1 Hin) as [[f [Hf _]]|[l [ids [Hl [Hs Hd]]]]]; [exists (c :: cs); auto | discriminate|].
        exists l, ids. auto. }
    destruct base as [[|b bs]|] eqn:Eb.
    + split; [|reflexivity]. intros _. left. exists []. auto.
    + assert (Hu : union_ids (b :: bs) (c :: cs) <> []) by (apply union_ids_nonempty; discriminate).
      destruct (union_ids (b :: bs) (c :: cs)) as [|u us] eqn:Eu; [contradiction|].
      rewrite mem_pstr_In, <- Eu, union_ids_In, Hspan. split.
      * intros [H|H]; [left; exists (b :: bs); auto | right; exact H].
      * intros [[ids [Hs [->|Hd]]]|H]; [discriminate | inversion Hs; subst; auto | auto].
    + rewrite mem_pstr_In, Hspan. split; [auto|]. intros [[ids [H _]]|H]; [discriminate | exact H].
  - (* no comment in the span *)
    destruct (proj1 G2 eq_refl) as [_ Hnone].
    assert (Hspan : ~ spec_withheld m lr id).
    { intros [l [ids [Hl [Hs _]]]]. apply Hnone. exists l, ids. auto. }
    destruct base as [[|b bs]|] eqn:Eb.
    + split; [|reflexivity]. intros _. left. exists []. auto.
    + rewrite mem_pstr_In. split.
      * intro H. left. exists (b :: bs). auto.
      * intros [[ids [Hs [->|Hd]]]|H]; [discriminate | inversion Hs; subst; exact Hd | contradiction].
    + split; [discriminate|]. intros [[ids [H _]]|H]; [discriminate | contradiction].
Qed.

(* a comment on a line outside the reported line and the span changes nothing *)
Lemma nosec_get_other m l l' ids : l <> l' -> nosec_get ((l', ids) :: m) l = nosec_get m l.
Proof. intro H. simpl. destruct (Z.eqb l' l) eqn:E; [apply Z.eqb_eq in E; congruence | reflexivity]. Qed.

Theorem outside_span_irrelevant m lr lineno id l' ids' :
  ~ In l' (lines_of lr lineno) ->
  code_withheld ((l', ids') :: m) lr lineno id = code_withheld m lr lineno id.
Proof.
  intro Hout.
  assert (E : forall b1 b2, (b1 = true <-> b2 = true) -> b1 = b2).
  { intros [|] [|] H; auto; [symmetry; apply H; reflexivity | apply H; reflexivity]. }
  apply E. rewrite !withheld_iff. unfold spec_withheld. split.
  - intros [l [ids [Hl [Hs Hd]]]]. exists l, ids. split; [exact Hl|]. split; [|exact Hd].
    rewrite nosec_get_other in Hs; [exact Hs|]. intro; subst; contradiction.
  - intros [l [ids [Hl [Hs Hd]]]]. exists l, ids. split; [exact Hl|]. split; [|exact Hd].
    rewrite nosec_get_other; [exact Hs|]. intro; subst; contradiction.
Qed.

(* with nosec handling off (empty map) nothing is withheld *)
Theorem ignore_nosec_nothing_withheld lr lineno id : code_withheld [] lr lineno id = false.
Proof.
  destruct (code_withheld [] lr lineno id) eqn:E; [|reflexivity].
  apply withheld_iff in E. destruct E as [l [ids [_ [Hs _]]]]. discriminate.
Qed.

(* ---------- which ids a comment names ---------- *)
Lemma resolve_tokens_In reg tab builtin toks i :
  In i (resolve_tokens reg tab builtin toks) <-> exists t, In t toks /\ find_test_id reg tab builtin t = Some i.
Proof.
  unfold resolve_tokens.
  assert (G : forall toks acc, In i (fold_left (fun acc t => match find_test_id reg tab builtin t with
                                                             | Some i => set_add i acc | None => acc end) toks acc)
                               <-> In i acc \/ exists t, In t toks /\ find_test_id reg tab builtin t = Some i).
  { clear toks. induction toks as [|t toks IH]; intros acc; simpl.
    - split; [auto|]. intros [H|[t [[] _]]]; exact H.
    - rewrite IH. destruct (find_test_id reg tab builtin t) as [j|] eqn:E.
      + rewrite set_add_In. split.
        * intros [[->|H]|[t' [Ht Hf]]]; [right; exists t; auto | auto | right; exists t'; auto].
        * intros [H|[t' [[<-|Ht] Hf]]]; [auto | left; left; congruence | right; exists t'; auto].
      + split.
        * intros [H|[t' [Ht Hf]]]; [auto | right; exists t'; auto].
        * intros [H|[t' [[<-|Ht] Hf]]]; [auto | congruence | right; exists t'; auto]. }
  rewrite G. simpl. split; [intros [[]|H]; exact H | auto].
Qed.

(* the comment map holds an entry exactly for the comment tokens that contain a nosec marker *)
Lemma build_map_In ws tok reg tab builtin comments l ids :
  In (l, ids) (build_map ws tok reg tab builtin comments) <->
  exists text, In (l, text) comments /\ parse_nosec ws tok reg tab builtin text = Some ids.
Proof.
  unfold build_map. rewrite in_flat_map. split.
  - intros [[l' text] [Hin H]]. simpl in H. destruct (parse_nosec ws tok reg tab builtin text) as [x|] eqn:E; [|destruct H].
    destruct H as [H|[]]. inversion H; subst. exists text. auto.
  - intros [text [Hin H]]. exists (l, text). split; [exact Hin|]. simpl. rewrite H. left. reflexivity.
Qed.
