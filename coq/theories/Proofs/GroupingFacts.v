From Coq Require Import List NArith ZArith Bool Lia Permutation.
From Bandit Require Import Base.PyStr Formats.Grouping.
Import ListNotations.

Lemma str_leb_total a b : str_leb a b = true \/ str_leb b a = true.
Proof.
  revert b. induction a as [|x a IH]; intros [|y b]; simpl; auto.
  destruct (N.ltb x y) eqn:E1; destruct (N.ltb y x) eqn:E2; auto.
Qed.
Lemma str_leb_antisym a b : str_leb a b = true -> str_leb b a = true -> a = b.
Proof.
  revert b. induction a as [|x a IH]; intros [|y b]; simpl; auto; try discriminate.
  destruct (N.ltb x y) eqn:E1; destruct (N.ltb y x) eqn:E2; try discriminate.
  - apply N.ltb_lt in E1, E2. lia.
  - intros H1 H2. apply N.ltb_ge in E1, E2. assert (x = y) by lia. subst. f_equal. auto.
Qed.
Lemma str_leb_trans a b c : str_leb a b = true -> str_leb b c = true -> str_leb a c = true.
Proof.
  revert b c. induction a as [|x a IH]; intros [|y b] [|z c]; simpl; auto; try discriminate.
  destruct (N.ltb x y) eqn:E1; destruct (N.ltb y x) eqn:E2; try discriminate;
  destruct (N.ltb y z) eqn:E3; destruct (N.ltb z y) eqn:E4; try discriminate;
  destruct (N.ltb x z) eqn:E5; destruct (N.ltb z x) eqn:E6; auto;
  try apply N.ltb_lt in E1; try apply N.ltb_lt in E2; try apply N.ltb_lt in E3; try apply N.ltb_lt in E4;
  try apply N.ltb_lt in E5; try apply N.ltb_lt in E6;
  try apply N.ltb_ge in E1; try apply N.ltb_ge in E2; try apply N.ltb_ge in E3; try apply N.ltb_ge in E4;
  try apply N.ltb_ge in E5; try apply N.ltb_ge in E6; try lia; intros; try discriminate.
  eapply IH; eauto.
Qed.

Section By.
  Variable A : Type.
  Variable key : A -> pstr.

  Inductive ksorted : list A -> Prop :=
  | ks_nil : ksorted []
  | ks_one x : ksorted [x]
  | ks_cons x y t : str_leb (key x) (key y) = true -> ksorted (y :: t) -> ksorted (x :: y :: t).

  Lemma insert_by_sorted x l : ksorted l -> ksorted (insert_by A key x l).
  Proof.
    induction 1 as [|y|y z t Hyz Hs IH]; simpl.
    - constructor.
    - destruct (str_leb (key y) (key x)) eqn:E; [constructor; [exact E | constructor]|].
      destruct (str_leb_total (key y) (key x)) as [H|H]; [congruence|]. constructor; [exact H | constructor].
    - destruct (str_leb (key y) (key x)) eqn:E.
      + simpl in IH. destruct (str_leb (key z) (key x)) eqn:E2.
        * constructor; assumption.
        * constructor; [exact E|]. exact IH.
      + destruct (str_leb_total (key y) (key x)) as [H|H]; [congruence|]. constructor; [exact H | constructor; assumption].
  Qed.

  Lemma insert_by_perm x l : Permutation (x :: l) (insert_by A key x l).
  Proof.
    induction l as [|y t IH]; simpl; [apply Permutation_refl|].
    destruct (str_leb (key y) (key x)); [|apply Permutation_refl].
    eapply Permutation_trans; [apply perm_swap | apply perm_skip; exact IH].
  Qed.

  Lemma sort_by_gen l : forall acc, ksorted acc ->
    ksorted (fold_left (fun a x => insert_by A key x a) l acc) /\
    Permutation (acc ++ l) (fold_left (fun a x => insert_by A key x a) l acc).
  Proof.
    induction l as [|x t IH]; intros acc Ha; simpl.
    - rewrite app_nil_r. split; [exact Ha | apply Permutation_refl].
    - destruct (IH (insert_by A key x acc) (insert_by_sorted x acc Ha)) as [H1 H2]. split; [exact H1|].
      eapply Permutation_trans; [|exact H2].
      eapply Permutation_trans; [apply Permutation_sym, Permutation_middle|].
      change (x :: acc ++ t) with ((x :: acc) ++ t).
      apply Permutation_app_tail. apply insert_by_perm.
  Qed.

  (* one record per finding: sorting neither drops nor duplicates a record *)
  Theorem sort_by_permutation l : Permutation l (sort_by A key l).
  Proof. destruct (sort_by_gen l [] ks_nil) as [_ H]. exact H. Qed.

  Theorem sort_by_sorted l : ksorted (sort_by A key l).
  Proof. destruct (sort_by_gen l [] ks_nil) as [H _]. exact H. Qed.

  Lemma ksorted_head_le x t : ksorted (x :: t) -> forall y, In y t -> str_leb (key x) (key y) = true.
  Proof.
    revert x. induction t as [|z t IH]; intros x Hs y Hy; [destruct Hy|].
    inversion Hs; subst. destruct Hy as [<-|Hy]; [assumption|].
    eapply str_leb_trans; [eassumption | apply IH; assumption].
  Qed.

  (* records with equal key are contiguous: whatever lies between two records of one group belongs to it *)
  Theorem groups_contiguous l : ksorted l ->
    forall l1 a l2 b l3, l = l1 ++ a :: l2 ++ b :: l3 -> key a = key b ->
    forall c, In c l2 -> key c = key a.
  Proof.
    intros Hs l1 a l2 b l3 -> Hab c Hc.
    assert (Hs' : ksorted (a :: l2 ++ b :: l3)).
    { clear Hab Hc. induction l1 as [|x t IH]; [exact Hs|]. apply IH. inversion Hs; subst.
      - destruct t; discriminate.
      - assumption. }
    assert (H1 : str_leb (key a) (key c) = true).
    { apply (ksorted_head_le a _ Hs'). apply in_or_app. left. exact Hc. }
    assert (H2 : str_leb (key c) (key b) = true).
    { apply in_split in Hc as [m1 [m2 ->]].
      assert (Hs2 : ksorted (c :: m2 ++ b :: l3)).
      { clear H1. assert (G : forall pre rest, ksorted (pre ++ rest) -> ksorted rest).
        { induction pre as [|x t IH]; intros rest H; [exact H|]. apply IH. inversion H; subst.
          - destruct t; [destruct rest; [constructor | discriminate] | discriminate].
          - assumption. }
        apply (G (a :: m1)). simpl. rewrite <- app_assoc in Hs'. simpl in Hs'. exact Hs'. }
      apply (ksorted_head_le c _ Hs2). apply in_or_app. right. left. reflexivity. }
    apply str_leb_antisym; [|exact H1]. rewrite Hab. exact H2.
  Qed.
End By.
