(* Decision-table theorems for the "inject" plugin family (B608, B610, B611, B701, B702, B703, B704). *)
From Coq Require Import List NArith ZArith Bool String Lia.
From Bandit Require Import Base.PyStr Ast.Node Engine.Types Engine.Resolve Engine.Context Engine.Scan
     Regex.Regex Gen.Regexes Gen.Registry Plugins.Inject Proofs.PyStrFacts.
Import ListNotations.
Local Open Scope string_scope.
Local Open Scope list_scope.

(* ------------------------------------------------------------------------------------------------ *)
(* Concrete syntax for the examples                                                                   *)

Definition P_ (l c : Z) : option pos4 := Some (Pos l c l (c + 1)).
Definition Str_ (l c : Z) (s : string) : node :=
  Node "Constant" (P_ l c) [("value", NConst (CStr (s2p s))); ("kind", NNone)].
Definition Const_ (l c : Z) (k : const) : node := Node "Constant" (P_ l c) [("value", NConst k); ("kind", NNone)].
Definition Name_ (l c : Z) (s : string) : node :=
  Node "Name" (P_ l c) [("id", NId (s2p s)); ("ctx", Node "Load" None [])].
Definition Attr_ (l c : Z) (v : node) (a : string) : node :=
  Node "Attribute" (P_ l c) [("value", v); ("attr", NId (s2p a)); ("ctx", Node "Load" None [])].
Definition Call_ (l c : Z) (f : node) (args kws : list node) : node :=
  Node "Call" (P_ l c) [("func", f); ("args", NList args); ("keywords", NList kws)].
Definition Kw_ (l c : Z) (k : string) (v : node) : node :=
  Node "keyword" (P_ l c) [("arg", NId (s2p k)); ("value", v)].
Definition BinOp_ (l c : Z) (a : node) (op : string) (b : node) : node :=
  Node "BinOp" (P_ l c) [("left", a); ("op", Node op None []); ("right", b)].
Definition Expr_ (l c : Z) (v : node) : node := Node "Expr" (P_ l c) [("value", v)].
Definition Assign_ (l c : Z) (t v : node) : node :=
  Node "Assign" (P_ l c) [("targets", NList [t]); ("value", v); ("type_comment", NNone)].
Definition Module_ (body : list node) : node := Node "Module" None [("body", NList body); ("type_ignores", NList [])].
Definition List_ (l c : Z) (elts : list node) : node :=
  Node "List" (P_ l c) [("elts", NList elts); ("ctx", Node "Load" None [])].

(* a Str context: node and its ancestors, nearest first *)
Definition str_ctx (n : node) (ps : list node) : ctx :=
  Ctx n (map (fun p => (p, NNone)) ps) NNone [] [] None None None [] None None None None
      (str_of n) None None [] None.
(* a Call context *)
Definition call_ctx (n : node) (ps : list node) (imports : list pstr) (q : string) : ctx :=
  Ctx n (map (fun p => (p, NNone)) ps) NNone imports [] None None None []
      (Some n) (Some (s2p q)) (Some (last_component (s2p q))) None None None None [] None.

(* ------------------------------------------------------------------------------------------------ *)
(* B608                                                                                               *)

Lemma check_string_empty : check_string [] = false.
Proof. vm_compute. reflexivity. Qed.

Lemma sql_execute_call_spec w :
  sql_execute_call w = true <-> is_cls "Call" w = true /\ In (get_called_name w) sql_exec_names.
Proof. unfold sql_execute_call. rewrite andb_true_iff, mem_pstr_In. tauto. Qed.

Lemma sql_evaluate_replace c w stmt rep :
  sql_evaluate c = Ok (w, stmt, rep) -> (rep = true <-> sql_kind_of c = SqlReplace).
Proof.
  unfold sql_evaluate. destruct (sql_kind_of c).
  - destruct (concat_string _ _ _). intros H; inversion H; split; discriminate.
  - destruct (ancestor 2 c); simpl; intros H; inversion H; split; discriminate.
  - destruct (ancestor 2 c); simpl; intros H; inversion H; split; reflexivity.
  - destruct (ancestor 1 c); simpl; intros H; inversion H; split; discriminate.
  - intros H; inversion H; split; discriminate.
  - intros H; inversion H; split; discriminate.
Qed.

(* The confidence of a B608 finding: MEDIUM exactly when the wrapper of the string construction is a
   Call whose called name (func.attr of an Attribute, func.id of a Name) is execute/executemany and the
   construction is not str.replace; LOW otherwise.  (.replace is reported, with LOW confidence.) *)
Theorem sql_confidence (cfg : jv) (c : ctx) (w : node) (stmt : pstr) (rep : bool) :
  sql_evaluate c = Ok (w, stmt, rep) ->
  check_string stmt = true ->
  exists conf,
    hardcoded_sql_expressions cfg c = Ok (Some (sql_issue conf))
    /\ (conf = MEDIUM \/ conf = LOW)
    /\ (conf = MEDIUM <->
        (is_cls "Call" w = true /\ In (get_called_name w) sql_exec_names) /\ sql_kind_of c <> SqlReplace).
Proof.
  intros He Hs. exists (sql_conf (sql_execute_call w) rep).
  unfold hardcoded_sql_expressions. rewrite He. simpl. rewrite Hs.
  split; [reflexivity|].
  pose proof (sql_evaluate_replace _ _ _ _ He) as Hr.
  rewrite <- sql_execute_call_spec.
  unfold sql_conf. destruct (sql_execute_call w), rep; simpl.
  - split; [right; reflexivity|]. split; [discriminate|]. intros [_ H]. exfalso. apply H, Hr. reflexivity.
  - split; [left; reflexivity|]. split; [|reflexivity]. intros _. split; [reflexivity|].
    intros H. apply Hr in H. discriminate.
  - split; [right; reflexivity|]. split; [discriminate|]. intros [H _]. discriminate.
  - split; [right; reflexivity|]. split; [discriminate|]. intros [H _]. discriminate.
Qed.

(* cursor.execute("select * from t where x = %s" % y) *)
Definition ex_sql_lit := Str_ 1 15 "select * from t where x = %s".
Definition ex_sql_binop := BinOp_ 1 15 ex_sql_lit "Mod" (Name_ 1 48 "y").
Definition ex_sql_call := Call_ 1 0 (Attr_ 1 0 (Name_ 1 0 "cursor") "execute") [ex_sql_binop] [].
Definition ex_sql_ctx := str_ctx ex_sql_lit [ex_sql_binop; ex_sql_call; Expr_ 1 0 ex_sql_call;
                                             Module_ [Expr_ 1 0 ex_sql_call]].
Example sql_confidence_ex :
  sql_evaluate ex_sql_ctx = Ok (ex_sql_call, s2p "select * from t where x = %s", false)
  /\ check_string (s2p "select * from t where x = %s") = true
  /\ hardcoded_sql_expressions JNull ex_sql_ctx = Ok (Some (sql_issue MEDIUM)).
Proof. vm_compute. repeat split. Qed.

(* The called name may also be a bare Name: execute("select ..." % y) is MEDIUM as well. *)
Definition ex_sql_call2 := Call_ 1 0 (Name_ 1 0 "execute") [ex_sql_binop] [].
Example sql_confidence_bare_name_ex :
  hardcoded_sql_expressions JNull
    (str_ctx ex_sql_lit [ex_sql_binop; ex_sql_call2; Expr_ 1 0 ex_sql_call2; Module_ []])
  = Ok (Some (sql_issue MEDIUM)).
Proof. vm_compute. reflexivity. Qed.

(* cursor.execute("select * from t where x = V".replace("V", y)) : reported, LOW *)
Definition ex_rep_lit := Str_ 1 15 "select * from t where x = V".
Definition ex_rep_attr := Attr_ 1 15 ex_rep_lit "replace".
Definition ex_rep_inner := Call_ 1 15 ex_rep_attr [Str_ 1 50 "V"; Name_ 1 55 "y"] [].
Definition ex_rep_call := Call_ 1 0 (Attr_ 1 0 (Name_ 1 0 "cursor") "execute") [ex_rep_inner] [].
Example sql_confidence_replace_ex :
  hardcoded_sql_expressions JNull
    (str_ctx ex_rep_lit [ex_rep_attr; ex_rep_inner; ex_rep_call; Expr_ 1 0 ex_rep_call; Module_ []])
  = Ok (Some (sql_issue LOW)).
Proof. vm_compute. reflexivity. Qed.

Lemma sql_kind_plain c :
  is_cls "BinOp" (parent_of c) = false ->
  (is_cls "Attribute" (parent_of c) = true ->
   attr_of (parent_of c) <> s2p "format" /\ attr_of (parent_of c) <> s2p "replace") ->
  is_cls "JoinedStr" (parent_of c) = false ->
  sql_kind_of c = SqlPlain.
Proof.
  intros Hb Ha Hj. unfold sql_kind_of. rewrite Hb, Hj.
  destruct (is_cls "Attribute" (parent_of c)) eqn:E; simpl; [|reflexivity].
  destruct (Ha eq_refl) as [H1 H2].
  apply pstr_eqb_neq in H1. apply pstr_eqb_neq in H2. rewrite H1, H2. reflexivity.
Qed.

(* A string literal that is not an operand of a BinOp chain, not the receiver of .format/.replace and
   not a piece of an f-string is never reported, whatever it contains and wherever it is used. *)
Theorem sql_needs_construction (cfg : jv) (c : ctx) :
  is_cls "BinOp" (parent_of c) = false ->
  (is_cls "Attribute" (parent_of c) = true ->
   attr_of (parent_of c) <> s2p "format" /\ attr_of (parent_of c) <> s2p "replace") ->
  is_cls "JoinedStr" (parent_of c) = false ->
  hardcoded_sql_expressions cfg c = Ok None.
Proof.
  intros Hb Ha Hj. unfold hardcoded_sql_expressions, sql_evaluate.
  rewrite (sql_kind_plain c Hb Ha Hj). cbv beta iota zeta delta [bind].
  rewrite check_string_empty. reflexivity.
Qed.

(* cursor.execute("select * from t where x = 1") *)
Definition ex_plain_lit := Str_ 1 15 "select * from t where x = 1".
Definition ex_plain_call := Call_ 1 0 (Attr_ 1 0 (Name_ 1 0 "cursor") "execute") [ex_plain_lit] [].
Example sql_needs_construction_ex :
  let c := str_ctx ex_plain_lit [ex_plain_call; Expr_ 1 0 ex_plain_call; Module_ []] in
  is_cls "BinOp" (parent_of c) = false /\ is_cls "Attribute" (parent_of c) = false
  /\ is_cls "JoinedStr" (parent_of c) = false /\ check_string (node_s (c_node c)) = true
  /\ hardcoded_sql_expressions JNull c = Ok None.
Proof. vm_compute. repeat split. Qed.

(* ------------------------------------------------------------------------------------------------ *)
(* B610 / B611                                                                                        *)

Lemma all_str_spec l : all_str l = true <-> Forall (fun e => is_Str e = true) l.
Proof. unfold all_str. rewrite forallb_forall, Forall_forall. tauto. Qed.

Lemma extra_list_ok_spec v :
  extra_list_ok v = true <-> is_cls "List" v = true /\ Forall (fun e => is_Str e = true) (field_list "elts" v).
Proof. unfold extra_list_ok. rewrite andb_true_iff, all_str_spec. tauto. Qed.

Lemma extra_select_ok_spec v :
  extra_select_ok v = true <->
  is_cls "Dict" v = true /\ Forall (fun e => is_Str e = true) (field_list "keys" v)
  /\ Forall (fun e => is_Str e = true) (field_list "values" v).
Proof. unfold extra_select_ok. rewrite !andb_true_iff, !all_str_spec. tauto. Qed.

(* B610 never raises; it reports exactly the calls named "extra" whose where/tables/select arguments
   (positional or keyword) are not all literal: where/tables a list display of string literals, select a
   dict display with string-literal keys and values. *)
Theorem django_extra_rule (cfg : jv) (c : ctx) :
  (extra_literal_only (c_node c) = true -> django_extra_used cfg c = Ok None)
  /\ (c_name c <> Some (s2p "extra") -> django_extra_used cfg c = Ok None)
  /\ (c_name c = Some (s2p "extra") -> extra_literal_only (c_node c) = false ->
      django_extra_used cfg c = Ok (Some extra_issue))
  /\ (extra_literal_only (c_node c) = true <->
      (forall v, extra_arg (c_node c) (s2p "where") 1 = Some v -> extra_list_ok v = true)
      /\ (forall v, extra_arg (c_node c) (s2p "tables") 3 = Some v -> extra_list_ok v = true)
      /\ (forall v, extra_arg (c_node c) (s2p "select") 0 = Some v -> extra_select_ok v = true)).
Proof.
  unfold django_extra_used. repeat split.
  - intros H. rewrite H. destruct (opt_is _ _); reflexivity.
  - intros H. destruct (c_name c) as [n|] eqn:E; simpl; [|reflexivity].
    destruct (pstr_eqb n (s2p "extra")) eqn:E2; [|reflexivity].
    apply pstr_eqb_spec in E2. subst. congruence.
  - intros H1 H2. rewrite H1, H2. reflexivity.
  - unfold extra_literal_only, extra_part_ok in H. apply andb_true_iff in H as [H _].
    apply andb_true_iff in H as [H _]. intros v Hv. rewrite Hv in H. exact H.
  - unfold extra_literal_only, extra_part_ok in H. apply andb_true_iff in H as [H _].
    apply andb_true_iff in H as [_ H]. intros v Hv. rewrite Hv in H. exact H.
  - unfold extra_literal_only, extra_part_ok in H. apply andb_true_iff in H as [_ H].
    intros v Hv. rewrite Hv in H. exact H.
  - intros [H1 [H2 H3]]. unfold extra_literal_only, extra_part_ok.
    destruct (extra_arg (c_node c) (s2p "where") 1) as [a|]; [rewrite (H1 a eq_refl)|];
    destruct (extra_arg (c_node c) (s2p "tables") 3) as [b|]; try rewrite (H2 b eq_refl);
    destruct (extra_arg (c_node c) (s2p "select") 0) as [d|]; try rewrite (H3 d eq_refl); reflexivity.
Qed.

(* q.extra(where=["a = 1"]) is silent; q.extra(where=[x]) is reported *)
Definition ex_extra_call (e : node) :=
  Call_ 1 0 (Attr_ 1 0 (Name_ 1 0 "q") "extra") [] [Kw_ 1 8 "where" (List_ 1 14 [e])].
Example django_extra_rule_ex :
  extra_literal_only (ex_extra_call (Str_ 1 15 "a = 1")) = true
  /\ django_extra_used JNull (call_ctx (ex_extra_call (Str_ 1 15 "a = 1")) [] [] "q.extra") = Ok None
  /\ django_extra_used JNull (call_ctx (ex_extra_call (Name_ 1 15 "x")) [] [] "q.extra") = Ok (Some extra_issue).
Proof. vm_compute. repeat split. Qed.

(* B611: under an import resembling django.db.models, a call named RawSQL is judged on its first
   positional argument, else on its sql= keyword; a string literal there is silent, anything else is
   reported, and a call with neither (RawSQL(), RawSQL(params=[]), only **kw) yields no finding (it
   raised KeyError before /repo commit 5af70d4). *)
Theorem django_rawsql_rule (cfg : jv) (c : ctx) :
  (rawsql_applies c = false -> django_rawsql_used cfg c = Ok None)
  /\ (forall sql, rawsql_applies c = true -> rawsql_sql (c_node c) = Some sql -> is_Str sql = true ->
      django_rawsql_used cfg c = Ok None)
  /\ (forall sql, rawsql_applies c = true -> rawsql_sql (c_node c) = Some sql -> is_Str sql = false ->
      django_rawsql_used cfg c = Ok (Some rawsql_issue))
  /\ (rawsql_applies c = true -> field_list "args" (c_node c) = [] ->
      kw_last (s2p "sql") (field_list "keywords" (c_node c)) = None ->
      django_rawsql_used cfg c = Ok None)
  /\ (forall a rest, field_list "args" (c_node c) = a :: rest -> rawsql_sql (c_node c) = Some a).
Proof.
  unfold django_rawsql_used. repeat split.
  - intros H. rewrite H. reflexivity.
  - intros sql H1 H2 H3. rewrite H1, H2, H3. reflexivity.
  - intros sql H1 H2 H3. rewrite H1, H2, H3. reflexivity.
  - intros H1 H2 H3. rewrite H1. unfold rawsql_sql. rewrite H2, H3. reflexivity.
  - intros a rest H. unfold rawsql_sql. rewrite H. reflexivity.
Qed.

Definition ex_raw_imports := [s2p "django.db.models.expressions.RawSQL"].
Definition ex_raw_call (args : list node) := Call_ 1 0 (Name_ 1 0 "RawSQL") args [].
Example django_rawsql_rule_ex :
  let q := "django.db.models.expressions.RawSQL" in
  rawsql_applies (call_ctx (ex_raw_call []) [] ex_raw_imports q) = true
  /\ django_rawsql_used JNull (call_ctx (ex_raw_call [Str_ 1 7 "select 1"]) [] ex_raw_imports q) = Ok None
  /\ django_rawsql_used JNull (call_ctx (ex_raw_call [Name_ 1 7 "x"]) [] ex_raw_imports q) = Ok (Some rawsql_issue)
  /\ django_rawsql_used JNull (call_ctx (ex_raw_call []) [] ex_raw_imports q) = Ok None
  /\ django_rawsql_used JNull (call_ctx (ex_raw_call [Name_ 1 7 "x"]) [] [] "RawSQL") = Ok None.
Proof. vm_compute. repeat split. Qed.

(* ------------------------------------------------------------------------------------------------ *)
(* B701                                                                                               *)

(* The decision table of B701 over the first autoescape keyword ast.walk meets in the call:
     absent                         -> HIGH / HIGH   ("By default, jinja2 sets autoescape to False...")
     False                          -> HIGH / HIGH   ("... Use autoescape=True ...")
     True, select_autoescape(...)   -> nothing
     anything else                  -> HIGH / MEDIUM ("... Ensure autoescape=True ...")
   and nothing at all unless "jinja2" is a component of the qualified name and "Environment" the last. *)
Theorem jinja_autoescape_rule (cfg : jv) (c : ctx) :
  (jinja_applies c = false -> jinja2_autoescape_false cfg c = Ok None)
  /\ (jinja_applies c = true -> jinja_autoescape_value (c_node c) = None ->
      jinja2_autoescape_false cfg c = Ok (Some (RIssue HIGH HIGH 94 jinja_text_default None None None None)))
  /\ (forall v, jinja_applies c = true -> jinja_autoescape_value (c_node c) = Some v ->
      jinja2_autoescape_false cfg c =
      Ok (match autoescape_form_of v with
          | AeFalse => Some (RIssue HIGH HIGH 94 jinja_text_false None None None None)
          | AeTrue => None
          | AeSelect => None
          | AeOther => Some (RIssue HIGH MEDIUM 94 jinja_text_other None None None None)
          end)).
Proof.
  unfold jinja2_autoescape_false. repeat split.
  - intros H. rewrite H. reflexivity.
  - intros H1 H2. rewrite H1, H2. reflexivity.
  - intros v H1 H2. rewrite H1, H2. simpl. destruct (autoescape_form_of v); reflexivity.
Qed.

Definition ex_env_call (kws : list node) := Call_ 1 0 (Attr_ 1 0 (Name_ 1 0 "jinja2") "Environment") [] kws.
Definition ex_select := Call_ 1 31 (Name_ 1 31 "select_autoescape") [] [].
Example jinja_autoescape_rule_ex :
  let run kws := jinja2_autoescape_false JNull (call_ctx (ex_env_call kws) [] [] "jinja2.Environment") in
  autoescape_form_of (Const_ 1 31 (CBool false)) = AeFalse
  /\ autoescape_form_of (Const_ 1 31 (CBool true)) = AeTrue
  /\ autoescape_form_of ex_select = AeSelect
  /\ autoescape_form_of (Name_ 1 31 "x") = AeOther
  /\ run [] = Ok (Some (jinja_issue HIGH jinja_text_default))
  /\ run [Kw_ 1 19 "autoescape" (Const_ 1 31 (CBool false))] = Ok (Some (jinja_issue HIGH jinja_text_false))
  /\ run [Kw_ 1 19 "autoescape" (Const_ 1 31 (CBool true))] = Ok None
  /\ run [Kw_ 1 19 "autoescape" ex_select] = Ok None
  /\ run [Kw_ 1 19 "autoescape" (Name_ 1 31 "x")] = Ok (Some (jinja_issue MEDIUM jinja_text_other))
  /\ jinja2_autoescape_false JNull (call_ctx (ex_env_call []) [] [] "Environment") = Ok None.
Proof. vm_compute. repeat split. Qed.

(* ------------------------------------------------------------------------------------------------ *)
(* B702                                                                                               *)

Lemma qual_has_spec q m f :
  qual_has q m f = true <-> In m (split_on dot q) /\ last_component q = f.
Proof. unfold qual_has. rewrite andb_true_iff, mem_pstr_In, pstr_eqb_spec. tauto. Qed.

(* B702 reports (MEDIUM/HIGH, CWE 80) exactly the calls whose qualified name has a component "mako" and
   ends in the component "Template"; it never raises.  (mako.lookup.TemplateLookup is therefore silent.) *)
Theorem mako_rule (cfg : jv) (c : ctx) :
  (use_of_mako_templates cfg c = Ok (Some mako_issue) \/ use_of_mako_templates cfg c = Ok None)
  /\ (use_of_mako_templates cfg c = Ok (Some mako_issue) <->
      exists q, c_qualname c = Some q /\ In (s2p "mako") (split_on dot q) /\ last_component q = s2p "Template").
Proof.
  unfold use_of_mako_templates, mako_applies. destruct (c_qualname c) as [q|].
  - destruct (qual_has q (s2p "mako") (s2p "Template")) eqn:E.
    + split; [left; reflexivity|]. split; [|reflexivity].
      intros _. exists q. split; [reflexivity|]. apply qual_has_spec. exact E.
    + split; [right; reflexivity|]. split; [discriminate|].
      intros [q' [H1 H2]]. inversion H1; subst. apply qual_has_spec in H2. congruence.
  - split; [right; reflexivity|]. split; [discriminate|]. intros [q' [H1 _]]. discriminate.
Qed.

Example mako_rule_ex :
  let run q := use_of_mako_templates JNull (call_ctx (Call_ 1 0 (Name_ 1 0 "T") [] []) [] [] q) in
  run "mako.template.Template" = Ok (Some mako_issue)
  /\ run "mako.lookup.TemplateLookup" = Ok None
  /\ run "jinja2.Template" = Ok None.
Proof. vm_compute. repeat split. Qed.

(* ------------------------------------------------------------------------------------------------ *)
(* B704                                                                                               *)

(* B704 with a well-formed configuration (a mapping whose two options, when present, are lists): the
   call is reported iff its qualified name is markupsafe.Markup / flask.Markup / a configured extension,
   it has a first positional argument that is not a Constant node, and that argument is not a call of a
   configured allowed function.  The message embeds the qualified and the unqualified name. *)
Theorem markup_rule (kv : list (pstr * jv)) (ns al : list jv) (c : ctx) :
  cfg_get (JDict kv) (s2p "extend_markup_names") = Ok (JList ns) ->
  cfg_get (JDict kv) (s2p "allowed_calls") = Ok (JList al) ->
  let q := qualname c in
  let a := hd NNone (field_list "args" (c_node c)) in
  let applies := mem_pstr q markup_builtin_names || existsb (jstr_is q) ns in
  let exempt := markup_arg_constant (c_node c)
                || (is_cls "Call" a && existsb (jstr_is (get_call_name a (c_aliases c))) al) in
  markupsafe_markup_xss (JDict kv) c =
  Ok (if applies && negb exempt
      then Some (markup_issue q (match c_name c with Some s => s | None => s2p "None" end))
      else None).
Proof.
  intros Hn Ha q a applies exempt. unfold markupsafe_markup_xss, markup_applies.
  fold q. subst applies exempt.
  assert (Hal : markup_allowed_call (JDict kv) c a
                = Ok (is_cls "Call" a && existsb (jstr_is (get_call_name a (c_aliases c))) al)).
  { unfold markup_allowed_call. rewrite Ha. cbv beta iota delta [bind jv_truthy jv_contains].
    destruct al as [|x al']; [cbn [andb existsb]; rewrite andb_false_r; reflexivity|].
    cbn [andb]. destruct (is_cls "Call" a); reflexivity. }
  destruct (mem_pstr q markup_builtin_names) eqn:Eb.
  - cbv beta iota delta [bind]. cbn [negb orb andb].
    destruct (markup_arg_constant (c_node c)); [reflexivity|]. fold a. rewrite Hal.
    cbv beta iota delta [bind]. cbn [negb orb andb].
    destruct (is_cls "Call" a && existsb (jstr_is (get_call_name a (c_aliases c))) al); reflexivity.
  - rewrite Hn. cbv beta iota delta [bind jv_contains]. cbn [orb].
    destruct (existsb (jstr_is q) ns); cbn [negb andb]; [|reflexivity].
    destruct (markup_arg_constant (c_node c)); [reflexivity|]. fold a. rewrite Hal.
    cbv beta iota delta [bind]. cbn [negb orb andb].
    destruct (is_cls "Call" a && existsb (jstr_is (get_call_name a (c_aliases c))) al); reflexivity.
Qed.

Definition ex_markup_cfg : jv :=
  JDict [(s2p "extend_markup_names", JList [JStr (s2p "webhelpers.html.literal")]);
         (s2p "allowed_calls", JList [JStr (s2p "bleach.clean")])].
Definition ex_clean := Call_ 1 7 (Attr_ 1 7 (Name_ 1 7 "bleach") "clean") [Name_ 1 20 "x"] [].
Example markup_rule_ex :
  let run q args := markupsafe_markup_xss ex_markup_cfg (call_ctx (Call_ 1 0 (Name_ 1 0 "f") args []) [] [] q) in
  run "markupsafe.Markup" [Name_ 1 7 "x"]
    = Ok (Some (markup_issue (s2p "markupsafe.Markup") (s2p "Markup")))
  /\ run "webhelpers.html.literal" [Name_ 1 7 "x"]
    = Ok (Some (markup_issue (s2p "webhelpers.html.literal") (s2p "literal")))
  /\ run "markupsafe.Markup" [Str_ 1 7 "<b>"] = Ok None
  /\ run "markupsafe.Markup" [] = Ok None
  /\ run "flask.Markup" [ex_clean] = Ok None
  /\ run "markupsafe.Markup.escape" [Name_ 1 7 "x"] = Ok None.
Proof. vm_compute. repeat split. Qed.

(* ------------------------------------------------------------------------------------------------ *)
(* B703                                                                                               *)

(* Fuel: the verdict of [xss_eval] does not depend on the amount of fuel once there is enough of it, i.e.
   the only effect of the bound is to turn a too deep (in particular a non-terminating) recursion into
   [Raise OtherError] (Python: RecursionError). *)
Definition rec_le (r1 r2 : xtask -> res bool) : Prop :=
  forall t r, r1 t = r -> r <> Raise OtherError -> r2 t = r.

Lemma bind_mono {A B} (a a' : res A) (k k' : A -> res B) r :
  (forall r0, a = r0 -> (forall e, r0 = Raise e -> e <> OtherError) -> a' = r0) ->
  (forall x r1, k x = r1 -> r1 <> Raise OtherError -> k' x = r1) ->
  bind a k = r -> r <> Raise OtherError -> bind a' k' = r.
Proof.
  intros Ha Hk Hb Hr. destruct a as [x|e].
  - rewrite (Ha (Ok x) eq_refl) by (intros e H; discriminate). simpl in *. apply Hk; assumption.
  - simpl in Hb. subst r. rewrite (Ha (Raise e) eq_refl).
    + reflexivity.
    + intros e' H. inversion H; subst. intros ->. apply Hr. reflexivity.
Qed.

Lemma rec_le_bind {B} r1 r2 t (k k' : bool -> res B) r :
  rec_le r1 r2 ->
  (forall x r1, k x = r1 -> r1 <> Raise OtherError -> k' x = r1) ->
  bind (r1 t) k = r -> r <> Raise OtherError -> bind (r2 t) k' = r.
Proof.
  intros Hle Hk. apply bind_mono; [|exact Hk].
  intros r0 H0 Hne. apply Hle; [exact H0|]. intros ->. apply (Hne OtherError); reflexivity.
Qed.

Lemma xss_all_mono r1 r2 ln l r :
  rec_le r1 r2 -> xss_all r1 ln l = r -> r <> Raise OtherError -> xss_all r2 ln l = r.
Proof.
  intros Hle. revert r. induction l as [|x l IH]; intros r H Hr; simpl in *; [exact H|].
  destruct (is_Str x); [apply IH; assumption|].
  destruct (is_cls "Name" x); [|exact H].
  revert H Hr. apply rec_le_bind; [exact Hle|].
  intros [|] r1' H1 H2; [apply IH; assumption|exact H1].
Qed.

Lemma xss_loop_mono r1 r2 id until body secure r :
  rec_le r1 r2 -> xss_loop r1 id until body secure = r -> r <> Raise OtherError ->
  xss_loop r2 id until body secure = r.
Proof.
  intros Hle. revert secure r. induction body as [|st rest IH]; intros secure r H Hr; simpl in *; [exact H|].
  destruct (Z.geb (node_line st) until); [exact H|].
  destruct (is_assigned id st) as [to|e]; simpl in *; [|exact H].
  destruct to as [|v|l].
  - apply IH; assumption.
  - destruct (is_Str v); [apply IH; assumption|].
    destruct (is_cls "Name" v).
    + revert H Hr. apply rec_le_bind; [exact Hle|]. intros x r' H1 H2. apply IH; assumption.
    + destruct (is_cls "Call" v); [|exact H].
      revert H Hr. apply rec_le_bind; [exact Hle|]. intros x r' H1 H2. apply IH; assumption.
  - destruct l as [|y l']; [apply IH; assumption|].
    revert H Hr. apply bind_mono.
    + intros r0 H0 Hne. apply (xss_all_mono r1 r2); [exact Hle|exact H0|].
      intros ->. apply (Hne OtherError); reflexivity.
    + intros [|] r' H1 H2; [apply IH; assumption|exact H1].
Qed.

Lemma xss_args_mono r1 r2 ln q pending r :
  rec_le r1 r2 -> xss_args r1 ln q pending = r -> r <> Raise OtherError -> xss_args r2 ln q pending = r.
Proof.
  intros Hle. revert pending r. induction q as [|a q IH]; intros pending r H Hr; simpl in *.
  - destruct pending; [exact H|]. apply Hle; assumption.
  - destruct (is_Str a); [apply IH; assumption|].
    destruct (is_cls "Name" a).
    { revert H Hr. apply rec_le_bind; [exact Hle|].
      intros [|] r' H1 H2; [apply IH; assumption|exact H1]. }
    destruct (is_cls "Call" a).
    { revert H Hr. apply rec_le_bind; [exact Hle|].
      intros [|] r' H1 H2; [apply IH; assumption|exact H1]. }
    destruct (is_starred_display a); [apply IH; assumption|exact H].
Qed.

Lemma xss_step_mono r1 r2 parent : rec_le r1 r2 -> rec_le (xss_step r1 parent) (xss_step r2 parent).
Proof.
  intros Hle t r H Hr. destruct t as [id until|call|ln queue]; simpl in *.
  - destruct (is_param parent id); [exact H|]. apply (xss_loop_mono r1 r2); assumption.
  - destruct (is_format_call call); [|exact H]. apply Hle; assumption.
  - apply (xss_args_mono r1 r2); assumption.
Qed.

Lemma xss_eval_S fuel parent : rec_le (xss_eval fuel parent) (xss_eval (S fuel) parent).
Proof.
  induction fuel as [|f IH].
  - intros t r H Hr. simpl in H. congruence.
  - change (xss_eval (S (S f)) parent) with (xss_step (xss_eval (S f) parent) parent).
    change (xss_eval (S f) parent) with (xss_step (xss_eval f parent) parent) at 1.
    apply xss_step_mono. exact IH.
Qed.

Theorem xss_eval_fuel_stable (f f' : nat) (parent : node) (t : xtask) (r : res bool) :
  xss_eval f parent t = r -> r <> Raise OtherError -> f <= f' -> xss_eval f' parent t = r.
Proof.
  intros H Hr Hle. induction Hle as [|m Hle IH]; [exact H|].
  apply (xss_eval_S m parent); assumption.
Qed.

(* A mark_safe(...)-family call whose first positional argument is a string literal yields no finding
   (and does not raise), whatever surrounds it.  This statement does not depend on the fuel of
   [xss_eval]; it is labelled partial because it covers only this corner of B703's decision procedure. *)
Theorem mark_safe_literal_silent_partial (cfg : jv) (c : ctx) (a : node) (rest : list node) :
  field_list "args" (c_node c) = a :: rest ->
  is_Str a = true ->
  django_mark_safe cfg c = Ok None.
Proof.
  intros H1 H2. unfold django_mark_safe. rewrite H1, H2. destruct (mark_safe_applies c); reflexivity.
Qed.

Definition ex_safe_imports := [s2p "django.utils.safestring.mark_safe"].
Definition ex_safe_call (args : list node) := Call_ 2 0 (Name_ 2 0 "mark_safe") args [].
Example mark_safe_literal_silent_partial_ex :
  let q := "django.utils.safestring.mark_safe" in
  mark_safe_applies (call_ctx (ex_safe_call [Str_ 2 10 "<b>"]) [] ex_safe_imports q) = true
  /\ django_mark_safe JNull (call_ctx (ex_safe_call [Str_ 2 10 "<b>"]) [] ex_safe_imports q) = Ok None.
Proof. vm_compute. repeat split. Qed.

(* the surrounding behaviour on concrete modules: v = "lit"; mark_safe(v) is silent, v = foo() is not,
   no positional argument is silent (it raised IndexError before /repo commit 7b49920) *)
Example mark_safe_behaviour_ex :
  let q := "django.utils.safestring.mark_safe" in
  let call := ex_safe_call [Name_ 2 10 "v"] in
  let run rhs := django_mark_safe JNull
                   (call_ctx call [Expr_ 2 0 call; Module_ [Assign_ 1 0 (Name_ 1 0 "v") rhs; Expr_ 2 0 call]]
                             ex_safe_imports q) in
  run (Str_ 1 4 "lit") = Ok None
  /\ run (Call_ 1 4 (Name_ 1 4 "foo") [] []) = Ok (Some mark_safe_issue)
  /\ django_mark_safe JNull (call_ctx (ex_safe_call []) [] ex_safe_imports q) = Ok None.
Proof. vm_compute. repeat split. Qed.

(* ------------------------------------------------------------------------------------------------ *)
(* The safe variants                                                                                  *)

(* Sufficient conditions under which each plugin of the family returns [Ok None]. *)
Theorem inject_safe_variant_silent (cfg : jv) (c : ctx) :
  (* B608: the literal takes part in no string construction *)
  (sql_kind_of c = SqlPlain -> hardcoded_sql_expressions cfg c = Ok None)
  (* B608: or the constructed text does not look like SQL *)
  /\ (forall w stmt rep, sql_evaluate c = Ok (w, stmt, rep) -> check_string stmt = false ->
      hardcoded_sql_expressions cfg c = Ok None)
  (* B610: where/tables/select are literal-only *)
  /\ (extra_literal_only (c_node c) = true -> django_extra_used cfg c = Ok None)
  (* B611: the first positional argument is a string literal *)
  /\ (forall a rest, field_list "args" (c_node c) = a :: rest -> is_Str a = true ->
      django_rawsql_used cfg c = Ok None)
  (* B701: the first autoescape keyword is True or a select_autoescape(...) call *)
  /\ (forall v, jinja_autoescape_value (c_node c) = Some v ->
      autoescape_form_of v = AeTrue \/ autoescape_form_of v = AeSelect ->
      jinja2_autoescape_false cfg c = Ok None)
  (* B702: the qualified name does not end in Template *)
  /\ (forall q, c_qualname c = Some q -> last_component q <> s2p "Template" ->
      use_of_mako_templates cfg c = Ok None)
  (* B704: a built-in Markup name with no argument or a Constant first argument, under any configuration *)
  /\ (mem_pstr (qualname c) markup_builtin_names = true -> markup_arg_constant (c_node c) = true ->
      markupsafe_markup_xss cfg c = Ok None)
  (* B703: the first positional argument is a string literal *)
  /\ (forall a rest, field_list "args" (c_node c) = a :: rest -> is_Str a = true ->
      django_mark_safe cfg c = Ok None).
Proof.
  repeat split.
  - intros H. unfold hardcoded_sql_expressions, sql_evaluate. rewrite H.
    cbv beta iota zeta delta [bind]. rewrite check_string_empty. reflexivity.
  - intros w stmt rep H1 H2. unfold hardcoded_sql_expressions. rewrite H1. simpl. rewrite H2. reflexivity.
  - apply (django_extra_rule cfg c).
  - intros a rest H1 H2. unfold django_rawsql_used, rawsql_sql. rewrite H1, H2.
    destruct (rawsql_applies c); reflexivity.
  - intros v H1 H2. unfold jinja2_autoescape_false. rewrite H1. simpl.
    destruct (jinja_applies c); [|reflexivity]. destruct H2 as [H2|H2]; rewrite H2; reflexivity.
  - intros q H1 H2. unfold use_of_mako_templates, mako_applies, qual_has. rewrite H1.
    apply pstr_eqb_neq in H2. rewrite H2, andb_false_r. reflexivity.
  - intros H1 H2. unfold markupsafe_markup_xss, markup_applies. rewrite H1. simpl. rewrite H2. reflexivity.
  - intros a rest. apply mark_safe_literal_silent_partial.
Qed.

Example inject_safe_variant_silent_ex :
  sql_kind_of (str_ctx ex_plain_lit [ex_plain_call; Expr_ 1 0 ex_plain_call; Module_ []]) = SqlPlain
  /\ extra_literal_only (ex_extra_call (Str_ 1 15 "a = 1")) = true
  /\ (exists v, jinja_autoescape_value (ex_env_call [Kw_ 1 19 "autoescape" ex_select]) = Some v
                /\ autoescape_form_of v = AeSelect)
  /\ last_component (s2p "mako.lookup.TemplateLookup") <> s2p "Template"
  /\ mem_pstr (s2p "flask.Markup") markup_builtin_names = true
  /\ markup_arg_constant (Call_ 1 0 (Name_ 1 0 "Markup") [Str_ 1 7 "<hr>"] []) = true.
Proof.
  split; [vm_compute; reflexivity|]. split; [vm_compute; reflexivity|].
  split; [exists ex_select; vm_compute; split; reflexivity|].
  split; [vm_compute; discriminate|]. split; vm_compute; reflexivity.
Qed.

(* ------------------------------------------------------------------------------------------------ *)
(* Totality: which plugins of the family can raise                                                    *)

Definition never_raises {A} (r : res A) : Prop := exists a, r = Ok a.

(* B608 walks _bandit_parent links (three levels for "lit".format / "lit".replace, two for an f-string
   piece); the only way to raise is to walk off the root, which cannot happen below a Module: an
   Attribute / JoinedStr is an expression, so a statement and the Module lie above it.  Stated over the
   depth of the ancestor stack. *)
Theorem hardcoded_sql_expressions_never_raises (cfg : jv) (c : ctx) :
  (is_cls "Attribute" (parent_of c) = true -> 3 <= List.length (c_parents c)) ->
  (is_cls "JoinedStr" (parent_of c) = true -> 2 <= List.length (c_parents c)) ->
  never_raises (hardcoded_sql_expressions cfg c).
Proof.
  intros Ha Hj.
  assert (Hanc : forall k, k < List.length (c_parents c) -> exists w, ancestor k c = Ok w).
  { intros k Hk. unfold ancestor. destruct (nth_error (c_parents c) k) as [[p x]|] eqn:E.
    - exists p. reflexivity.
    - apply nth_error_None in E. lia. }
  unfold never_raises, hardcoded_sql_expressions, sql_evaluate.
  assert (Hfin : forall w stmt rep,
             exists a, (if check_string stmt
                        then Ok (Some (sql_issue (sql_conf (sql_execute_call w) rep))) else Ok None) = Ok a).
  { intros w stmt rep. destruct (check_string stmt); eexists; reflexivity. }
  unfold sql_kind_of.
  destruct (is_cls "BinOp" (parent_of c)) eqn:Eb.
  { destruct (concat_string _ _ _) as [w st]. apply Hfin. }
  destruct (is_cls "Attribute" (parent_of c)) eqn:Ea; cbn [andb].
  { destruct (Hanc 2 (Ha eq_refl)) as [w Hw].
    destruct (pstr_eqb (attr_of (parent_of c)) (s2p "format")).
    - rewrite Hw. apply Hfin.
    - destruct (pstr_eqb (attr_of (parent_of c)) (s2p "replace")).
      + rewrite Hw. apply Hfin.
      + destruct (is_cls "JoinedStr" (parent_of c)) eqn:Ej.
        * destruct (Hanc 1 (Hj eq_refl)) as [w1 Hw1].
          destruct (filter is_Str (field_list "values" (parent_of c))) as [|s0 l].
          { apply Hfin. }
          destruct (node_eqb (c_node c) s0); [rewrite Hw1|]; apply Hfin.
        * apply Hfin. }
  destruct (is_cls "JoinedStr" (parent_of c)) eqn:Ej.
  - destruct (Hanc 1 (Hj eq_refl)) as [w1 Hw1].
    destruct (filter is_Str (field_list "values" (parent_of c))) as [|s0 l].
    { apply Hfin. }
    destruct (node_eqb (c_node c) s0); [rewrite Hw1|]; apply Hfin.
  - apply Hfin.
Qed.

(* without the depth premise the model does raise (a context that no visited tree produces) *)
Example hardcoded_sql_expressions_off_tree_ex :
  hardcoded_sql_expressions JNull (str_ctx ex_rep_lit [ex_rep_attr]) = Raise AttributeError.
Proof. vm_compute. reflexivity. Qed.

Theorem django_extra_used_never_raises (cfg : jv) (c : ctx) : never_raises (django_extra_used cfg c).
Proof.
  unfold never_raises, django_extra_used.
  destruct (opt_is _ _); [destruct (extra_literal_only _)|]; eexists; reflexivity.
Qed.

Theorem django_rawsql_used_never_raises (cfg : jv) (c : ctx) : never_raises (django_rawsql_used cfg c).
Proof.
  unfold never_raises, django_rawsql_used.
  destruct (rawsql_applies c); [|eexists; reflexivity].
  destruct (rawsql_sql (c_node c)) as [sql|]; [destruct (is_Str sql)|]; eexists; reflexivity.
Qed.

Theorem jinja2_autoescape_false_never_raises (cfg : jv) (c : ctx) :
  never_raises (jinja2_autoescape_false cfg c).
Proof.
  unfold never_raises, jinja2_autoescape_false. destruct (jinja_applies c); eexists; reflexivity.
Qed.

Theorem use_of_mako_templates_never_raises (cfg : jv) (c : ctx) :
  never_raises (use_of_mako_templates cfg c).
Proof.
  unfold never_raises, use_of_mako_templates. destruct (mako_applies c); eexists; reflexivity.
Qed.

(* B704 is total for every well-formed configuration (a mapping whose two options are lists) ... *)
Theorem markupsafe_markup_xss_never_raises (kv : list (pstr * jv)) (ns al : list jv) (c : ctx) :
  cfg_get (JDict kv) (s2p "extend_markup_names") = Ok (JList ns) ->
  cfg_get (JDict kv) (s2p "allowed_calls") = Ok (JList al) ->
  never_raises (markupsafe_markup_xss (JDict kv) c).
Proof.
  intros Hn Ha. unfold never_raises. rewrite (markup_rule kv ns al c Hn Ha). eexists. reflexivity.
Qed.

(* ... in particular for the default one, gen_config("markupsafe_xss"), as regenerated in Gen.Registry *)
Definition markup_default_cfg : jv := effective_cfg defaults [] (Some (s2p "markupsafe_xss")).

Theorem markupsafe_markup_xss_never_raises_default (c : ctx) :
  never_raises (markupsafe_markup_xss markup_default_cfg c).
Proof.
  assert (H : markup_default_cfg
              = JDict [(s2p "extend_markup_names", JList []); (s2p "allowed_calls", JList [])])
    by (vm_compute; reflexivity).
  rewrite H. apply (markupsafe_markup_xss_never_raises _ [] []); reflexivity.
Qed.

(* ... but not for arbitrary configurations *)
Theorem markupsafe_markup_xss_never_raises_refuted :
  (exists c, markupsafe_markup_xss (JInt 0) c = Raise AttributeError)
  /\ (exists c, markupsafe_markup_xss (JDict [(s2p "extend_markup_names", JNull)]) c = Raise TypeError).
Proof.
  split; exists (call_ctx (Call_ 1 0 (Name_ 1 0 "f") [] []) [] [] "f"); vm_compute; reflexivity.
Qed.

(* B703: the cases in which it is total ... *)
Theorem django_mark_safe_total_cases (cfg : jv) (c : ctx) :
  (mark_safe_applies c = false -> django_mark_safe cfg c = Ok None)
  /\ (field_list "args" (c_node c) = [] -> django_mark_safe cfg c = Ok None)
  /\ (forall a rest, field_list "args" (c_node c) = a :: rest -> is_Str a = true ->
      django_mark_safe cfg c = Ok None)
  /\ (forall a rest, mark_safe_applies c = true -> field_list "args" (c_node c) = a :: rest ->
      is_Str a = false -> is_cls "Name" a = false -> is_cls "Call" a = false -> is_mod_of_literal a = false ->
      django_mark_safe cfg c = Ok (Some mark_safe_issue)).
Proof.
  unfold django_mark_safe. repeat split.
  - intros H. rewrite H. reflexivity.
  - intros H. rewrite H. destruct (mark_safe_applies c); reflexivity.
  - intros a rest H1 H2. rewrite H1, H2. destruct (mark_safe_applies c); reflexivity.
  - intros a rest H0 H1 H2 H3 H4 H5. rewrite H0, H1, H2. unfold check_risk, mark_safe_secure.
    rewrite H3, H4, H5. reflexivity.
Qed.

(* ... the exception classes it can raise at all: IndexError and AttributeError out of
   DeepAssignation.is_assigned (AttributeError also for a context without an enclosing Module, which no
   visited tree produces), OtherError = RecursionError out of the evaluate_var/evaluate_call recursion *)
Definition okx (e : exn) : Prop := e = IndexError \/ e = AttributeError.
Definition raises_ok {A} (r : res A) : Prop := forall e, r = Raise e -> okx e.
Lemma raises_ok_Ok {A} (a : A) : raises_ok (Ok a).
Proof. intros e H. discriminate. Qed.
Lemma raises_ok_bind {A B} (a : res A) (k : A -> res B) :
  raises_ok a -> (forall x, raises_ok (k x)) -> raises_ok (bind a k).
Proof. intros Ha Hk. destruct a as [x|e]; simpl; [apply Hk|]. intros e0 H. inversion H; subst. apply (Ha e0). reflexivity. Qed.

Definition items_ok (g : node -> res asg) (v : node) : Prop :=
  match v with NList its => Forall (fun i => raises_ok (g i)) its | _ => True end.

Lemma in_field_ok (g : node -> res asg) (f : string) (fs : list (string * node)) :
  Forall (fun kv => items_ok g (snd kv)) fs ->
  raises_ok ((fix find (l : list (string * node)) : res (list node) :=
           match l with
           | [] => Ok []
           | (k, v) :: t =>
               if String.eqb f k then
                 match v with
                 | NList its =>
                     (fix go (is : list node) : res (list node) :=
                        match is with
                        | [] => Ok []
                        | i :: is' => do a <- g i;; do r <- go is';; Ok (asg_flat a ++ r)
                        end) its
                 | _ => Ok []
                 end
               else find t
           end) fs).
Proof.
  induction 1 as [|[k v] t Hv Ht IH]; [apply raises_ok_Ok|].
  destruct (String.eqb f k); [|exact IH].
  destruct v; try apply raises_ok_Ok. simpl in Hv.
  induction Hv as [|i is' Hi His IHi]; [apply raises_ok_Ok|].
  apply raises_ok_bind; [exact Hi|]. intros a. apply raises_ok_bind; [exact IHi|]. intros r. apply raises_ok_Ok.
Qed.

Definition PA (id : pstr) (n : node) : Prop := raises_ok (is_assigned id n) /\ items_ok (is_assigned id) n.

Lemma is_assigned_raises id n : PA id n.
Proof.
  induction n using node_ind'; try (split; [apply raises_ok_Ok|exact I]).
  - split; [|exact I].
    assert (Hf : Forall (fun kv => items_ok (is_assigned id) (snd kv)) fs).
    { eapply Forall_impl; [|exact H]. intros kv [_ Hk]. exact Hk. }
    assert (Hv : Forall (fun kv => raises_ok (is_assigned id (snd kv))) fs).
    { eapply Forall_impl; [|exact H]. intros kv [Hk _]. exact Hk. }
    pose proof (fun f => in_field_ok (is_assigned id) f fs Hf) as Hin.
    cbn [is_assigned].
    destruct (c =? "Expr").
    { clear Hin Hf H. induction Hv as [|[k v] t Hk Ht IH]; [apply raises_ok_Ok|].
      destruct ("value" =? k); [exact Hk|exact IH]. }
    destruct (c =? "FunctionDef").
    { apply raises_ok_bind; [apply Hin|intros; apply raises_ok_Ok]. }
    destruct (c =? "With").
    { destruct (forallb _ _); [apply raises_ok_Ok|].
      apply raises_ok_bind; [apply Hin|intros; apply raises_ok_Ok]. }
    destruct (c =? "Try").
    { repeat (apply raises_ok_bind; [apply Hin|intros]). apply raises_ok_Ok. }
    destruct (c =? "ExceptHandler").
    { repeat (apply raises_ok_bind; [apply Hin|intros]). apply raises_ok_Ok. }
    destruct ((c =? "If") || (c =? "For") || (c =? "While")).
    { repeat (apply raises_ok_bind; [apply Hin|intros]). apply raises_ok_Ok. }
    destruct (c =? "AugAssign").
    { destruct (_ && _); apply raises_ok_Ok. }
    destruct (c =? "Assign"); [|apply raises_ok_Ok].
    destruct (field_list "targets" (Node c p fs)) as [|target rest]; [apply raises_ok_Ok|].
    destruct (is_cls "Name" target).
    { destruct (pstr_eqb _ _); apply raises_ok_Ok. }
    destruct (_ && _); [|apply raises_ok_Ok].
    generalize 0%nat. generalize (field_list "elts" target).
    induction l as [|t ts IH]; intros pos; [apply raises_ok_Ok|].
    destruct (field_opt "id" t) as [[| | |s| |]|]; try (intros e He; inversion He; right; reflexivity).
    destruct (pstr_eqb s id); [|apply IH].
    destruct (nth_error _ pos); [apply raises_ok_Ok|]. intros e He; inversion He; left; reflexivity.
  - split; [apply raises_ok_Ok|]. simpl. eapply Forall_impl; [|exact H]. intros a [Ha _]. exact Ha.
Qed.

Definition okx3 (e : exn) : Prop := e = IndexError \/ e = AttributeError \/ e = OtherError.
Definition raises3 {A} (r : res A) : Prop := forall e, r = Raise e -> okx3 e.
Lemma raises3_Ok {A} (a : A) : raises3 (Ok a).
Proof. intros e H. discriminate. Qed.
Lemma raises3_bind {A B} (a : res A) (k : A -> res B) :
  raises3 a -> (forall x, raises3 (k x)) -> raises3 (bind a k).
Proof.
  intros Ha Hk. destruct a as [x|e]; simpl; [apply Hk|].
  intros e0 H. inversion H; subst. apply (Ha e0). reflexivity.
Qed.
Lemma raises_ok_3 {A} (r : res A) : raises_ok r -> raises3 r.
Proof. intros H e He. destruct (H e He) as [->| ->]; unfold okx3; tauto. Qed.

Section R3.
  Variable rec : xtask -> res bool.
  Variable parent : node.
  Hypothesis Hrec : forall t, raises3 (rec t).

  Lemma xss_all_r3 ln l : raises3 (xss_all rec ln l).
  Proof.
    induction l as [|x l IH]; simpl; [apply raises3_Ok|].
    destruct (is_Str x); [exact IH|]. destruct (is_cls "Name" x); [|apply raises3_Ok].
    apply raises3_bind; [apply Hrec|]. intros [|]; [exact IH|apply raises3_Ok].
  Qed.

  Lemma xss_loop_r3 id until body secure : raises3 (xss_loop rec id until body secure).
  Proof.
    revert secure. induction body as [|st rest IH]; intros secure; simpl; [apply raises3_Ok|].
    destruct (Z.geb _ _); [apply raises3_Ok|].
    apply raises3_bind; [apply raises_ok_3, is_assigned_raises|]. intros [|v|l].
    - apply IH.
    - destruct (is_Str v); [apply IH|]. destruct (is_cls "Name" v).
      + apply raises3_bind; [apply Hrec|]. intros s. apply IH.
      + destruct (is_cls "Call" v); [|apply raises3_Ok].
        apply raises3_bind; [apply Hrec|]. intros s. apply IH.
    - destruct l as [|y l']; [apply IH|].
      apply raises3_bind; [apply xss_all_r3|]. intros [|]; [apply IH|apply raises3_Ok].
  Qed.

  Lemma xss_args_r3 ln q pending : raises3 (xss_args rec ln q pending).
  Proof.
    revert pending. induction q as [|a q IH]; intros pending; simpl.
    - destruct pending; [apply raises3_Ok|apply Hrec].
    - destruct (is_Str a); [apply IH|].
      destruct (is_cls "Name" a).
      { apply raises3_bind; [apply Hrec|]. intros [|]; [apply IH|apply raises3_Ok]. }
      destruct (is_cls "Call" a).
      { apply raises3_bind; [apply Hrec|]. intros [|]; [apply IH|apply raises3_Ok]. }
      destruct (is_starred_display a); [apply IH|apply raises3_Ok].
  Qed.

  Lemma xss_step_r3 t : raises3 (xss_step rec parent t).
  Proof.
    destruct t as [id until|call|ln queue]; simpl.
    - destruct (is_param parent id); [apply raises3_Ok|apply xss_loop_r3].
    - destruct (is_format_call call); [apply Hrec|apply raises3_Ok].
    - apply xss_args_r3.
  Qed.
End R3.

Lemma xss_eval_r3 fuel parent t : raises3 (xss_eval fuel parent t).
Proof.
  revert t. induction fuel as [|f IH]; intros t.
  - intros e H. inversion H. unfold okx3. tauto.
  - change (xss_eval (S f) parent t) with (xss_step (xss_eval f parent) parent t).
    apply xss_step_r3. exact IH.
Qed.

Theorem django_mark_safe_raises_only (cfg : jv) (c : ctx) (e : exn) :
  django_mark_safe cfg c = Raise e -> e = IndexError \/ e = AttributeError \/ e = OtherError.
Proof.
  revert e. change (raises3 (django_mark_safe cfg c)). unfold django_mark_safe.
  destruct (mark_safe_applies c); [|apply raises3_Ok].
  destruct (field_list "args" (c_node c)) as [|xss rest]; [apply raises3_Ok|].
  destruct (is_Str xss); [apply raises3_Ok|].
  unfold check_risk. apply raises3_bind; [|intros [|]; apply raises3_Ok].
  assert (Hs : raises3 (enclosing_scope c)).
  { unfold enclosing_scope. destruct (find _ _) as [[p x]|]; [apply raises3_Ok|].
    intros e H. inversion H. unfold okx3. tauto. }
  unfold mark_safe_secure.
  destruct (is_cls "Name" xss).
  { apply raises3_bind; [exact Hs|]. intros p. destruct (is_param _ _); [apply raises3_Ok|apply xss_eval_r3]. }
  destruct (is_cls "Call" xss).
  { apply raises3_bind; [exact Hs|]. intros p. apply xss_eval_r3. }
  destruct (is_mod_of_literal xss); [|apply raises3_Ok].
  apply raises3_bind; [exact Hs|]. intros p. apply xss_eval_r3.
Qed.

(* ... and the three shapes on which it still raises.  Module of two or three statements; the call is the
   last statement and the context is the one the visitor builds for it. *)
Definition ex_ms_ctx (call : node) (body : list node) : ctx :=
  call_ctx call [Expr_ (node_line call) 0 call; Module_ body] ex_safe_imports "django.utils.safestring.mark_safe".
Definition Tuple_ (l c : Z) (elts : list node) : node :=
  Node "Tuple" (P_ l c) [("elts", NList elts); ("ctx", Node "Load" None [])].

(* w, v = 'a',            (right-hand tuple shorter than the target)
   mark_safe(v) *)
Theorem django_mark_safe_raises_index_error :
  let call := ex_safe_call [Name_ 2 10 "v"] in
  django_mark_safe JNull
    (ex_ms_ctx call [Assign_ 1 0 (Tuple_ 1 0 [Name_ 1 0 "w"; Name_ 1 3 "v"]) (Tuple_ 1 7 [Str_ 1 7 "a"]);
                     Expr_ 2 0 call])
  = Raise IndexError.
Proof. vm_compute. reflexivity. Qed.

(* a.b, v = 1, 2          (a tuple-target element that is not a Name)
   mark_safe(v) *)
Theorem django_mark_safe_raises_attribute_error :
  let call := ex_safe_call [Name_ 2 10 "v"] in
  django_mark_safe JNull
    (ex_ms_ctx call [Assign_ 1 0 (Tuple_ 1 0 [Attr_ 1 0 (Name_ 1 0 "a") "b"; Name_ 1 5 "v"])
                               (Tuple_ 1 9 [Const_ 1 9 (CInt 1); Const_ 1 12 (CInt 2)]);
                     Expr_ 2 0 call])
  = Raise AttributeError.
Proof. vm_compute. reflexivity. Qed.

(* v = (
       v); mark_safe(v)   (self-referential assignment whose right-hand side sits on the line of the call:
                           evaluate_var recurses with the same arguments for ever; RecursionError) *)
Definition ex_selfref_ctx : ctx :=
  let call := ex_safe_call [Name_ 2 17 "v"] in
  ex_ms_ctx call [Assign_ 1 0 (Name_ 1 0 "v") (Name_ 2 4 "v"); Expr_ 2 7 call].
Theorem django_mark_safe_raises_recursion_error :
  django_mark_safe JNull ex_selfref_ctx = Raise OtherError.
Proof. vm_compute. reflexivity. Qed.

(* the last one is not an artefact of the fuel bound: no amount of fuel produces a verdict *)
Theorem django_mark_safe_selfref_diverges (fuel : nat) :
  xss_eval fuel (Module_ [Assign_ 1 0 (Name_ 1 0 "v") (Name_ 2 4 "v")]) (TVar (s2p "v") 2) = Raise OtherError.
Proof.
  induction fuel as [|f IH]; [reflexivity|].
  change (xss_eval (S f) ?p ?t) with (xss_step (xss_eval f p) p t).
  cbn -[xss_eval]. exact (f_equal (fun r => bind r (fun s => Ok s)) IH).
Qed.

Theorem django_mark_safe_never_raises_refuted :
  exists c1 c2 c3,
    django_mark_safe JNull c1 = Raise IndexError
    /\ django_mark_safe JNull c2 = Raise AttributeError
    /\ django_mark_safe JNull c3 = Raise OtherError.
Proof.
  eexists. eexists. eexists. split; [|split].
  - exact django_mark_safe_raises_index_error.
  - exact django_mark_safe_raises_attribute_error.
  - exact django_mark_safe_raises_recursion_error.
Qed.
