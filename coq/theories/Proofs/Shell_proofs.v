(* Decision-table theorems for the plugin family "shell" (B602..B607, B609) over Plugins/Shell.v. *)
From Coq Require Import List NArith ZArith Bool String Lia.
From Bandit Require Import Base.PyStr Ast.Node Engine.Types Engine.Resolve Engine.Context Engine.Scan
     Regex.Regex Gen.Regexes Gen.Registry Plugins.Shell.
Import ListNotations.
Local Open Scope string_scope.
Local Open Scope list_scope.

(* ---------------------------------------------------------------------------------------------- *)
(* Concrete contexts used by the [Example]s: the context the visitor builds for a top-level call. *)

Definition ex_pos : option pos4 := Some (Pos 1 0 1 40).
Definition ex_const (k : const) : node := Node "Constant" ex_pos [("value", NConst k); ("kind", NNone)].
Definition ex_name (s : string) : node := Node "Name" ex_pos [("id", NId (s2p s)); ("ctx", Node "Load" None [])].
Definition ex_tuple (l : list node) : node := Node "Tuple" ex_pos [("elts", NList l); ("ctx", Node "Load" None [])].
Definition ex_list (l : list node) : node := Node "List" ex_pos [("elts", NList l); ("ctx", Node "Load" None [])].
Definition ex_kw_at (line : Z) (k : string) (v : const) : node :=
  Node "keyword" ex_pos
       [("arg", NId (s2p k)); ("value", Node "Constant" (Some (Pos line 4 line 8)) [("value", NConst v); ("kind", NNone)])].
Definition ex_kw (k : string) (v : node) : node := Node "keyword" ex_pos [("arg", NId (s2p k)); ("value", v)].
Definition ex_call (args kws : list node) : node :=
  Node "Call" ex_pos [("func", ex_name "f"); ("args", NList args); ("keywords", NList kws)].
Definition ex_ctx (qual : string) (call : node) : ctx :=
  Ctx call [] NNone [] [] (Some 1%Z) (Some 0%Z) (Some 40%Z) [1%Z] (Some call) (Some (s2p qual)) (Some (s2p qual))
      None None None None (s2p "t.py") None.
Definition ex_str (s : string) : node := ex_const (CStr (s2p s)).

(* the configuration gen_config("shell_injection") yields *)
Definition ex_cfg : jv :=
  match assoc (s2p "shell_injection") defaults with Some v => v | None => JNull end.

(* subprocess.Popen('ls', shell=True) / (cmd, shell=True) / ('ls') / (shell=True) / () *)
Definition ex_popen_str_true : ctx :=
  ex_ctx "subprocess.Popen" (ex_call [ex_str "ls"] [ex_kw_at 2 "shell" (CBool true)]).
Definition ex_popen_name_true : ctx :=
  ex_ctx "subprocess.Popen" (ex_call [ex_name "cmd"] [ex_kw_at 2 "shell" (CBool true)]).
Definition ex_popen_str : ctx := ex_ctx "subprocess.Popen" (ex_call [ex_str "ls"] []).
Definition ex_popen_kwonly_true : ctx :=
  ex_ctx "subprocess.Popen" (ex_call [] [ex_kw "args" (ex_str "ls"); ex_kw_at 2 "shell" (CBool true)]).
Definition ex_popen_noargs : ctx := ex_ctx "subprocess.Popen" (ex_call [] []).

(* ---------------------------------------------------------------------------------------------- *)
(* Small facts *)

Lemma mapM_cons_nonempty {A B} (f : A -> res B) x t vs : mapM f (x :: t) = Ok vs -> vs <> [].
Proof.
  simpl. destruct (f x); simpl; [|discriminate]. destruct (mapM f t); simpl; [|discriminate].
  intro H; inversion H; discriminate.
Qed.

Lemma nonempty_true {A} (l : list A) : nonempty l = true <-> l <> [].
Proof. destruct l; simpl; split; intro H; congruence. Qed.

(* context.node.args[0] *)
Lemma first_arg_spec c a0 :
  first_arg c = Ok a0 <-> exists rest, field_list "args" (c_node c) = a0 :: rest.
Proof.
  unfold first_arg, field_list, field. destruct (field_opt "args" (c_node c)) as [a|].
  - destruct (items a) as [|x t].
    + split; [discriminate|]. intros [rest H]; discriminate.
    + split.
      * intro H; inversion H; subst. exists t; reflexivity.
      * intros [rest H]; inversion H; reflexivity.
  - simpl. split; [discriminate|]. intros [rest H]; discriminate.
Qed.

(* when the context's call is its node (what the visitor builds), a positional argument in the node
   makes len(context.call_args) > 0 whenever call_args does not raise *)
Lemma call_args_nonempty c a0 rest vs :
  c_call c = Some (c_node c) -> field_list "args" (c_node c) = a0 :: rest -> call_args c = Ok vs -> vs <> [].
Proof.
  unfold call_args. intros -> ->. apply mapM_cons_nonempty.
Qed.

Lemma grade_LOW a0 : grade a0 = LOW <-> is_Str a0 = true.
Proof. unfold grade. destruct (is_Str a0); split; congruence. Qed.
Lemma grade_HIGH a0 : grade a0 = HIGH <-> is_Str a0 = false.
Proof. unfold grade. destruct (is_Str a0); split; congruence. Qed.

Lemma b602_issue_fields sev c :
  ri_sev (b602_issue sev c) = (match sev with LOW => LOW | _ => HIGH end) /\
  ri_conf (b602_issue sev c) = HIGH /\ ri_cwe (b602_issue sev c) = 78%Z /\
  ri_lineno (b602_issue sev c) = get_lineno_for_call_arg c (s2p "shell").
Proof. destruct sev; repeat split. Qed.

Lemma b605_issue_fields sev :
  ri_sev (b605_issue sev) = (match sev with LOW => LOW | _ => HIGH end) /\
  ri_conf (b605_issue sev) = HIGH /\ ri_cwe (b605_issue sev) = 78%Z /\ ri_lineno (b605_issue sev) = None.
Proof. destruct sev; repeat split. Qed.

(* ---------------------------------------------------------------------------------------------- *)
(* B602 / B603 partition the calls of the `subprocess` section *)

Theorem shell_subprocess_partition : forall cfg c b a0 rest vs,
  cfg_truthy cfg = true ->
  in_section sec_subprocess cfg c = Ok true ->
  has_shell c = Ok b ->
  c_call c = Some (c_node c) ->
  field_list "args" (c_node c) = a0 :: rest ->
  call_args c = Ok vs ->
  b602 cfg c = Ok (if b then Some (b602_issue (grade a0) c) else None) /\
  b603 cfg c = Ok (if b then None else Some (b603_issue c)) /\
  ((exists i, b602 cfg c = Ok (Some i)) <-> b = true) /\
  ((exists i, b603 cfg c = Ok (Some i)) <-> b = false) /\
  (ri_sev (b602_issue (grade a0) c) = LOW <-> is_Str a0 = true) /\
  (ri_sev (b602_issue (grade a0) c) = HIGH <-> is_Str a0 = false) /\
  ri_conf (b602_issue (grade a0) c) = HIGH /\
  ri_sev (b603_issue c) = LOW /\ ri_conf (b603_issue c) = HIGH.
Proof.
  intros cfg c b a0 rest vs Hc Hs Hh Hcall Hargs Hca.
  assert (Hne : nonempty vs = true).
  { apply nonempty_true. eapply call_args_nonempty; eauto. }
  assert (Hfa : first_arg c = Ok a0) by (apply first_arg_spec; eauto).
  assert (H602 : b602 cfg c = Ok (if b then Some (b602_issue (grade a0) c) else None)).
  { unfold b602. rewrite Hc, Hs. simpl. rewrite Hh. simpl. destruct b; [|reflexivity].
    rewrite Hca. simpl. rewrite Hne. unfold evaluate_shell_call. rewrite Hfa. reflexivity. }
  assert (H603 : b603 cfg c = Ok (if b then None else Some (b603_issue c))).
  { unfold b603. rewrite Hc, Hs. simpl. rewrite Hh. simpl. destruct b; reflexivity. }
  split; [exact H602|]. split; [exact H603|].
  split. { rewrite H602. destruct b; split; try congruence; eauto. intros [i Hi]; discriminate. }
  split. { rewrite H603. destruct b; split; try congruence; eauto. intros [i Hi]; discriminate. }
  unfold grade. destruct (is_Str a0); simpl; repeat split; congruence.
Qed.

Example shell_subprocess_partition_ex_low :
  cfg_truthy ex_cfg = true /\ in_section sec_subprocess ex_cfg ex_popen_str_true = Ok true /\
  has_shell ex_popen_str_true = Ok true /\ c_call ex_popen_str_true = Some (c_node ex_popen_str_true) /\
  field_list "args" (c_node ex_popen_str_true) = [ex_str "ls"] /\
  call_args ex_popen_str_true = Ok [PStr (s2p "ls")] /\
  b602 ex_cfg ex_popen_str_true = Ok (Some (b602_issue LOW ex_popen_str_true)) /\
  b603 ex_cfg ex_popen_str_true = Ok None.
Proof. vm_compute. repeat split. Qed.

Example shell_subprocess_partition_ex_high :
  has_shell ex_popen_name_true = Ok true /\
  b602 ex_cfg ex_popen_name_true = Ok (Some (b602_issue HIGH ex_popen_name_true)) /\
  b603 ex_cfg ex_popen_name_true = Ok None /\
  has_shell ex_popen_str = Ok false /\
  b602 ex_cfg ex_popen_str = Ok None /\ b603 ex_cfg ex_popen_str = Ok (Some (b603_issue ex_popen_str)).
Proof. vm_compute. repeat split. Qed.

(* B603 needs no positional argument; B602 does: subprocess.Popen(args='ls', shell=True) is reported
   by neither plugin *)
Theorem shell_b603_no_args : forall cfg c,
  cfg_truthy cfg = true ->
  in_section sec_subprocess cfg c = Ok true ->
  (has_shell c = Ok false ->
     b603 cfg c = Ok (Some (b603_issue c)) /\ b602 cfg c = Ok None) /\
  (has_shell c = Ok true -> call_args c = Ok [] ->
     b602 cfg c = Ok None /\ b603 cfg c = Ok None).
Proof.
  intros cfg c Hc Hs. split.
  - intro Hh. unfold b603, b602. rewrite Hc, Hs. simpl. rewrite Hh. simpl. split; reflexivity.
  - intros Hh Hca. unfold b603, b602. rewrite Hc, Hs. simpl. rewrite Hh. simpl. rewrite Hca. simpl.
    split; reflexivity.
Qed.

Example shell_b603_no_args_ex :
  cfg_truthy ex_cfg = true /\ in_section sec_subprocess ex_cfg ex_popen_noargs = Ok true /\
  has_shell ex_popen_noargs = Ok false /\ call_args ex_popen_noargs = Ok [] /\
  b603 ex_cfg ex_popen_noargs = Ok (Some (b603_issue ex_popen_noargs)) /\
  has_shell ex_popen_kwonly_true = Ok true /\ call_args ex_popen_kwonly_true = Ok [] /\
  b602 ex_cfg ex_popen_kwonly_true = Ok None /\ b603 ex_cfg ex_popen_kwonly_true = Ok None.
Proof. vm_compute. repeat split. Qed.

(* ---------------------------------------------------------------------------------------------- *)
(* B605: the `shell` section, same LOW/HIGH grading on the first positional argument *)

Theorem shell_family_grading : forall cfg c,
  cfg_truthy cfg = true ->
  in_section sec_shell cfg c = Ok true ->
  (forall a0 rest vs,
     c_call c = Some (c_node c) -> field_list "args" (c_node c) = a0 :: rest -> call_args c = Ok vs ->
     b605 cfg c = Ok (Some (b605_issue (grade a0))) /\
     (ri_sev (b605_issue (grade a0)) = LOW <-> is_Str a0 = true) /\
     (ri_sev (b605_issue (grade a0)) = HIGH <-> is_Str a0 = false) /\
     ri_conf (b605_issue (grade a0)) = HIGH /\
     ri_lineno (b605_issue (grade a0)) = None) /\
  (call_args c = Ok [] -> b605 cfg c = Ok None).
Proof.
  intros cfg c Hc Hs. split.
  - intros a0 rest vs Hcall Hargs Hca.
    assert (Hne : nonempty vs = true).
    { apply nonempty_true. eapply call_args_nonempty; eauto. }
    assert (Hfa : first_arg c = Ok a0) by (apply first_arg_spec; eauto).
    split.
    + unfold b605. rewrite Hc, Hs. simpl. rewrite Hca. simpl. rewrite Hne.
      unfold evaluate_shell_call. rewrite Hfa. reflexivity.
    + unfold grade. destruct (is_Str a0); simpl; repeat split; congruence.
  - intro Hca. unfold b605. rewrite Hc, Hs. simpl. rewrite Hca. reflexivity.
Qed.

(* B605 is silent outside the section *)
Lemma shell_family_grading_only : forall cfg c i,
  b605 cfg c = Ok (Some i) -> cfg_truthy cfg = true /\ in_section sec_shell cfg c = Ok true.
Proof.
  intros cfg c i. unfold b605. destruct (cfg_truthy cfg); [|discriminate].
  destruct (in_section sec_shell cfg c) as [[|]|e]; simpl; try discriminate. auto.
Qed.

Definition ex_system_str : ctx := ex_ctx "os.system" (ex_call [ex_str "ls"] []).
Definition ex_system_name : ctx := ex_ctx "os.system" (ex_call [ex_name "cmd"] []).
Definition ex_system_noargs : ctx := ex_ctx "os.system" (ex_call [] []).

Example shell_family_grading_ex :
  cfg_truthy ex_cfg = true /\ in_section sec_shell ex_cfg ex_system_str = Ok true /\
  c_call ex_system_str = Some (c_node ex_system_str) /\
  field_list "args" (c_node ex_system_str) = [ex_str "ls"] /\ call_args ex_system_str = Ok [PStr (s2p "ls")] /\
  b605 ex_cfg ex_system_str = Ok (Some (b605_issue LOW)) /\
  b605 ex_cfg ex_system_name = Ok (Some (b605_issue HIGH)) /\
  call_args ex_system_noargs = Ok [] /\ b605 ex_cfg ex_system_noargs = Ok None.
Proof. vm_compute. repeat split. Qed.

(* ---------------------------------------------------------------------------------------------- *)
(* B606: fires exactly on the `no_shell` section *)

Theorem shell_no_shell : forall cfg c,
  (forall i, b606 cfg c = Ok (Some i) <->
             (cfg_truthy cfg = true /\ in_section sec_no_shell cfg c = Ok true /\ i = b606_issue)) /\
  ri_sev b606_issue = LOW /\ ri_conf b606_issue = MEDIUM /\ ri_lineno b606_issue = None.
Proof.
  intros cfg c. split; [|repeat split].
  intro i. unfold b606. split.
  - destruct (cfg_truthy cfg); [|discriminate].
    destruct (in_section sec_no_shell cfg c) as [[|]|e]; simpl; try discriminate.
    intro H; inversion H. auto.
  - intros [-> [-> ->]]. reflexivity.
Qed.

Definition ex_execl : ctx := ex_ctx "os.execl" (ex_call [ex_str "/bin/ls"] []).

Example shell_no_shell_ex :
  cfg_truthy ex_cfg = true /\ in_section sec_no_shell ex_cfg ex_execl = Ok true /\
  b606 ex_cfg ex_execl = Ok (Some b606_issue) /\
  in_section sec_no_shell ex_cfg ex_system_str = Ok false /\ b606 ex_cfg ex_system_str = Ok None.
Proof. vm_compute. repeat split. Qed.

(* ---------------------------------------------------------------------------------------------- *)
(* B604: any call outside the `subprocess` section for which has_shell holds *)

Theorem shell_other_with_shell : forall cfg c,
  (forall i, b604 cfg c = Ok (Some i) <->
             (cfg_truthy cfg = true /\ in_section sec_subprocess cfg c = Ok false /\
              has_shell c = Ok true /\ i = b604_issue c)) /\
  ri_sev (b604_issue c) = MEDIUM /\ ri_conf (b604_issue c) = LOW.
Proof.
  intros cfg c. split; [|repeat split].
  intro i. unfold b604. split.
  - destruct (cfg_truthy cfg); [|discriminate].
    destruct (in_section sec_subprocess cfg c) as [[|]|e]; simpl; try discriminate.
    destruct (has_shell c) as [[|]|e]; simpl; try discriminate.
    intro H; inversion H. auto.
  - intros [-> [-> [-> ->]]]. reflexivity.
Qed.

Definition ex_wrapper_true : ctx := ex_ctx "wrapper" (ex_call [] [ex_kw_at 3 "shell" (CBool true)]).

Example shell_other_with_shell_ex :
  cfg_truthy ex_cfg = true /\ in_section sec_subprocess ex_cfg ex_wrapper_true = Ok false /\
  has_shell ex_wrapper_true = Ok true /\
  b604 ex_cfg ex_wrapper_true = Ok (Some (b604_issue ex_wrapper_true)) /\
  b604 ex_cfg ex_popen_str_true = Ok None.
Proof. vm_compute. repeat split. Qed.

(* ---------------------------------------------------------------------------------------------- *)
(* the reported line of B602/B603/B604/B609 is that of the first `shell=` keyword's value *)

Theorem shell_keyword_line : forall cfg c i,
  b602 cfg c = Ok (Some i) \/ b603 cfg c = Ok (Some i) \/ b604 cfg c = Ok (Some i) \/
  b609 cfg c = Ok (Some i) ->
  ri_lineno i = get_lineno_for_call_arg c (s2p "shell").
Proof.
  intros cfg c i [H|[H|[H|H]]].
  - unfold b602 in H. destruct (cfg_truthy cfg); [|discriminate].
    destruct (in_section sec_subprocess cfg c) as [[|]|e]; simpl in H; try discriminate.
    destruct (has_shell c) as [[|]|e]; simpl in H; try discriminate.
    destruct (call_args c) as [vs|e]; simpl in H; try discriminate.
    destruct (nonempty vs); try discriminate.
    destruct (evaluate_shell_call c) as [sev|e]; simpl in H; try discriminate.
    inversion H. apply b602_issue_fields.
  - unfold b603 in H. destruct (cfg_truthy cfg); [|discriminate].
    destruct (in_section sec_subprocess cfg c) as [[|]|e]; simpl in H; try discriminate.
    destruct (has_shell c) as [[|]|e]; simpl in H; try discriminate.
    inversion H. reflexivity.
  - unfold b604 in H. destruct (cfg_truthy cfg); [|discriminate].
    destruct (in_section sec_subprocess cfg c) as [[|]|e]; simpl in H; try discriminate.
    destruct (has_shell c) as [[|]|e]; simpl in H; try discriminate.
    inversion H. reflexivity.
  - unfold b609 in H. destruct (b609_cfg_ok cfg) as [[|]|e]; cbn [bind negb] in H; try discriminate.
    destruct (b609_applies cfg c) as [[|]|e]; cbn [bind] in H; try discriminate.
    destruct (call_args_count c) as [n|]; try discriminate.
    destruct (Nat.leb 1 n); try discriminate.
    destruct (get_call_arg_at_position c 0) as [a|e]; cbn [bind] in H; try discriminate.
    destruct (wildcard_hit (argument_string a)); try discriminate.
    inversion H. reflexivity.
Qed.

(* ... which is the first keyword named `shell` (None when there is none: the tester then defaults
   the issue to the line of the call) *)
Lemma shell_keyword_line_first : forall c l1 k l2,
  field_list "keywords" (c_node c) = l1 ++ k :: l2 ->
  (forall k', In k' l1 -> is_shell_kw k' = false) -> is_shell_kw k = true ->
  get_lineno_for_call_arg c (s2p "shell") = lineno_of (field "value" k).
Proof.
  intros c l1 k l2 Hk Hl1 Hkk. unfold get_lineno_for_call_arg. rewrite Hk. clear Hk.
  induction l1 as [|x t IH]; simpl.
  - unfold is_shell_kw in Hkk. change (s2p "shell") with kw_shell. rewrite Hkk. reflexivity.
  - assert (Hx : is_shell_kw x = false) by (apply Hl1; left; reflexivity).
    unfold is_shell_kw in Hx. change (s2p "shell") with kw_shell. rewrite Hx.
    apply IH. intros k' Hin. apply Hl1. right. exact Hin.
Qed.

Lemma shell_keyword_line_absent : forall c,
  (forall k, In k (field_list "keywords" (c_node c)) -> is_shell_kw k = false) ->
  get_lineno_for_call_arg c (s2p "shell") = None.
Proof.
  intros c H. unfold get_lineno_for_call_arg.
  induction (field_list "keywords" (c_node c)) as [|x t IH]; simpl; [reflexivity|].
  assert (Hx : is_shell_kw x = false) by (apply H; left; reflexivity).
  unfold is_shell_kw in Hx. change (s2p "shell") with kw_shell. rewrite Hx.
  apply IH. intros k Hin. apply H. right. exact Hin.
Qed.

(* subprocess.Popen('chmod 777 *',\n stdout=1,\n shell=True): every finding sits on line 3 *)
Definition ex_popen_wild : ctx :=
  ex_ctx "subprocess.Popen"
         (ex_call [ex_str "chmod 777 *"] [ex_kw_at 2 "stdout" (CInt 1); ex_kw_at 3 "shell" (CBool true)]).

Example shell_keyword_line_ex :
  b602 ex_cfg ex_popen_wild = Ok (Some (b602_issue LOW ex_popen_wild)) /\
  b609 ex_cfg ex_popen_wild = Ok (Some (b609_issue ex_popen_wild)) /\
  get_lineno_for_call_arg ex_popen_wild (s2p "shell") = Some 3%Z /\
  b603 ex_cfg ex_popen_str = Ok (Some (b603_issue ex_popen_str)) /\
  get_lineno_for_call_arg ex_popen_str (s2p "shell") = None /\
  b604 ex_cfg ex_wrapper_true = Ok (Some (b604_issue ex_wrapper_true)) /\
  get_lineno_for_call_arg ex_wrapper_true (s2p "shell") = Some 3%Z.
Proof. vm_compute. repeat split. Qed.

(* ---------------------------------------------------------------------------------------------- *)
(* B607 *)

(* a or b or c with Python's short-circuit evaluation (a later config[...] is not evaluated) *)
Lemma in_any_section_true cfg c :
  in_any_section cfg c = Ok true <->
  in_section sec_subprocess cfg c = Ok true \/
  (in_section sec_subprocess cfg c = Ok false /\ in_section sec_shell cfg c = Ok true) \/
  (in_section sec_subprocess cfg c = Ok false /\ in_section sec_shell cfg c = Ok false /\
   in_section sec_no_shell cfg c = Ok true).
Proof.
  unfold in_any_section.
  destruct (in_section sec_subprocess cfg c) as [[|]|e1]; simpl.
  - split; auto.
  - destruct (in_section sec_shell cfg c) as [[|]|e2]; simpl.
    + split; auto.
    + split.
      * intro H. right. right. auto.
      * intros [H|[[_ H]|[_ [_ H]]]]; try discriminate. exact H.
    + split; [discriminate|]. intros [H|[[_ H]|[_ [H _]]]]; discriminate.
  - split; [discriminate|]. intros [H|[[H _]|[H _]]]; discriminate.
Qed.

(* the node whose string is tested: the first element of a non-empty list literal, else the argument *)
Lemma path_node_list a0 e t :
  is_cls "List" a0 = true -> field_list "elts" a0 = e :: t -> path_node a0 = e.
Proof. unfold path_node. intros -> ->. reflexivity. Qed.
Lemma path_node_other a0 :
  is_cls "List" a0 = false \/ field_list "elts" a0 = [] -> path_node a0 = a0.
Proof.
  unfold path_node. intros [->| ->]; [reflexivity|]. destruct (is_cls "List" a0); reflexivity.
Qed.

Theorem shell_partial_path : forall cfg c i,
  b607 cfg c = Ok (Some i) <->
  (i = b607_issue /\
   cfg_truthy cfg = true /\
   (exists vs, call_args c = Ok vs /\ vs <> []) /\
   in_any_section cfg c = Ok true /\
   exists a0 rest s, field_list "args" (c_node c) = a0 :: rest /\
                     str_of (path_node a0) = Some s /\ re_match re_full_path s = false).
Proof.
  intros cfg c i. unfold b607. split.
  - destruct (cfg_truthy cfg); [|discriminate].
    destruct (call_args c) as [vs|e]; simpl; [|discriminate].
    destruct (nonempty vs) eqn:Hne; [|discriminate].
    destruct (in_any_section cfg c) as [[|]|e]; simpl; try discriminate.
    destruct (first_arg c) as [a0|e] eqn:Hfa; simpl; [|discriminate].
    destruct (is_partial_path (path_node a0)) eqn:Hp; [|discriminate].
    intro H; inversion H. split; [reflexivity|]. split; [reflexivity|].
    split. { exists vs. split; [reflexivity|]. apply nonempty_true; exact Hne. }
    split; [reflexivity|].
    apply first_arg_spec in Hfa. destruct Hfa as [rest Hr].
    unfold is_partial_path in Hp. destruct (str_of (path_node a0)) as [s|] eqn:Hs; [|discriminate].
    exists a0, rest, s. split; [exact Hr|]. split; [exact Hs|].
    destruct (re_match re_full_path s); [discriminate|reflexivity].
  - intros [-> [-> [[vs [-> Hne]] [-> [a0 [rest [s [Hr [Hs Hm]]]]]]]]]. simpl.
    apply nonempty_true in Hne. rewrite Hne.
    assert (Hfa : first_arg c = Ok a0) by (apply first_arg_spec; eauto).
    rewrite Hfa. simpl. unfold is_partial_path. rewrite Hs, Hm. reflexivity.
Qed.

Definition ex_popen_list_partial : ctx :=
  ex_ctx "subprocess.Popen" (ex_call [ex_list [ex_str "ls"; ex_str "-l"]] []).
Definition ex_popen_list_full : ctx :=
  ex_ctx "subprocess.Popen" (ex_call [ex_list [ex_str "/bin/ls"; ex_str "-l"]] []).

Example shell_partial_path_ex :
  b607 ex_cfg ex_popen_str = Ok (Some b607_issue) /\
  b607 ex_cfg ex_popen_list_partial = Ok (Some b607_issue) /\
  b607 ex_cfg ex_popen_list_full = Ok None /\
  b607 ex_cfg ex_execl = Ok None /\
  b607 ex_cfg ex_popen_name_true = Ok None /\
  re_match re_full_path (s2p "ls") = false /\ re_match re_full_path (s2p "/bin/ls") = true /\
  re_match re_full_path (s2p "./x") = true /\ re_match re_full_path (s2p "..") = true /\
  re_match re_full_path (s2p "C:\x") = true /\ re_match re_full_path (s2p "c:") = true /\
  re_match re_full_path (s2p "\x") = true /\ re_match re_full_path (s2p "") = false /\
  re_match re_full_path (s2p "cc:\x") = false.
Proof. vm_compute. repeat split. Qed.

(* ---------------------------------------------------------------------------------------------- *)
(* "shell argument truthy": has_shell's ladder computes Python's truth value of every literal whose
   truth value is static. *)

(* specification: bool(<literal>) ; None for anything that is not such a literal *)
Definition py_truth (v : node) : option bool :=
  match const_of v with
  | Some (CInt z) => Some (negb (Z.eqb z 0))
  | Some (CFloat _ t) => Some t
  | Some (CComplex _ t) => Some t
  | Some (CStr s) => Some (match s with [] => false | _ => true end)
  | Some (CBytes b) => Some (match b with [] => false | _ => true end)
  | Some (CBool b) => Some b
  | Some CNone => Some false
  | Some CEllipsis => Some true
  | None =>
      if is_cls "List" v then Some (match field_list "elts" v with [] => false | _ => true end)
      else if is_cls "Dict" v then Some (match field_list "keys" v with [] => false | _ => true end)
      else if is_cls "Tuple" v || is_cls "Set" v then
        Some (match field_list "elts" v with [] => false | _ => true end)
      else None
  end.

Lemma const_of_cls v k : const_of v = Some k -> cls_of v = "Constant".
Proof.
  destruct v as [c p fs| | | | |]; simpl; try discriminate.
  destruct (String.eqb c "Constant") eqn:E; [|discriminate].
  intros _. apply String.eqb_eq. exact E.
Qed.

Lemma is_cls_cls_of c v : is_cls c v = true -> cls_of v = c.
Proof.
  destruct v as [c' p fs| | | | |]; simpl; try discriminate.
  intro H. apply String.eqb_eq in H. congruence.
Qed.

Lemma const_not_display v k c :
  const_of v = Some k -> c <> "Constant" -> is_cls c v = false.
Proof.
  intros Hk Hc. destruct (is_cls c v) eqn:E; [|reflexivity].
  apply is_cls_cls_of in E. apply const_of_cls in Hk. congruence.
Qed.

Theorem has_shell_truthiness : forall v b, py_truth v = Some b -> shell_value_truth v = b.
Proof.
  intros v b. unfold py_truth, shell_value_truth, is_Num, is_Str, is_Bytes, is_NameConstant.
  destruct (const_of v) as [k|] eqn:Hk.
  - assert (HL : is_cls "List" v = false) by (eapply const_not_display; eauto; discriminate).
    assert (HD : is_cls "Dict" v = false) by (eapply const_not_display; eauto; discriminate).
    assert (HT : is_cls "Tuple" v = false) by (eapply const_not_display; eauto; discriminate).
    assert (HS : is_cls "Set" v = false) by (eapply const_not_display; eauto; discriminate).
    assert (HN : is_cls "Name" v = false) by (eapply const_not_display; eauto; discriminate).
    destruct k; intro H; inversion H; subst; clear H; rewrite ?HL, ?HD, ?HT, ?HS, ?HN; simpl;
      try reflexivity.
  - simpl. destruct (is_cls "List" v).
    + intro H; inversion H. reflexivity.
    + destruct (is_cls "Dict" v).
      * intro H; inversion H. reflexivity.
      * destruct (is_cls "Tuple" v || is_cls "Set" v).
        -- intro H; inversion H. reflexivity.
        -- discriminate.
Qed.

(* subprocess.Popen('ls', shell=()) / shell='' / shell=b'' : falsy, so B603 (not B602) reports them;
   shell=(0,) / shell='x' are truthy *)
Definition ex_popen_shell (v : node) : ctx :=
  ex_ctx "subprocess.Popen" (ex_call [ex_str "ls"] [ex_kw "shell" v]).

Example has_shell_truthiness_ex :
  py_truth (ex_tuple []) = Some false /\ has_shell (ex_popen_shell (ex_tuple [])) = Ok false /\
  py_truth (ex_str "") = Some false /\ has_shell (ex_popen_shell (ex_str "")) = Ok false /\
  py_truth (ex_const (CBytes [])) = Some false /\ has_shell (ex_popen_shell (ex_const (CBytes []))) = Ok false /\
  py_truth (ex_tuple [ex_const (CInt 0)]) = Some true /\
  has_shell (ex_popen_shell (ex_tuple [ex_const (CInt 0)])) = Ok true /\
  py_truth (ex_str "x") = Some true /\ has_shell (ex_popen_shell (ex_str "x")) = Ok true /\
  py_truth (ex_name "flag") = None /\ has_shell (ex_popen_shell (ex_name "flag")) = Ok true /\
  b602 ex_cfg (ex_popen_shell (ex_str "")) = Ok None /\
  b603 ex_cfg (ex_popen_shell (ex_str "")) = Ok (Some (b603_issue (ex_popen_shell (ex_str "")))).
Proof. vm_compute. repeat split. Qed.

(* ---------------------------------------------------------------------------------------------- *)
(* B609's shell condition for names of the `subprocess` section is has_shell (value and raises) *)

Theorem wildcard_uses_has_shell : forall cfg c,
  in_section sec_shell cfg c = Ok false ->
  in_section sec_subprocess cfg c = Ok true ->
  b609_applies cfg c = has_shell c /\
  (b609_cfg_ok cfg = Ok true ->
     (has_shell c = Ok false -> b609 cfg c = Ok None) /\
     (forall e, has_shell c = Raise e -> b609 cfg c = Raise e) /\
     (forall i, b609 cfg c = Ok (Some i) -> has_shell c = Ok true)).
Proof.
  intros cfg c Hsh Hsub.
  assert (Hap : b609_applies cfg c = has_shell c).
  { unfold b609_applies. rewrite Hsh. cbn [bind]. rewrite Hsub. cbn [bind].
    destruct (has_shell c); reflexivity. }
  split; [exact Hap|]. intro Hok. unfold b609. rewrite Hok, Hap. cbn [bind negb].
  split; [|split].
  - intros ->. reflexivity.
  - intros e ->. reflexivity.
  - intros i. destruct (has_shell c) as [[|]|e]; cbn [bind]; try discriminate. reflexivity.
Qed.

(* subprocess.Popen('chmod 777 *', shell=1): now reported by B609 as well as B602 *)
Definition ex_popen_wild_shell_1 : ctx :=
  ex_ctx "subprocess.Popen" (ex_call [ex_str "chmod 777 *"] [ex_kw_at 1 "shell" (CInt 1)]).

Example wildcard_uses_has_shell_ex :
  in_section sec_shell ex_cfg ex_popen_wild_shell_1 = Ok false /\
  in_section sec_subprocess ex_cfg ex_popen_wild_shell_1 = Ok true /\
  b609_cfg_ok ex_cfg = Ok true /\
  has_shell ex_popen_wild_shell_1 = Ok true /\
  b609 ex_cfg ex_popen_wild_shell_1 = Ok (Some (b609_issue ex_popen_wild_shell_1)) /\
  b602 ex_cfg ex_popen_wild_shell_1 = Ok (Some (b602_issue LOW ex_popen_wild_shell_1)).
Proof. vm_compute. repeat split. Qed.

(* has_shell lets the *last* `shell` keyword decide while the reported line is the *first* one's.
   Reachable from source text: ast.parse accepts f('ls', shell=True, shell=False) -- only compile()
   rejects the repeated keyword -- so bandit scans it and reports B603 on the line of shell=True. *)
Definition ex_two_shell_kws : ctx :=
  ex_ctx "subprocess.Popen"
         (ex_call [ex_str "ls"] [ex_kw_at 2 "shell" (CBool true); ex_kw_at 3 "shell" (CBool false)]).
Example has_shell_last_wins :
  has_shell ex_two_shell_kws = Ok false /\
  b603 ex_cfg ex_two_shell_kws = Ok (Some (b603_issue ex_two_shell_kws)) /\
  get_lineno_for_call_arg ex_two_shell_kws (s2p "shell") = Some 2%Z.
Proof. vm_compute. repeat split. Qed.

(* has_shell's loop, stated for all keyword lists *)
Lemma has_shell_loop_last : forall l1 k l2,
  is_shell_kw k = true -> (forall k', In k' l2 -> is_shell_kw k' = false) ->
  has_shell_loop (l1 ++ k :: l2) = shell_value_truth (field "value" k).
Proof.
  intros l1 k l2 Hk Hl2. unfold has_shell_loop. rewrite fold_left_app. simpl. rewrite Hk.
  generalize (shell_value_truth (field "value" k)) as r.
  induction l2 as [|x t IH]; intro r; simpl; [reflexivity|].
  rewrite (Hl2 x (or_introl eq_refl)). apply IH. intros k' Hin. apply Hl2. right. exact Hin.
Qed.

(* a set display with an unhashable element no longer raises in call_keywords / call_args
   (Context._get_literal_value skips such elements): subprocess.Popen('ls', stdin={[1]}) is scanned *)
Definition ex_popen_unhashable_kw : ctx :=
  ex_ctx "subprocess.Popen"
         (ex_call [ex_str "ls"]
                  [ex_kw "stdin" (Node "Set" ex_pos [("elts", NList [ex_list [ex_const (CInt 1)]])])]).
Example has_shell_unhashable_kw :
  has_shell ex_popen_unhashable_kw = Ok false /\
  b602 ex_cfg ex_popen_unhashable_kw = Ok None /\
  b603 ex_cfg ex_popen_unhashable_kw = Ok (Some (b603_issue ex_popen_unhashable_kw)) /\
  b607 ex_cfg ex_popen_unhashable_kw = Ok (Some b607_issue) /\
  b609 ex_cfg ex_popen_unhashable_kw = Ok None.
Proof. vm_compute. repeat split. Qed.

(* ---------------------------------------------------------------------------------------------- *)
(* Totality *)

(* Context._get_literal_value never raises.  [lv_elts] is the inner `elts` computation of
   [literal_value], restated so that it can be named. *)
Definition lv_elts (fs : list (string * node)) : res (list pyval) :=
  (fix find (l : list (string * node)) : res (list pyval) :=
     match l with
     | [] => Ok []
     | (k, v) :: t =>
         if String.eqb "elts" k then
           match v with
           | NList its =>
               (fix go (is : list node) : res (list pyval) :=
                  match is with
                  | [] => Ok []
                  | i :: is' => do x <- literal_value i;; do xs <- go is';; Ok (x :: xs)
                  end) its
           | _ => Ok []
           end
         else find t
     end) fs.

Definition lv_addall : list pyval -> list pyval -> res pyval :=
  fix addall (l : list pyval) (acc : list pyval) : res pyval :=
    match l with
    | [] => Ok (PSet acc)
    | v :: l' => if hashable v then addall l' (set_add_val v acc) else addall l' acc
    end.

Lemma literal_value_unfold c p fs :
  literal_value (Node c p fs) =
  if String.eqb c "Constant" then
    match lookup_field "value" fs with
    | Some (NConst k) => Ok (const_value k)
    | _ => Ok PNone
    end
  else if String.eqb c "List" then do l <- lv_elts fs;; Ok (PList l)
  else if String.eqb c "Tuple" then do l <- lv_elts fs;; Ok (PTuple l)
  else if String.eqb c "Set" then do l <- lv_elts fs;; lv_addall l []
  else if String.eqb c "Dict" then
    Ok (PDict (combine (items (match lookup_field "keys" fs with Some k => k | None => NNone end))
                       (items (match lookup_field "values" fs with Some k => k | None => NNone end))))
  else if String.eqb c "Name" then
    Ok (PStr (match lookup_field "id" fs with Some (NId s) => s | _ => [] end))
  else Ok PNone.
Proof. reflexivity. Qed.

Lemma lv_addall_total l : forall acc, exists v, lv_addall l acc = Ok v.
Proof.
  induction l as [|x t IH]; intro acc; simpl.
  - eexists; reflexivity.
  - destruct (hashable x); apply IH.
Qed.

Definition lv_ok (n : node) : Prop := exists v, literal_value n = Ok v.
Definition lv_ok_deep (n : node) : Prop :=
  lv_ok n /\ match n with NList l => Forall lv_ok l | _ => True end.

Definition lv_go : list node -> res (list pyval) :=
  fix go (is : list node) : res (list pyval) :=
    match is with
    | [] => Ok []
    | i :: is' => do x <- literal_value i;; do xs <- go is';; Ok (x :: xs)
    end.

Lemma lv_elts_cons k v t :
  lv_elts ((k, v) :: t) =
  if String.eqb "elts" k then match v with NList its => lv_go its | _ => Ok [] end else lv_elts t.
Proof. reflexivity. Qed.

Lemma lv_go_total its : Forall lv_ok its -> exists l, lv_go its = Ok l.
Proof.
  induction 1 as [|i is' [x Hx] His [xs Hxs]].
  - eexists; reflexivity.
  - change (lv_go (i :: is')) with (do x <- literal_value i;; do xs <- lv_go is';; Ok (x :: xs)).
    rewrite Hx. cbn [bind]. rewrite Hxs. cbn [bind]. eexists; reflexivity.
Qed.

Lemma lv_elts_total fs :
  Forall (fun kv => lv_ok_deep (snd kv)) fs -> exists l, lv_elts fs = Ok l.
Proof.
  induction 1 as [|[k v] t Hv Ht IH].
  - eexists; reflexivity.
  - rewrite lv_elts_cons. destruct (String.eqb "elts" k); [|exact IH].
    destruct v as [c p fs'|its| | | |]; try (eexists; reflexivity).
    destruct Hv as [_ Hits]. apply lv_go_total. exact Hits.
Qed.

Lemma literal_value_total_deep : forall n, lv_ok_deep n.
Proof.
  apply node_ind'.
  - intros c p fs Hfs. split; [|exact I]. unfold lv_ok. rewrite literal_value_unfold.
    destruct (lv_elts_total fs Hfs) as [l Hl]. rewrite Hl. cbn [bind].
    destruct (String.eqb c "Constant").
    { destruct (lookup_field "value" fs) as [[| |k| | |]|]; eexists; reflexivity. }
    destruct (String.eqb c "List"); [eexists; reflexivity|].
    destruct (String.eqb c "Tuple"); [eexists; reflexivity|].
    destruct (String.eqb c "Set"); [apply lv_addall_total|].
    destruct (String.eqb c "Dict"); [eexists; reflexivity|].
    destruct (String.eqb c "Name"); eexists; reflexivity.
  - intros l Hl. split; [eexists; reflexivity|].
    induction Hl as [|x t [Hx _] Ht IH]; constructor; assumption.
  - intro k. split; [eexists; reflexivity|exact I].
  - intro s. split; [eexists; reflexivity|exact I].
  - intro z. split; [eexists; reflexivity|exact I].
  - split; [eexists; reflexivity|exact I].
Qed.

Theorem literal_value_never_raises : forall n, exists v, literal_value n = Ok v.
Proof. intro n. exact (proj1 (literal_value_total_deep n)). Qed.

Lemma arg_value_never_raises a : exists v, arg_value a = Ok v.
Proof.
  unfold arg_value. destruct (is_cls "Attribute" a); [eexists; reflexivity|apply literal_value_never_raises].
Qed.

Lemma mapM_total {A B} (f : A -> res B) :
  (forall x, exists y, f x = Ok y) -> forall l, exists ys, mapM f l = Ok ys.
Proof.
  intros Hf l. induction l as [|x t [ys Hys]]; simpl.
  - eexists; reflexivity.
  - destruct (Hf x) as [y Hy]. rewrite Hy. cbn [bind]. rewrite Hys. cbn [bind]. eexists; reflexivity.
Qed.

Lemma mapM_length {A B} (f : A -> res B) l ys : mapM f l = Ok ys -> List.length ys = List.length l.
Proof.
  revert ys. induction l as [|x t IH]; simpl; intros ys H.
  - inversion H; reflexivity.
  - destruct (f x); simpl in H; [|discriminate]. destruct (mapM f t) as [ys'|]; simpl in H; [|discriminate].
    inversion H; subst. simpl. f_equal. apply IH. reflexivity.
Qed.

Theorem call_args_never_raises : forall c, exists vs, call_args c = Ok vs.
Proof.
  intro c. unfold call_args. destruct (c_call c); [|eexists; reflexivity].
  apply mapM_total. apply arg_value_never_raises.
Qed.

Theorem call_keywords_never_raises : forall c call,
  c_call c = Some call -> exists d, call_keywords c = Ok (Some d).
Proof.
  intros c call H. unfold call_keywords. rewrite H.
  destruct (mapM_total (fun k => do v <- arg_value (field "value" k);; Ok (kw_arg k, v))) with (l := field_list "keywords" call)
    as [l Hl].
  - intro k. destruct (arg_value_never_raises (field "value" k)) as [v Hv]. rewrite Hv. eexists; reflexivity.
  - rewrite Hl. eexists; reflexivity.
Qed.

Lemma get_call_arg_at_position_never_raises c i : exists v, get_call_arg_at_position c i = Ok v.
Proof.
  unfold get_call_arg_at_position. destruct (c_call c) as [call|]; [|eexists; reflexivity].
  cbv zeta. destruct (Nat.ltb i (List.length (field_list "args" call))); [|eexists; reflexivity].
  destruct (is_cls "Attribute" (nth i (field_list "args" call) NNone)
            && truthy_str (attr_of (nth i (field_list "args" call) NNone)));
    [eexists; reflexivity|apply literal_value_never_raises].
Qed.

(* has_shell on a call context: the context carries a call and the node has a `keywords` field *)
Theorem has_shell_never_raises : forall c call,
  c_call c = Some call -> has_field "keywords" (c_node c) = true ->
  exists b, has_shell c = Ok b.
Proof.
  intros c call Hcall Hkw. unfold has_shell. unfold has_field in Hkw.
  destruct (field_opt "keywords" (c_node c)) as [kws|]; [|discriminate].
  destruct (call_keywords_never_raises c call Hcall) as [d Hd]. rewrite Hd. cbn [bind].
  destruct (kw_mem kw_shell d); eexists; reflexivity.
Qed.

(* A well-formed `shell_injection` configuration: a dict holding the three lists of strings. *)
Definition is_jstr (j : jv) : bool := match j with JStr _ => true | _ => false end.
Definition is_str_list (j : jv) : bool := match j with JList l => forallb is_jstr l | _ => false end.
Definition wf_section (k : pstr) (cfg : jv) : bool :=
  match jget k cfg with Some v => is_str_list v | None => false end.
Definition wf_cfg (cfg : jv) : bool :=
  match cfg with
  | JDict _ => wf_section sec_subprocess cfg && wf_section sec_shell cfg && wf_section sec_no_shell cfg
  | _ => false
  end.

Example wf_cfg_default : wf_cfg ex_cfg = true.
Proof. vm_compute. reflexivity. Qed.

(* the call contexts the visitor builds: the context's call is its node, a Call (it has `keywords`) *)
Definition call_ctx (c : ctx) : Prop :=
  c_call c = Some (c_node c) /\ has_field "keywords" (c_node c) = true.

Example call_ctx_ex : call_ctx ex_popen_str_true.
Proof. split; reflexivity. Qed.

Lemma wf_cfg_sections cfg :
  wf_cfg cfg = true ->
  wf_section sec_subprocess cfg = true /\ wf_section sec_shell cfg = true /\ wf_section sec_no_shell cfg = true /\
  exists kv, cfg = JDict kv.
Proof.
  unfold wf_cfg. destruct cfg; try discriminate. intro H.
  apply andb_true_iff in H. destruct H as [H H3]. apply andb_true_iff in H. destruct H as [H1 H2].
  repeat split; try assumption. eexists; reflexivity.
Qed.

Lemma in_section_total k cfg c :
  (exists kv, cfg = JDict kv) -> wf_section k cfg = true -> exists m, in_section k cfg c = Ok m.
Proof.
  intros [kv ->] H. unfold wf_section in H. unfold in_section, cfg_section.
  destruct (jget k (JDict kv)) as [v|]; [|discriminate]. cbn [bind].
  destruct v; try discriminate. eexists; reflexivity.
Qed.

Lemma wf_cfg_in_sections cfg c :
  wf_cfg cfg = true ->
  (exists m, in_section sec_subprocess cfg c = Ok m) /\ (exists m, in_section sec_shell cfg c = Ok m) /\
  (exists m, in_section sec_no_shell cfg c = Ok m).
Proof.
  intro H. destruct (wf_cfg_sections cfg H) as [H1 [H2 [H3 Hd]]].
  repeat split; apply in_section_total; assumption.
Qed.

Lemma first_arg_of_call_args c vs :
  c_call c = Some (c_node c) -> call_args c = Ok vs -> nonempty vs = true -> exists a0, first_arg c = Ok a0.
Proof.
  intros Hc Hca Hne. unfold call_args in Hca. rewrite Hc in Hca. apply mapM_length in Hca.
  destruct (field_list "args" (c_node c)) as [|a0 rest] eqn:E.
  - destruct vs; [discriminate|discriminate].
  - exists a0. apply first_arg_spec. eauto.
Qed.

Theorem b602_never_raises : forall cfg c, wf_cfg cfg = true -> call_ctx c -> exists r, b602 cfg c = Ok r.
Proof.
  intros cfg c Hwf [Hcall Hkw]. unfold b602. destruct (cfg_truthy cfg); [|eexists; reflexivity].
  destruct (wf_cfg_in_sections cfg c Hwf) as [[m Hm] _]. rewrite Hm. cbn [bind].
  destruct m; [|eexists; reflexivity].
  destruct (has_shell_never_raises c _ Hcall Hkw) as [b Hb]. rewrite Hb. cbn [bind].
  destruct b; [|eexists; reflexivity].
  destruct (call_args_never_raises c) as [vs Hvs]. rewrite Hvs. cbn [bind].
  destruct (nonempty vs) eqn:Hne; [|eexists; reflexivity].
  destruct (first_arg_of_call_args c vs Hcall Hvs Hne) as [a0 Ha]. unfold evaluate_shell_call. rewrite Ha.
  eexists; reflexivity.
Qed.

Theorem b603_never_raises : forall cfg c, wf_cfg cfg = true -> call_ctx c -> exists r, b603 cfg c = Ok r.
Proof.
  intros cfg c Hwf [Hcall Hkw]. unfold b603. destruct (cfg_truthy cfg); [|eexists; reflexivity].
  destruct (wf_cfg_in_sections cfg c Hwf) as [[m Hm] _]. rewrite Hm. cbn [bind].
  destruct m; [|eexists; reflexivity].
  destruct (has_shell_never_raises c _ Hcall Hkw) as [b Hb]. rewrite Hb. cbn [bind].
  destruct b; eexists; reflexivity.
Qed.

Theorem b604_never_raises : forall cfg c, wf_cfg cfg = true -> call_ctx c -> exists r, b604 cfg c = Ok r.
Proof.
  intros cfg c Hwf [Hcall Hkw]. unfold b604. destruct (cfg_truthy cfg); [|eexists; reflexivity].
  destruct (wf_cfg_in_sections cfg c Hwf) as [[m Hm] _]. rewrite Hm. cbn [bind].
  destruct m; [eexists; reflexivity|].
  destruct (has_shell_never_raises c _ Hcall Hkw) as [b Hb]. rewrite Hb. cbn [bind].
  destruct b; eexists; reflexivity.
Qed.

Theorem b605_never_raises : forall cfg c, wf_cfg cfg = true -> call_ctx c -> exists r, b605 cfg c = Ok r.
Proof.
  intros cfg c Hwf [Hcall Hkw]. unfold b605. destruct (cfg_truthy cfg); [|eexists; reflexivity].
  destruct (wf_cfg_in_sections cfg c Hwf) as [_ [[m Hm] _]]. rewrite Hm. cbn [bind].
  destruct m; [|eexists; reflexivity].
  destruct (call_args_never_raises c) as [vs Hvs]. rewrite Hvs. cbn [bind].
  destruct (nonempty vs) eqn:Hne; [|eexists; reflexivity].
  destruct (first_arg_of_call_args c vs Hcall Hvs Hne) as [a0 Ha]. unfold evaluate_shell_call. rewrite Ha.
  eexists; reflexivity.
Qed.

(* B606 reads nothing but the configuration and the qualified name: total in every context *)
Theorem b606_never_raises : forall cfg c, wf_cfg cfg = true -> exists r, b606 cfg c = Ok r.
Proof.
  intros cfg c Hwf. unfold b606. destruct (cfg_truthy cfg); [|eexists; reflexivity].
  destruct (wf_cfg_in_sections cfg c Hwf) as [_ [_ [m Hm]]]. rewrite Hm. cbn [bind].
  destruct m; eexists; reflexivity.
Qed.

Theorem b607_never_raises : forall cfg c, wf_cfg cfg = true -> call_ctx c -> exists r, b607 cfg c = Ok r.
Proof.
  intros cfg c Hwf [Hcall Hkw]. unfold b607. destruct (cfg_truthy cfg); [|eexists; reflexivity].
  destruct (call_args_never_raises c) as [vs Hvs]. rewrite Hvs. cbn [bind].
  destruct (nonempty vs) eqn:Hne; [|eexists; reflexivity].
  destruct (wf_cfg_in_sections cfg c Hwf) as [[m1 H1] [[m2 H2] [m3 H3]]].
  unfold in_any_section. rewrite H1. cbn [bind].
  assert (Hany : exists m, (if m1 then Ok true
                            else do b <- in_section sec_shell cfg c;;
                                 if b then Ok true else in_section sec_no_shell cfg c) = Ok m).
  { destruct m1; [eexists; reflexivity|]. rewrite H2. cbn [bind].
    destruct m2; [eexists; reflexivity|]. rewrite H3. eexists; reflexivity. }
  destruct Hany as [m Hm]. rewrite Hm. cbn [bind]. destruct m; [|eexists; reflexivity].
  destruct (first_arg_of_call_args c vs Hcall Hvs Hne) as [a0 Ha]. rewrite Ha. cbn [bind].
  destruct (is_partial_path (path_node a0)); eexists; reflexivity.
Qed.

Theorem b609_never_raises : forall cfg c, wf_cfg cfg = true -> call_ctx c -> exists r, b609 cfg c = Ok r.
Proof.
  intros cfg c Hwf [Hcall Hkw]. unfold b609.
  destruct (wf_cfg_sections cfg Hwf) as [_ [_ [_ [kv Hkv]]]].
  assert (Hok : exists ok, b609_cfg_ok cfg = Ok ok).
  { subst cfg. unfold b609_cfg_ok. simpl. destruct (assoc sec_shell kv); eexists; reflexivity. }
  destruct Hok as [ok Hok]. rewrite Hok. cbn [bind]. destruct ok; cbn [negb]; [|eexists; reflexivity].
  destruct (wf_cfg_in_sections cfg c Hwf) as [[m1 H1] [[m2 H2] _]].
  assert (Hap : exists ap, b609_applies cfg c = Ok ap).
  { unfold b609_applies. rewrite H2. cbn [bind]. destruct m2; [eexists; reflexivity|].
    rewrite H1. cbn [bind]. destruct m1; [|eexists; reflexivity].
    apply (has_shell_never_raises c _ Hcall Hkw). }
  destruct Hap as [ap Hap]. rewrite Hap. cbn [bind]. destruct ap; [|eexists; reflexivity].
  unfold call_args_count. rewrite Hcall.
  destruct (Nat.leb 1 (List.length (field_list "args" (c_node c)))); [|eexists; reflexivity].
  destruct (get_call_arg_at_position_never_raises c 0) as [a Ha]. rewrite Ha. cbn [bind].
  destruct (wildcard_hit (argument_string a)); eexists; reflexivity.
Qed.

(* what can still raise: a malformed configuration, or a context no visitor builds *)
Example still_raises_bad_cfg :
  b605 (JDict [(sec_subprocess, JList [])]) ex_system_str = Raise KeyError /\
  b602 (JInt 3) ex_popen_str_true = Raise TypeError /\
  b609 (JInt 0) ex_popen_str_true = Raise TypeError /\
  b606 (JDict [(sec_no_shell, JNull)]) ex_execl = Raise TypeError.
Proof. vm_compute. repeat split. Qed.

Example still_raises_foreign_ctx :
  (* node without `keywords` *)
  has_shell (ex_ctx "subprocess.Popen" (ex_name "x")) = Raise AttributeError /\
  (* context call with a positional argument, node without any: args[0] -> IndexError *)
  b605 ex_cfg (Ctx (ex_call [] []) [] NNone [] [] (Some 1%Z) (Some 0%Z) (Some 1%Z) [1%Z]
                   (Some (ex_call [ex_str "ls"] [])) (Some (s2p "os.system")) (Some (s2p "system"))
                   None None None None (s2p "t.py") None) = Raise IndexError.
Proof. vm_compute. repeat split. Qed.
