From Coq Require Import List NArith ZArith Bool String Lia.
From Bandit Require Import Base.PyStr Engine.Types Engine.Facts Cli.BaselineTool.
Import ListNotations.

Section P.
  Variable commit : Type.
  Variable F : tool_facts.
  Variables (cur parent : commit) (wr : bool).

  (* whenever the final reset itself succeeds, the repository is back where it was and the temporary
     directory is gone - after every outcome of every step *)
  Theorem restored (S : scenario) :
    tf_cleanup_in_finally F = true -> sc_cleanup_reset S = ResetDone ->
    rs_head (fst (run_tool commit F cur parent wr S)) = cur /\
    rs_tmpdir (fst (run_tool commit F cur parent wr S)) = false.
  Proof.
    intros Hf Hc. unfold run_tool.
    destruct (body commit F cur parent wr S (RepoState cur true false)) as [[st1 exn] code].
    destruct exn as [c|].
    - rewrite Hf. unfold cleanup. rewrite Hc. split; reflexivity.
    - unfold cleanup. rewrite Hc. split; reflexivity.
  Qed.

  (* the exit status is that of the comparison run when both runs could be launched *)
  Theorem exit_status_is_comparison_run (S : scenario) c1 c2 :
    sc_reset1 S = ResetDone -> sc_reset2 S = ResetDone -> sc_cleanup_reset S = ResetDone ->
    sc_run1 S = Exited c1 -> sc_run2 S = Exited c2 ->
    snd (run_tool commit F cur parent wr S) = ExitCode c2.
  Proof.
    intros H1 H2 H3 H4 H5. unfold run_tool, body, cleanup. rewrite H1, H4, H2, H5, H3. reflexivity.
  Qed.

  (* only the requested report file is new *)
  Theorem only_report_is_new (S : scenario) :
    rs_report (fst (run_tool commit F cur parent wr S)) = true -> wr = true.
  Proof.
    unfold run_tool, body, cleanup.
    destruct (sc_reset1 S); [|destruct (tf_cleanup_in_finally F); destruct (sc_cleanup_reset S); simpl; discriminate].
    destruct (sc_run1 S) as [c1|c1].
    - destruct (sc_reset2 S); [|destruct (tf_cleanup_in_finally F); destruct (sc_cleanup_reset S); simpl; discriminate].
      destruct (sc_run2 S) as [c2|c2].
      + destruct (sc_cleanup_reset S); simpl; destruct wr; simpl; auto; discriminate.
      + destruct (tf_cleanup_in_finally F); destruct (sc_cleanup_reset S); simpl; discriminate.
    - destruct (handled F c1); [destruct (sc_cleanup_reset S); simpl; discriminate|].
      destruct (tf_cleanup_in_finally F); destruct (sc_cleanup_reset S); simpl; discriminate.
  Qed.
  (* the temporary directory is removed before the final reset is attempted: it is gone even when that reset fails *)
  Theorem tmpdir_always_removed (S : scenario) :
    tf_cleanup_in_finally F = true ->
    rs_tmpdir (fst (run_tool commit F cur parent wr S)) = false.
  Proof.
    intros Hf. unfold run_tool.
    destruct (body commit F cur parent wr S (RepoState cur true false)) as [[st1 exn] code].
    destruct exn as [c|].
    - rewrite Hf. unfold cleanup. destruct (sc_cleanup_reset S); reflexivity.
    - unfold cleanup. destruct (sc_cleanup_reset S); reflexivity.
  Qed.

  (* converse of [exit_status_is_comparison_run]: the tool ends with an exit status (rather than a traceback) only
     when every reset succeeded and both runs were launched, and the status is then the comparison run's - so a
     missing, failing or interrupted step is never reported as a clean comparison.  Guard: no exception class raised
     by the first run is among the handled ones (CalledProcessError is delivered as an exit status, not as a raise). *)
  Theorem exit_code_sound (S : scenario) c :
    (forall e, sc_run1 S = Raised e -> handled F e = false) ->
    snd (run_tool commit F cur parent wr S) = ExitCode c ->
    sc_reset1 S = ResetDone /\ sc_reset2 S = ResetDone /\ sc_cleanup_reset S = ResetDone /\
    (exists c1, sc_run1 S = Exited c1) /\ sc_run2 S = Exited c.
  Proof.
    intros Hh. unfold run_tool, body, cleanup.
    destruct (sc_reset1 S); [|destruct (tf_cleanup_in_finally F); destruct (sc_cleanup_reset S); simpl; discriminate].
    destruct (sc_run1 S) as [c1|e1].
    - destruct (sc_reset2 S); [|destruct (tf_cleanup_in_finally F); destruct (sc_cleanup_reset S); simpl; discriminate].
      destruct (sc_run2 S) as [c2|e2].
      + destruct (sc_cleanup_reset S); simpl; [|discriminate].
        intro H. injection H as ->. repeat split; eauto.
      + destruct (tf_cleanup_in_finally F); destruct (sc_cleanup_reset S); simpl; discriminate.
    - rewrite (Hh e1 eq_refl).
      destruct (tf_cleanup_in_finally F); destruct (sc_cleanup_reset S); simpl; discriminate.
  Qed.

  (* the report file exists afterwards only if the comparison run completed with status 0 or 1 *)
  Theorem report_only_from_comparison_run (S : scenario) :
    rs_report (fst (run_tool commit F cur parent wr S)) = true ->
    sc_run2 S = Exited 0%Z \/ sc_run2 S = Exited 1%Z.
  Proof.
    unfold run_tool, body, cleanup.
    destruct (sc_reset1 S); [|destruct (tf_cleanup_in_finally F); destruct (sc_cleanup_reset S); simpl; discriminate].
    destruct (sc_run1 S) as [c1|c1].
    - destruct (sc_reset2 S); [|destruct (tf_cleanup_in_finally F); destruct (sc_cleanup_reset S); simpl; discriminate].
      destruct (sc_run2 S) as [c2|c2].
      + assert (G : (wr && (Z.eqb c2 0 || Z.eqb c2 1))%bool = true -> Exited c2 = Exited 0%Z \/ Exited c2 = Exited 1%Z).
        { intro H. apply andb_true_iff in H as [_ H]. apply orb_true_iff in H as [H|H]; apply Z.eqb_eq in H; subst; auto. }
        destruct (sc_cleanup_reset S); simpl; exact G.
      + destruct (tf_cleanup_in_finally F); destruct (sc_cleanup_reset S); simpl; discriminate.
    - destruct (handled F c1); [destruct (sc_cleanup_reset S); simpl; discriminate|].
      destruct (tf_cleanup_in_finally F); destruct (sc_cleanup_reset S); simpl; discriminate.
  Qed.
End P.

(* without the finally, a subprocess that cannot be launched leaves the branch on the parent commit and
   the temporary directory behind (the witness the instance obligation is checked against) *)
Definition witness : scenario :=
  Scenario ResetDone (Raised (s2p "FileNotFoundError")) ResetDone (Exited 0) ResetDone.

Theorem not_restored_without_finally supers handled_l :
  handled (ToolFacts false handled_l supers) (s2p "FileNotFoundError") = false ->
  let r := run_tool nat (ToolFacts false handled_l supers) 1 0 false witness in
  rs_head (fst r) = 0 /\ rs_tmpdir (fst r) = true.
Proof.
  intro H. unfold run_tool, body, witness. cbn [sc_reset1 sc_run1]. rewrite H. cbn. split; reflexivity.
Qed.
