(* Position-equivariance of the "secrets" plugin family (B103 - B108): none of these checks sets a line
   number or a line range on the issue it returns, and none looks at a position of the tree. *)
From Coq Require Import List NArith ZArith Bool String Lia.
From Bandit Require Import Base.PyStr Ast.Node Engine.Types Engine.Resolve Engine.Context Engine.Linerange
     Engine.Scan Engine.Shift Regex.Regex Gen.Regexes Plugins.Secrets Proofs.ShiftFacts Proofs.ShiftContext.
Import ListNotations.
Local Open Scope string_scope.
Local Open Scope list_scope.

Section S.
  Variable at_ : Z.
  Variable ins : list pstr.
  Notation sh_node := (sh_node at_ ins).
  Notation sh_ctx := (sh_ctx at_ ins).
  Notation sh_res := (sh_res at_ ins).
  Notation sh_ri := (sh_ri at_ ins).
  Notation sh_pyval := (sh_pyval at_ ins).

  (* ---------- results ---------- *)
  Lemma sh_res_Ok o : sh_res (Ok o) = Ok (option_map sh_ri o).
  Proof. destruct o; reflexivity. Qed.
  Lemma sh_res_bind {A} (r : res A) (k : A -> res (option rissue)) :
    sh_res (bind r k) = bind r (fun x => sh_res (k x)).
  Proof. destruct r; reflexivity. Qed.

  (* ---------- the issues of this family carry no position ---------- *)
  Lemma pw_report_sh s : sh_ri (pw_report s) = pw_report s.
  Proof. reflexivity. Qed.
  Lemma tmp_issue_sh : sh_ri tmp_issue = tmp_issue.
  Proof. reflexivity. Qed.
  Lemma bind_all_issue_sh : sh_ri bind_all_issue = bind_all_issue.
  Proof. reflexivity. Qed.
  Lemma chmod_issue_sh m fn : sh_ri (chmod_issue m fn) = chmod_issue m fn.
  Proof. reflexivity. Qed.

  (* ---------- B105 hardcoded_password_string ---------- *)
  Lemma node_s_text_sh n : node_s_text (sh_node n) = node_s_text n.
  Proof. unfold node_s_text. rewrite (const_of_sh at_ ins). reflexivity. Qed.
  Lemma node_s_search_sh n : node_s_search (sh_node n) = node_s_search n.
  Proof. unfold node_s_search. rewrite (const_of_sh at_ ins). reflexivity. Qed.

  Lemma targ_matches_sh t : targ_matches (sh_node t) = targ_matches t.
  Proof.
    unfold targ_matches. rewrite !(is_cls_sh at_ ins), (name_id_sh at_ ins), (attr_of_sh at_ ins). reflexivity.
  Qed.

  Lemma pw_assign_branch_sh node parent :
    pw_assign_branch (sh_node node) (sh_node parent) = sh_res (pw_assign_branch node parent).
  Proof.
    unfold pw_assign_branch. rewrite (field_list_sh at_ ins), existsb_map'.
    rewrite (existsb_ext' _ targ_matches) by exact targ_matches_sh.
    rewrite node_s_text_sh.
    destruct (existsb targ_matches (field_list "targets" parent)); [|reflexivity].
    destruct (node_s_text node); reflexivity.
  Qed.

  Lemma pw_assigned_value_sh a : pw_assigned_value (sh_node a) = pw_assigned_value a.
  Proof.
    unfold pw_assigned_value. rewrite (is_cls_sh at_ ins), (field_sh at_ ins), (str_of_sh at_ ins). reflexivity.
  Qed.
  Lemma pw_assigned_value_fix a : option_map sh_ri (pw_assigned_value a) = pw_assigned_value a.
  Proof.
    unfold pw_assigned_value. destruct (is_cls "Assign" a); [|reflexivity].
    destruct (str_of (field "value" a)); reflexivity.
  Qed.

  Lemma ancestor_sh k c : ancestor k (sh_ctx c) = map_res sh_node (ancestor k c).
  Proof.
    unfold ancestor. rewrite (c_parents_sh at_ ins). unfold sh_ps. rewrite nth_error_map.
    destruct (nth_error (c_parents c) k) as [[p s]|]; reflexivity.
  Qed.

  Lemma pw_subscript_branch_sh k c : pw_subscript_branch k (sh_ctx c) = sh_res (pw_subscript_branch k c).
  Proof.
    unfold pw_subscript_branch. rewrite ancestor_sh.
    destruct (ancestor k c) as [a|e]; [|reflexivity]. cbn [map_res bind].
    rewrite pw_assigned_value_sh, sh_res_Ok, pw_assigned_value_fix. reflexivity.
  Qed.

  Lemma pw_compare_first_sh comp : pw_compare_first (sh_node comp) = sh_res (pw_compare_first comp).
  Proof.
    unfold pw_compare_first. rewrite (field_list_sh at_ ins).
    destruct (field_list "comparators" comp) as [|c0 t]; [reflexivity|]. cbn [map].
    rewrite (str_of_sh at_ ins). destruct (str_of c0); reflexivity.
  Qed.

  Lemma pw_compare_branch_sh comp : pw_compare_branch (sh_node comp) = sh_res (pw_compare_branch comp).
  Proof.
    unfold pw_compare_branch. cbv zeta.
    rewrite (field_sh at_ ins), !(is_cls_sh at_ ins), (name_id_sh at_ ins), (attr_of_sh at_ ins), pw_compare_first_sh.
    destruct (is_cls "Name" (field "left" comp)).
    - destruct (is_candidate (name_id (field "left" comp))); reflexivity.
    - destruct (is_cls "Attribute" (field "left" comp)); [|reflexivity].
      destruct (is_candidate (attr_of (field "left" comp))); reflexivity.
  Qed.

  Lemma hardcoded_password_string_shift cfg c :
    hardcoded_password_string cfg (sh_ctx c) = sh_res (hardcoded_password_string cfg c).
  Proof.
    unfold hardcoded_password_string. cbv zeta. rewrite ancestor_sh, (c_node_sh at_ ins).
    destruct (ancestor 0 c) as [p|e]; [|reflexivity]. cbn [map_res bind].
    rewrite !(is_cls_sh at_ ins), node_s_search_sh.
    destruct (is_cls "Assign" p); [apply pw_assign_branch_sh|].
    destruct (if is_cls "Subscript" p then node_s_search (c_node c) else Ok false) as [[|]|e]; cbn [bind];
      [apply pw_subscript_branch_sh | | reflexivity].
    destruct (if is_cls "Index" p then node_s_search (c_node c) else Ok false) as [[|]|e]; cbn [bind];
      [apply pw_subscript_branch_sh | | reflexivity].
    destruct (is_cls "Compare" p); [apply pw_compare_branch_sh | reflexivity].
  Qed.

  (* ---------- B106 hardcoded_password_funcarg ---------- *)
  Lemma kw_hit_sh kw : kw_hit (sh_node kw) = kw_hit kw.
  Proof. unfold kw_hit. rewrite (field_sh at_ ins), (str_of_sh at_ ins), (kw_arg_sh at_ ins). reflexivity. Qed.

  Lemma funcarg_scan_sh kws : funcarg_scan (map sh_node kws) = funcarg_scan kws.
  Proof.
    induction kws as [|kw t IH]; [reflexivity|]. cbn [map funcarg_scan]. rewrite kw_hit_sh, IH. reflexivity.
  Qed.
  Lemma funcarg_scan_fix kws : option_map sh_ri (funcarg_scan kws) = funcarg_scan kws.
  Proof.
    induction kws as [|kw t IH]; [reflexivity|]. cbn [funcarg_scan]. destruct (kw_hit kw); [reflexivity | exact IH].
  Qed.

  Lemma hardcoded_password_funcarg_shift cfg c :
    hardcoded_password_funcarg cfg (sh_ctx c) = sh_res (hardcoded_password_funcarg cfg c).
  Proof.
    unfold hardcoded_password_funcarg.
    rewrite (c_node_sh at_ ins), (field_list_sh at_ ins), funcarg_scan_sh, sh_res_Ok, funcarg_scan_fix. reflexivity.
  Qed.

  (* ---------- B107 hardcoded_password_default ---------- *)
  Lemma map_repeat_None {A B} (f : A -> B) n : map (option_map f) (repeat None n) = repeat None n.
  Proof. induction n as [|n IH]; [reflexivity|]. cbn [repeat map option_map]. rewrite IH. reflexivity. Qed.

  Lemma pad_defaults_sh params defaults :
    pad_defaults (map sh_node params) (map sh_node defaults) = map (option_map sh_node) (pad_defaults params defaults).
  Proof. unfold pad_defaults. rewrite !map_length, map_app, map_repeat_None, !map_map. reflexivity. Qed.

  Lemma is_none_constant_sh v : is_none_constant (sh_node v) = is_none_constant v.
  Proof. unfold is_none_constant. rewrite (const_of_sh at_ ins). reflexivity. Qed.

  Lemma default_scan_sh l :
    default_scan (map (fun e : node * option node => (sh_node (fst e), option_map sh_node (snd e))) l)
    = sh_res (default_scan l).
  Proof.
    induction l as [|[key val] t IH]; [reflexivity|]. cbn [map fst snd default_scan].
    rewrite !(is_cls_sh at_ ins).
    destruct (is_cls "Name" key || is_cls "arg" key); [|exact IH].
    destruct val as [v|]; cbn [option_map]; [|exact IH].
    rewrite is_none_constant_sh, (str_of_sh at_ ins), (field_opt_sh at_ ins).
    destruct (is_none_constant v); [exact IH|].
    destruct (str_of v) as [s|]; [|exact IH].
    destruct (field_opt "arg" key) as [a|]; [|reflexivity].
    destruct a as [c' p' fs'| l' | k | a | z |]; try reflexivity.
    cbn [option_map Shift.sh_node]. destruct (is_candidate a); [reflexivity | exact IH].
  Qed.

  Lemma hardcoded_password_default_shift cfg c :
    hardcoded_password_default cfg (sh_ctx c) = sh_res (hardcoded_password_default cfg c).
  Proof.
    unfold hardcoded_password_default. rewrite (c_node_sh at_ ins), (field_opt_sh at_ ins).
    destruct (field_opt "args" (c_node c)) as [a|]; [|reflexivity]. cbn [option_map]. cbv zeta.
    rewrite !(field_list_sh at_ ins), <- map_app, pad_defaults_sh, combine_map'. apply default_scan_sh.
  Qed.

  (* ---------- B108 hardcoded_tmp_directory ---------- *)
  Lemma hardcoded_tmp_directory_shift cfg c :
    hardcoded_tmp_directory cfg (sh_ctx c) = sh_res (hardcoded_tmp_directory cfg c).
  Proof.
    unfold hardcoded_tmp_directory. rewrite (c_str_sh at_ ins).
    destruct (tmp_dirs_of cfg) as [dirs|e]; [|reflexivity]. cbn [bind].
    destruct (iter_jv dirs) as [l|e]; [|reflexivity]. cbn [bind].
    destruct (any_startswith (c_str c) l) as [[|]|e]; reflexivity.
  Qed.

  (* ---------- B104 hardcoded_bind_all_interfaces ---------- *)
  Lemma hardcoded_bind_all_interfaces_shift cfg c :
    hardcoded_bind_all_interfaces cfg (sh_ctx c) = sh_res (hardcoded_bind_all_interfaces cfg c).
  Proof.
    unfold hardcoded_bind_all_interfaces. rewrite (c_str_sh at_ ins).
    destruct (c_str c) as [s|]; [|reflexivity]. destruct (pstr_eqb s all_interfaces); reflexivity.
  Qed.

  (* ---------- B103 set_bad_file_permissions ---------- *)
  (* '%s' % v renders a non-empty container as a marker and an empty one by its shape: neither looks
     inside a dict, which is the only place a value holds AST nodes *)
  Lemma pyval_str_sh v : pyval_str (sh_pyval v) = pyval_str v.
  Proof. destruct v as [ | | | | | | l | l | l | kv ]; try reflexivity; destruct l || destruct kv; reflexivity. Qed.

  Lemma chmod_filename_sh c : chmod_filename (sh_ctx c) = chmod_filename c.
  Proof.
    unfold chmod_filename. rewrite (get_call_arg_at_position_sh at_ ins), bind_map_res.
    apply bind_ext. intro v.
    destruct v as [ | | | | | | l | l | l | kv ]; try reflexivity; destruct l || destruct kv; reflexivity.
  Qed.

  Lemma chmod_check_mode_sh c : chmod_check_mode (sh_ctx c) = sh_res (chmod_check_mode c).
  Proof.
    unfold chmod_check_mode. rewrite (get_call_arg_at_position_sh at_ ins), bind_map_res, sh_res_bind.
    apply bind_ext. intro mode. rewrite chmod_filename_sh.
    destruct mode as [ | m | | | | | l | l | l | kv ]; try reflexivity.
    cbn [ShiftContext.sh_pyval]. destruct (stat_is_dangerous m); [|reflexivity].
    destruct (chmod_filename c); reflexivity.
  Qed.

  Lemma set_bad_file_permissions_shift cfg c :
    set_bad_file_permissions cfg (sh_ctx c) = sh_res (set_bad_file_permissions cfg c).
  Proof.
    unfold set_bad_file_permissions. rewrite (c_name_sh at_ ins), (call_args_count_sh at_ ins).
    destruct (c_name c) as [nm|]; [|reflexivity].
    destruct (contains nm chmod_name); [|reflexivity].
    destruct (call_args_count c) as [[|[|[|n]]]|]; try reflexivity. apply chmod_check_mode_sh.
  Qed.

  (* ---------- the family ---------- *)
  Theorem secrets_plugins_equiv :
    Forall (fun p => forall cfg c, pl_fn p cfg (sh_ctx c) = sh_res (pl_fn p cfg c)) secrets_plugins.
  Proof.
    unfold secrets_plugins. repeat constructor; intros cfg c; cbn [pl_fn].
    - apply set_bad_file_permissions_shift.
    - apply hardcoded_bind_all_interfaces_shift.
    - apply hardcoded_password_string_shift.
    - apply hardcoded_password_funcarg_shift.
    - apply hardcoded_password_default_shift.
    - apply hardcoded_tmp_directory_shift.
  Qed.
End S.
