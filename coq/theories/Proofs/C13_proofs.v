From Coq Require Import List NArith ZArith Bool String Lia.
From Bandit Require Import Base.PyStr Engine.Types Engine.Scan Manager.TestSet Cli.Config Proofs.PyStrFacts.
Import ListNotations.

(* ---------- a comma-joined list of ids splits back into the ids ---------- *)
Definition comma_free (s : pstr) : Prop := ~ In comma s.

Lemma split_on_aux_nocomma s : forall cur, comma_free s -> split_on_aux comma s cur = [rev cur ++ s].
Proof.
  induction s as [|x s IH]; intros cur H; simpl.
  - rewrite app_nil_r. reflexivity.
  - destruct (N.eqb x comma) eqn:E; [apply N.eqb_eq in E; exfalso; apply H; left; auto|].
    rewrite IH by (intro Hc; apply H; right; exact Hc). simpl. rewrite <- app_assoc. reflexivity.
Qed.

Lemma split_on_aux_app s : forall cur rest, comma_free s ->
  split_on_aux comma (s ++ comma :: rest) cur = (rev cur ++ s) :: split_on_aux comma rest [].
Proof.
  induction s as [|x s IH]; intros cur rest H; simpl.
  - rewrite app_nil_r. reflexivity.
  - destruct (N.eqb x comma) eqn:E; [apply N.eqb_eq in E; exfalso; apply H; left; auto|].
    rewrite IH by (intro Hc; apply H; right; exact Hc). simpl. rewrite <- app_assoc. reflexivity.
Qed.

Theorem split_join ids : ids <> [] -> Forall comma_free ids -> split_on comma (join [comma] ids) = ids.
Proof.
  unfold split_on. induction ids as [|a t IH]; intros Hne Hf; [contradiction|].
  inversion Hf as [|? ? Ha Ht]; subst. destruct t as [|b t'].
  - simpl. rewrite split_on_aux_nocomma by exact Ha. reflexivity.
  - change (join [comma] (a :: b :: t')) with (a ++ comma :: join [comma] (b :: t')).
    rewrite split_on_aux_app by exact Ha. simpl rev. simpl app. f_equal. apply IH; [discriminate | exact Ht].
Qed.

(* ---------- the same selection through YAML/TOML, the ini file or the command line ---------- *)
Definition yaml_cfg (tests skips : list pstr) : list (pstr * jv) :=
  [(s2p "tests", JList (map JStr tests)); (s2p "skips", JList (map JStr skips))].
Definition arg_of (ids : list pstr) : option pstr := match ids with [] => None | _ => Some (join [comma] ids) end.

Lemma yaml_ids_map k ids rest : yaml_ids ((s2p k, JList (map JStr ids)) :: rest) k = ids.
Proof.
  unfold yaml_ids. simpl. rewrite pstr_eqb_refl. induction ids; simpl; [reflexivity | f_equal; assumption].
Qed.

Lemma cli_ids_arg ids : Forall comma_free ids -> Forall (fun s => s <> []) ids -> cli_ids (arg_of ids) = ids.
Proof.
  intros Hc Hn. unfold arg_of. destruct ids as [|a t]; [reflexivity|].
  unfold cli_ids. destruct (join [comma] (a :: t)) as [|c s] eqn:E.
  - exfalso. inversion Hn; subst. destruct t; simpl in E; [congruence | destruct a; [congruence | discriminate]].
  - rewrite <- E. apply split_join; [discriminate | exact Hc].
Qed.

Theorem carriers_agree tests skips :
  Forall comma_free tests -> Forall (fun s => s <> []) tests ->
  Forall comma_free skips -> Forall (fun s => s <> []) skips ->
  let by_yaml := effective_selection (yaml_cfg tests skips) None None None None in
  let by_cli := effective_selection [] (arg_of tests) (arg_of skips) None None in
  let by_ini := effective_selection [] None None (arg_of tests) (arg_of skips) in
  (sel_inc by_cli = sel_inc by_yaml /\ sel_exc by_cli = sel_exc by_yaml) /\
  (sel_inc by_ini = sel_inc by_yaml /\ sel_exc by_ini = sel_exc by_yaml).
Proof.
  intros H1 H2 H3 H4. unfold effective_selection, yaml_cfg. cbn [sel_inc sel_exc].
  assert (Y1 : yaml_ids [(s2p "tests", JList (map JStr tests)); (s2p "skips", JList (map JStr skips))] "tests" = tests)
    by (apply (yaml_ids_map "tests")).
  assert (Y2 : yaml_ids [(s2p "tests", JList (map JStr tests)); (s2p "skips", JList (map JStr skips))] "skips" = skips).
  { unfold yaml_ids. cbn [assoc]. replace (pstr_eqb (s2p "skips") (s2p "tests")) with false by (vm_compute; reflexivity).
    rewrite pstr_eqb_refl. clear. induction skips; simpl; [reflexivity | f_equal; assumption]. }
  rewrite Y1, Y2.
  assert (E : forall a, option_source a None = match a with Some (c :: s) => Some (c :: s) | _ => None end) by (intros [[|? ?]|]; reflexivity).
  assert (E2 : forall a, option_source None a = match a with Some (c :: s) => Some (c :: s) | _ => None end) by (intros [[|? ?]|]; reflexivity).
  assert (C : forall ids, Forall comma_free ids -> Forall (fun s => s <> []) ids ->
              cli_ids (match arg_of ids with Some (c :: s) => Some (c :: s) | _ => None end) = ids).
  { intros ids Hc Hn. rewrite <- (cli_ids_arg ids Hc Hn) at 2. destruct (arg_of ids) as [[|? ?]|]; reflexivity. }
  rewrite !E, !E2. cbn [yaml_ids assoc app]. rewrite !C by assumption. rewrite !app_nil_r. repeat split.
Qed.

(* ---------- plugin settings ---------- *)
(* a config that spells out every plugin's defaults is the same as no config *)
Theorem generator_neutral defaults key :
  effective_cfg defaults defaults key = effective_cfg defaults [] key.
Proof.
  unfold effective_cfg. destruct key as [k|]; [|reflexivity]. simpl.
  destruct (assoc k defaults) as [v|]; [destruct v; reflexivity | reflexivity].
Qed.

(* keys the test set never looks up (e.g. the generator's per-plugin-name sections) change nothing *)
Theorem unrelated_keys_ignored defaults cfg extra key k :
  key = Some k -> assoc k extra = None ->
  effective_cfg defaults (extra ++ cfg) key = effective_cfg defaults cfg key.
Proof.
  intros -> H. unfold effective_cfg.
  assert (G : forall l, assoc k l = None -> assoc k (l ++ cfg) = assoc k cfg).
  { induction l as [|[k' v] t IHl]; simpl; [reflexivity|]. destruct (pstr_eqb k k'); [discriminate | exact IHl]. }
  rewrite (G extra H). reflexivity.
Qed.

(* settings given for one plugin replace that plugin's defaults only *)
Theorem settings_local defaults cfg k v k' :
  k <> k' -> effective_cfg defaults (assoc_set k v cfg) (Some k') = effective_cfg defaults cfg (Some k').
Proof.
  intro H. unfold effective_cfg. rewrite assoc_set_other by congruence. reflexivity.
Qed.

Theorem settings_take_effect defaults cfg k v :
  v <> JNull -> effective_cfg defaults (assoc_set k v cfg) (Some k) = v.
Proof.
  intro H. unfold effective_cfg. rewrite assoc_set_same. destruct v; try reflexivity. contradiction.
Qed.

(* ---------- bad configuration ---------- *)
Definition doc_guard (toml : bool) (d : jv) : bool :=
  match (if toml then toml_section d else d) with JDict kv => profiles_wf kv | _ => true end.

(* an unreadable, unparsable or non-mapping configuration is a ConfigError, never a traceback *)
Theorem bad_config_rejected (toml : bool) (o : load_outcome) :
  (forall d, o = Loaded d -> doc_guard toml d = true) ->
  (exists cfg, init_config toml o = CfgOk cfg) \/ init_config toml o = CfgError.
Proof.
  intro H. destruct o as [| |d]; simpl; auto.
  specialize (H d eq_refl). unfold doc_guard in H.
  destruct (if toml then toml_section d else d) as [| | | | |kv]; auto.
  destruct (negb (core_keys_ok kv && profiles_shape_ok kv)); [right; reflexivity|].
  rewrite H. destruct (legacy_missing kv); [right; reflexivity | left; eexists; reflexivity].
Qed.

Definition is_mapping (j : jv) : bool := match j with JDict _ => true | _ => false end.
Theorem non_mapping_rejected (toml : bool) (d : jv) :
  is_mapping (if toml then toml_section d else d) = false -> init_config toml (Loaded d) = CfgError.
Proof. simpl. destruct (if toml then toml_section d else d); simpl; intro H; try reflexivity; discriminate. Qed.

Theorem unreadable_rejected (toml : bool) : init_config toml OpenFails = CfgError /\ init_config toml ParseFails = CfgError.
Proof. split; reflexivity. Qed.
