(* Inserting lines commutes with the whole scan of a file: tester, visit_one, generic_visit, process. *)
From Coq Require Import List NArith ZArith Bool String Lia.
From Bandit Require Import Base.PyStr Ast.Node Engine.Types Engine.Resolve Engine.Linerange Engine.Tester
     Engine.Visitor Engine.Shift Proofs.PyStrFacts Proofs.VisitorFacts Proofs.ShiftFacts.
Import ListNotations.
Local Open Scope string_scope.
Local Open Scope list_scope.
Local Open Scope Z_scope.

Section Visitor.
  Variable at_ : Z.
  Variable ins : list pstr.
  Hypothesis Hat : 1 <= at_.
  Hypothesis Hk : k_ ins < line_bound.
  Notation sh := (sh at_ ins).
  Notation sh_node := (sh_node at_ ins).
  Notation sh_range := (sh_range at_ ins).
  Notation sh_ctx := (sh_ctx at_ ins).
  Notation sh_ts := (sh_ts at_ ins).
  Notation sh_st := (sh_st at_ ins).
  Notation sh_env := (sh_env at_ ins).
  Notation sh_ps := (sh_ps at_ ins).
  Notation sh_finding := (sh_finding at_ ins).

  (* ---------- tester ---------- *)
  Lemma fill_defaults_sh t c r :
    fill_defaults t (sh_ctx c) (sh_ri at_ ins r) = sh_finding (fill_defaults t c r).
  Proof.
    unfold fill_defaults, Shift.sh_finding. cbn [Shift.sh_ctx Shift.sh_ri ri_test_id ri_sev ri_conf ri_cwe ri_text ri_lineno ri_linerange ri_col
      c_lineno c_linerange c_col c_ecol f_test_id f_test f_sev f_conf f_cwe f_text f_lineno f_linerange f_col f_ecol].
    f_equal.
    - destruct (ri_lineno r); [reflexivity|]. destruct (c_lineno c); [reflexivity|]. cbn [option_map]. symmetry. apply sh_0. exact Hat.
    - destruct (ri_linerange r); reflexivity.
  Qed.

  Lemma score_one_sh K f sc : score_one K (sh_finding f) sc = score_one K f sc.
  Proof. reflexivity. Qed.

  Definition sh_acc (a : tstate * scores) : tstate * scores := (sh_ts (fst a), snd a).

  Lemma run_one_sh K m c t acc :
    t_equiv at_ ins t -> nosec_pos m -> good_range (c_linerange c) ->
    run_one K (sh_nosec at_ ins m) (sh_ctx c) t (sh_acc acc) = sh_acc (run_one K m c t acc).
  Proof.
    intros Ht Hm Hl. destruct acc as [st sc]. unfold run_one, sh_acc. cbn [fst snd].
    rewrite Ht. destruct (t_fn t c) as [[r|]|e]; cbn [sh_res].
    - replace (c_linerange (sh_ctx c)) with (sh_range (c_linerange c)) by reflexivity.
      replace (ri_lineno (sh_ri at_ ins r)) with (option_map sh (ri_lineno r)) by reflexivity.
      rewrite nosecs_from_contexts_sh by assumption. rewrite fill_defaults_sh, score_one_sh.
      set (f := fill_defaults t c r).
      assert (Keep : forall (b : tstate * scores), True) by (intros; exact I).
      destruct (nosecs_from_contexts m (c_linerange c) (ri_lineno r)) as [[|i ids]|].
      + unfold Shift.sh_ts. cbn [ts_results ts_nosec ts_skipped ts_errors ts_all fst snd]. rewrite map_app. reflexivity.
      + replace (f_test_id (sh_finding f)) with (f_test_id f) by reflexivity.
        destruct (mem_pstr (f_test_id f) (i :: ids)).
        * unfold Shift.sh_ts. cbn [ts_results ts_nosec ts_skipped ts_errors ts_all fst snd]. rewrite map_app. reflexivity.
        * destruct (score_one K f sc); unfold Shift.sh_ts; cbn [ts_results ts_nosec ts_skipped ts_errors ts_all fst snd]; rewrite !map_app; reflexivity.
      + destruct (score_one K f sc); unfold Shift.sh_ts; cbn [ts_results ts_nosec ts_skipped ts_errors ts_all fst snd]; rewrite !map_app; reflexivity.
    - reflexivity.
    - reflexivity.
  Qed.

  Lemma run_tests_sh K tests m c ct st :
    Forall (t_equiv at_ ins) tests -> nosec_pos m -> (tests_for tests ct = [] \/ good_range (c_linerange c)) ->
    run_tests K tests (sh_nosec at_ ins m) (sh_ctx c) ct (sh_ts st) = sh_acc (run_tests K tests m c ct st).
  Proof.
    intros Ht Hm Hl. unfold run_tests.
    assert (Hf : Forall (t_equiv at_ ins) (tests_for tests ct)).
    { unfold tests_for. rewrite Forall_forall in *. intros t Hin. apply filter_In in Hin. apply Ht. tauto. }
    destruct Hl as [Hl|Hl]; [rewrite Hl; reflexivity|].
    change (sh_ts st, zero_scores K) with (sh_acc (st, zero_scores K)).
    generalize (st, zero_scores K). induction Hf as [|t ts Ht1 Hts IH]; intro acc; [reflexivity|].
    cbn [fold_left]. rewrite run_one_sh by assumption. apply IH.
  Qed.

  Lemma with_tests_sh E c ct st :
    Forall (t_equiv at_ ins) (e_tests E) -> nosec_pos (e_nosec E) ->
    (tests_for (e_tests E) ct = [] \/ good_range (c_linerange c)) ->
    with_tests (sh_env E) (sh_ctx c) ct (sh_st st) = sh_st (with_tests E c ct st).
  Proof.
    intros Ht Hm Hl. unfold with_tests. cbn [Shift.sh_env e_consts e_tests e_nosec Shift.sh_st v_tester v_imports v_aliases v_scores].
    rewrite run_tests_sh by assumption. unfold sh_acc. destruct (run_tests (e_consts E) (e_tests E) (e_nosec E) c ct (v_tester st)) as [ts sc].
    reflexivity.
  Qed.

  (* ---------- visit_one ---------- *)
  Variable tested : string -> bool.

  Definition is_text (n : node) : bool :=
    match const_of n with Some (CStr _) | Some (CBytes _) => true | _ => false end.

  (* what a string constant needs from its parent: the parent's range is a run of real lines and shifts *)
  Definition parent_ok (n : node) (ps : list (node * node)) : Prop :=
    match ps with
    | (p, psib) :: _ =>
        is_text n = true ->
        linerange (sh_node p) (sh_node psib) = sh_range (linerange p psib) /\ real_range (linerange p psib)
    | [] => True
    end.

  Lemma here_facts n sib :
    wf_tree tested n = true -> wf_here tested n sib = true ->
    linerange (sh_node n) (sh_node sib) = sh_range (linerange n sib)
    /\ (real_range (linerange n sib)
        \/ (tested (cls_of n) = false /\ special_cls (cls_of n) = false /\ has_text_child n = false)).
  Proof.
    intros W H. unfold wf_here in H.
    assert (Hs : pos_of n = None -> lineno_of sib = None).
    { intro E. rewrite E in H. destruct (lineno_of sib); [discriminate | reflexivity]. }
    destruct (linerange_sh at_ ins Hk tested n sib W Hs) as [L [R|[Ep Ed]]]; split; try exact L; [left; exact R|].
    rewrite Ep in H. apply andb_true_iff in H as [_ H]. apply orb_true_iff in H as [H|H].
    - rewrite Ed in H. discriminate.
    - right. repeat (apply andb_true_iff in H as [H ?]). repeat split; apply negb_true_iff; assumption.
  Qed.

  Lemma base_ctx_sh E n ps sib st :
    linerange (sh_node n) (sh_node sib) = sh_range (linerange n sib) ->
    base_ctx (sh_env E) (sh_node n) (sh_ps ps) (sh_node sib) (sh_st st) = sh_ctx (base_ctx E n ps sib st).
  Proof.
    intro L. unfold base_ctx, Shift.sh_ctx. cbn [c_node c_parents c_sibling c_imports c_aliases c_lineno c_col c_ecol c_linerange c_call
      c_qualname c_name c_module c_str c_bytes c_function c_filename c_lines Shift.sh_st v_imports v_aliases Shift.sh_env e_fname e_lines option_map].
    rewrite L, pos_of_sh. destruct (pos_of n); reflexivity.
  Qed.

  Lemma do_import_sh names : forall acc,
    fold_left (fun acc a =>
                 let st := fst acc in
                 let al := match alias_asname a with
                           | Some asn => assoc_set asn (alias_name a) (v_aliases st)
                           | None => v_aliases st
                           end in
                 (VState (set_add (alias_name a) (v_imports st)) al (v_tester st) (v_scores st), Some (alias_name a)))
              (map sh_node names) (sh_st (fst acc), snd acc)
    = (fun r => (sh_st (fst r), snd r))
        (fold_left (fun acc a =>
                 let st := fst acc in
                 let al := match alias_asname a with
                           | Some asn => assoc_set asn (alias_name a) (v_aliases st)
                           | None => v_aliases st
                           end in
                 (VState (set_add (alias_name a) (v_imports st)) al (v_tester st) (v_scores st), Some (alias_name a)))
              names acc).
  Proof.
    induction names as [|a t IH]; intro acc; [reflexivity|]. cbn [map fold_left].
    rewrite alias_name_sh, alias_asname_sh. cbn [fst snd].
    match goal with |- fold_left _ _ ?X = _ => change X with (sh_st (fst
      (VState (set_add (alias_name a) (v_imports (fst acc)))
              match alias_asname a with Some asn => assoc_set asn (alias_name a) (v_aliases (fst acc)) | None => v_aliases (fst acc) end
              (v_tester (fst acc)) (v_scores (fst acc)), Some (alias_name a))),
      snd (VState (set_add (alias_name a) (v_imports (fst acc)))
              match alias_asname a with Some asn => assoc_set asn (alias_name a) (v_aliases (fst acc)) | None => v_aliases (fst acc) end
              (v_tester (fst acc)) (v_scores (fst acc)), Some (alias_name a))) end.
    apply IH.
  Qed.

  Lemma do_import_from_sh module names : forall acc,
    fold_left (fun acc a =>
                 let st := fst acc in
                 let full := module ++ [dot] ++ alias_name a in
                 let key := match alias_asname a with Some asn => asn | None => alias_name a end in
                 (VState (set_add full (v_imports st)) (assoc_set key full (v_aliases st)) (v_tester st) (v_scores st),
                  Some (alias_name a)))
              (map sh_node names) (sh_st (fst acc), snd acc)
    = (fun r => (sh_st (fst r), snd r))
        (fold_left (fun acc a =>
                 let st := fst acc in
                 let full := module ++ [dot] ++ alias_name a in
                 let key := match alias_asname a with Some asn => asn | None => alias_name a end in
                 (VState (set_add full (v_imports st)) (assoc_set key full (v_aliases st)) (v_tester st) (v_scores st),
                  Some (alias_name a)))
              names acc).
  Proof.
    induction names as [|a t IH]; intro acc; [reflexivity|]. cbn [map fold_left].
    rewrite alias_name_sh, alias_asname_sh. cbn [fst snd].
    match goal with |- fold_left _ _ ?X = _ => change X with (sh_st (fst
      (VState (set_add (module ++ [dot] ++ alias_name a) (v_imports (fst acc)))
              (assoc_set match alias_asname a with Some asn => asn | None => alias_name a end (module ++ [dot] ++ alias_name a) (v_aliases (fst acc)))
              (v_tester (fst acc)) (v_scores (fst acc)), Some (alias_name a))),
      snd (VState (set_add (module ++ [dot] ++ alias_name a) (v_imports (fst acc)))
              (assoc_set match alias_asname a with Some asn => asn | None => alias_name a end (module ++ [dot] ++ alias_name a) (v_aliases (fst acc)))
              (v_tester (fst acc)) (v_scores (fst acc)), Some (alias_name a))) end.
    apply IH.
  Qed.

  Ltac solve_special B := unfold special_cls; rewrite B; rewrite ?orb_true_r; reflexivity.

  Lemma visit_one_sh E n ps sib st :
    Forall (t_equiv at_ ins) (e_tests E) -> nosec_pos (e_nosec E) ->
    (forall ct, tested ct = false -> tests_for (e_tests E) ct = []) ->
    wf_tree tested n = true -> wf_here tested n sib = true -> parent_ok n ps ->
    visit_one (sh_env E) (sh_node n) (sh_ps ps) (sh_node sib) (sh_st st) = sh_st (visit_one E n ps sib st).
  Proof.
    intros Ht Hm Hu W H Hp. destruct (here_facts n sib W H) as [L R].
    unfold visit_one. rewrite (base_ctx_sh E n ps sib st L), cls_of_sh, !field_sh, !field_list_sh, const_of_sh.
    set (c := base_ctx E n ps sib st). set (cls := cls_of n) in *.
    assert (G : special_cls cls = true -> good_range (c_linerange c)).
    { intro S. left. destruct R as [R|[_ [R _]]]; [exact R | rewrite R in S; discriminate]. }
    assert (Gg : tests_for (e_tests E) cls = [] \/ good_range (c_linerange c)).
    { destruct R as [R|[R _]]; [right; left; exact R | left; apply Hu; exact R]. }
    assert (Em : match sh_node (field "module" n) with NId _ => true | _ => false end
                 = match field "module" n with NId _ => true | _ => false end) by (destruct (field "module" n); reflexivity).
    assert (Em2 : match sh_node (field "module" n) with NId s => s | _ => [] end
                 = match field "module" n with NId s => s | _ => [] end) by (destruct (field "module" n); reflexivity).
    rewrite Em, Em2.
    destruct (String.eqb cls "Import" || String.eqb cls "ImportFrom" && negb match field "module" n with NId _ => true | _ => false end) eqn:B1.
    { assert (S : special_cls cls = true).
      { apply orb_true_iff in B1 as [B|B]; [solve_special B|]. apply andb_true_iff in B as [B _]. solve_special B. }
      unfold do_import. pose proof (do_import_sh (field_list "names" n) (st, None)) as D. cbn [fst snd] in D. rewrite D. clear D.
      match goal with |- context [fold_left ?f (field_list "names" n) (st, None)] => destruct (fold_left f (field_list "names" n) (st, None)) as [st' m] end.
      cbn [fst snd].
      change (ctx_set_module (set_ctx_state (sh_ctx c) (sh_st st')) m None) with (sh_ctx (ctx_set_module (set_ctx_state c st') m None)).
      apply with_tests_sh; [exact Ht | exact Hm | right; exact (G S)]. }
    destruct (String.eqb cls "ImportFrom") eqn:B2.
    { assert (S : special_cls cls = true) by solve_special B2.
      unfold do_import_from.
      pose proof (do_import_from_sh match field "module" n with NId s => s | _ => [] end (field_list "names" n) (st, None)) as D.
      cbn [fst snd] in D. rewrite D. clear D.
      match goal with |- context [fold_left ?f (field_list "names" n) (st, None)] => destruct (fold_left f (field_list "names" n) (st, None)) as [st' nm] end.
      cbn [fst snd].
      match goal with |- with_tests _ (ctx_set_module _ ?a ?b) _ _ = _ =>
        change (ctx_set_module (set_ctx_state (sh_ctx c) (sh_st st')) a b) with (sh_ctx (ctx_set_module (set_ctx_state c st') a b)) end.
      apply with_tests_sh; [exact Ht | exact Hm | right; exact (G S)]. }
    destruct (String.eqb cls "Call") eqn:B3.
    { assert (S : special_cls cls = true) by solve_special B3.
      cbn [Shift.sh_st v_aliases]. rewrite get_call_name_sh.
      change (ctx_set_call (sh_ctx c) (sh_node n) (get_call_name n (v_aliases st))) with (sh_ctx (ctx_set_call c n (get_call_name n (v_aliases st)))).
      apply with_tests_sh; [exact Ht | exact Hm | right; exact (G S)]. }
    destruct (String.eqb cls "FunctionDef") eqn:B4.
    { assert (S : special_cls cls = true) by solve_special B4.
      destruct (field "name" n) as [c0 p0 f0| | | | |]; cbn [Shift.sh_node];
      match goal with |- with_tests _ (ctx_set_func _ _ ?a) _ _ = _ =>
        change (ctx_set_func (sh_ctx c) (sh_node n) a) with (sh_ctx (ctx_set_func c n a)) end;
      (apply with_tests_sh; [exact Ht | exact Hm | right; exact (G S)]). }
    destruct (String.eqb cls "ClassDef") eqn:B5; [reflexivity|].
    destruct (String.eqb cls "Constant") eqn:B6.
    { destruct (const_of n) as [[| | | | |s|b|]|] eqn:Ec; try reflexivity.
      - destruct ps as [|[p psib] t]; [reflexivity|]. cbn [Shift.sh_ps map fst snd]. rewrite is_cls_sh.
        destruct (is_cls "Expr" p); [reflexivity|].
        assert (Tx : is_text n = true) by (unfold is_text; rewrite Ec; reflexivity).
        destruct (Hp Tx) as [Lp Rp]. rewrite Lp.
        change (ctx_set_str (sh_ctx c) (Some s) None (sh_range (linerange p psib))) with (sh_ctx (ctx_set_str c (Some s) None (linerange p psib))).
        apply with_tests_sh; [exact Ht | exact Hm | right; left; exact Rp].
      - destruct ps as [|[p psib] t]; [reflexivity|]. cbn [Shift.sh_ps map fst snd]. rewrite is_cls_sh.
        destruct (is_cls "Expr" p); [reflexivity|].
        assert (Tx : is_text n = true) by (unfold is_text; rewrite Ec; reflexivity).
        destruct (Hp Tx) as [Lp Rp]. rewrite Lp.
        change (ctx_set_str (sh_ctx c) None (Some b) (sh_range (linerange p psib))) with (sh_ctx (ctx_set_str c None (Some b) (linerange p psib))).
        apply with_tests_sh; [exact Ht | exact Hm | right; left; exact Rp]. }
    apply with_tests_sh; [exact Ht | exact Hm | exact Gg].
  Qed.

  (* ---------- generic_visit ---------- *)
  Section Traversal.
    Variable E : env.
    Hypothesis Ht : Forall (t_equiv at_ ins) (e_tests E).
    Hypothesis Hm : nosec_pos (e_nosec E).
    Hypothesis Hu : forall ct, tested ct = false -> tests_for (e_tests E) ct = [].

    Definition P' (n : node) : Prop :=
      forall sib ps st, wf_tree tested n = true -> wf_here tested n sib = true ->
        generic_visit (sh_env E) (sh_node n) (sh_node sib) (sh_ps ps) (sh_st st) = sh_st (generic_visit E n sib ps st).
    Definition Q (n : node) : Prop := P' n /\ (forall l, n = NList l -> Forall P' l).

    Definition wf_items (its : list node) : bool :=
      (fix goi (is : list node) : bool :=
         match is with
         | [] => true
         | i :: is' =>
             match i with
             | Node _ _ _ => wf_here tested i (match is' with s :: _ => s | [] => NNone end) && wf_tree tested i
             | _ => true
             end && goi is'
         end) its.
    Definition wf_fields (l : list (string * node)) : bool :=
      (fix go (l : list (string * node)) : bool :=
         match l with
         | [] => true
         | (_, v) :: t =>
             match v with
             | Node _ _ _ => wf_here tested v NNone && wf_tree tested v
             | NList its => wf_items its
             | _ => true
             end && go t
         end) l.
    Lemma wf_tree_Node c p fs :
      wf_tree tested (Node c p fs) = (match p with Some q => pos_ok q | None => true end && wf_fields fs).
    Proof. reflexivity. Qed.

    Definition go_fields (E0 : env) (ps : list (node * node)) :=
      fix go (l : list (string * node)) (st : vstate) : vstate :=
        match l with
        | [] => st
        | (_, v) :: t =>
            let st' :=
              match v with
              | Node _ _ _ => generic_visit E0 v NNone ps (visit_one E0 v ps NNone st)
              | NList its => goi_items E0 ps its st
              | _ => st
              end in
            go t st'
        end.
    Lemma generic_visit_Node E0 c p fs sib ps st :
      generic_visit E0 (Node c p fs) sib ps st = go_fields E0 ((Node c p fs, sib) :: ps) fs st.
    Proof. reflexivity. Qed.

    Section Under.
      Variables (n0 sib0 : node) (ps0 : list (node * node)).
      Let ps' := (n0, sib0) :: ps0.
      Hypothesis PO : forall v, In v (child_nodes n0) -> parent_ok v ps'.

      Lemma items_sh_eq its :
        Forall P' its -> wf_items its = true -> incl (filter is_ast its) (child_nodes n0) ->
        forall st, goi_items (sh_env E) (sh_ps ps') (map sh_node its) (sh_st st) = sh_st (goi_items E ps' its st).
      Proof.
        induction 1 as [|i is Hi His IH]; intros W I st; [reflexivity|].
        cbn [map goi_items]. unfold wf_items in W. apply andb_true_iff in W as [Wi Ws]. fold (wf_items is) in Ws.
        assert (I' : incl (filter is_ast is) (child_nodes n0)).
        { intros x Hx. apply I. cbn [filter]. destruct (is_ast i); [right|]; exact Hx. }
        assert (Es : match map sh_node is with s :: _ => s | [] => NNone end = sh_node (match is with s :: _ => s | [] => NNone end))
          by (destruct is; reflexivity).
        rewrite Es.
        destruct i as [c p fs| | | | |]; try (apply IH; assumption).
        apply andb_true_iff in Wi as [Wh Wt].
        assert (POi : parent_ok (Node c p fs) ps') by (apply PO; apply I; cbn [filter is_ast]; left; reflexivity).
        pose proof (visit_one_sh E (Node c p fs) ps' (match is with s :: _ => s | [] => NNone end) st Ht Hm Hu Wt Wh POi) as V.
        rewrite sh_node_Node. cbv iota. rewrite <- (sh_node_Node at_ ins c p fs).
        rewrite <- (IH Ws I'). f_equal. rewrite V. apply Hi; assumption.
      Qed.

      Lemma fields_sh_eq l :
        Forall (fun kv => Q (snd kv)) l -> wf_fields l = true -> incl (child_nodes_of_fields l) (child_nodes n0) ->
        forall st, go_fields (sh_env E) (sh_ps ps') (sh_fields at_ ins l) (sh_st st) = sh_st (go_fields E ps' l st).
      Proof.
        induction 1 as [|[f v] t Hv Hts IH]; intros W I st; [reflexivity|].
        cbn [sh_fields map fst snd go_fields]. fold (sh_fields at_ ins t).
        unfold wf_fields in W. apply andb_true_iff in W as [Wv Ws]. fold (wf_fields t) in Ws.
        assert (I' : incl (child_nodes_of_fields t) (child_nodes n0)).
        { intros x Hx. apply I. unfold child_nodes_of_fields. cbn [flat_map]. apply in_or_app. right. exact Hx. }
        cbn [snd] in Hv. destruct Hv as [Hv1 Hv2].
        destruct v as [c p fs| its | | | |]; try (apply IH; assumption).
        - apply andb_true_iff in Wv as [Wh Wt].
          assert (POv : parent_ok (Node c p fs) ps')
            by (apply PO; apply I; unfold child_nodes_of_fields; cbn [flat_map snd]; left; reflexivity).
          pose proof (visit_one_sh E (Node c p fs) ps' NNone st Ht Hm Hu Wt Wh POv) as V.
          change (sh_node NNone) with NNone in V.
          rewrite sh_node_Node. cbv iota. rewrite <- (sh_node_Node at_ ins c p fs).
          rewrite <- (IH Ws I'). f_equal. rewrite V. apply (Hv1 NNone); assumption.
        - rewrite <- (IH Ws I'). f_equal. cbn [Shift.sh_node]. 
          change ((fix go (l0 : list node) : list node := match l0 with [] => [] | x :: t0 => sh_node x :: go t0 end) its) with (map sh_node its).
          apply items_sh_eq; [apply Hv2; reflexivity | exact Wv|].
          intros x Hx. apply I. unfold child_nodes_of_fields. cbn [flat_map snd]. apply in_or_app. left. exact Hx.
      Qed.
    End Under.

    Lemma text_child_in n v : In v (child_nodes n) -> is_text v = true -> has_text_child n = true.
    Proof. intros Hin Ht'. unfold has_text_child. apply existsb_exists. exists v. split; [exact Hin | exact Ht']. Qed.

    Lemma generic_visit_shQ : forall n, Q n.
    Proof.
      induction n as [c p fs IHfs | l IHl | k0 | s | z | ] using node_ind'; unfold Q, P'.
      - split; [|intros l H; discriminate].
        intros sib ps st W H.
        destruct (here_facts (Node c p fs) sib W H) as [L R].
        rewrite sh_node_Node, !generic_visit_Node. rewrite <- (sh_node_Node at_ ins c p fs).
        change ((sh_node (Node c p fs), sh_node sib) :: sh_ps ps) with (sh_ps ((Node c p fs, sib) :: ps)).
        rewrite wf_tree_Node in W. apply andb_true_iff in W as [_ Wf].
        apply (fields_sh_eq (Node c p fs) sib ps).
        + intros v Hin Tx. split; [exact L|]. destruct R as [R|[_ [_ R]]]; [exact R|].
          rewrite (text_child_in _ _ Hin Tx) in R. discriminate.
        + exact IHfs.
        + exact Wf.
        + intros x Hx. exact Hx.
      - split; [intros sib ps st _ _; reflexivity|].
        intros l' H; inversion H; subst. eapply Forall_impl; [|exact IHl]. intros a [Ha _]. exact Ha.
      - split; [intros sib ps st _ _; reflexivity | intros l H; discriminate].
      - split; [intros sib ps st _ _; reflexivity | intros l H; discriminate].
      - split; [intros sib ps st _ _; reflexivity | intros l H; discriminate].
      - split; [intros sib ps st _ _; reflexivity | intros l H; discriminate].
    Qed.

    Theorem generic_visit_sh n sib ps st :
      wf_tree tested n = true -> wf_here tested n sib = true ->
      generic_visit (sh_env E) (sh_node n) (sh_node sib) (sh_ps ps) (sh_st st) = sh_st (generic_visit E n sib ps st).
    Proof. apply (proj1 (generic_visit_shQ n)). Qed.

    (* ---------- process ---------- *)
    Theorem process_sh module :
      wf_tree tested module = true -> wf_here tested module NNone = true ->
      process (sh_env E) (sh_node module) = sh_st (process E module).
    Proof.
      intros W H. unfold process.
      change (v_init (sh_env E)) with (sh_st (v_init E)).
      pose proof (generic_visit_sh module NNone [] (v_init E) W H) as G. cbn [Shift.sh_ps map Shift.sh_node] in G. rewrite G.
      replace (file_ctx (sh_env E)) with (sh_ctx (file_ctx E))
        by (unfold file_ctx, Shift.sh_ctx; cbn [option_map c_lineno]; rewrite (sh_0 at_ ins Hat); reflexivity).
      apply with_tests_sh; [exact Ht | exact Hm | right; right; reflexivity].
    Qed.
  End Traversal.
End Visitor.
