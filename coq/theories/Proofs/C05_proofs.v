From Coq Require Import List NArith ZArith Bool String Lia.
From Bandit Require Import Base.PyStr Ast.Node Engine.Types Engine.Tables Engine.Tester Engine.Visitor Engine.Scan
     Plugins.Blacklist Manager.TestSet Proofs.PyStrFacts Proofs.VisitorFacts Proofs.VisitPlan Proofs.C01_proofs.
Import ListNotations.

(* ---------- the filter algebra ---------- *)
Lemma remove_id_In x y l : In x (remove_id y l) <-> In x l /\ x <> y.
Proof.
  unfold remove_id. rewrite filter_In. split; intros [H1 H2]; split; auto.
  - apply negb_true_iff in H2. apply pstr_eqb_neq in H2. exact H2.
  - apply negb_true_iff. apply pstr_eqb_neq. exact H2.
Qed.

Definition names_specific (bl s : list pstr) : Prop := exists x, In x s /\ In x bl.

Lemma expand_spec bl s x :
  In x (expand bl s) <->
  (~ In B001 s /\ In x s) \/
  (In B001 s /\ x <> B001 /\ (In x s \/ (~ names_specific bl s /\ In x bl))).
Proof.
  unfold expand. destruct (mem_pstr B001 s) eqn:EB.
  - apply mem_pstr_In in EB.
    destruct (existsb (fun x0 => mem_pstr x0 bl) s) eqn:EX.
    + assert (Hs : names_specific bl s).
      { apply existsb_exists in EX as [y [Hy Hm]]. exists y. split; [exact Hy | apply mem_pstr_In; exact Hm]. }
      rewrite remove_id_In. split.
      * intros [H1 H2]. right. auto.
      * intros [[H _]|[_ [H2 [H3|[H4 _]]]]]; [contradiction | auto | contradiction].
    + assert (Hs : ~ names_specific bl s).
      { intros [y [Hy Hb]]. assert (existsb (fun x0 => mem_pstr x0 bl) s = true).
        { apply existsb_exists. exists y. split; [exact Hy | apply mem_pstr_In; exact Hb]. } congruence. }
      rewrite remove_id_In, in_app_iff. split.
      * intros [[H|H] H2]; right; auto.
      * intros [[H _]|[_ [H2 [H3|[_ H4]]]]]; [contradiction | auto | auto].
  - assert (Hn : ~ In B001 s) by (intro H; apply mem_pstr_In in H; congruence).
    split; [auto|]. intros [[_ H]|[H _]]; [exact H | contradiction].
Qed.

Theorem filter_algebra plugin_ids builtin bl inc exc x :
  In x (get_filter plugin_ids builtin bl inc exc) <->
  (match expand bl inc with
   | [] => In x (plugin_ids ++ builtin ++ bl)
   | inc' => In x inc'
   end) /\ ~ In x (expand bl exc).
Proof.
  unfold get_filter. rewrite filter_In. rewrite negb_true_iff.
  assert (E : mem_pstr x (expand bl exc) = false <-> ~ In x (expand bl exc)).
  { split; intro H.
    - intro Hc. apply mem_pstr_In in Hc. congruence.
    - destruct (mem_pstr x (expand bl exc)) eqn:E; [|reflexivity]. apply mem_pstr_In in E. contradiction. }
  rewrite E. destruct (expand bl inc); tauto.
Qed.

(* excluded ids never survive; with no include list every known id that is not excluded does *)
Corollary excluded_never_selected plugin_ids builtin bl inc exc x :
  In x (expand bl exc) -> ~ In x (get_filter plugin_ids builtin bl inc exc).
Proof. intros H Hc. apply filter_algebra in Hc. tauto. Qed.

Corollary conflict_detected inc exc x :
  In x inc -> In x exc -> In x (conflicting inc exc).
Proof. intros H1 H2. unfold conflicting. apply filter_In. split; [exact H1 | apply mem_pstr_In; exact H2]. Qed.

(* ---------- selecting a sub-list of the tests only filters the findings ---------- *)
(* what one test contributes for one context: the finding it appends, if any *)
Definition kept_of (m : nosec_map) (c : ctx) (t : test) : list finding :=
  match t_fn t c with
  | Ok (Some r) =>
      let f := fill_defaults t c r in
      match nosecs_from_contexts m (c_linerange c) (ri_lineno r) with
      | None => [f]
      | Some [] => []
      | Some ids => if mem_pstr (f_test_id f) ids then [] else [f]
      end
  | _ => []
  end.

Lemma run_one_results K m c t ts sc :
  ts_results (fst (run_one K m c t (ts, sc))) = ts_results ts ++ kept_of m c t.
Proof.
  unfold run_one, kept_of. destruct (t_fn t c) as [[r|]|e]; cbn [fst ts_results]; rewrite ?app_nil_r; try reflexivity.
  destruct (nosecs_from_contexts m (c_linerange c) (ri_lineno r)) as [[|i ids]|]; cbn [fst ts_results]; rewrite ?app_nil_r; try reflexivity.
  - destruct (mem_pstr _ (i :: ids)); cbn [fst ts_results]; rewrite ?app_nil_r; try reflexivity.
    destruct (score_one K _ sc); reflexivity.
  - destruct (score_one K _ sc); reflexivity.
Qed.

Lemma run_tests_results K tests m c ct ts :
  ts_results (fst (run_tests K tests m c ct ts)) = ts_results ts ++ flat_map (kept_of m c) (tests_for tests ct).
Proof.
  unfold run_tests. generalize (zero_scores K) as sc. generalize (tests_for tests ct) as l. intro l. revert ts.
  induction l as [|t l IH]; intros ts sc; cbn [fold_left flat_map]; [rewrite app_nil_r; reflexivity|].
  destruct (run_one K m c t (ts, sc)) as [ts' sc'] eqn:E. rewrite IH.
  replace ts' with (fst (run_one K m c t (ts, sc))) by (rewrite E; reflexivity).
  rewrite run_one_results, app_assoc. reflexivity.
Qed.

Lemma tests_for_filter p tests ct : tests_for (filter p tests) ct = filter p (tests_for tests ct).
Proof.
  unfold tests_for. induction tests as [|t l IH]; simpl; [reflexivity|].
  destruct (p t) eqn:Ep; simpl; destruct (existsb (String.eqb ct) (t_checks t)) eqn:Ec; simpl; rewrite ?Ep, IH; reflexivity.
Qed.

Section Selection.
  Variables (K : consts) (tests : list test) (m : nosec_map) (fname : pstr) (lines : option (list pstr)).
  Variable p : test -> bool.         (* which tests are selected *)
  Variable q : finding -> bool.      (* the corresponding predicate on findings *)
  (* every finding a test of the full set produces is labelled by whether its producer is selected:
     with q f := sel (f_test f) and p t := sel (t_name t) this is "test names are what findings carry" *)
  Hypothesis Hq : forall t c r, In t tests -> t_fn t c = Ok (Some r) -> q (fill_defaults t c r) = p t.

  Let E1 := Env K (filter p tests) m fname lines.
  Let E2 := Env K tests m fname lines.

  Lemma kept_filter c l : (forall t, In t l -> In t tests) ->
    flat_map (kept_of m c) (filter p l) = filter q (flat_map (kept_of m c) l).
  Proof.
    induction l as [|t l IH]; intro Hin; simpl; [reflexivity|].
    assert (Ht : In t tests) by (apply Hin; left; reflexivity).
    assert (Hl : forall t0, In t0 l -> In t0 tests) by (intros; apply Hin; right; assumption).
    rewrite filter_app, <- (IH Hl).
    assert (G : filter q (kept_of m c t) = if p t then kept_of m c t else []).
    { unfold kept_of. destruct (t_fn t c) as [[r|]|e] eqn:Ef; try (destruct (p t); reflexivity).
      pose proof (Hq t c r Ht Ef) as Hqq.
      destruct (nosecs_from_contexts m (c_linerange c) (ri_lineno r)) as [[|i ids]|]; try (destruct (p t); reflexivity).
      - destruct (mem_pstr _ (i :: ids)); [destruct (p t); reflexivity|]. simpl. rewrite Hqq. destruct (p t); reflexivity.
      - simpl. rewrite Hqq. destruct (p t); reflexivity. }
    rewrite G. destruct (p t); reflexivity.
  Qed.

  Definition SR (s1 s2 : vstate) : Prop :=
    v_imports s1 = v_imports s2 /\ v_aliases s1 = v_aliases s2 /\
    ts_results (v_tester s1) = filter q (ts_results (v_tester s2)).

  Lemma with_tests_sr c ct s1 s2 : SR s1 s2 -> SR (with_tests E1 c ct s1) (with_tests E2 c ct s2).
  Proof.
    intros [Hi [Ha Hr]]. unfold with_tests. cbn [e_consts e_tests e_nosec E1 E2].
    pose proof (run_tests_results K (filter p tests) m c ct (v_tester s1)) as G1.
    pose proof (run_tests_results K tests m c ct (v_tester s2)) as G2.
    destruct (run_tests K (filter p tests) m c ct (v_tester s1)) as [t1 sc1].
    destruct (run_tests K tests m c ct (v_tester s2)) as [t2 sc2].
    cbn [fst] in G1, G2. repeat split; cbn [v_imports v_aliases v_tester]; try assumption.
    rewrite G1, G2, filter_app, <- Hr, tests_for_filter. f_equal.
    apply kept_filter. unfold tests_for. intros t Ht. apply filter_In in Ht. tauto.
  Qed.

  Lemma visit_one_sr n ps sib s1 s2 : SR s1 s2 -> SR (visit_one E1 n ps sib s1) (visit_one E2 n ps sib s2).
  Proof.
    intros [Hi [Ha Hr]]. rewrite !visit_one_plan. cbn [e_fname e_lines E1 E2]. rewrite Hi, Ha.
    destruct (visit_plan fname lines n ps sib (v_imports s2) (v_aliases s2)) as [[i' a'] [[c ct]|]].
    - apply with_tests_sr. repeat split; assumption.
    - repeat split; assumption.
  Qed.

  (* for every program: the findings of the run restricted to the selected tests are exactly the
     findings of the unrestricted run produced by selected tests, in the same order, unchanged *)
  Theorem selection_is_filter module :
    ts_results (v_tester (process E1 module)) = filter q (ts_results (v_tester (process E2 module))).
  Proof.
    unfold process.
    assert (G : SR (generic_visit E1 module NNone [] (v_init E1)) (generic_visit E2 module NNone [] (v_init E2))).
    { apply (generic_visit_rel E1 E2 SR).
      - intros; apply visit_one_sr; assumption.
      - repeat split. }
    pose proof (with_tests_sr (file_ctx E1) "File"%string _ _ G) as [_ [_ H]]. exact H.
  Qed.

  (* hence enabling more checks never hides a finding *)
  Corollary more_checks_never_hide module f :
    In f (ts_results (v_tester (process E1 module))) -> In f (ts_results (v_tester (process E2 module))).
  Proof. rewrite selection_is_filter. intro H. apply filter_In in H. tauto. Qed.
End Selection.

(* ---------- selection inside the built-in blacklist check ---------- *)
Lemma first_rule_listing_filter sel name rules r :
  rules_disjoint rules ->
  first_rule_listing name rules = Some r ->
  first_rule_listing name (filter (fun x => sel (bl_id x)) rules) = if sel (bl_id r) then Some r else None.
Proof.
  intros Hd Hf.
  destruct (first_rule_listing_some _ _ _ Hf) as [l1 [l2 [-> [Hn Hb]]]].
  rewrite filter_app.
  assert (G1 : first_rule_listing name (filter (fun x => sel (bl_id x)) l1 ++ filter (fun x => sel (bl_id x)) (r :: l2))
               = first_rule_listing name (filter (fun x => sel (bl_id x)) (r :: l2))).
  { clear Hf Hd. induction l1 as [|a l1 IH]; [reflexivity|]. simpl.
    assert (Ha : mem_pstr name (bl_qualnames a) = false).
    { destruct (mem_pstr name (bl_qualnames a)) eqn:E; [|reflexivity]. apply mem_pstr_In in E.
      exfalso. apply (Hb a); [left; reflexivity | exact E]. }
    destruct (sel (bl_id a)); simpl; rewrite ?Ha; apply IH; intros r' Hr'; apply Hb; right; exact Hr'. }
  rewrite G1. simpl. destruct (sel (bl_id r)) eqn:Es.
  - simpl. assert (mem_pstr name (bl_qualnames r) = true) by (apply mem_pstr_In; exact Hn). rewrite H. reflexivity.
  - (* any later rule listing the name has the same id, hence is not selected either *)
    apply first_rule_listing_none. intros r' Hr' Hq. apply filter_In in Hr' as [Hr' Hs].
    assert (bl_id r' = bl_id r).
    { apply (Hd r' r name); auto; apply in_or_app; right; [right; exact Hr' | left; reflexivity]. }
    congruence.
Qed.

Lemma first_rule_listing_filter_none sel name rules :
  first_rule_listing name rules = None ->
  first_rule_listing name (filter (fun x => sel (bl_id x)) rules) = None.
Proof.
  intro H. apply first_rule_listing_none. intros r Hr. apply filter_In in Hr as [Hr _].
  apply (proj1 (first_rule_listing_none name rules) H r Hr).
Qed.

(* ---------- BanditTestSet: a selection that takes the blacklist as a whole yields a sub-list ---------- *)
Lemma flat_map_filter_sel {A} (f : A -> list test) (idof : A -> pstr) (sel : pstr -> bool) (l : list A) :
  (forall a t, In t (f a) -> t_id t = idof a) ->
  flat_map (fun a => if sel (idof a) then f a else []) l
  = filter (fun t => sel (t_id t)) (flat_map f l).
Proof.
  intro H. induction l as [|a l IH]; simpl; [reflexivity|].
  rewrite filter_app, <- IH. f_equal.
  destruct (sel (idof a)) eqn:E.
  - symmetry. assert (G : forall l', (forall t, In t l' -> sel (t_id t) = true) -> filter (fun t => sel (t_id t)) l' = l').
    { induction l' as [|t l' IH']; intro Hl; [reflexivity|]. simpl. rewrite (Hl t (or_introl eq_refl)). f_equal.
      apply IH'. intros t' Ht'. apply Hl. right. exact Ht'. }
    apply G. intros t Ht. rewrite (H a t Ht). exact E.
  - symmetry. assert (G : forall l', (forall t, In t l' -> sel (t_id t) = false) -> filter (fun t => sel (t_id t)) l' = []).
    { induction l' as [|t l' IH']; intro Hl; [reflexivity|]. simpl. rewrite (Hl t (or_introl eq_refl)).
      apply IH'. intros t' Ht'. apply Hl. right. exact Ht'. }
    apply G. intros t Ht. rewrite (H a t Ht). exact E.
Qed.

Theorem build_tests_sublist reg plugins defaults cfg sel tab :
  sel (s2p "B001") = negb (match filter_table sel tab with [] => true | _ => false end) ->
  (filter_table sel tab = [] \/ filter_table sel tab = filter_table (fun _ => true) tab) ->
  build_tests reg plugins defaults cfg sel tab
  = filter (fun t => sel (t_id t)) (build_tests reg plugins defaults cfg (fun _ => true) tab).
Proof.
  intros HB Hbl. unfold build_tests. rewrite filter_app. f_equal.
  - rewrite <- (flat_map_filter_sel
                  (fun r => match find_plugin (r_name r) plugins with
                            | Some pl => [Test (r_id r) (r_func r) (r_checks r) (pl_fn pl (effective_cfg defaults cfg (r_cfg r)))]
                            | None => [] end) r_id sel reg).
    + apply flat_map_ext. intro r. destruct (sel (r_id r)); reflexivity.
    + intros r t Ht. destruct (find_plugin (r_name r) plugins); [|destruct Ht].
      destruct Ht as [<-|[]]. reflexivity.
  - destruct Hbl as [H|H]; rewrite H in *.
    + destruct (filter_table (fun _ => true) tab) as [|x l]; [reflexivity|].
      simpl. cbn [t_id blacklist_test]. rewrite HB. reflexivity.
    + destruct (filter_table (fun _ => true) tab) as [|x l]; [reflexivity|].
      simpl. cbn [t_id blacklist_test]. rewrite HB. reflexivity.
Qed.
