(* Position-equivariance of the built-in blacklist check and of the trojan-source check. *)
From Coq Require Import List NArith ZArith Bool String Lia.
From Bandit Require Import Base.PyStr Ast.Node Engine.Types Engine.Resolve Engine.Context Engine.Tables Engine.Scan
     Engine.Shift Plugins.Blacklist Plugins.Trojan Proofs.ShiftFacts Proofs.ShiftContext.
Import ListNotations.
Local Open Scope string_scope.
Local Open Scope list_scope.

Section S.
  Variable at_ : Z.
  Variable ins : list pstr.
  Notation sh_node := (sh_node at_ ins).
  Notation sh_ctx := (sh_ctx at_ ins).
  Notation sh_res := (sh_res at_ ins).

  Lemma report_issue_sh r name : sh_ri at_ ins (report_issue r name) = report_issue r name.
  Proof. reflexivity. Qed.

  Lemma blacklist_call_name_sh c : blacklist_call_name (sh_ctx c) = map_res (sh_pyval at_ ins) (blacklist_call_name c).
  Proof.
    unfold blacklist_call_name. autorewrite with shift.
    destruct (is_cls "Name" (field "func" (c_node c)) && pstr_eqb (name_id (field "func" (c_node c))) (s2p "__import__")).
    - destruct (field_list "args" (c_node c)) as [|a t]; [reflexivity|]. cbn [map]. autorewrite with shift.
      destruct (str_of a); reflexivity.
    - destruct (c_qualname c) as [q|]; [|reflexivity].
      destruct (mem_pstr q [s2p "importlib.import_module"; s2p "importlib.__import__"]); [|reflexivity].
      destruct (call_args_count c) as [[|n]|].
      + destruct (call_keywords c) as [[l|]|e]; try reflexivity. cbn [map_res bind option_map].
        rewrite (kw_lookup_sh at_ ins). destruct (kw_lookup (s2p "name") l); reflexivity.
      + destruct (call_args c) as [l|e]; [|reflexivity]. cbn [map_res bind]. destruct l; reflexivity.
      + destruct (call_keywords c) as [[l|]|e]; try reflexivity. cbn [map_res bind option_map].
        rewrite (kw_lookup_sh at_ ins). destruct (kw_lookup (s2p "name") l); reflexivity.
  Qed.

  Lemma import_hit_sh prefix names r : import_hit prefix (map sh_node names) r = import_hit prefix names r.
  Proof.
    unfold import_hit.
    assert (E : forall a, match field "name" (sh_node a) with NId s => s | _ => [] end = match field "name" a with NId s => s | _ => [] end).
    { intro a. rewrite (field_sh at_ ins). destruct (field "name" a); reflexivity. }
    induction names as [|a t IH]; [reflexivity|]. cbn [map find]. rewrite E.
    destruct (existsb _ (bl_qualnames r)); [rewrite E; reflexivity | exact IH].
  Qed.
  Lemma first_import_rule_sh prefix names rules :
    first_import_rule prefix (map sh_node names) rules = first_import_rule prefix names rules.
  Proof. induction rules as [|r t IH]; [reflexivity|]. cbn [first_import_rule]. rewrite import_hit_sh, IH. reflexivity. Qed.

  Theorem blacklist_shift tab c : blacklist tab (sh_ctx c) = sh_res (blacklist tab c).
  Proof.
    unfold blacklist. autorewrite with shift.
    destruct (String.eqb (cls_of (c_node c)) "Call").
    - rewrite blacklist_call_name_sh. destruct (blacklist_call_name c) as [v|e]; [|reflexivity]. cbn [map_res bind].
      destruct (bl_lookup (cls_of (c_node c)) tab) as [rules|]; [|reflexivity].
      destruct v; try reflexivity; cbn [sh_pyval].
      + destruct (first_rule_listing s rules); reflexivity.
    - destruct (String.eqb (cls_of (c_node c)) "Import" || String.eqb (cls_of (c_node c)) "ImportFrom"); [|reflexivity].
      destruct (bl_lookup (cls_of (c_node c)) tab) as [rules|]; [|reflexivity].
      assert (E : match sh_node (field "module" (c_node c)) with NId m => m ++ [dot] | _ => [] end
                  = match field "module" (c_node c) with NId m => m ++ [dot] | _ => [] end)
        by (destruct (field "module" (c_node c)); reflexivity).
      rewrite E, first_import_rule_sh.
      destruct (first_import_rule _ (field_list "names" (c_node c)) rules) as [[r nm]|]; reflexivity.
  Qed.

  Theorem blacklist_test_equiv tab : t_equiv at_ ins (blacklist_test tab).
  Proof. intro c. apply blacklist_shift. Qed.

  (* ---------- trojan source: reads the file's lines; the inserted lines must be ordinary ---------- *)
  Hypothesis Hat : (1 <= at_)%Z.
  Variable bidi : list N.
  Hypothesis ins_ordinary : Forall (fun l => first_bidi bidi l = None) ins.

  Lemma scan_lines_sh_issue ls n : option_map (sh_ri at_ ins) (scan_lines bidi ls n) =
    match scan_lines bidi ls n with
    | Some r => Some (sh_ri at_ ins r)
    | None => None
    end.
  Proof. destruct (scan_lines bidi ls n); reflexivity. Qed.

  Lemma scan_lines_app l1 l2 n :
    scan_lines bidi (l1 ++ l2) n =
    match scan_lines bidi l1 n with Some r => Some r | None => scan_lines bidi l2 (n + Z.of_nat (List.length l1))%Z end.
  Proof.
    revert n. induction l1 as [|x t IH]; intro n; [cbn; f_equal; lia|].
    cbn [app scan_lines]. destruct (first_bidi bidi x) as [[ch i]|]; [reflexivity|].
    rewrite IH. destruct (scan_lines bidi t (n + 1)); [reflexivity|]. f_equal. cbn [List.length]. lia.
  Qed.
  Lemma scan_lines_ordinary l n : Forall (fun x => first_bidi bidi x = None) l -> scan_lines bidi l n = None.
  Proof. intro H. revert n. induction H as [|x t Hx Ht IH]; intro n; [reflexivity|]. cbn [scan_lines]. rewrite Hx. apply IH. Qed.

  (* a hit at line n + i of the old file is a hit at the shifted line of the new one *)
  Lemma scan_lines_line ls : forall n r, scan_lines bidi ls n = Some r ->
    exists i, (i < List.length ls)%nat /\ ri_lineno r = Some (n + Z.of_nat i)%Z /\ ri_linerange r = Some [(n + Z.of_nat i)%Z].
  Proof.
    induction ls as [|x t IH]; intros n r H; [discriminate|]. cbn [scan_lines] in H.
    destruct (first_bidi bidi x) as [[ch i]|].
    - inversion H; subst. exists O. cbn [List.length ri_lineno ri_linerange Z.of_nat]. replace (n + 0)%Z with n by lia.
      split; [lia|]. split; reflexivity.
    - destruct (IH _ _ H) as [i [Hi [E1 E2]]]. exists (S i). cbn [List.length]. split; [lia|].
      rewrite E1, E2. replace (n + Z.of_nat (S i))%Z with (n + 1 + Z.of_nat i)%Z by lia. split; reflexivity.
  Qed.
  Lemma scan_lines_offset ls : forall n d, scan_lines bidi ls (n + d)%Z =
    option_map (fun r => RIssue (ri_sev r) (ri_conf r) (ri_cwe r) (ri_text r)
                                (option_map (fun l => (l + d)%Z) (ri_lineno r)) (ri_test_id r) (ri_col r)
                                (option_map (map (fun l => (l + d)%Z)) (ri_linerange r)))
               (scan_lines bidi ls n).
  Proof.
    induction ls as [|x t IH]; intros n d; [reflexivity|]. cbn [scan_lines].
    destruct (first_bidi bidi x) as [[ch i]|]; [reflexivity|].
    replace (n + d + 1)%Z with (n + 1 + d)%Z by lia. apply IH.
  Qed.

  Lemma scan_lines_sh ls : scan_lines bidi (sh_lines at_ ins ls) 1 = option_map (sh_ri at_ ins) (scan_lines bidi ls 1).
  Proof.
    unfold sh_lines. set (p := Z.to_nat (at_ - 1)).
    assert (E : scan_lines bidi ls 1 = scan_lines bidi (firstn p ls ++ skipn p ls) 1) by (rewrite firstn_skipn; reflexivity).
    rewrite E. clear E. rewrite !scan_lines_app. rewrite (scan_lines_ordinary ins) by exact ins_ordinary.
    destruct (scan_lines bidi (firstn p ls) 1) as [r|] eqn:E1.
    - (* the hit lies before the insertion point: it does not move *)
      destruct (scan_lines_line _ _ _ E1) as [i [Hi [L1 L2]]].
      rewrite firstn_length in Hi. cbn [option_map]. f_equal.
      destruct r as [sev conf cwe text lno tid col lr]. cbn [ri_lineno ri_linerange] in L1, L2. subst lno lr.
      unfold sh_ri. cbn [ri_sev ri_conf ri_cwe ri_text ri_lineno ri_test_id ri_col ri_linerange option_map].
      assert (S1 : Shift.sh at_ ins (1 + Z.of_nat i) = (1 + Z.of_nat i)%Z) by (apply (sh_below at_ ins); lia).
      f_equal; [rewrite S1; reflexivity|]. f_equal. unfold Shift.sh_range.
      destruct ((1 + Z.of_nat i =? 0)%Z) eqn:E0; [lia|]. cbn [last]. rewrite S1.
      rewrite (zrange_cons (1 + Z.of_nat i)) by lia. rewrite zrange_nil by lia. reflexivity.
    - (* the hit, if any, lies at or after the insertion point: it moves by |ins| lines *)
      replace (1 + Z.of_nat (List.length (firstn p ls)) + Z.of_nat (List.length ins))%Z
        with (1 + Z.of_nat (List.length (firstn p ls)) + k_ ins)%Z by (unfold k_; lia).
      rewrite scan_lines_offset.
      destruct (scan_lines bidi (skipn p ls) (1 + Z.of_nat (List.length (firstn p ls)))) as [r|] eqn:E2; [|reflexivity].
      cbn [option_map]. f_equal.
      destruct (scan_lines_line _ _ _ E2) as [i [Hi [L1 L2]]].
      destruct r as [sev conf cwe text lno tid col lr]. cbn [ri_lineno ri_linerange] in L1, L2. subst lno lr.
      unfold sh_ri. cbn [ri_sev ri_conf ri_cwe ri_text ri_lineno ri_test_id ri_col ri_linerange option_map map].
      set (l0 := (1 + Z.of_nat (List.length (firstn p ls)) + Z.of_nat i)%Z).
      assert (Hl : (at_ <= l0)%Z).
      { unfold l0. rewrite firstn_length. rewrite skipn_length in Hi. unfold p in *. lia. }
      assert (S1 : Shift.sh at_ ins l0 = (l0 + k_ ins)%Z) by (apply (sh_above at_ ins); exact Hl).
      f_equal; [rewrite S1; reflexivity|]. f_equal. unfold Shift.sh_range.
      destruct ((l0 =? 0)%Z) eqn:E0; [lia|]. cbn [last]. rewrite S1.
      rewrite (zrange_cons (l0 + k_ ins)) by lia. rewrite zrange_nil by lia. reflexivity.
  Qed.

  Theorem trojansource_shift cfg c : trojansource bidi cfg (sh_ctx c) = sh_res (trojansource bidi cfg c).
  Proof.
    unfold trojansource. cbn [Shift.sh_ctx c_lines]. destruct (c_lines c) as [ls|]; [|reflexivity].
    cbn [option_map]. rewrite scan_lines_sh. destruct (scan_lines bidi ls 1); reflexivity.
  Qed.
End S.
