(* visit_one factored into a pure "plan" (what the visitor does to the import tables and which context /
   check type it offers to the tester) and the tester call.  The plan depends only on the node, its
   ancestors, the import tables and the file identity - not on the tester state, the test set or the
   nosec map. *)
From Coq Require Import List NArith ZArith Bool String Lia.
From Bandit Require Import Base.PyStr Ast.Node Engine.Types Engine.Resolve Engine.Linerange Engine.Tester
     Engine.Visitor.
Import ListNotations.
Local Open Scope string_scope.
Local Open Scope list_scope.

Definition imp_step (acc : list pstr * list (pstr * pstr) * option pstr) (a : node) :=
  let '(imps, als, _) := acc in
  (set_add (alias_name a) imps,
   match alias_asname a with Some asn => assoc_set asn (alias_name a) als | None => als end,
   Some (alias_name a)).
Definition do_import_pure (names : list node) (imps : list pstr) (als : list (pstr * pstr)) :=
  fold_left imp_step names (imps, als, None).

Definition impfrom_step (module : pstr) (acc : list pstr * list (pstr * pstr) * option pstr) (a : node) :=
  let '(imps, als, _) := acc in
  let full := module ++ [dot] ++ alias_name a in
  let key := match alias_asname a with Some asn => asn | None => alias_name a end in
  (set_add full imps, assoc_set key full als, Some (alias_name a)).
Definition do_import_from_pure (module : pstr) (names : list node) (imps : list pstr) (als : list (pstr * pstr)) :=
  fold_left (impfrom_step module) names (imps, als, None).

Lemma do_import_pure_eq names : forall st m0,
  fold_left (fun acc a =>
               let st := fst acc in
               let al := match alias_asname a with
                         | Some asn => assoc_set asn (alias_name a) (v_aliases st)
                         | None => v_aliases st end in
               (VState (set_add (alias_name a) (v_imports st)) al (v_tester st) (v_scores st), Some (alias_name a)))
            names (st, m0)
  = let '(i, a, m) := fold_left imp_step names (v_imports st, v_aliases st, m0) in
    (VState i a (v_tester st) (v_scores st), m).
Proof.
  induction names as [|x t IH]; intros st m0; simpl.
  - destruct st; reflexivity.
  - rewrite IH. reflexivity.
Qed.

Lemma do_import_from_pure_eq md names : forall st m0,
  fold_left (fun acc a =>
               let st := fst acc in
               let full := md ++ [dot] ++ alias_name a in
               let key := match alias_asname a with Some asn => asn | None => alias_name a end in
               (VState (set_add full (v_imports st)) (assoc_set key full (v_aliases st)) (v_tester st) (v_scores st),
                Some (alias_name a)))
            names (st, m0)
  = let '(i, a, m) := fold_left (impfrom_step md) names (v_imports st, v_aliases st, m0) in
    (VState i a (v_tester st) (v_scores st), m).
Proof.
  induction names as [|x t IH]; intros st m0; simpl.
  - destruct st; reflexivity.
  - rewrite IH. reflexivity.
Qed.

Definition mk_ctx (fname : pstr) (lines : option (list pstr)) (n : node) (parents : list (node * node))
           (sib : node) (imps : list pstr) (als : list (pstr * pstr)) : ctx :=
  Ctx n parents sib imps als
      (option_map p_line (pos_of n)) (option_map p_col (pos_of n)) (option_map p_ecol (pos_of n))
      (linerange n sib) None None None None None None None fname lines.

(* new imports, new aliases, and (context, check type) if the tester is consulted *)
Definition visit_plan (fname : pstr) (lines : option (list pstr)) (n : node) (parents : list (node * node))
           (sib : node) (imps : list pstr) (als : list (pstr * pstr))
  : list pstr * list (pstr * pstr) * option (ctx * string) :=
  let cls := cls_of n in
  if String.eqb cls "Import" || (String.eqb cls "ImportFrom" && negb (match field "module" n with NId _ => true | _ => false end)) then
    let '(i', a', m) := do_import_pure (field_list "names" n) imps als in
    (i', a', Some (ctx_set_module (mk_ctx fname lines n parents sib i' a') m None, "Import"))
  else if String.eqb cls "ImportFrom" then
    let module := match field "module" n with NId s => s | _ => [] end in
    let '(i', a', nm) := do_import_from_pure module (field_list "names" n) imps als in
    (i', a', Some (ctx_set_module (mk_ctx fname lines n parents sib i' a')
                                  (match nm with Some _ => Some module | None => None end) nm, "ImportFrom"))
  else
    let c := mk_ctx fname lines n parents sib imps als in
    if String.eqb cls "Call" then (imps, als, Some (ctx_set_call c n (get_call_name n als), "Call"))
    else if String.eqb cls "FunctionDef" then
      (imps, als, Some (ctx_set_func c n (match field "name" n with NId s => s | _ => [] end), "FunctionDef"))
    else if String.eqb cls "ClassDef" then (imps, als, None)
    else if String.eqb cls "Constant" then
      match const_of n with
      | Some (CStr s) =>
          match parents with
          | (p, psib) :: _ => if is_cls "Expr" p then (imps, als, None)
                              else (imps, als, Some (ctx_set_str c (Some s) None (linerange p psib), "Str"))
          | [] => (imps, als, None)
          end
      | Some (CBytes b) =>
          match parents with
          | (p, psib) :: _ => if is_cls "Expr" p then (imps, als, None)
                              else (imps, als, Some (ctx_set_str c None (Some b) (linerange p psib), "Bytes"))
          | [] => (imps, als, None)
          end
      | _ => (imps, als, None)
      end
    else (imps, als, Some (c, cls)).

Definition st_tables (st : vstate) (i : list pstr) (a : list (pstr * pstr)) : vstate :=
  VState i a (v_tester st) (v_scores st).

Lemma st_tables_id st : st_tables st (v_imports st) (v_aliases st) = st.
Proof. destruct st; reflexivity. Qed.

Theorem visit_one_plan E n ps sib st :
  visit_one E n ps sib st =
  let '(i', a', o) := visit_plan (e_fname E) (e_lines E) n ps sib (v_imports st) (v_aliases st) in
  match o with
  | Some (c, ct) => with_tests E c ct (st_tables st i' a')
  | None => st_tables st i' a'
  end.
Proof.
  unfold visit_one, visit_plan.
  destruct (String.eqb (cls_of n) "Import" || _) eqn:E1.
  - unfold do_import, do_import_pure. rewrite do_import_pure_eq.
    destruct (fold_left imp_step (field_list "names" n) (v_imports st, v_aliases st, None)) as [[i' a'] m].
    reflexivity.
  - destruct (String.eqb (cls_of n) "ImportFrom") eqn:E2.
    + unfold do_import_from, do_import_from_pure. rewrite do_import_from_pure_eq.
      destruct (fold_left _ (field_list "names" n) (v_imports st, v_aliases st, None)) as [[i' a'] m].
      reflexivity.
    + destruct (String.eqb (cls_of n) "Call"); [rewrite st_tables_id; reflexivity|].
      destruct (String.eqb (cls_of n) "FunctionDef"); [rewrite st_tables_id; reflexivity|].
      destruct (String.eqb (cls_of n) "ClassDef"); [rewrite st_tables_id; reflexivity|].
      destruct (String.eqb (cls_of n) "Constant").
      * destruct (const_of n) as [[| | | | |s|b|]|]; try (rewrite st_tables_id; reflexivity).
        -- destruct ps as [|[p psib] ?]; [rewrite st_tables_id; reflexivity|].
           destruct (is_cls "Expr" p); rewrite st_tables_id; reflexivity.
        -- destruct ps as [|[p psib] ?]; [rewrite st_tables_id; reflexivity|].
           destruct (is_cls "Expr" p); rewrite st_tables_id; reflexivity.
      * rewrite st_tables_id. reflexivity.
Qed.
