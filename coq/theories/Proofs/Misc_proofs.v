(* Decision-table theorems for the "misc" plugin family (Plugins/Misc.v). *)
From Coq Require Import List NArith ZArith Bool String Lia.
From Bandit Require Import Base.PyStr Ast.Node Engine.Types Engine.Resolve Engine.Context Engine.Scan
     Plugins.Misc Proofs.PyStrFacts.
Import ListNotations.
Local Open Scope string_scope.
Local Open Scope list_scope.

(* ------------------------------------------------------------------------------------------ *)
(* small facts about the engine accessors                                                      *)

Lemma okey_eqb_some a b : okey_eqb a (Some b) = true <-> a = Some b.
Proof.
  destruct a as [x|]; simpl; split; intro H; try discriminate.
  - apply pstr_eqb_spec in H. congruence.
  - inversion H; subst. apply pstr_eqb_refl.
Qed.

Lemma pyval_eqb_str v s : pyval_eqb v (PStr s) = true <-> v = PStr s.
Proof.
  destruct v; simpl; split; intro H; try discriminate; try congruence.
  - apply pstr_eqb_spec in H. congruence.
  - inversion H; subst. apply pstr_eqb_refl.
Qed.

Lemma pyval_eqb_str_false v s : pyval_eqb v (PStr s) = false <-> v <> PStr s.
Proof.
  split; intro H.
  - intro E. apply pyval_eqb_str in E. congruence.
  - destruct (pyval_eqb v (PStr s)) eqn:E; [|reflexivity]. apply pyval_eqb_str in E. contradiction.
Qed.

(* check_call_arg_value against one string: "== that string" on the keyword's value *)
Lemma check_single c n s :
  check_call_arg_value c n [PStr s] =
  do v <- get_call_arg_value c n;;
  Ok (match v with PNone => None | _ => Some (pyval_eqb v (PStr s)) end).
Proof.
  unfold check_call_arg_value. destruct (get_call_arg_value c n) as [v|e]; simpl; [|reflexivity].
  destruct v; simpl; try reflexivity. rewrite orb_false_r. reflexivity.
Qed.

Lemma is_some_true_check v s :
  is_some_true (match v with PNone => None | _ => Some (pyval_eqb v (PStr s)) end) = pyval_eqb v (PStr s).
Proof. destruct v; simpl; try reflexivity. destruct (pstr_eqb s0 s); reflexivity. Qed.

(* concrete syntax used by the Examples *)
Definition mx_pos (l : Z) : option pos4 := Some (Pos l 0 l 9).
Definition mx_name (l : Z) (id : string) : node :=
  Node "Name" (mx_pos l) [("id", NId (s2p id)); ("ctx", Node "Load" None [])].
Definition mx_attr (l : Z) (v : node) (a : string) : node :=
  Node "Attribute" (mx_pos l) [("value", v); ("attr", NId (s2p a)); ("ctx", Node "Load" None [])].
Definition mx_const (l : Z) (k : const) : node :=
  Node "Constant" (mx_pos l) [("value", NConst k); ("kind", NNone)].
Definition mx_kw (l : Z) (a : string) (v : node) : node :=
  Node "keyword" (mx_pos l) [("arg", NId (s2p a)); ("value", v)].
Definition mx_call (l : Z) (f : node) (args kws : list node) : node :=
  Node "Call" (mx_pos l) [("func", f); ("args", NList args); ("keywords", NList kws)].
(* the context the visitor builds for a Call node *)
Definition mx_ctx (call : node) (imports : list string) (q : string) : ctx :=
  Ctx call [] NNone (map s2p imports) [] (lineno_of call) (Some 0%Z) (Some 9%Z) [1%Z]
      (Some call) (Some (s2p q)) (Some (last_component (s2p q))) None None None None (s2p "t.py") None.
Definition mx_stmt_ctx (n : node) : ctx :=
  Ctx n [] NNone [] [] (lineno_of n) (Some 0%Z) (Some 9%Z) [1%Z]
      None None None None None None None (s2p "t.py") None.

(* ------------------------------------------------------------------------------------------ *)
(* glob matching                                                                               *)

Local Open Scope N_scope.

(* relational semantics of a token sequence *)
Inductive tok_rel : list gtok -> pstr -> Prop :=
| TR_nil : tok_rel [] []
| TR_star_skip ts s : tok_rel ts s -> tok_rel (GStar :: ts) s
| TR_star_eat ts c s : tok_rel (GStar :: ts) s -> tok_rel (GStar :: ts) (c :: s)
| TR_one t ts c s : tok_accepts t c = true -> tok_rel ts s -> tok_rel (t :: ts) (c :: s).

Lemma glob_match_star ts s :
  glob_match (GStar :: ts) s =
  glob_match ts s || match s with [] => false | _ :: s' => glob_match (GStar :: ts) s' end.
Proof. destruct s; reflexivity. Qed.

Lemma glob_match_one t ts s :
  t <> GStar ->
  glob_match (t :: ts) s = match s with [] => false | c :: s' => tok_accepts t c && glob_match ts s' end.
Proof. destruct t; intro H; try reflexivity. contradiction. Qed.

Lemma tok_rel_glob_match ts s : tok_rel ts s -> glob_match ts s = true.
Proof.
  induction 1.
  - reflexivity.
  - rewrite glob_match_star, IHtok_rel. reflexivity.
  - rewrite glob_match_star, IHtok_rel. apply orb_true_r.
  - rewrite glob_match_one.
    + rewrite H, IHtok_rel. reflexivity.
    + intro E; subst t. discriminate.
Qed.

Lemma glob_match_tok_rel ts : forall s, glob_match ts s = true -> tok_rel ts s.
Proof.
  induction ts as [|t ts IH]; intros s H.
  - destruct s; [constructor | discriminate].
  - destruct (match t with GStar => true | _ => false end) eqn:Et.
    + destruct t; try discriminate. clear Et.
      induction s as [|c s IHs].
      * rewrite glob_match_star, orb_false_r in H. apply TR_star_skip, IH, H.
      * rewrite glob_match_star in H. apply orb_true_iff in H as [H|H].
        -- apply TR_star_skip, IH, H.
        -- apply TR_star_eat, IHs, H.
    + rewrite glob_match_one in H by (intro E; subst t; discriminate).
      destruct s as [|c s]; [discriminate|].
      apply andb_true_iff in H as [H1 H2]. apply TR_one; [exact H1 | apply IH, H2].
Qed.

(* membership in a character class, relationally *)
Definition item_accepts (i : sitem) (c : N) : Prop :=
  match i with SLit x => c = x | SRange lo hi => lo <= c /\ c <= hi end.
Definition items_accept (its : list sitem) (c : N) : Prop := exists i, In i its /\ item_accepts i c.

(* [c] is in the class written between the brackets as [body] *)
Definition in_class (body : pstr) (c : N) : Prop :=
  match set_token body with
  | GSet true its => ~ items_accept its c
  | GSet false its => items_accept its c
  | _ => False
  end.

Lemma sitem_accepts_spec i c : sitem_accepts i c = true <-> item_accepts i c.
Proof.
  destruct i as [x|lo hi]; simpl.
  - apply N.eqb_eq.
  - rewrite andb_true_iff, !N.leb_le. tauto.
Qed.

Lemma items_accept_spec its c : existsb (fun i => sitem_accepts i c) its = true <-> items_accept its c.
Proof.
  rewrite existsb_exists. unfold items_accept.
  split; intros [i [Hi Ha]]; exists i; split; auto; apply sitem_accepts_spec; exact Ha.
Qed.

Lemma set_token_is_set body : exists neg its, set_token body = GSet neg its.
Proof.
  unfold set_token. destruct body as [|x core].
  - simpl. eauto.
  - destruct x as [|p]; [|].
    + destruct (filter sitem_nonempty (set_items (0 :: core))) as [|[y|lo hi] r]; eauto.
      * destruct y as [|q]; eauto. repeat (destruct q; eauto).
      * destruct lo as [|q]; eauto. repeat (destruct q; eauto).
    + assert (D : Npos p = 33 \/ Npos p <> 33) by lia. destruct D as [E|NE].
      * rewrite E. eauto.
      * destruct (filter sitem_nonempty (set_items (Npos p :: core))) as [|[y|lo hi] r].
        -- repeat (destruct p; eauto).
        -- destruct y as [|q]; [repeat (destruct p; eauto)|].
           assert (D : Npos q = 33 \/ Npos q <> 33) by lia. destruct D as [E|NE'].
           ++ rewrite E. repeat (destruct p; eauto).
           ++ repeat (destruct p; eauto); repeat (destruct q; eauto).
        -- destruct lo as [|q]; [repeat (destruct p; eauto)|].
           repeat (destruct p; eauto); repeat (destruct q; eauto).
Qed.

Lemma in_class_spec body c : tok_accepts (set_token body) c = true <-> in_class body c.
Proof.
  unfold in_class. destruct (set_token_is_set body) as [neg [its E]]. rewrite E. simpl.
  destruct neg; simpl.
  - rewrite negb_true_iff. rewrite <- items_accept_spec.
    destruct (existsb (fun i => sitem_accepts i c) its); split; intro H; try congruence.
    exfalso; apply H; reflexivity.
  - apply items_accept_spec.
Qed.

(* the delimiting of a set *)
Lemma until_rbracket_spec p : forall b,
  until_rbracket p = Some b -> exists p', p = b ++ ch_rb :: p' /\ ~ In ch_rb b.
Proof.
  induction p as [|c p IH]; intros b H; simpl in H; [discriminate|].
  destruct (c =? ch_rb) eqn:E.
  - inversion H; subst. apply N.eqb_eq in E. subst c. exists p. split; [reflexivity | intros []].
  - destruct (until_rbracket p) as [b'|]; simpl in H; [|discriminate].
    inversion H; subst. destruct (IH b' eq_refl) as [p' [-> Hn]].
    exists p'. split; [reflexivity|]. intros [Hc|Hc]; [|contradiction].
    subst c. rewrite N.eqb_refl in E. discriminate.
Qed.

Lemma set_body_spec p b : set_body p = Some b -> exists p', p = b ++ ch_rb :: p'.
Proof.
  unfold set_body.
  set (pre1 := match p with c :: _ => if c =? ch_bang then [c] else [] | [] => [] end).
  set (p1 := skipn (List.length pre1) p).
  set (pre2 := match p1 with c :: _ => if c =? ch_rb then [c] else [] | [] => [] end).
  set (p2 := skipn (List.length pre2) p1).
  assert (E1 : p = pre1 ++ p1).
  { subst p1 pre1. destruct p as [|c t]; [reflexivity|]. destruct (c =? ch_bang); reflexivity. }
  assert (E2 : p1 = pre2 ++ p2).
  { subst p2 pre2. destruct p1 as [|c t]; [reflexivity|]. destruct (c =? ch_rb); reflexivity. }
  destruct (until_rbracket p2) as [b'|] eqn:U; simpl; [|discriminate].
  intro H. inversion H; subst b. apply until_rbracket_spec in U as [p' [U _]].
  exists p'. rewrite E1 at 1. rewrite E2 at 1. rewrite U. rewrite <- !app_assoc. reflexivity.
Qed.

Lemma glob_parse_skip a : forall x p, glob_parse_aux (a ++ x :: p) (S (List.length a)) = glob_parse_aux p O.
Proof. induction a as [|y a IH]; intros x p; simpl; [reflexivity | apply IH]. Qed.

(* relational specification of fnmatch patterns: '*', '?', '[...]' (closed), a lone '[', literals *)
Inductive glob_rel : pstr -> pstr -> Prop :=
| GR_nil : glob_rel [] []
| GR_star_skip p s : glob_rel p s -> glob_rel (ch_star :: p) s
| GR_star_eat p c s : glob_rel (ch_star :: p) s -> glob_rel (ch_star :: p) (c :: s)
| GR_any p c s : glob_rel p s -> glob_rel (ch_qm :: p) (c :: s)
| GR_set body p c s :
    set_body (body ++ ch_rb :: p) = Some body -> in_class body c -> glob_rel p s ->
    glob_rel (ch_lb :: body ++ ch_rb :: p) (c :: s)
| GR_open p s : set_body p = None -> glob_rel p s -> glob_rel (ch_lb :: p) (ch_lb :: s)
| GR_lit x p s : x <> ch_star -> x <> ch_qm -> x <> ch_lb -> glob_rel p s -> glob_rel (x :: p) (x :: s).

Lemma glob_parse_star p : glob_parse (ch_star :: p) = GStar :: glob_parse p.
Proof. reflexivity. Qed.
Lemma glob_parse_qm p : glob_parse (ch_qm :: p) = GAny :: glob_parse p.
Proof. reflexivity. Qed.
Lemma glob_parse_set body p :
  set_body (body ++ ch_rb :: p) = Some body ->
  glob_parse (ch_lb :: body ++ ch_rb :: p) = set_token body :: glob_parse p.
Proof.
  intro H. unfold glob_parse. simpl. rewrite H. rewrite glob_parse_skip. reflexivity.
Qed.
Lemma glob_parse_open p : set_body p = None -> glob_parse (ch_lb :: p) = GLit ch_lb :: glob_parse p.
Proof. intro H. unfold glob_parse. simpl. rewrite H. reflexivity. Qed.
Lemma glob_parse_lit x p :
  x <> ch_star -> x <> ch_qm -> x <> ch_lb -> glob_parse (x :: p) = GLit x :: glob_parse p.
Proof.
  intros H1 H2 H3. unfold glob_parse. simpl.
  apply N.eqb_neq in H1, H2, H3. rewrite H1, H2, H3. reflexivity.
Qed.

Lemma glob_rel_tok_rel p s : glob_rel p s -> tok_rel (glob_parse p) s.
Proof.
  induction 1.
  - constructor.
  - rewrite glob_parse_star. apply TR_star_skip, IHglob_rel.
  - rewrite glob_parse_star in *. apply TR_star_eat, IHglob_rel.
  - rewrite glob_parse_qm. apply TR_one; [reflexivity | exact IHglob_rel].
  - rewrite glob_parse_set by assumption. apply TR_one; [apply in_class_spec; assumption | exact IHglob_rel].
  - rewrite glob_parse_open by assumption. apply TR_one; [apply N.eqb_refl | exact IHglob_rel].
  - rewrite glob_parse_lit by assumption. apply TR_one; [apply N.eqb_refl | exact IHglob_rel].
Qed.

Lemma tok_rel_glob_rel : forall n p, (List.length p <= n)%nat -> forall s, tok_rel (glob_parse p) s -> glob_rel p s.
Proof.
  induction n as [|n IH]; intros p Hl s H.
  - destruct p; [|simpl in Hl; lia]. inversion H; subst. constructor.
  - destruct p as [|x p]; [inversion H; subst; constructor|].
    simpl in Hl. assert (Hp : (List.length p <= n)%nat) by lia.
    destruct (N.eq_dec x ch_star) as [->|N1].
    { rewrite glob_parse_star in H.
      induction s as [|c s IHs].
      - inversion H; subst. apply GR_star_skip, IH; assumption.
      - inversion H; subst.
        + apply GR_star_skip, IH; assumption.
        + apply GR_star_eat, IHs. assumption.
        + discriminate. }
    destruct (N.eq_dec x ch_qm) as [->|N2].
    { rewrite glob_parse_qm in H. inversion H; subst. apply GR_any, IH; assumption. }
    destruct (N.eq_dec x ch_lb) as [->|N3].
    { destruct (set_body p) as [b|] eqn:Eb.
      - destruct (set_body_spec _ _ Eb) as [p' ->].
        rewrite glob_parse_set in H by assumption.
        destruct (set_token_is_set b) as [neg [its Et]].
        inversion H; subst; try (rewrite Et in *; discriminate).
        apply GR_set; [assumption | apply in_class_spec; assumption |].
        apply IH; [|assumption]. rewrite app_length in Hp. simpl in Hp. lia.
      - rewrite glob_parse_open in H by assumption. inversion H; subst.
        match goal with Ha : tok_accepts (GLit ch_lb) _ = true |- _ => simpl in Ha; apply N.eqb_eq in Ha; subst end.
        apply GR_open; [assumption | apply IH; assumption]. }
    rewrite glob_parse_lit in H by assumption. inversion H; subst.
    match goal with Ha : tok_accepts (GLit _) _ = true |- _ => simpl in Ha; apply N.eqb_eq in Ha; subst end.
    apply GR_lit; try assumption. apply IH; assumption.
Qed.

Theorem glob_spec : forall pat name, fnmatch_b name pat = true <-> glob_rel pat name.
Proof.
  intros pat name. unfold fnmatch_b. split; intro H.
  - apply (tok_rel_glob_rel (List.length pat)); [lia|]. apply glob_match_tok_rel, H.
  - apply tok_rel_glob_match, glob_rel_tok_rel, H.
Qed.

Example glob_spec_ex : glob_rel (s2p "*[!a-s].p?") (s2p "t.py").
Proof. apply glob_spec. vm_compute. reflexivity. Qed.

Local Close Scope N_scope.
