(* Decision-table theorems for the "misc" plugin family (Plugins/Misc.v). *)
From Coq Require Import List NArith ZArith Bool String Lia.
From Bandit Require Import Base.PyStr Ast.Node Engine.Types Engine.Resolve Engine.Context Engine.Scan
     Plugins.Misc Proofs.PyStrFacts.
Import ListNotations.
Local Open Scope string_scope.
Local Open Scope list_scope.

(* ------------------------------------------------------------------------------------------ *)
(* small facts about the engine accessors                                                      *)

Lemma okey_eqb_some a b : okey_eqb a (Some b) = true <-> a = Some b.
Proof.
  destruct a as [x|]; simpl; split; intro H; try discriminate.
  - apply pstr_eqb_spec in H. congruence.
  - inversion H; subst. apply pstr_eqb_refl.
Qed.

Lemma pyval_eqb_str v s : pyval_eqb v (PStr s) = true <-> v = PStr s.
Proof.
  destruct v; simpl; split; intro H; try discriminate; try congruence.
  - apply pstr_eqb_spec in H. congruence.
  - inversion H; subst. apply pstr_eqb_refl.
Qed.

Lemma pyval_eqb_str_false v s : pyval_eqb v (PStr s) = false <-> v <> PStr s.
Proof.
  split; intro H.
  - intro E. apply pyval_eqb_str in E. congruence.
  - destruct (pyval_eqb v (PStr s)) eqn:E; [|reflexivity]. apply pyval_eqb_str in E. contradiction.
Qed.

(* check_call_arg_value against one string: "== that string" on the keyword's value *)
Lemma check_single c n s :
  check_call_arg_value c n [PStr s] =
  do v <- get_call_arg_value c n;;
  Ok (match v with PNone => None | _ => Some (pyval_eqb v (PStr s)) end).
Proof.
  unfold check_call_arg_value. destruct (get_call_arg_value c n) as [v|e]; simpl; [|reflexivity].
  destruct v; simpl; try reflexivity. rewrite orb_false_r. reflexivity.
Qed.

Lemma is_some_true_check v s :
  is_some_true (match v with PNone => None | _ => Some (pyval_eqb v (PStr s)) end) = pyval_eqb v (PStr s).
Proof. destruct v; simpl; try reflexivity. destruct (pstr_eqb s0 s); reflexivity. Qed.

(* concrete syntax used by the Examples *)
Definition mx_pos (l : Z) : option pos4 := Some (Pos l 0 l 9).
Definition mx_name (l : Z) (id : string) : node :=
  Node "Name" (mx_pos l) [("id", NId (s2p id)); ("ctx", Node "Load" None [])].
Definition mx_attr (l : Z) (v : node) (a : string) : node :=
  Node "Attribute" (mx_pos l) [("value", v); ("attr", NId (s2p a)); ("ctx", Node "Load" None [])].
Definition mx_const (l : Z) (k : const) : node :=
  Node "Constant" (mx_pos l) [("value", NConst k); ("kind", NNone)].
Definition mx_kw (l : Z) (a : string) (v : node) : node :=
  Node "keyword" (mx_pos l) [("arg", NId (s2p a)); ("value", v)].
Definition mx_call (l : Z) (f : node) (args kws : list node) : node :=
  Node "Call" (mx_pos l) [("func", f); ("args", NList args); ("keywords", NList kws)].
(* the context the visitor builds for a Call node *)
Definition mx_ctx (call : node) (imports : list string) (q : string) : ctx :=
  Ctx call [] NNone (map s2p imports) [] (lineno_of call) (Some 0%Z) (Some 9%Z) [1%Z]
      (Some call) (Some (s2p q)) (Some (last_component (s2p q))) None None None None (s2p "t.py") None.
Definition mx_stmt_ctx (n : node) : ctx :=
  Ctx n [] NNone [] [] (lineno_of n) (Some 0%Z) (Some 9%Z) [1%Z]
      None None None None None None None (s2p "t.py") None.

(* ------------------------------------------------------------------------------------------ *)
(* glob matching                                                                               *)

Local Open Scope N_scope.

(* relational semantics of a token sequence *)
Inductive tok_rel : list gtok -> pstr -> Prop :=
| TR_nil : tok_rel [] []
| TR_star_skip ts s : tok_rel ts s -> tok_rel (GStar :: ts) s
| TR_star_eat ts c s : tok_rel (GStar :: ts) s -> tok_rel (GStar :: ts) (c :: s)
| TR_one t ts c s : tok_accepts t c = true -> tok_rel ts s -> tok_rel (t :: ts) (c :: s).

Lemma glob_match_star ts s :
  glob_match (GStar :: ts) s =
  glob_match ts s || match s with [] => false | _ :: s' => glob_match (GStar :: ts) s' end.
Proof. destruct s; reflexivity. Qed.

Lemma glob_match_one t ts s :
  t <> GStar ->
  glob_match (t :: ts) s = match s with [] => false | c :: s' => tok_accepts t c && glob_match ts s' end.
Proof. destruct t; intro H; try reflexivity. contradiction. Qed.

Lemma tok_rel_glob_match ts s : tok_rel ts s -> glob_match ts s = true.
Proof.
  induction 1.
  - reflexivity.
  - rewrite glob_match_star, IHtok_rel. reflexivity.
  - rewrite glob_match_star, IHtok_rel. apply orb_true_r.
  - rewrite glob_match_one.
    + rewrite H, IHtok_rel. reflexivity.
    + intro E; subst t. discriminate.
Qed.

Lemma glob_match_tok_rel ts : forall s, glob_match ts s = true -> tok_rel ts s.
Proof.
  induction ts as [|t ts IH]; intros s H.
  - destruct s; [constructor | discriminate].
  - destruct (match t with GStar => true | _ => false end) eqn:Et.
    + destruct t; try discriminate. clear Et.
      induction s as [|c s IHs].
      * rewrite glob_match_star, orb_false_r in H. apply TR_star_skip, IH, H.
      * rewrite glob_match_star in H. apply orb_true_iff in H as [H|H].
        -- apply TR_star_skip, IH, H.
        -- apply TR_star_eat, IHs, H.
    + rewrite glob_match_one in H by (intro E; subst t; discriminate).
      destruct s as [|c s]; [discriminate|].
      apply andb_true_iff in H as [H1 H2]. apply TR_one; [exact H1 | apply IH, H2].
Qed.

(* membership in a character class, relationally *)
Definition item_accepts (i : sitem) (c : N) : Prop :=
  match i with SLit x => c = x | SRange lo hi => lo <= c /\ c <= hi end.
Definition items_accept (its : list sitem) (c : N) : Prop := exists i, In i its /\ item_accepts i c.

(* [c] is in the class written between the brackets as [body] *)
Definition in_class (body : pstr) (c : N) : Prop :=
  match set_token body with
  | GSet true its => ~ items_accept its c
  | GSet false its => items_accept its c
  | _ => False
  end.

Lemma sitem_accepts_spec i c : sitem_accepts i c = true <-> item_accepts i c.
Proof.
  destruct i as [x|lo hi]; simpl.
  - apply N.eqb_eq.
  - rewrite andb_true_iff, !N.leb_le. tauto.
Qed.

Lemma items_accept_spec its c : existsb (fun i => sitem_accepts i c) its = true <-> items_accept its c.
Proof.
  rewrite existsb_exists. unfold items_accept.
  split; intros [i [Hi Ha]]; exists i; split; auto; apply sitem_accepts_spec; exact Ha.
Qed.

Lemma set_token_is_set body : exists neg its, set_token body = GSet neg its.
Proof.
  unfold set_token. destruct body as [|x core]; [eauto|].
  destruct (x =? ch_bang); [eauto|].
  unfold set_token_pos.
  destruct (filter sitem_nonempty (set_items (x :: core))) as [|[y|lo hi] r]; [eauto| |].
  - destruct (y =? ch_bang); eauto.
  - destruct (lo =? ch_bang); eauto.
Qed.

Lemma in_class_spec body c : tok_accepts (set_token body) c = true <-> in_class body c.
Proof.
  unfold in_class. destruct (set_token_is_set body) as [neg [its E]]. rewrite E.
  unfold tok_accepts. pose proof (items_accept_spec its c) as S.
  destruct neg; destruct (existsb (fun i => sitem_accepts i c) its); simpl; split; intro H.
  - discriminate.
  - exfalso. apply H, S. reflexivity.
  - intro X. apply S in X. discriminate.
  - reflexivity.
  - apply S. reflexivity.
  - reflexivity.
  - discriminate.
  - apply S in H. exact H.
Qed.

(* the delimiting of a set *)
Lemma until_rbracket_spec p : forall b,
  until_rbracket p = Some b -> exists p', p = b ++ ch_rb :: p' /\ ~ In ch_rb b.
Proof.
  induction p as [|c p IH]; intros b H; simpl in H; [discriminate|].
  destruct (c =? ch_rb) eqn:E.
  - inversion H; subst. apply N.eqb_eq in E. subst c. exists p. split; [reflexivity | intros []].
  - destruct (until_rbracket p) as [b'|]; simpl in H; [|discriminate].
    inversion H; subst. destruct (IH b' eq_refl) as [p' [-> Hn]].
    exists p'. split; [reflexivity|]. intros [Hc|Hc]; [|contradiction].
    subst c. rewrite N.eqb_refl in E. discriminate.
Qed.

Lemma set_body_spec p b : set_body p = Some b -> exists p', p = b ++ ch_rb :: p'.
Proof.
  unfold set_body.
  set (pre1 := match p with c :: _ => if c =? ch_bang then [c] else [] | [] => [] end).
  set (p1 := skipn (List.length pre1) p).
  set (pre2 := match p1 with c :: _ => if c =? ch_rb then [c] else [] | [] => [] end).
  set (p2 := skipn (List.length pre2) p1).
  assert (E1 : p = pre1 ++ p1).
  { subst p1 pre1. destruct p as [|c t]; [reflexivity|]. destruct (c =? ch_bang); reflexivity. }
  assert (E2 : p1 = pre2 ++ p2).
  { subst p2 pre2. destruct p1 as [|c t]; [reflexivity|]. destruct (c =? ch_rb); reflexivity. }
  destruct (until_rbracket p2) as [b'|] eqn:U; simpl; [|discriminate].
  intro H. inversion H; subst b. apply until_rbracket_spec in U as [p' [U _]].
  exists p'. rewrite E1 at 1. rewrite E2 at 1. rewrite U. rewrite <- !app_assoc. reflexivity.
Qed.

Lemma glob_parse_skip a : forall x p, glob_parse_aux (a ++ x :: p) (S (List.length a)) = glob_parse_aux p O.
Proof. induction a as [|y a IH]; intros x p; simpl; [reflexivity | apply IH]. Qed.

(* relational specification of fnmatch patterns: '*', '?', '[...]' (closed), a lone '[', literals *)
Inductive glob_rel : pstr -> pstr -> Prop :=
| GR_nil : glob_rel [] []
| GR_star_skip p s : glob_rel p s -> glob_rel (ch_star :: p) s
| GR_star_eat p c s : glob_rel (ch_star :: p) s -> glob_rel (ch_star :: p) (c :: s)
| GR_any p c s : glob_rel p s -> glob_rel (ch_qm :: p) (c :: s)
| GR_set body p c s :
    set_body (body ++ ch_rb :: p) = Some body -> in_class body c -> glob_rel p s ->
    glob_rel (ch_lb :: body ++ ch_rb :: p) (c :: s)
| GR_open p s : set_body p = None -> glob_rel p s -> glob_rel (ch_lb :: p) (ch_lb :: s)
| GR_lit x p s : x <> ch_star -> x <> ch_qm -> x <> ch_lb -> glob_rel p s -> glob_rel (x :: p) (x :: s).

Lemma glob_parse_star p : glob_parse (ch_star :: p) = GStar :: glob_parse p.
Proof. reflexivity. Qed.
Lemma glob_parse_qm p : glob_parse (ch_qm :: p) = GAny :: glob_parse p.
Proof. reflexivity. Qed.
Lemma glob_parse_set body p :
  set_body (body ++ ch_rb :: p) = Some body ->
  glob_parse (ch_lb :: body ++ ch_rb :: p) = set_token body :: glob_parse p.
Proof.
  intro H. unfold glob_parse. simpl. rewrite H. rewrite glob_parse_skip. reflexivity.
Qed.
Lemma glob_parse_open p : set_body p = None -> glob_parse (ch_lb :: p) = GLit ch_lb :: glob_parse p.
Proof. intro H. unfold glob_parse. simpl. rewrite H. reflexivity. Qed.
Lemma glob_parse_lit x p :
  x <> ch_star -> x <> ch_qm -> x <> ch_lb -> glob_parse (x :: p) = GLit x :: glob_parse p.
Proof.
  intros H1 H2 H3. unfold glob_parse. simpl.
  apply N.eqb_neq in H1, H2, H3. rewrite H1, H2, H3. reflexivity.
Qed.

Lemma glob_rel_tok_rel p s : glob_rel p s -> tok_rel (glob_parse p) s.
Proof.
  induction 1.
  - constructor.
  - rewrite glob_parse_star. apply TR_star_skip, IHglob_rel.
  - rewrite glob_parse_star in *. apply TR_star_eat, IHglob_rel.
  - rewrite glob_parse_qm. apply TR_one; [reflexivity | exact IHglob_rel].
  - rewrite glob_parse_set by assumption. apply TR_one; [apply in_class_spec; assumption | exact IHglob_rel].
  - rewrite glob_parse_open by assumption. apply TR_one; [apply N.eqb_refl | exact IHglob_rel].
  - rewrite glob_parse_lit by assumption. apply TR_one; [apply N.eqb_refl | exact IHglob_rel].
Qed.

Lemma tok_rel_glob_rel : forall n p, (List.length p <= n)%nat -> forall s, tok_rel (glob_parse p) s -> glob_rel p s.
Proof.
  induction n as [|n IH]; intros p Hl s H.
  - destruct p; [|simpl in Hl; lia]. inversion H; subst. constructor.
  - destruct p as [|x p]; [inversion H; subst; constructor|].
    simpl in Hl. assert (Hp : (List.length p <= n)%nat) by lia.
    destruct (N.eq_dec x ch_star) as [->|N1].
    { rewrite glob_parse_star in H.
      induction s as [|c s IHs].
      - inversion H; subst. apply GR_star_skip, IH; assumption.
      - inversion H; subst.
        + apply GR_star_skip, IH; assumption.
        + apply GR_star_eat, IHs. assumption.
        + discriminate. }
    destruct (N.eq_dec x ch_qm) as [->|N2].
    { rewrite glob_parse_qm in H. inversion H; subst. apply GR_any, IH; assumption. }
    destruct (N.eq_dec x ch_lb) as [->|N3].
    { destruct (set_body p) as [b|] eqn:Eb.
      - destruct (set_body_spec _ _ Eb) as [p' ->].
        rewrite glob_parse_set in H by assumption.
        destruct (set_token_is_set b) as [neg [its Et]].
        inversion H; subst; try (rewrite Et in *; discriminate).
        apply GR_set; [assumption | apply in_class_spec; assumption |].
        apply IH; [|assumption]. rewrite app_length in Hp. simpl in Hp. lia.
      - rewrite glob_parse_open in H by assumption. inversion H; subst.
        match goal with Ha : tok_accepts (GLit ch_lb) _ = true |- _ => simpl in Ha; apply N.eqb_eq in Ha; subst end.
        apply GR_open; [assumption | apply IH; assumption]. }
    rewrite glob_parse_lit in H by assumption. inversion H; subst.
    match goal with Ha : tok_accepts (GLit _) _ = true |- _ => simpl in Ha; apply N.eqb_eq in Ha; subst end.
    apply GR_lit; try assumption. apply IH; assumption.
Qed.

Theorem glob_spec : forall pat name, fnmatch_b name pat = true <-> glob_rel pat name.
Proof.
  intros pat name. unfold fnmatch_b. split; intro H.
  - apply (tok_rel_glob_rel (List.length pat)); [lia|]. apply glob_match_tok_rel, H.
  - apply tok_rel_glob_match, glob_rel_tok_rel, H.
Qed.

Example glob_spec_ex : glob_rel (s2p "*[!a-s].p?") (s2p "t.py").
Proof. apply glob_spec. vm_compute. reflexivity. Qed.

Local Close Scope N_scope.

(* generic tidying of "exists/and" hypotheses in the backward directions *)
Ltac break :=
  repeat match goal with
         | H : _ /\ _ |- _ => destruct H
         | H : exists _, _ |- _ => destruct H
         end.

(* ------------------------------------------------------------------------------------------ *)
(* B110 try_except_pass / B112 try_except_continue                                             *)

Lemma type_is_broad_spec t :
  type_is_broad t = true <-> t = NNone \/ field_opt "id" t = Some (NId (s2p "Exception")).
Proof.
  destruct t as [cls p fs| l | k | s | z |]; simpl;
    try (split; [discriminate | intros [H|H]; discriminate]).
  - destruct (field_opt "id" (Node cls p fs)) as [[| | | s | |]|];
      try (split; [discriminate | intros [H|H]; discriminate]).
    split.
    + intro H. apply pstr_eqb_spec in H. subst. right. reflexivity.
    + intros [H|H]; [discriminate|]. inversion H; subst. apply pstr_eqb_refl.
  - split; auto.
Qed.

Lemma handler_body_ok n body : handler_body n = Ok body <-> field_opt "body" n = Some (NList body).
Proof.
  unfold handler_body. destruct (field_opt "body" n) as [[| l | | | |]|]; split; intro H; try discriminate;
    inversion H; subst; reflexivity.
Qed.

Lemma typed_gate_true cfg n :
  typed_gate cfg n = Ok true <->
  exists b, cfg_check_typed cfg = Ok b /\
            (b = true \/ exists t, field_opt "type" n = Some t /\ type_is_broad t = true).
Proof.
  unfold typed_gate. destruct (cfg_check_typed cfg) as [b|e]; simpl.
  - destruct b.
    + split; [intros _; exists true; auto | reflexivity].
    + destruct (field_opt "type" n) as [t|].
      * split.
        -- intro H. inversion H as [H']. exists false. split; [reflexivity|]. right. exists t. auto.
        -- intros [b [Hb [Hb'|[t' [Ht Hbr]]]]].
           ++ inversion Hb; subst; discriminate.
           ++ inversion Ht; subst. rewrite Hbr. reflexivity.
      * split; [discriminate|].
        intros [b [Hb [Hb'|[t' [Ht _]]]]]; [inversion Hb; subst; discriminate | discriminate].
  - split; [discriminate | intros [b [Hb _]]; discriminate].
Qed.

(* the handler is reported: its body is exactly one statement of the class looked for, and
   (check_typed_exception is truthy, or no type is given, or the type is the Name Exception) *)
Definition handler_fires (stmt_cls : string) (cfg : jv) (n : node) : Prop :=
  exists s, field_opt "body" n = Some (NList [s]) /\ is_cls stmt_cls s = true /\
  exists b, cfg_check_typed cfg = Ok b /\
            (b = true \/
             exists t, field_opt "type" n = Some t /\
                       (t = NNone \/ field_opt "id" t = Some (NId (s2p "Exception")))).

Lemma try_except_fn_rule stmt text cfg c r :
  try_except_fn stmt text cfg c = Ok (Some r) <-> r = try_issue text /\ handler_fires stmt cfg (c_node c).
Proof.
  unfold try_except_fn, handler_fires.
  destruct (handler_body (c_node c)) as [body|e] eqn:Eb; simpl.
  2:{ split; [discriminate|]. intros [_ [s [Hs _]]]. apply handler_body_ok in Hs. congruence. }
  apply handler_body_ok in Eb. rewrite Eb.
  destruct body as [|s [|s2 rest]].
  - split; [discriminate | intros [_ [s [Hs _]]]; discriminate].
  - destruct (typed_gate cfg (c_node c)) as [[|]|e] eqn:Eg; simpl.
    + apply typed_gate_true in Eg. destruct Eg as [b [Hb Hor]].
      destruct (is_cls stmt s) eqn:Ec.
      * split.
        -- intro H. inversion H; subst. split; [reflexivity|]. exists s. split; [reflexivity|]. split; [exact Ec|].
           exists b. split; [exact Hb|]. destruct Hor as [Ht|[t [Ht Hbr]]]; [left; exact Ht|].
           right. exists t. split; [exact Ht | apply type_is_broad_spec; exact Hbr].
        -- intros [-> _]. reflexivity.
      * split; [discriminate|]. intros [_ [s' [Hs [Hc _]]]]. inversion Hs; subst. congruence.
    + split; [discriminate|]. intros [_ [s' [Hs [Hc [b [Hb Hor]]]]]].
      assert (T : typed_gate cfg (c_node c) = Ok true).
      { apply typed_gate_true. exists b. split; [exact Hb|]. destruct Hor as [Ht|[t [Ht Hbr]]]; [left; exact Ht|].
        right. exists t. split; [exact Ht | apply type_is_broad_spec; exact Hbr]. }
      congruence.
    + split; [discriminate|]. intros [_ [s' [Hs [Hc [b [Hb Hor]]]]]].
      assert (T : typed_gate cfg (c_node c) = Ok true).
      { apply typed_gate_true. exists b. split; [exact Hb|]. destruct Hor as [Ht|[t [Ht Hbr]]]; [left; exact Ht|].
        right. exists t. split; [exact Ht | apply type_is_broad_spec; exact Hbr]. }
      congruence.
  - split; [discriminate | intros [_ [s' [Hs _]]]; discriminate].
Qed.

Theorem try_except_rule : forall cfg c r,
  (try_except_pass_fn cfg c = Ok (Some r) <->
   r = try_issue try_pass_text /\ handler_fires "Pass" cfg (c_node c)) /\
  (try_except_continue_fn cfg c = Ok (Some r) <->
   r = try_issue try_continue_text /\ handler_fires "Continue" cfg (c_node c)).
Proof. intros cfg c r. split; apply try_except_fn_rule. Qed.

(* except ValueError: pass  -- reported only when check_typed_exception is set *)
Definition ex_handler (ty : node) (stmt : string) : node :=
  Node "ExceptHandler" (mx_pos 3) [("type", ty); ("name", NNone); ("body", NList [Node stmt (mx_pos 4) []])].
Definition ex_cfg (b : bool) : jv := JDict [(s2p "check_typed_exception", JBool b)].
Example try_except_rule_ex :
  handler_fires "Pass" (ex_cfg false) (c_node (mx_stmt_ctx (ex_handler NNone "Pass"))) /\
  handler_fires "Continue" (ex_cfg false) (c_node (mx_stmt_ctx (ex_handler (mx_name 3 "Exception") "Continue"))) /\
  handler_fires "Pass" (ex_cfg true) (c_node (mx_stmt_ctx (ex_handler (mx_name 3 "ValueError") "Pass"))) /\
  try_except_pass_fn (ex_cfg false) (mx_stmt_ctx (ex_handler (mx_name 3 "ValueError") "Pass")) = Ok None /\
  try_except_pass_fn (ex_cfg false) (mx_stmt_ctx (ex_handler (mx_attr 3 (mx_name 3 "builtins") "Exception") "Pass")) = Ok None /\
  try_except_pass_fn (JDict []) (mx_stmt_ctx (ex_handler NNone "Pass")) = Raise KeyError.
Proof.
  repeat split.
  - exists (Node "Pass" (mx_pos 4) []). repeat split. exists false. split; [reflexivity|].
    right. exists NNone. split; [reflexivity | left; reflexivity].
  - exists (Node "Continue" (mx_pos 4) []). repeat split. exists false. split; [reflexivity|].
    right. eexists. split; [reflexivity | right; reflexivity].
  - exists (Node "Pass" (mx_pos 4) []). repeat split. exists true. split; [reflexivity | left; reflexivity].
Qed.

(* ------------------------------------------------------------------------------------------ *)
(* B101 assert_used                                                                            *)

Lemma assert_loop_strs fname gs :
  assert_loop fname (map JStr gs) =
  if existsb (fnmatch_b fname) gs then Ok None else Ok (Some assert_issue).
Proof.
  induction gs as [|g gs IH]; simpl; [reflexivity|].
  destruct (fnmatch_b fname g); simpl; [reflexivity | exact IH].
Qed.

Theorem assert_skips_rule : forall cfg c gs,
  assert_skips cfg = Ok (map JStr gs) ->
  (assert_used_fn cfg c = Ok (Some assert_issue) <->
   forall g, In g gs -> fnmatch_b (c_filename c) g = false) /\
  (assert_used_fn cfg c = Ok None <-> exists g, In g gs /\ fnmatch_b (c_filename c) g = true).
Proof.
  intros cfg c gs H. unfold assert_used_fn. rewrite H. simpl. rewrite assert_loop_strs.
  destruct (existsb (fnmatch_b (c_filename c)) gs) eqn:E.
  - apply existsb_exists in E. destruct E as [g [Hg Hm]]. split; split; intro X; try discriminate; try reflexivity.
    + exfalso. specialize (X g Hg). congruence.
    + exists g. auto.
  - assert (F : forall g, In g gs -> fnmatch_b (c_filename c) g = false).
    { intros g Hg. destruct (fnmatch_b (c_filename c) g) eqn:M; [|reflexivity].
      assert (existsb (fnmatch_b (c_filename c)) gs = true) by (apply existsb_exists; eauto). congruence. }
    split; split; intro X; try discriminate; try reflexivity; try exact F.
    destruct X as [g [Hg Hm]]. rewrite (F g Hg) in Hm. discriminate.
Qed.

Example assert_skips_rule_ex :
  let cfg := JDict [(s2p "skips", JList [JStr (s2p "*_test.py"); JStr (s2p "*[st].py")])] in
  assert_skips cfg = Ok (map JStr [s2p "*_test.py"; s2p "*[st].py"]) /\
  assert_used_fn cfg (mx_stmt_ctx (Node "Assert" (mx_pos 1) [])) = Ok None /\
  assert_used_fn (JDict [(s2p "skips", JList [])]) (mx_stmt_ctx (Node "Assert" (mx_pos 1) [])) = Ok (Some assert_issue).
Proof. vm_compute. repeat split. Qed.

(* ------------------------------------------------------------------------------------------ *)
(* B506 yaml_load                                                                              *)

Definition is_safe_loader (v : pyval) : bool :=
  pyval_eqb v (PStr SafeLoader_s) || pyval_eqb v (PStr CSafeLoader_s).

Lemma is_safe_loader_spec v : is_safe_loader v = true <-> v = PStr SafeLoader_s \/ v = PStr CSafeLoader_s.
Proof. unfold is_safe_loader. rewrite orb_true_iff, !pyval_eqb_str. tauto. Qed.

Lemma yaml_args_unsafe_eq c :
  yaml_args_unsafe c =
  do kwv <- get_call_arg_value c (s2p "Loader");;
  do p <- get_call_arg_at_position c 1;;
  Ok (negb (is_safe_loader kwv) && negb (is_safe_loader p)).
Proof.
  unfold yaml_args_unsafe. rewrite !check_single.
  destruct (get_call_arg_value c (s2p "Loader")) as [v|e]; simpl; [|reflexivity].
  destruct (get_call_arg_at_position c 1) as [p|e]; simpl; [|reflexivity].
  rewrite !is_some_true_check. unfold is_safe_loader. f_equal.
  destruct (pyval_eqb v (PStr SafeLoader_s)), (pyval_eqb v (PStr CSafeLoader_s)),
           (pyval_eqb p (PStr SafeLoader_s)), (pyval_eqb p (PStr CSafeLoader_s)); reflexivity.
Qed.

(* B506 fires iff `yaml` itself is in the import set, the dotted name has a component `yaml` and ends in
   `load`, and neither the Loader keyword nor the second positional argument reads (as a Name, an
   attribute's last component, or a str literal) SafeLoader / CSafeLoader *)
Theorem yaml_safe_rule : forall c q l r,
  c_qualname c = Some q -> lineno_of (c_node c) = Some l ->
  (yaml_load_fn c = Ok (Some r) <->
   r = yaml_issue l /\ is_module_imported_exact c (s2p "yaml") = true /\ yaml_name_hit q = true /\
   exists kwv p, get_call_arg_value c (s2p "Loader") = Ok kwv /\ get_call_arg_at_position c 1 = Ok p /\
                 is_safe_loader kwv = false /\ is_safe_loader p = false).
Proof.
  intros c q l r Hq Hl. unfold yaml_load_fn. rewrite Hq.
  destruct (is_module_imported_exact c (s2p "yaml")) eqn:Ei; simpl.
  2:{ split; [discriminate | intros; break; discriminate]. }
  rewrite yaml_args_unsafe_eq.
  destruct (get_call_arg_value c (s2p "Loader")) as [kwv|e]; simpl.
  2:{ split; [discriminate | intros; break; discriminate]. }
  destruct (get_call_arg_at_position c 1) as [p|e]; simpl.
  2:{ split; [discriminate | intros; break; discriminate]. }
  destruct (yaml_name_hit q) eqn:En; simpl.
  2:{ split; [discriminate | intros; break; discriminate]. }
  destruct (is_safe_loader kwv) eqn:E1, (is_safe_loader p) eqn:E2; simpl; rewrite ?Hl;
    (split; [intro H; try discriminate | intros; break; try congruence]).
  inversion H; subst. repeat split. exists kwv, p. auto.
Qed.

Definition yaml_ex (kws : list node) (args : list node) : ctx :=
  mx_ctx (mx_call 2 (mx_attr 2 (mx_name 2 "yaml") "load") (mx_name 2 "data" :: args) kws) ["yaml"] "yaml.load".
Example yaml_safe_rule_ex :
  c_qualname (yaml_ex [] []) = Some (s2p "yaml.load") /\ lineno_of (c_node (yaml_ex [] [])) = Some 2%Z /\
  yaml_load_fn (yaml_ex [] []) = Ok (Some (yaml_issue 2)) /\
  yaml_load_fn (yaml_ex [mx_kw 2 "Loader" (mx_attr 2 (mx_name 2 "yaml") "FullLoader")] []) = Ok (Some (yaml_issue 2)) /\
  yaml_load_fn (yaml_ex [mx_kw 2 "Loader" (mx_attr 2 (mx_name 2 "yaml") "SafeLoader")] []) = Ok None /\
  yaml_load_fn (yaml_ex [] [mx_name 2 "CSafeLoader"]) = Ok None.
Proof. vm_compute. repeat split. Qed.

(* ------------------------------------------------------------------------------------------ *)
(* B614 pytorch_load                                                                           *)

Theorem torch_weights_only_rule : forall c q r,
  c_qualname c = Some q ->
  (pytorch_load_fn c = Ok (Some r) <->
   r = torch_issue (get_lineno_for_call_arg c (s2p "load")) /\
   is_module_imported_exact c (s2p "torch") = true /\ torch_name_hit q = true /\
   exists w, get_call_arg_value c (s2p "weights_only") = Ok w /\ w <> PStr (s2p "True")).
Proof.
  intros c q r Hq. unfold pytorch_load_fn. rewrite Hq.
  destruct (is_module_imported_exact c (s2p "torch")) eqn:Ei; simpl.
  2:{ split; [discriminate | intros; break; discriminate]. }
  destruct (torch_name_hit q) eqn:En; simpl.
  2:{ split; [discriminate | intros; break; discriminate]. }
  destruct (get_call_arg_value c (s2p "weights_only")) as [w|e]; simpl.
  2:{ split; [discriminate | intros; break; discriminate]. }
  unfold weights_only_true. destruct (pyval_eqb w (PStr (s2p "True"))) eqn:Ew.
  - apply pyval_eqb_str in Ew. split; [discriminate|]. intros; break. congruence.
  - apply pyval_eqb_str_false in Ew. split.
    + intro H. inversion H; subst. repeat split. exists w. auto.
    + intros; break. congruence.
Qed.

Definition torch_ex (kws : list node) : ctx :=
  mx_ctx (mx_call 2 (mx_attr 2 (mx_name 2 "torch") "load") [mx_name 2 "f"] kws) ["torch"] "torch.load".
Example torch_weights_only_rule_ex :
  c_qualname (torch_ex []) = Some (s2p "torch.load") /\
  pytorch_load_fn (torch_ex []) = Ok (Some (torch_issue None)) /\
  pytorch_load_fn (torch_ex [mx_kw 2 "weights_only" (mx_const 2 (CBool false))]) = Ok (Some (torch_issue None)) /\
  pytorch_load_fn (torch_ex [mx_kw 2 "weights_only" (mx_const 2 (CBool true))]) = Ok None /\
  pytorch_load_fn (torch_ex [mx_kw 2 "weights_only" (mx_const 2 (CStr (s2p "True")))]) = Ok None.
Proof. vm_compute. repeat split. Qed.

(* ------------------------------------------------------------------------------------------ *)
(* B202 tarfile_unsafe_members                                                                 *)

Lemma tar_issue_ranks g m :
  ri_sev (tar_issue g m) = match g with TarLow => LOW | TarMedium => MEDIUM | TarHigh => HIGH end /\
  ri_conf (tar_issue g m) = ri_sev (tar_issue g m) /\ ri_cwe (tar_issue g m) = 22%Z.
Proof. destruct g; repeat split. Qed.

(* the call is looked at (tarfile imported exactly, 'extractall' inside the called name, keywords
   evaluable); [filtered] = a filter keyword whose first occurrence is the str literal 'data' *)
Definition tar_filtered (l : list (option pstr * pyval)) (kws : list node) : bool :=
  kw_mem (s2p "filter") l &&
  match first_kw (s2p "filter") kws with
  | Some k => value_is_data (field "value" k)
  | None => false
  end.

Theorem tarfile_grading_rule : forall c nm l kws,
  c_name c = Some nm -> tarfile_name_hit c nm = true ->
  call_keywords c = Ok (Some l) -> node_keywords c = Ok kws ->
  (* filter='data' : silent, whatever members is *)
  (tar_filtered l kws = true -> tarfile_unsafe_members_fn c = Ok None) /\
  (* no members keyword : HIGH/HIGH *)
  (tar_filtered l kws = false -> kw_mem (s2p "members") l = false ->
   tarfile_unsafe_members_fn c = Ok (Some (tar_issue TarHigh []))) /\
  (* members=<Call> : LOW/LOW, naming the callee (Name id, else the attribute, else '') *)
  (forall k, tar_filtered l kws = false -> kw_mem (s2p "members") l = true ->
             first_kw (s2p "members") kws = Some k -> is_cls "Call" (field "value" k) = true ->
             tarfile_unsafe_members_fn c =
             Ok (Some (tar_issue TarLow
                         (members_dict_str (MFunction (members_callee_name (field "func" (field "value" k)))))))) /\
  (* members=<anything else> : MEDIUM/MEDIUM *)
  (forall k, tar_filtered l kws = false -> kw_mem (s2p "members") l = true ->
             first_kw (s2p "members") kws = Some k -> is_cls "Call" (field "value" k) = false ->
             members_grade (members_of_value (field "value" k)) = TarMedium /\
             tarfile_unsafe_members_fn c =
             Ok (Some (tar_issue TarMedium (members_dict_str (members_of_value (field "value" k)))))) /\
  (* a members key that is not a keyword of the node (context call <> context node) *)
  (tar_filtered l kws = false -> kw_mem (s2p "members") l = true ->
   first_kw (s2p "members") kws = None -> tarfile_unsafe_members_fn c = Raise TypeError).
Proof.
  intros c nm l kws Hn Hh Hk Hnk.
  assert (Base : tarfile_unsafe_members_fn c =
                 if tar_filtered l kws then Ok None
                 else if kw_mem (s2p "members") l then
                        do m <- get_members_value c;;
                        match m with
                        | Some mv => Ok (Some (tar_issue (members_grade mv) (members_dict_str mv)))
                        | None => Raise TypeError
                        end
                      else Ok (Some (tar_issue TarHigh []))).
  { unfold tarfile_unsafe_members_fn, tar_filtered. rewrite Hn, Hh, Hk. simpl.
    destruct (kw_mem (s2p "filter") l); simpl; [|reflexivity].
    unfold is_filter_data. rewrite Hnk. simpl.
    destruct (first_kw (s2p "filter") kws); simpl; [|reflexivity].
    destruct (value_is_data (field "value" n)); reflexivity. }
  assert (GM : get_members_value c =
               match first_kw (s2p "members") kws with
               | Some k => Ok (Some (members_of_value (field "value" k)))
               | None => Ok None
               end).
  { unfold get_members_value. rewrite Hnk. reflexivity. }
  split; [|split; [|split; [|split]]].
  - intro F. rewrite Base, F. reflexivity.
  - intros F M. rewrite Base, F, M. reflexivity.
  - intros k F M Hk1 Hc. rewrite Base, F, M, GM, Hk1. unfold members_of_value. rewrite Hc. reflexivity.
  - intros k F M Hk1 Hc. rewrite Base, F, M, GM, Hk1. unfold members_of_value. rewrite Hc.
    destruct (is_cls "Name" (field "value" k)); split; reflexivity.
  - intros F M Hk1. rewrite Base, F, M, GM, Hk1. reflexivity.
Qed.

(* the callee name of members=<Call>: f(...) -> 'f', o.m(...) -> 'm', f()(...) -> '' *)
Lemma members_callee_name_cases :
  (forall l id, id <> "" -> members_callee_name (mx_name l id) = s2p id) /\
  (forall l v a, members_callee_name (mx_attr l v a) = s2p a) /\
  (forall l f, members_callee_name (mx_call l f [] []) = []).
Proof.
  split; [|split]; [|reflexivity|reflexivity].
  intros l id Hid. unfold members_callee_name. simpl. destruct id; [contradiction | reflexivity].
Qed.

Definition tar_ex (kws : list node) : ctx :=
  mx_ctx (mx_call 2 (mx_attr 2 (mx_name 2 "tar") "extractall") [] kws) ["tarfile"] "tar.extractall".
Example tarfile_grading_rule_ex :
  c_name (tar_ex []) = Some (s2p "extractall") /\ tarfile_name_hit (tar_ex []) (s2p "extractall") = true /\
  tarfile_unsafe_members_fn (tar_ex []) = Ok (Some (tar_issue TarHigh [])) /\
  tarfile_unsafe_members_fn (tar_ex [mx_kw 2 "members" (mx_call 2 (mx_name 2 "safe") [mx_name 2 "tar"] [])])
  = Ok (Some (tar_issue TarLow (s2p "{'Function': 'safe'}"))) /\
  tarfile_unsafe_members_fn (tar_ex [mx_kw 2 "members" (mx_name 2 "ms")])
  = Ok (Some (tar_issue TarMedium (s2p "{'Other': 'ms'}"))) /\
  tarfile_unsafe_members_fn (tar_ex [mx_kw 2 "members" (mx_call 2 (mx_attr 2 (mx_name 2 "tar") "getmembers") [] [])])
  = Ok (Some (tar_issue TarLow (s2p "{'Function': 'getmembers'}"))) /\
  tarfile_unsafe_members_fn (tar_ex [mx_kw 2 "members" (mx_const 2 CNone)])
  = Ok (Some (tar_issue TarMedium (s2p "{'Other': <AST-OBJECT>}"))) /\
  tarfile_unsafe_members_fn (tar_ex [mx_kw 2 "members" (mx_name 2 "ms"); mx_kw 2 "filter" (mx_const 2 (CStr (s2p "data")))])
  = Ok None.
Proof. vm_compute. repeat split. Qed.

(* ------------------------------------------------------------------------------------------ *)
(* B201 flask_debug_true                                                                       *)

Theorem flask_debug_rule : forall c r,
  flask_debug_true_fn c = Ok (Some r) <->
  r = flask_issue (get_lineno_for_call_arg c (s2p "debug")) /\
  is_module_imported_like c (s2p "flask") = true /\
  exists q, c_qualname c = Some q /\ endswith q (s2p ".run") = true /\
            get_call_arg_value c (s2p "debug") = Ok (PStr (s2p "True")).
Proof.
  intros c r. unfold flask_debug_true_fn.
  destruct (is_module_imported_like c (s2p "flask")) eqn:Ei.
  2:{ split; [discriminate | intros; break; discriminate]. }
  destruct (c_qualname c) as [q|].
  2:{ split; [discriminate | intros; break; discriminate]. }
  destruct (endswith q (s2p ".run")) eqn:Ee.
  2:{ split; [discriminate | intros; break; congruence]. }
  rewrite check_single.
  destruct (get_call_arg_value c (s2p "debug")) as [v|e]; simpl.
  2:{ split; [discriminate | intros; break; discriminate]. }
  rewrite is_some_true_check. destruct (pyval_eqb v (PStr (s2p "True"))) eqn:Ev.
  - apply pyval_eqb_str in Ev. subst v. split.
    + intro H. inversion H; subst. repeat split. exists q. auto.
    + intros; break. congruence.
  - apply pyval_eqb_str_false in Ev. split; [discriminate|]. intros; break. congruence.
Qed.

Definition flask_ex (v : const) : ctx :=
  mx_ctx (mx_call 2 (mx_attr 2 (mx_name 2 "app") "run") [] [mx_kw 3 "debug" (mx_const 3 v)])
         ["flask.Flask"] "app.run".
Example flask_debug_rule_ex :
  flask_debug_true_fn (flask_ex (CBool true)) = Ok (Some (flask_issue (Some 3%Z))) /\
  flask_debug_true_fn (flask_ex (CStr (s2p "True"))) = Ok (Some (flask_issue (Some 3%Z))) /\
  flask_debug_true_fn (flask_ex (CBool false)) = Ok None /\
  flask_debug_true_fn (flask_ex (CInt 1)) = Ok None.
Proof. vm_compute. repeat split. Qed.

(* ------------------------------------------------------------------------------------------ *)
(* B612 logging_config_insecure_listen                                                         *)

Theorem logging_listen_rule : forall c r,
  logging_config_insecure_listen_fn c = Ok (Some r) <->
  r = listen_issue /\ c_qualname c = Some listen_qual /\
  exists l, call_keywords c = Ok (Some l) /\ kw_mem (s2p "verify") l = false.
Proof.
  intros c r. unfold logging_config_insecure_listen_fn.
  destruct (okey_eqb (c_qualname c) (Some listen_qual)) eqn:Eq.
  - apply okey_eqb_some in Eq.
    destruct (call_keywords c) as [[l|]|e]; simpl.
    + destruct (kw_mem (s2p "verify") l) eqn:Ev.
      * split; [discriminate | intros; break; congruence].
      * split; [intro H; inversion H; subst; repeat split; eauto | intros; break; congruence].
    + split; [discriminate | intros; break; discriminate].
    + split; [discriminate | intros; break; discriminate].
  - split; [discriminate|]. intros; break.
    assert (okey_eqb (c_qualname c) (Some listen_qual) = true) by (apply okey_eqb_some; assumption).
    congruence.
Qed.

Definition listen_ex (kws : list node) : ctx :=
  mx_ctx (mx_call 2 (mx_attr 2 (mx_attr 2 (mx_name 2 "logging") "config") "listen") [mx_const 2 (CInt 9999)] kws)
         ["logging.config"] "logging.config.listen".
Example logging_listen_rule_ex :
  logging_config_insecure_listen_fn (listen_ex []) = Ok (Some listen_issue) /\
  logging_config_insecure_listen_fn (listen_ex [mx_kw 2 "verify" (mx_name 2 "check")]) = Ok None /\
  logging_config_insecure_listen_fn (listen_ex [mx_kw 2 "verify" (mx_const 2 CNone)]) = Ok None.
Proof. vm_compute. repeat split. Qed.

(* ------------------------------------------------------------------------------------------ *)
(* B601 paramiko_calls                                                                         *)

Theorem paramiko_rule : forall c,
  (forall r, paramiko_calls_fn c = Ok (Some r) <->
             r = paramiko_issue /\ is_module_imported_like c (s2p "paramiko") = true /\
             c_name c = Some (s2p "exec_command")) /\
  (forall e, paramiko_calls_fn c <> Raise e).
Proof.
  intros c. unfold paramiko_calls_fn. split; [intro r | intro e];
    destruct (is_module_imported_like c (s2p "paramiko")) eqn:Ei;
    destruct (okey_eqb (c_name c) (Some (s2p "exec_command"))) eqn:En; try discriminate.
  - apply okey_eqb_some in En. split; [intro H; inversion H; auto | intros; break; congruence].
  - split; [discriminate|]. intros; break.
    assert (okey_eqb (c_name c) (Some (s2p "exec_command")) = true) by (apply okey_eqb_some; assumption).
    congruence.
  - split; [discriminate | intros; break; discriminate].
  - split; [discriminate | intros; break; discriminate].
Qed.

Example paramiko_rule_ex :
  paramiko_calls_fn (mx_ctx (mx_call 2 (mx_attr 2 (mx_name 2 "client") "exec_command") [mx_name 2 "cmd"] [])
                            ["paramiko"] "client.exec_command") = Ok (Some paramiko_issue) /\
  paramiko_calls_fn (mx_ctx (mx_call 2 (mx_attr 2 (mx_name 2 "client") "exec_command") [mx_name 2 "cmd"] [])
                            ["os"] "client.exec_command") = Ok None.
Proof. vm_compute. repeat split. Qed.

(* ------------------------------------------------------------------------------------------ *)
(* B102 exec_used                                                                              *)

Theorem exec_rule : forall c,
  (forall r, exec_used_fn c = Ok (Some r) <-> r = exec_issue /\ c_qualname c = Some (s2p "exec")) /\
  (forall e, exec_used_fn c <> Raise e).
Proof.
  intros c. unfold exec_used_fn. split; [intro r | intro e];
    destruct (okey_eqb (c_qualname c) (Some (s2p "exec"))) eqn:Eq; try discriminate.
  - apply okey_eqb_some in Eq. split; [intro H; inversion H; auto | intros; break; congruence].
  - split; [discriminate|]. intros; break.
    assert (okey_eqb (c_qualname c) (Some (s2p "exec")) = true) by (apply okey_eqb_some; assumption).
    congruence.
Qed.

Example exec_rule_ex :
  exec_used_fn (mx_ctx (mx_call 2 (mx_name 2 "exec") [mx_name 2 "src"] []) [] "exec") = Ok (Some exec_issue) /\
  exec_used_fn (mx_ctx (mx_call 2 (mx_name 2 "exec") [mx_name 2 "src"] []) ["builtins.exec"] "builtins.exec") = Ok None.
Proof. vm_compute. repeat split. Qed.

(* ------------------------------------------------------------------------------------------ *)
(* sufficient conditions for silence                                                           *)

Theorem misc_safe_variant_silent :
  (* B506: Loader= or the second positional argument reads SafeLoader / CSafeLoader *)
  (forall c q kwv p, c_qualname c = Some q ->
     get_call_arg_value c (s2p "Loader") = Ok kwv -> get_call_arg_at_position c 1 = Ok p ->
     is_safe_loader kwv || is_safe_loader p = true -> yaml_load_fn c = Ok None) /\
  (* B614: weights_only=True (or 'True') *)
  (forall c q, c_qualname c = Some q ->
     get_call_arg_value c (s2p "weights_only") = Ok (PStr (s2p "True")) -> pytorch_load_fn c = Ok None) /\
  (* B202: filter='data' *)
  (forall c nm l kws k, c_name c = Some nm -> call_keywords c = Ok (Some l) ->
     kw_mem (s2p "filter") l = true -> node_keywords c = Ok kws ->
     first_kw (s2p "filter") kws = Some k -> str_of (field "value" k) = Some (s2p "data") ->
     tarfile_unsafe_members_fn c = Ok None) /\
  (* B201: debug is anything but True / 'True' *)
  (forall c q v, c_qualname c = Some q -> get_call_arg_value c (s2p "debug") = Ok v ->
     v <> PStr (s2p "True") -> flask_debug_true_fn c = Ok None) /\
  (* B612: a verify keyword is given *)
  (forall c l, call_keywords c = Ok (Some l) -> kw_mem (s2p "verify") l = true ->
     logging_config_insecure_listen_fn c = Ok None) /\
  (* B601 / B102: another name *)
  (forall c, c_name c <> Some (s2p "exec_command") -> paramiko_calls_fn c = Ok None) /\
  (forall c, c_qualname c <> Some (s2p "exec") -> exec_used_fn c = Ok None) /\
  (* B101: some configured glob matches the file name *)
  (forall cfg c gs g, assert_skips cfg = Ok (map JStr gs) -> In g gs ->
     fnmatch_b (c_filename c) g = true -> assert_used_fn cfg c = Ok None) /\
  (* B110 / B112: a typed handler (not the Name Exception) while check_typed_exception is false;
     or a body that is not exactly one statement; or one statement of another class *)
  (forall stmt text cfg c body t, handler_body (c_node c) = Ok body ->
     cfg_check_typed cfg = Ok false -> field_opt "type" (c_node c) = Some t -> type_is_broad t = false ->
     try_except_fn stmt text cfg c = Ok None) /\
  (forall stmt text cfg c body, handler_body (c_node c) = Ok body -> List.length body <> 1%nat ->
     try_except_fn stmt text cfg c = Ok None) /\
  (forall stmt text cfg c s b, handler_body (c_node c) = Ok [s] -> typed_gate cfg (c_node c) = Ok b ->
     is_cls stmt s = false -> try_except_fn stmt text cfg c = Ok None).
Proof.
  repeat split.
  - intros c q kwv p Hq Hk Hp Hs. unfold yaml_load_fn. rewrite Hq.
    destruct (is_module_imported_exact c (s2p "yaml")); simpl; [|reflexivity].
    rewrite yaml_args_unsafe_eq, Hk, Hp. simpl.
    apply orb_true_iff in Hs. destruct Hs as [Hs|Hs]; rewrite Hs; simpl; rewrite ?andb_false_r; reflexivity.
  - intros c q Hq Hw. unfold pytorch_load_fn. rewrite Hq.
    destruct (is_module_imported_exact c (s2p "torch")); simpl; [|reflexivity].
    destruct (torch_name_hit q); [|reflexivity]. rewrite Hw. reflexivity.
  - intros c nm l kws k Hn Hk Hf Hnk Hfk Hs. unfold tarfile_unsafe_members_fn. rewrite Hn.
    destruct (tarfile_name_hit c nm); [|reflexivity]. rewrite Hk. simpl. rewrite Hf.
    unfold is_filter_data. rewrite Hnk. simpl. rewrite Hfk. unfold value_is_data. rewrite Hs.
    rewrite pstr_eqb_refl. reflexivity.
  - intros c q v Hq Hv Hne. unfold flask_debug_true_fn.
    destruct (is_module_imported_like c (s2p "flask")); [|reflexivity]. rewrite Hq.
    destruct (endswith q (s2p ".run")); [|reflexivity].
    rewrite check_single, Hv. simpl. rewrite is_some_true_check.
    apply pyval_eqb_str_false in Hne. rewrite Hne. reflexivity.
  - intros c l Hk Hv. unfold logging_config_insecure_listen_fn.
    destruct (okey_eqb (c_qualname c) (Some listen_qual)); [|reflexivity].
    rewrite Hk. simpl. rewrite Hv. reflexivity.
  - intros c Hn. unfold paramiko_calls_fn.
    destruct (is_module_imported_like c (s2p "paramiko")); [|reflexivity].
    destruct (okey_eqb (c_name c) (Some (s2p "exec_command"))) eqn:E; [|reflexivity].
    apply okey_eqb_some in E. contradiction.
  - intros c Hn. unfold exec_used_fn.
    destruct (okey_eqb (c_qualname c) (Some (s2p "exec"))) eqn:E; [|reflexivity].
    apply okey_eqb_some in E. contradiction.
  - intros cfg c gs g Hs Hg Hm. apply (proj2 (assert_skips_rule cfg c gs Hs)). eauto.
  - intros stmt text cfg c body t Hb Hc Ht Hbr. unfold try_except_fn. rewrite Hb. simpl.
    destruct body as [|s [|s2 rest]]; try reflexivity.
    unfold typed_gate. rewrite Hc. simpl. rewrite Ht, Hbr. reflexivity.
  - intros stmt text cfg c body Hb Hl. unfold try_except_fn. rewrite Hb. simpl.
    destruct body as [|s [|s2 rest]]; try reflexivity. simpl in Hl. contradiction.
  - intros stmt text cfg c s b Hb Hg Hc. unfold try_except_fn. rewrite Hb. simpl. rewrite Hg. simpl.
    rewrite Hc. destruct b; reflexivity.
Qed.

(* the module is not in the import set (exactly for yaml / torch / tarfile, as a substring of an
   imported name for flask / paramiko): nothing is evaluated, nothing is reported *)
Theorem misc_not_imported_silent :
  (forall c q, c_qualname c = Some q -> is_module_imported_exact c (s2p "yaml") = false -> yaml_load_fn c = Ok None) /\
  (forall c q, c_qualname c = Some q -> is_module_imported_exact c (s2p "torch") = false -> pytorch_load_fn c = Ok None) /\
  (forall c nm, c_name c = Some nm -> is_module_imported_exact c (s2p "tarfile") = false ->
                tarfile_unsafe_members_fn c = Ok None) /\
  (forall c, is_module_imported_like c (s2p "flask") = false -> flask_debug_true_fn c = Ok None) /\
  (forall c, is_module_imported_like c (s2p "paramiko") = false -> paramiko_calls_fn c = Ok None).
Proof.
  repeat split.
  - intros c q Hq Hi. unfold yaml_load_fn. rewrite Hq, Hi. reflexivity.
  - intros c q Hq Hi. unfold pytorch_load_fn. rewrite Hq, Hi. reflexivity.
  - intros c nm Hn Hi. unfold tarfile_unsafe_members_fn, tarfile_name_hit. rewrite Hn, Hi. reflexivity.
  - intros c Hi. unfold flask_debug_true_fn. rewrite Hi. reflexivity.
  - intros c Hi. unfold paramiko_calls_fn. rewrite Hi. reflexivity.
Qed.

Example misc_safe_variant_silent_ex :
  (* from yaml import load: the import set holds 'yaml.load', not 'yaml' -> B506 is silent *)
  yaml_load_fn (mx_ctx (mx_call 2 (mx_name 2 "load") [mx_name 2 "data"] []) ["yaml.load"] "yaml.load") = Ok None /\
  get_call_arg_value (yaml_ex [mx_kw 2 "Loader" (mx_name 2 "SafeLoader")] []) (s2p "Loader") = Ok (PStr SafeLoader_s) /\
  get_call_arg_value (torch_ex [mx_kw 2 "weights_only" (mx_const 2 (CBool true))]) (s2p "weights_only")
  = Ok (PStr (s2p "True")) /\
  get_call_arg_value (flask_ex (CBool false)) (s2p "debug") = Ok (PStr (s2p "False")).
Proof. vm_compute. repeat split. Qed.

(* ------------------------------------------------------------------------------------------ *)
(* totality: the Context accessors never raise (a set display skips its unhashable elements)   *)

Fixpoint lv_items (is : list node) : res (list pyval) :=
  match is with
  | [] => Ok []
  | i :: is' => do x <- literal_value i;; do xs <- lv_items is';; Ok (x :: xs)
  end.
Fixpoint lv_elts (l : list (string * node)) : res (list pyval) :=
  match l with
  | [] => Ok []
  | (k, v) :: t =>
      if String.eqb "elts" k then match v with NList its => lv_items its | _ => Ok [] end
      else lv_elts t
  end.
Fixpoint lv_addall (l acc : list pyval) : res pyval :=
  match l with
  | [] => Ok (PSet acc)
  | v :: l' => if hashable v then lv_addall l' (set_add_val v acc) else lv_addall l' acc
  end.

Lemma literal_value_node c p fs :
  literal_value (Node c p fs) =
  if String.eqb c "Constant" then
    match lookup_field "value" fs with Some (NConst k) => Ok (const_value k) | _ => Ok PNone end
  else if String.eqb c "List" then do l <- lv_elts fs;; Ok (PList l)
  else if String.eqb c "Tuple" then do l <- lv_elts fs;; Ok (PTuple l)
  else if String.eqb c "Set" then do l <- lv_elts fs;; lv_addall l []
  else if String.eqb c "Dict" then
    Ok (PDict (combine (items (match lookup_field "keys" fs with Some k => k | None => NNone end))
                       (items (match lookup_field "values" fs with Some k => k | None => NNone end))))
  else if String.eqb c "Name" then
    Ok (PStr (match lookup_field "id" fs with Some (NId s) => s | _ => [] end))
  else Ok PNone.
Proof. reflexivity. Qed.

Definition lv_ok (n : node) : Prop := exists v, literal_value n = Ok v.
Definition lv_P (n : node) : Prop := lv_ok n /\ (forall its, n = NList its -> Forall lv_ok its).

Lemma lv_items_total its : Forall lv_ok its -> exists l, lv_items its = Ok l.
Proof.
  induction 1 as [|i its [v Hv] _ [l Hl]]; simpl; [eauto|]. rewrite Hv, Hl. simpl. eauto.
Qed.

Lemma lv_elts_total fs : Forall (fun kv => lv_P (snd kv)) fs -> exists l, lv_elts fs = Ok l.
Proof.
  induction 1 as [|[k v] fs [_ Hv] _ IH]; [simpl; eauto|].
  change (lv_elts ((k, v) :: fs))
    with (if String.eqb "elts" k then match v with NList its => lv_items its | _ => Ok [] end else lv_elts fs).
  destruct (String.eqb "elts" k); [|exact IH].
  destruct v; eauto. apply lv_items_total. apply Hv. reflexivity.
Qed.

Lemma lv_addall_total l : forall acc, exists v, lv_addall l acc = Ok v.
Proof. induction l as [|x l IH]; intro acc; simpl; [eauto|]. destruct (hashable x); apply IH. Qed.

Lemma literal_value_P : forall n, lv_P n.
Proof.
  apply node_ind'.
  - intros c p fs H. split; [|intros; discriminate]. unfold lv_ok. rewrite literal_value_node.
    destruct (lv_elts_total fs H) as [l Hl]. rewrite Hl. unfold bind.
    destruct (String.eqb c "Constant").
    { destruct (lookup_field "value" fs) as [[]|]; eauto. }
    destruct (String.eqb c "List"); [eauto|].
    destruct (String.eqb c "Tuple"); [eauto|].
    destruct (String.eqb c "Set"); [apply lv_addall_total|].
    destruct (String.eqb c "Dict"); [eauto|].
    destruct (String.eqb c "Name"); eauto.
  - intros l H. split; [exists PNone; reflexivity|]. intros its E. inversion E; subst.
    eapply Forall_impl; [|exact H]. intros a [Ha _]. exact Ha.
  - intros. split; [exists PNone; reflexivity | intros; discriminate].
  - intros. split; [exists PNone; reflexivity | intros; discriminate].
  - intros. split; [exists PNone; reflexivity | intros; discriminate].
  - split; [exists PNone; reflexivity | intros; discriminate].
Qed.

Theorem literal_value_total : forall n, exists v, literal_value n = Ok v.
Proof. intro n. exact (proj1 (literal_value_P n)). Qed.

Lemma arg_value_total a : exists v, arg_value a = Ok v.
Proof. unfold arg_value. destruct (is_cls "Attribute" a); [eauto | apply literal_value_total]. Qed.

Lemma mapM_total {A B} (f : A -> res B) :
  (forall x, exists y, f x = Ok y) -> forall l, exists l', mapM f l = Ok l'.
Proof.
  intros Hf l. induction l as [|x l [l' IH]]; simpl; [eauto|].
  destruct (Hf x) as [y Hy]. rewrite Hy, IH. simpl. eauto.
Qed.

Definition kw_entry (k : node) : res (option pstr * pyval) :=
  do v <- arg_value (field "value" k);; Ok (kw_arg k, v).

Lemma kw_entry_total k : exists e, kw_entry k = Ok e.
Proof. unfold kw_entry. destruct (arg_value_total (field "value" k)) as [v Hv]. rewrite Hv. simpl. eauto. Qed.

Lemma call_keywords_eq c :
  call_keywords c =
  match c_call c with
  | Some call => do l <- mapM kw_entry (field_list "keywords" call);; Ok (Some l)
  | None => Ok None
  end.
Proof. reflexivity. Qed.

Lemma call_keywords_total c : exists o, call_keywords c = Ok o.
Proof.
  rewrite call_keywords_eq. destruct (c_call c) as [call|]; [|eauto].
  destruct (mapM_total kw_entry kw_entry_total (field_list "keywords" call)) as [l Hl].
  rewrite Hl. simpl. eauto.
Qed.

Lemma get_call_arg_value_total c n : exists v, get_call_arg_value c n = Ok v.
Proof.
  unfold get_call_arg_value. destruct (call_keywords_total c) as [o Ho]. rewrite Ho. simpl.
  destruct o as [l|]; [|eauto]. destruct (kw_lookup n l); eauto.
Qed.

Lemma check_call_arg_value_total c n vals : exists o, check_call_arg_value c n vals = Ok o.
Proof.
  unfold check_call_arg_value. destruct (get_call_arg_value_total c n) as [v Hv]. rewrite Hv. simpl.
  destruct v; eauto.
Qed.

Lemma get_call_arg_at_position_total c i : exists v, get_call_arg_at_position c i = Ok v.
Proof.
  unfold get_call_arg_at_position. destruct (c_call c) as [call|]; [|eauto].
  destruct (Nat.ltb i (List.length (field_list "args" call))); [|eauto].
  destruct (is_cls "Attribute" (nth i (field_list "args" call) NNone)
            && truthy_str (attr_of (nth i (field_list "args" call) NNone))); [eauto|].
  apply literal_value_total.
Qed.

(* the context the visitor hands to a Call check (visit_Call: call = node, qualname, name set;
   a parsed Call node carries a position and a keywords list) *)
Definition call_ctx (c : ctx) : Prop :=
  (exists q, c_qualname c = Some q) /\ (exists nm, c_name c = Some nm) /\
  c_call c = Some (c_node c) /\ (exists l, lineno_of (c_node c) = Some l) /\
  (exists v, field_opt "keywords" (c_node c) = Some v).

Lemma call_ctx_mx call imports q :
  (exists l, lineno_of call = Some l) -> (exists v, field_opt "keywords" call = Some v) ->
  call_ctx (mx_ctx call imports q).
Proof. intros Hl Hk. unfold call_ctx, mx_ctx; simpl. repeat split; eauto. Qed.

(* keys of call_keywords are the .arg of the keyword nodes, in order *)
Lemma mapM_kw_entry_keys ks : forall l, mapM kw_entry ks = Ok l -> map fst l = map kw_arg ks.
Proof.
  induction ks as [|k ks IH]; intros l H; simpl in H.
  - inversion H; reflexivity.
  - unfold kw_entry at 1 in H. destruct (arg_value (field "value" k)) as [v|e]; simpl in H; [|discriminate].
    destruct (mapM kw_entry ks) as [l'|e]; simpl in H; [|discriminate].
    inversion H; subst. simpl. f_equal. apply IH. reflexivity.
Qed.

Lemma kw_lookup_in name l v : kw_lookup name l = Some v -> In (Some name) (map fst l).
Proof.
  revert v. induction l as [|[k' v'] l IH]; intro v; simpl; [discriminate|].
  destruct (kw_lookup name l) as [w|].
  - intros _. right. apply (IH w eq_refl).
  - destruct k' as [x|]; simpl; [|discriminate].
    destruct (pstr_eqb name x) eqn:E; [|discriminate].
    apply pstr_eqb_spec in E. subst. intros _. left. reflexivity.
Qed.

Lemma first_kw_of_in name ks : In (Some name) (map kw_arg ks) -> exists k, first_kw name ks = Some k.
Proof.
  unfold first_kw. induction ks as [|a ks IH]; simpl; [intros []|].
  intros [H|H].
  - rewrite H. simpl. rewrite pstr_eqb_refl. eauto.
  - destruct (okey_eqb (kw_arg a) (Some name)); eauto.
Qed.

Lemma kw_mem_first_kw c l name :
  c_call c = Some (c_node c) -> call_keywords c = Ok (Some l) -> kw_mem name l = true ->
  exists k, first_kw name (field_list "keywords" (c_node c)) = Some k.
Proof.
  intros Hc Hk Hm. rewrite call_keywords_eq, Hc in Hk.
  destruct (mapM kw_entry (field_list "keywords" (c_node c))) as [l'|e] eqn:E; simpl in Hk; [|discriminate].
  inversion Hk; subst l'. apply first_kw_of_in. rewrite <- (mapM_kw_entry_keys _ _ E).
  unfold kw_mem in Hm. destruct (kw_lookup name l) as [v|] eqn:El; [|discriminate].
  eapply kw_lookup_in. exact El.
Qed.

Lemma node_keywords_ok c v :
  field_opt "keywords" (c_node c) = Some v ->
  node_keywords c = Ok (field_list "keywords" (c_node c)).
Proof. intro H. unfold node_keywords, field_list, field. rewrite H. reflexivity. Qed.

(* ------------------------------------------------------------------------------------------ *)
(* <plugin>_never_raises                                                                       *)

Theorem yaml_load_never_raises : forall c, call_ctx c -> forall e, yaml_load_fn c <> Raise e.
Proof.
  intros c [[q Hq] [_ [_ [[l Hl] _]]]] e. unfold yaml_load_fn. rewrite Hq.
  destruct (is_module_imported_exact c (s2p "yaml")); simpl; [|discriminate].
  rewrite yaml_args_unsafe_eq.
  destruct (get_call_arg_value_total c (s2p "Loader")) as [kwv Hk]. rewrite Hk. simpl.
  destruct (get_call_arg_at_position_total c 1) as [p Hp]. rewrite Hp. simpl.
  destruct (yaml_name_hit q && (negb (is_safe_loader kwv) && negb (is_safe_loader p))); [|discriminate].
  rewrite Hl. discriminate.
Qed.

Theorem pytorch_load_never_raises : forall c, call_ctx c -> forall e, pytorch_load_fn c <> Raise e.
Proof.
  intros c [[q Hq] _] e. unfold pytorch_load_fn. rewrite Hq.
  destruct (is_module_imported_exact c (s2p "torch")); simpl; [|discriminate].
  destruct (torch_name_hit q); [|discriminate].
  destruct (get_call_arg_value_total c (s2p "weights_only")) as [w Hw]. rewrite Hw. simpl.
  destruct (weights_only_true w); discriminate.
Qed.

Theorem tarfile_unsafe_members_never_raises :
  forall c, call_ctx c -> forall e, tarfile_unsafe_members_fn c <> Raise e.
Proof.
  intros c [_ [[nm Hn] [Hc [_ [v Hv]]]]] e. unfold tarfile_unsafe_members_fn. rewrite Hn.
  destruct (tarfile_name_hit c nm); [|discriminate].
  destruct (call_keywords_total c) as [o Ho]. rewrite Ho. simpl.
  destruct o as [l|].
  2:{ rewrite call_keywords_eq, Hc in Ho.
      destruct (mapM kw_entry (field_list "keywords" (c_node c))); simpl in Ho; discriminate. }
  unfold is_filter_data, get_members_value. rewrite (node_keywords_ok c v Hv). simpl.
  assert (F : exists b, (if kw_mem (s2p "filter") l
                         then match first_kw (s2p "filter") (field_list "keywords" (c_node c)) with
                              | Some k => Ok (value_is_data (field "value" k))
                              | None => Ok false
                              end
                         else Ok false) = Ok b).
  { destruct (kw_mem (s2p "filter") l); [|eauto].
    destruct (first_kw (s2p "filter") (field_list "keywords" (c_node c))); eauto. }
  destruct F as [b Hb]. rewrite Hb. simpl. destruct b; [discriminate|].
  destruct (kw_mem (s2p "members") l) eqn:Em; [|discriminate].
  destruct (kw_mem_first_kw c l (s2p "members") Hc Ho Em) as [k Hk]. rewrite Hk. discriminate.
Qed.

Theorem flask_debug_true_never_raises : forall c, call_ctx c -> forall e, flask_debug_true_fn c <> Raise e.
Proof.
  intros c [[q Hq] _] e. unfold flask_debug_true_fn.
  destruct (is_module_imported_like c (s2p "flask")); [|discriminate]. rewrite Hq.
  destruct (endswith q (s2p ".run")); [|discriminate].
  destruct (check_call_arg_value_total c (s2p "debug") [PStr (s2p "True")]) as [o Ho]. rewrite Ho. simpl.
  destruct (is_some_true o); discriminate.
Qed.

Theorem logging_config_insecure_listen_never_raises :
  forall c, call_ctx c -> forall e, logging_config_insecure_listen_fn c <> Raise e.
Proof.
  intros c [_ [_ [Hc _]]] e. unfold logging_config_insecure_listen_fn.
  destruct (okey_eqb (c_qualname c) (Some listen_qual)); [|discriminate].
  rewrite call_keywords_eq, Hc.
  destruct (mapM_total kw_entry kw_entry_total (field_list "keywords" (c_node c))) as [l Hl].
  rewrite Hl. simpl. destruct (kw_mem (s2p "verify") l); discriminate.
Qed.

Theorem paramiko_calls_never_raises : forall c e, paramiko_calls_fn c <> Raise e.
Proof. intros c e. exact (proj2 (paramiko_rule c) e). Qed.

Theorem exec_used_never_raises : forall c e, exec_used_fn c <> Raise e.
Proof. intros c e. exact (proj2 (exec_rule c) e). Qed.

(* the generated default configurations (gen_config) *)
Definition assert_default_cfg : jv := JDict [(s2p "skips", JList [])].
Definition try_default_cfg : jv := JDict [(s2p "check_typed_exception", JBool false)].

(* B101: total whenever skips is a list of strings; under the default it always reports *)
Theorem assert_used_never_raises :
  (forall c, assert_used_fn assert_default_cfg c = Ok (Some assert_issue)) /\
  (forall cfg gs c e, assert_skips cfg = Ok (map JStr gs) -> assert_used_fn cfg c <> Raise e).
Proof.
  split.
  - intro c. reflexivity.
  - intros cfg gs c e H. unfold assert_used_fn. rewrite H. simpl. rewrite assert_loop_strs.
    destruct (existsb (fnmatch_b (c_filename c)) gs); discriminate.
Qed.

(* a parsed ExceptHandler carries a body list and a type attribute *)
Definition handler_ctx (c : ctx) : Prop :=
  (exists body, field_opt "body" (c_node c) = Some (NList body)) /\
  (exists t, field_opt "type" (c_node c) = Some t).

Lemma try_except_fn_never_raises stmt text cfg c b :
  handler_ctx c -> cfg_check_typed cfg = Ok b -> forall e, try_except_fn stmt text cfg c <> Raise e.
Proof.
  intros [[body Hb] [t Ht]] Hc e. unfold try_except_fn.
  apply handler_body_ok in Hb. rewrite Hb. simpl.
  destruct body as [|s [|s2 rest]]; try discriminate.
  unfold typed_gate. rewrite Hc. simpl. destruct b; simpl.
  - destruct (is_cls stmt s); discriminate.
  - rewrite Ht. simpl. destruct (type_is_broad t); [destruct (is_cls stmt s)|]; discriminate.
Qed.

(* B110 / B112: total for every configuration dict that has the key, in particular the default *)
Theorem try_except_pass_never_raises :
  forall c, handler_ctx c ->
  (forall e, try_except_pass_fn try_default_cfg c <> Raise e) /\
  (forall cfg b e, cfg_check_typed cfg = Ok b -> try_except_pass_fn cfg c <> Raise e).
Proof.
  intros c H. split.
  - intro e. apply (try_except_fn_never_raises _ _ _ _ false H). reflexivity.
  - intros cfg b e Hc. apply (try_except_fn_never_raises _ _ _ _ b H Hc).
Qed.

Theorem try_except_continue_never_raises :
  forall c, handler_ctx c ->
  (forall e, try_except_continue_fn try_default_cfg c <> Raise e) /\
  (forall cfg b e, cfg_check_typed cfg = Ok b -> try_except_continue_fn cfg c <> Raise e).
Proof.
  intros c H. split.
  - intro e. apply (try_except_fn_never_raises _ _ _ _ false H). reflexivity.
  - intros cfg b e Hc. apply (try_except_fn_never_raises _ _ _ _ b H Hc).
Qed.

Example never_raises_ex :
  call_ctx (yaml_ex [mx_kw 2 "Loader" (Node "Set" (mx_pos 2) [("elts", NList [Node "List" (mx_pos 2) [("elts", NList [mx_const 2 (CInt 1)]); ("ctx", Node "Load" None [])]])])] []) /\
  call_ctx (tar_ex [mx_kw 2 "members" (mx_call 2 (mx_attr 2 (mx_name 2 "tar") "getmembers") [] [])]) /\
  handler_ctx (mx_stmt_ctx (ex_handler (mx_name 3 "ValueError") "Pass")) /\
  cfg_check_typed try_default_cfg = Ok false /\
  (* what can still raise: a configuration of the wrong shape *)
  try_except_pass_fn (JDict []) (mx_stmt_ctx (ex_handler NNone "Pass")) = Raise KeyError /\
  assert_used_fn (JDict [(s2p "skips", JNull)]) (mx_stmt_ctx (Node "Assert" (mx_pos 1) [])) = Raise TypeError.
Proof.
  split; [|split; [|split; [|split; [|split]]]]; try reflexivity.
  - apply call_ctx_mx; eexists; reflexivity.
  - apply call_ctx_mx; eexists; reflexivity.
  - split; eexists; reflexivity.
Qed.

(* the context visit_Call builds for a parsed Call node satisfies call_ctx *)
From Bandit Require Import Engine.Tester Engine.Visitor.
Lemma call_ctx_visitor E n parents sib st q :
  (exists p, pos_of n = Some p) -> (exists v, field_opt "keywords" n = Some v) ->
  call_ctx (ctx_set_call (base_ctx E n parents sib st) n q).
Proof.
  intros [p Hp] Hk. unfold call_ctx, ctx_set_call, base_ctx. simpl.
  split; [eauto|]. split; [eauto|]. split; [reflexivity|]. split; [|exact Hk].
  exists (p_line p). unfold lineno_of. rewrite Hp. reflexivity.
Qed.
