From Coq Require Import List NArith ZArith Bool String Arith Lia.
From Bandit Require Import Base.PyStr Engine.Types Engine.Tester Cli.Thresholds Manager.BaselineFilter Cli.ExitBaseline
     Proofs.C07_proofs.
Import ListNotations.

Lemma listed_length r : List.length (listed r) = report_count r.
Proof. destruct r; simpl; [reflexivity | apply map_length]. Qed.

Lemma listed_filter_results_b eqb thr baseline results :
  listed (filter_results_b eqb thr baseline results) =
  match baseline with [] => filter thr results | _ => compare_baseline eqb baseline (filter thr results) end.
Proof.
  unfold filter_results_b. destruct baseline as [|b bs]; simpl; [reflexivity|].
  unfold find_candidates. rewrite map_map. simpl. apply map_id.
Qed.

Theorem exit_b_same_list eqb thr ez baseline results :
  fst (exit_status_b eqb thr ez baseline results) = Exit 1
  <-> (listed (snd (exit_status_b eqb thr ez baseline results)) <> [] /\ ez = false).
Proof.
  unfold exit_status_b. cbn [fst snd].
  rewrite <- listed_length.
  destruct (listed (filter_results_b eqb thr baseline results)) as [|x xs]; destruct ez; simpl.
  - split; [intro H; discriminate H | intros [Hn _]; exfalso; apply Hn; reflexivity].
  - split; [intro H; discriminate H | intros [Hn _]; exfalso; apply Hn; reflexivity].
  - split; [intro H; discriminate H | intros [_ Hz]; discriminate Hz].
  - split; [intros _; split; [discriminate | reflexivity] | intros _; reflexivity].
Qed.

Theorem exit_b_otherwise_zero eqb thr ez baseline results :
  fst (exit_status_b eqb thr ez baseline results) = Exit 1 \/ fst (exit_status_b eqb thr ez baseline results) = Exit 0.
Proof. unfold exit_status_b; cbn [fst]. destruct (negb _ && negb ez); [left|right]; reflexivity. Qed.

Theorem exit_b_listed eqb thr ez baseline results :
  listed (snd (exit_status_b eqb thr ez baseline results)) =
  match baseline with [] => filter thr results | _ => compare_baseline eqb baseline (filter thr results) end.
Proof. unfold exit_status_b; cbn [snd]. apply listed_filter_results_b. Qed.

(* a baseline that accounts for every finding meeting the thresholds: nothing listed, exit 0 whatever --exit-zero says *)
Theorem exit_b_accounted thr ez baseline results :
  baseline <> [] ->
  (forall x, cnt x (filter thr results) <= cnt x baseline) ->
  exit_status_b issue_eqb thr ez baseline results = (Exit 0, WithCandidates []).
Proof.
  intros Hb Hc. unfold exit_status_b, filter_results_b.
  destruct baseline as [|b bs]; [congruence|].
  rewrite (own_report_nothing (filter thr results) (b :: bs) Hc). reflexivity.
Qed.

(* a finding meeting the thresholds whose identity the baseline does not hold: listed, and exit 1 unless --exit-zero *)
Theorem exit_b_new_identity thr baseline results a :
  In a results -> thr a = true -> cnt a baseline = 0 ->
  fst (exit_status_b issue_eqb thr false baseline results) = Exit 1.
Proof.
  intros Hin Ht Hc. apply exit_b_same_list. split; [|reflexivity].
  rewrite exit_b_listed.
  assert (Hf : In a (filter thr results)) by (apply filter_In; split; assumption).
  destruct baseline as [|b bs].
  - intro E. rewrite E in Hf. exact Hf.
  - destruct (new_identity_reported (b :: bs) (filter thr results) a Hf Hc) as [u [Hu _]].
    intro E. rewrite E in Hu. exact Hu.
Qed.
