(* Generic facts about the visitor: anything preserved by visit_one is preserved by the traversal. *)
From Coq Require Import List NArith ZArith Bool String Lia.
From Bandit Require Import Base.PyStr Ast.Node Engine.Types Engine.Tester Engine.Visitor.
Import ListNotations.

Section Inv.
  Variable E : env.
  Variable P : vstate -> Prop.
  Hypothesis Hone : forall n ps sib st, P st -> P (visit_one E n ps sib st).

  Let P' (n : node) : Prop := forall sib ps st, P st -> P (generic_visit E n sib ps st).
  Let Q (n : node) : Prop := P' n /\ (forall l, n = NList l -> Forall P' l).

  Lemma items_inv its ps :
    Forall P' its ->
    forall st, P st ->
    P ((fix goi (is : list node) (st : vstate) : vstate :=
          match is with
          | [] => st
          | i :: is' =>
              let sib := match is' with s :: _ => s | [] => NNone end in
              goi is' (match i with
                       | Node _ _ _ => generic_visit E i sib ps (visit_one E i ps sib st)
                       | _ => st
                       end)
          end) its st).
  Proof.
    induction 1 as [|i is Hi His IH]; intros st Hst; [exact Hst|].
    apply IH. destruct i; try exact Hst.
    apply Hi. apply Hone. exact Hst.
  Qed.

  Lemma generic_visit_Q : forall n, Q n.
  Proof.
    induction n as [c p fs IHfs | l IHl | k | s | z | ] using node_ind'; unfold Q, P'.
    - split; [|intros l H; discriminate].
      intros sib ps st Hst. simpl.
      set (ps' := (Node c p fs, sib) :: ps). clearbody ps'.
      revert st Hst. induction fs as [|[k v] t IHt]; intros st Hst; [exact Hst|].
      inversion IHfs as [|? ? Hv Ht]; subst. simpl in Hv. destruct Hv as [Hv1 Hv2].
      apply IHt; [exact Ht|].
      destruct v as [c' p' fs' | its | | | | ]; try exact Hst.
      + apply Hv1. apply Hone. exact Hst.
      + apply items_inv; [apply Hv2; reflexivity | exact Hst].
    - split; [intros sib ps st Hst; exact Hst|].
      intros l' H; inversion H; subst. eapply Forall_impl; [|exact IHl]. intros a [Ha _]. exact Ha.
    - split; [intros sib ps st Hst; exact Hst | intros l H; discriminate].
    - split; [intros sib ps st Hst; exact Hst | intros l H; discriminate].
    - split; [intros sib ps st Hst; exact Hst | intros l H; discriminate].
    - split; [intros sib ps st Hst; exact Hst | intros l H; discriminate].
  Qed.

  Theorem generic_visit_inv n sib ps st : P st -> P (generic_visit E n sib ps st).
  Proof. apply (proj1 (generic_visit_Q n)). Qed.
End Inv.

(* Two runs in lock-step: a relation preserved by visit_one on both sides is preserved by the traversal. *)
Section Rel.
  Variables E1 E2 : env.
  Variable R : vstate -> vstate -> Prop.
  Hypothesis Hone : forall n ps sib s1 s2, R s1 s2 -> R (visit_one E1 n ps sib s1) (visit_one E2 n ps sib s2).

  Let P' (n : node) : Prop :=
    forall sib ps s1 s2, R s1 s2 -> R (generic_visit E1 n sib ps s1) (generic_visit E2 n sib ps s2).
  Let Q (n : node) : Prop := P' n /\ (forall l, n = NList l -> Forall P' l).

  Definition goi_items (E : env) (ps : list (node * node)) :=
    fix goi (is : list node) (st : vstate) : vstate :=
      match is with
      | [] => st
      | i :: is' =>
          let sib := match is' with s :: _ => s | [] => NNone end in
          goi is' (match i with
                   | Node _ _ _ => generic_visit E i sib ps (visit_one E i ps sib st)
                   | _ => st
                   end)
      end.

  Lemma items_rel its ps :
    Forall P' its -> forall s1 s2, R s1 s2 -> R (goi_items E1 ps its s1) (goi_items E2 ps its s2).
  Proof.
    induction 1 as [|i is Hi His IH]; intros s1 s2 Hs; [exact Hs|].
    simpl. apply IH. destruct i; try exact Hs.
    apply Hi. apply Hone. exact Hs.
  Qed.

  Lemma generic_visit_relQ : forall n, Q n.
  Proof.
    induction n as [c p fs IHfs | l IHl | k | s | z | ] using node_ind'; unfold Q, P'.
    - split; [|intros l H; discriminate].
      intros sib ps s1 s2 Hs. simpl.
      set (ps' := (Node c p fs, sib) :: ps). clearbody ps'.
      revert s1 s2 Hs. induction fs as [|[k v] t IHt]; intros s1 s2 Hs; [exact Hs|].
      inversion IHfs as [|? ? Hv Ht]; subst. simpl in Hv. destruct Hv as [Hv1 Hv2].
      apply IHt; [exact Ht|].
      destruct v as [c' p' fs' | its | | | | ]; try exact Hs.
      + apply Hv1. apply Hone. exact Hs.
      + apply (items_rel its ps'); [apply Hv2; reflexivity | exact Hs].
    - split; [intros sib ps s1 s2 Hs; exact Hs|].
      intros l' H; inversion H; subst. eapply Forall_impl; [|exact IHl]. intros a [Ha _]. exact Ha.
    - split; [intros sib ps s1 s2 Hs; exact Hs | intros l H; discriminate].
    - split; [intros sib ps s1 s2 Hs; exact Hs | intros l H; discriminate].
    - split; [intros sib ps s1 s2 Hs; exact Hs | intros l H; discriminate].
    - split; [intros sib ps s1 s2 Hs; exact Hs | intros l H; discriminate].
  Qed.

  Theorem generic_visit_rel n sib ps s1 s2 :
    R s1 s2 -> R (generic_visit E1 n sib ps s1) (generic_visit E2 n sib ps s2).
  Proof. apply (proj1 (generic_visit_relQ n)). Qed.
End Rel.
