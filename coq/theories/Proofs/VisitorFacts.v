(* Generic facts about the visitor: anything preserved by visit_one is preserved by the traversal. *)
From Coq Require Import List NArith ZArith Bool String Lia.
From Bandit Require Import Base.PyStr Ast.Node Engine.Types Engine.Tester Engine.Visitor.
Import ListNotations.

Section Inv.
  Variable E : env.
  Variable P : vstate -> Prop.
  Hypothesis Hone : forall n ps sib st, P st -> P (visit_one E n ps sib st).

  Let P' (n : node) : Prop := forall sib ps st, P st -> P (generic_visit E n sib ps st).
  Let Q (n : node) : Prop := P' n /\ (forall l, n = NList l -> Forall P' l).

  Lemma items_inv its ps :
    Forall P' its ->
    forall st, P st ->
    P ((fix goi (is : list node) (st : vstate) : vstate :=
          match is with
          | [] => st
          | i :: is' =>
              let sib := match is' with s :: _ => s | [] => NNone end in
              goi is' (match i with
                       | Node _ _ _ => generic_visit E i sib ps (visit_one E i ps sib st)
                       | _ => st
                       end)
          end) its st).
  Proof.
    induction 1 as [|i is Hi His IH]; intros st Hst; [exact Hst|].
    apply IH. destruct i; try exact Hst.
    apply Hi. apply Hone. exact Hst.
  Qed.

  Lemma generic_visit_Q : forall n, Q n.
  Proof.
    induction n as [c p fs IHfs | l IHl | k | s | z | ] using node_ind'; unfold Q, P'.
    - split; [|intros l H; discriminate].
      intros sib ps st Hst. simpl.
      set (ps' := (Node c p fs, sib) :: ps). clearbody ps'.
      revert st Hst. induction fs as [|[k v] t IHt]; intros st Hst; [exact Hst|].
      inversion IHfs as [|? ? Hv Ht]; subst. simpl in Hv. destruct Hv as [Hv1 Hv2].
      apply IHt; [exact Ht|].
      destruct v as [c' p' fs' | its | | | | ]; try exact Hst.
      + apply Hv1. apply Hone. exact Hst.
      + apply items_inv; [apply Hv2; reflexivity | exact Hst].
    - split; [intros sib ps st Hst; exact Hst|].
      intros l' H; inversion H; subst. eapply Forall_impl; [|exact IHl]. intros a [Ha _]. exact Ha.
    - split; [intros sib ps st Hst; exact Hst | intros l H; discriminate].
    - split; [intros sib ps st Hst; exact Hst | intros l H; discriminate].
    - split; [intros sib ps st Hst; exact Hst | intros l H; discriminate].
    - split; [intros sib ps st Hst; exact Hst | intros l H; discriminate].
  Qed.

  Theorem generic_visit_inv n sib ps st : P st -> P (generic_visit E n sib ps st).
  Proof. apply (proj1 (generic_visit_Q n)). Qed.
End Inv.
