From Coq Require Import List NArith ZArith Bool Lia ZifyBool ZifyN.
From Bandit Require Import Base.PyStr Formats.JsonEnc.
Import ListNotations.
Local Open Scope N_scope.
Ltac Zify.zify_post_hook ::= Z.to_euclidean_division_equations.

Lemma unhexd_hexd d : d < 16 -> unhexd (hexd d) = Some d.
Proof.
  intro H.
  assert (F : forallb (fun k => match unhexd (hexd k) with Some k' => k' =? k | None => false end)
                      (map N.of_nat (seq 0 16)) = true) by (vm_compute; reflexivity).
  rewrite forallb_forall in F.
  assert (Hin : In d (map N.of_nat (seq 0 16))).
  { apply in_map_iff. exists (N.to_nat d). split; [lia|]. apply in_seq. lia. }
  specialize (F d Hin). destruct (unhexd (hexd d)); [|discriminate]. apply N.eqb_eq in F. congruence.
Qed.

Lemma unhex4_hex4 n : n < 65536 ->
  unhex4 (hexd (n / 4096 mod 16)) (hexd (n / 256 mod 16)) (hexd (n / 16 mod 16)) (hexd (n mod 16)) = Some n.
Proof.
  intro H. unfold unhex4.
  rewrite !unhexd_hexd by (apply N.mod_lt; lia). f_equal. lia.
Qed.

Lemma enc_char_length_pos c : (0 < List.length (enc_char c))%nat.
Proof.
  unfold enc_char, uesc, hex4.
  repeat match goal with |- context [if ?b then _ else _] => destruct b end; simpl; try lia.
Qed.

(* one encoded character in front of anything decodes to that character followed by the rest,
   provided the rest does not start a low-surrogate escape that would be merged (the encoder never
   emits one after a non-high-surrogate) *)
Lemma dec_enc_char c rest f :
  valid_cp c = true ->
  dec_body (S f) (enc_char c ++ rest) = option_map (cons c) (dec_body f rest).
Proof.
  unfold valid_cp, is_surrogate. intro Hv.
  unfold enc_char.
  destruct (c =? 34) eqn:E34; [apply N.eqb_eq in E34; subst; reflexivity|].
  destruct (c =? 92) eqn:E92; [apply N.eqb_eq in E92; subst; reflexivity|].
  destruct (c =? 10) eqn:E10; [apply N.eqb_eq in E10; subst; reflexivity|].
  destruct (c =? 13) eqn:E13; [apply N.eqb_eq in E13; subst; reflexivity|].
  destruct (c =? 9) eqn:E9; [apply N.eqb_eq in E9; subst; reflexivity|].
  destruct (c =? 8) eqn:E8; [apply N.eqb_eq in E8; subst; reflexivity|].
  destruct (c =? 12) eqn:E12; [apply N.eqb_eq in E12; subst; reflexivity|].
  destruct ((32 <=? c) && (c <=? 126)) eqn:Ep.
  - cbn [app dec_body]. rewrite E92, E34.
    assert (c <? 32 = false) by lia. rewrite H. reflexivity.
  - destruct (c <? 65536) eqn:E16.
    + unfold uesc, hex4. cbn [app dec_body]. cbn [N.eqb Pos.eqb].
      rewrite unhex4_hex4 by lia.
      assert (Hs : (55296 <=? c) && (c <=? 56319) = false) by lia. rewrite Hs. reflexivity.
    + set (v := c - 65536).
      assert (Hv1 : v / 1024 < 1024) by (apply N.div_lt_upper_bound; lia).
      assert (Hv2 : v mod 1024 < 1024) by (apply N.mod_lt; lia).
      unfold uesc, hex4. rewrite <- app_assoc. cbn [app dec_body]. cbn [N.eqb Pos.eqb].
      rewrite unhex4_hex4 by lia.
      assert (Hh : (55296 <=? 55296 + v / 1024) && (55296 + v / 1024 <=? 56319) = true) by lia. rewrite Hh.
      cbn [andb N.eqb Pos.eqb].
      rewrite unhex4_hex4 by lia.
      assert (Hl : (56320 <=? 56320 + v mod 1024) && (56320 + v mod 1024 <=? 57343) = true) by lia. rewrite Hl.
      f_equal. f_equal. unfold v. lia.
Qed.

Lemma dec_body_enc s : forall f,
  forallb valid_cp s = true -> (List.length (flat_map enc_char s) <= f)%nat ->
  dec_body f (flat_map enc_char s) = Some s.
Proof.
  induction s as [|c t IH]; intros f Hv Hf.
  - destruct f; reflexivity.
  - cbn [forallb] in Hv. apply andb_true_iff in Hv as [Hc Ht].
    cbn [flat_map] in *. rewrite app_length in Hf.
    pose proof (enc_char_length_pos c) as Hp.
    destruct f as [|f]; [lia|].
    rewrite dec_enc_char by exact Hc. rewrite IH; [reflexivity | exact Ht | lia].
Qed.

(* the body ends at the closing quote: what follows the encoded characters is nothing *)
Theorem json_roundtrip s : forallb valid_cp s = true -> json_decode (json_encode s) = Some s.
Proof.
  intro Hv. unfold json_encode, json_decode.
  rewrite rev_app_distr. cbn [rev app]. rewrite rev_involutive.
  apply dec_body_enc; [exact Hv|]. rewrite app_length. simpl. lia.
Qed.

(* the encoded form is pure printable ASCII: nothing in it needs a second encoding layer *)
Lemma hexd_ascii d : d < 16 -> 48 <= hexd d <= 102.
Proof. unfold hexd. intro H. destruct (d <? 10) eqn:E; lia. Qed.

Definition printable (c : N) : bool := (32 <=? c) && (c <=? 126).

Lemma enc_char_ascii c : forallb printable (enc_char c) = true.
Proof.
  assert (H16 : forall n, printable (hexd (n mod 16)) = true).
  { intro n. pose proof (hexd_ascii (n mod 16) ltac:(apply N.mod_lt; lia)). unfold printable. lia. }
  unfold enc_char, uesc, hex4.
  repeat match goal with |- context [if ?b then _ else _] => destruct b eqn:? end;
    cbn [forallb app]; rewrite ?forallb_app; cbn [forallb]; rewrite ?H16; try reflexivity.
  unfold printable. lia.
Qed.

Theorem json_encode_ascii s : forallb printable (json_encode s) = true.
Proof.
  unfold json_encode. cbn [forallb]. rewrite forallb_app. cbn [forallb].
  replace (printable 34) with true by reflexivity. rewrite andb_true_r. cbn [andb].
  induction s as [|c t IH]; [reflexivity|].
  cbn [flat_map]. rewrite forallb_app, IH, enc_char_ascii. reflexivity.
Qed.
