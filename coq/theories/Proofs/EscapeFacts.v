From Coq Require Import List NArith ZArith Bool String Lia ZifyBool ZifyN.
From Bandit Require Import Base.PyStr Formats.JsonEnc Formats.Escapes Proofs.PyStrFacts.
Import ListNotations.
Local Open Scope N_scope.

(* ---------- the HTML-escaped text cannot open markup or leave an attribute value ---------- *)
Theorem html_escape_inert s : forallb html_inert (html_escape s) = true.
Proof.
  unfold html_escape. induction s as [|c t IH]; [reflexivity|].
  cbn [flat_map]. rewrite forallb_app, IH, andb_true_r.
  unfold html_char.
  destruct (c =? 38) eqn:E1; [reflexivity|]. destruct (c =? 60) eqn:E2; [reflexivity|].
  destruct (c =? 62) eqn:E3; [reflexivity|]. destruct (c =? 34) eqn:E4; [reflexivity|].
  destruct (c =? 39) eqn:E5; [reflexivity|].
  cbn [forallb]. unfold html_inert. rewrite E2, E3, E4, E5. reflexivity.
Qed.

(* ---------- decoding gives the text back ---------- *)
Section RoundTrip.
  Variable ents : list (pstr * N).
  Variable enc : N -> pstr.
  (* the encoder writes either one of the entities for a special character, or the character itself
     when it is not '&' *)
  Hypothesis enc_spec : forall c,
    (exists e, In (e, c) ents /\ enc c = e /\ forall rest, match_entity ents (e ++ rest) = Some (c, List.length e))
    \/ (enc c = [c] /\ c <> 38).
  Hypothesis ents_amp : forall e c, In (e, c) ents -> exists t, e = 38 :: t.

  Lemma match_entity_not_amp_gen (l : list (pstr * N)) s c :
    (forall e d, In (e, d) l -> exists t, e = 38 :: t) -> c <> 38 -> match_entity l (c :: s) = None.
  Proof.
    intros Hl H. induction l as [|[e d] t IH]; [reflexivity|]. simpl.
    destruct (Hl e d (or_introl eq_refl)) as [te ->]. simpl.
    assert (E : (c =? 38) = false) by (apply N.eqb_neq; exact H). rewrite E. simpl.
    apply IH. intros e' c' Hin. apply (Hl e' c'). right. exact Hin.
  Qed.
  Lemma match_entity_not_amp s c : c <> 38 -> match_entity ents (c :: s) = None.
  Proof. apply match_entity_not_amp_gen. exact ents_amp. Qed.

  Lemma skipn_app_length {A} (a b : list A) : skipn (List.length a) (a ++ b) = b.
  Proof. induction a; simpl; auto. Qed.

  Theorem unescape_escape s : forall f, (List.length (flat_map enc s) <= f)%nat ->
    unescape ents f (flat_map enc s) = s.
  Proof.
    induction s as [|c t IH]; intros f Hf.
    - destruct f; reflexivity.
    - cbn [flat_map] in *. rewrite app_length in Hf.
      destruct (enc_spec c) as [[e [Hin [He Hm]]]|[He Hc]].
      + rewrite He in *. destruct (ents_amp e c Hin) as [te ->].
        destruct f as [|f]; [simpl in Hf; lia|].
        cbn [unescape app]. change (38 :: te ++ flat_map enc t) with ((38 :: te) ++ flat_map enc t).
        rewrite Hm. rewrite skipn_app_length. f_equal. apply IH. simpl in Hf. lia.
      + rewrite He in *. destruct f as [|f]; [simpl in Hf; lia|].
        cbn [unescape app]. rewrite match_entity_not_amp by exact Hc. f_equal. apply IH. simpl in Hf. lia.
  Qed.
End RoundTrip.

Ltac entity_case := left; eexists; split; [|split; [reflexivity | intro rest; reflexivity]]; simpl; tauto.

Theorem html_roundtrip s : unescape entities_html (List.length (html_escape s)) (html_escape s) = s.
Proof.
  apply unescape_escape; [| |apply le_n].
  - intro c. unfold html_char.
    destruct (c =? 38) eqn:E1; [apply N.eqb_eq in E1; subst; entity_case|].
    destruct (c =? 60) eqn:E2; [apply N.eqb_eq in E2; subst; entity_case|].
    destruct (c =? 62) eqn:E3; [apply N.eqb_eq in E3; subst; entity_case|].
    destruct (c =? 34) eqn:E4; [apply N.eqb_eq in E4; subst; entity_case|].
    destruct (c =? 39) eqn:E5; [apply N.eqb_eq in E5; subst; entity_case|].
    right. split; [reflexivity | apply N.eqb_neq; exact E1].
  - intros e c Hin. simpl in Hin. repeat destruct Hin as [Hin|Hin]; try (inversion Hin; subst; eexists; reflexivity); try (destruct Hin).
Qed.

Theorem cdata_roundtrip s : unescape entities_cdata (List.length (escape_cdata s)) (escape_cdata s) = s.
Proof.
  apply unescape_escape; [| |apply le_n].
  - intro c. unfold cdata_char.
    destruct (c =? 38) eqn:E1; [apply N.eqb_eq in E1; subst; entity_case|].
    destruct (c =? 60) eqn:E2; [apply N.eqb_eq in E2; subst; entity_case|].
    destruct (c =? 62) eqn:E3; [apply N.eqb_eq in E3; subst; entity_case|].
    right. split; [reflexivity | apply N.eqb_neq; exact E1].
  - intros e c Hin. simpl in Hin. repeat destruct Hin as [Hin|Hin]; try (inversion Hin; subst; eexists; reflexivity); try (destruct Hin).
Qed.

Theorem attrib_roundtrip s : unescape entities_attrib (List.length (escape_attrib s)) (escape_attrib s) = s.
Proof.
  apply unescape_escape; [| |apply le_n].
  - intro c. unfold attrib_char.
    destruct (c =? 38) eqn:E1; [apply N.eqb_eq in E1; subst; entity_case|].
    destruct (c =? 60) eqn:E2; [apply N.eqb_eq in E2; subst; entity_case|].
    destruct (c =? 62) eqn:E3; [apply N.eqb_eq in E3; subst; entity_case|].
    destruct (c =? 34) eqn:E4; [apply N.eqb_eq in E4; subst; entity_case|].
    destruct (c =? 13) eqn:E5; [apply N.eqb_eq in E5; subst; entity_case|].
    destruct (c =? 10) eqn:E6; [apply N.eqb_eq in E6; subst; entity_case|].
    destruct (c =? 9) eqn:E7; [apply N.eqb_eq in E7; subst; entity_case|].
    right. split; [reflexivity | apply N.eqb_neq; exact E1].
  - intros e c Hin. simpl in Hin. repeat destruct Hin as [Hin|Hin]; try (inversion Hin; subst; eexists; reflexivity); try (destruct Hin).
Qed.

(* markup characters never survive unescaped in element text / attribute values *)
Theorem cdata_no_markup s : forallb (fun c => negb ((c =? 60) || (c =? 62))) (escape_cdata s) = true.
Proof.
  unfold escape_cdata. induction s as [|c t IH]; [reflexivity|]. cbn [flat_map]. rewrite forallb_app, IH, andb_true_r.
  unfold cdata_char. destruct (c =? 38) eqn:E1; [reflexivity|]. destruct (c =? 60) eqn:E2; [reflexivity|].
  destruct (c =? 62) eqn:E3; [reflexivity|]. cbn [forallb]. rewrite E2, E3. reflexivity.
Qed.
Theorem attrib_no_markup s : forallb (fun c => negb ((c =? 60) || (c =? 62) || (c =? 34))) (escape_attrib s) = true.
Proof.
  unfold escape_attrib. induction s as [|c t IH]; [reflexivity|]. cbn [flat_map]. rewrite forallb_app, IH, andb_true_r.
  unfold attrib_char. destruct (c =? 38) eqn:E1; [reflexivity|]. destruct (c =? 60) eqn:E2; [reflexivity|].
  destruct (c =? 62) eqn:E3; [reflexivity|]. destruct (c =? 34) eqn:E4; [reflexivity|].
  destruct (c =? 13) eqn:E5; [reflexivity|]. destruct (c =? 10) eqn:E6; [reflexivity|]. destruct (c =? 9) eqn:E7; [reflexivity|].
  cbn [forallb]. rewrite E2, E3, E4. reflexivity.
Qed.

(* ---------- after _xml_safe every character is an XML 1.0 Char ---------- *)
Lemma hexd_xml d : d < 16 -> xml_char (hexd d) = true.
Proof. intro H. unfold xml_char, hexd. destruct (d <? 10) eqn:E; lia. Qed.

Lemma hex_digits_xml fuel : forall n acc, forallb xml_char acc = true -> forallb xml_char (hex_digits fuel n acc) = true.
Proof.
  induction fuel as [|f IH]; intros n acc Ha; simpl; [exact Ha|].
  destruct (n <? 16) eqn:E.
  - cbn [forallb]. rewrite hexd_xml by lia. exact Ha.
  - apply IH. cbn [forallb]. rewrite hexd_xml by (apply N.mod_lt; lia). exact Ha.
Qed.

Theorem xml_safe_wellformed s : forallb xml_char (xml_safe s) = true.
Proof.
  unfold xml_safe. induction s as [|c t IH]; [reflexivity|]. cbn [flat_map]. rewrite forallb_app, IH, andb_true_r.
  unfold xml_safe_char. destruct (xml_char c) eqn:E; [cbn [forallb]; rewrite E; reflexivity|].
  cbn [forallb]. replace (xml_char 92) with true by reflexivity. replace (xml_char 120) with true by reflexivity. cbn [andb].
  unfold hex02. pose proof (hex_digits_xml 8 c [] eq_refl) as H.
  destruct (hex_digits 8 c []) as [|x [|y r]]; try exact H.
Qed.

(* and text that already consists of XML Chars is left alone *)
Theorem xml_safe_identity s : forallb xml_char s = true -> xml_safe s = s.
Proof.
  unfold xml_safe. induction s as [|c t IH]; [reflexivity|]. cbn [forallb flat_map]. intro H.
  apply andb_true_iff in H as [Hc Ht]. unfold xml_safe_char. rewrite Hc. cbn [app]. f_equal. apply IH. exact Ht.
Qed.
