(* Position-equivariance of the plugin family "crypto" (Plugins/Crypto.v): inserting lines into the source
   moves the reported line of every issue and changes nothing else. *)
From Coq Require Import List NArith ZArith Bool String Lia.
From Bandit Require Import Base.PyStr Ast.Node Engine.Types Engine.Resolve Engine.Context Engine.Scan
     Engine.Shift Plugins.Crypto Proofs.ShiftFacts Proofs.ShiftContext.
Import ListNotations.
Local Open Scope string_scope.
Local Open Scope list_scope.

Section S.
  Variable at_ : Z.
  Variable ins : list pstr.
  Notation sh := (sh at_ ins).
  Notation sh_node := (sh_node at_ ins).
  Notation sh_ctx := (sh_ctx at_ ins).
  Notation sh_ri := (sh_ri at_ ins).
  Notation sh_res := (sh_res at_ ins).
  Notation sh_pyval := (sh_pyval at_ ins).
  Notation sh_kws := (option_map (map (fun kv : option pstr * pyval => (fst kv, sh_pyval (snd kv))))).

  (* ---------- results ---------- *)
  Lemma sh_res_bind {A} (r : res A) k : sh_res (bind r k) = bind r (fun x => sh_res (k x)).
  Proof. destruct r; reflexivity. Qed.
  Lemma sh_res_Ok_None : sh_res (Ok None) = Ok None.
  Proof. reflexivity. Qed.
  Lemma sh_res_Raise e : sh_res (Raise e) = Raise e.
  Proof. reflexivity. Qed.
  Lemma sh_res_if (b : bool) x y : sh_res (if b then x else y) = if b then sh_res x else sh_res y.
  Proof. destruct b; reflexivity. Qed.

  (* ---------- value helpers ---------- *)
  Lemma truthy_sh v : truthy (sh_pyval v) = truthy v.
  Proof.
    destruct v as [ | | | | | | l | l | l | kv ]; try reflexivity;
      first [ rewrite sh_pyval_PList | rewrite sh_pyval_PTuple | rewrite sh_pyval_PSet | rewrite sh_pyval_PDict ];
      cbn [truthy]; unfold sh_ps; first [ destruct l | destruct kv ]; reflexivity.
  Qed.

  Lemma pv_eq_Z_sh v z : pv_eq_Z (sh_pyval v) z = pv_eq_Z v z.
  Proof. destruct v; reflexivity. Qed.

  Lemma is_number_sh v : is_number (sh_pyval v) = is_number v.
  Proof. destruct v; reflexivity. Qed.
  Lemma is_number_fix v : is_number v = true -> sh_pyval v = v.
  Proof. destruct v; try discriminate; reflexivity. Qed.

  Definition eq_jv_list : list pyval -> list jv -> bool :=
    fix go (l1 : list pyval) (l2 : list jv) : bool :=
      match l1, l2 with
      | [], [] => true
      | u :: l1', w :: l2' => pv_eq_jv u w && go l1' l2'
      | _, _ => false
      end.
  Lemma pv_eq_jv_PList l l' : pv_eq_jv (PList l) (JList l') = eq_jv_list l l'.
  Proof. reflexivity. Qed.

  Lemma pv_eq_jv_sh : forall v j, pv_eq_jv (sh_pyval v) j = pv_eq_jv v j.
  Proof.
    induction v as [ | | | | | | l IH | l IH | l IH | kv ] using pyval_ind'; intro j; try reflexivity.
    - rewrite sh_pyval_PList. destruct j; try reflexivity. rewrite !pv_eq_jv_PList.
      revert l0. induction IH as [|x t Hx Ht IHt]; intro l2; [reflexivity|].
      destruct l2 as [|w t2]; [reflexivity|]. cbn [map eq_jv_list]. fold eq_jv_list. rewrite Hx, IHt. reflexivity.
    - rewrite sh_pyval_PDict. destruct kv; reflexivity.
  Qed.

  Lemma kw_get_default_sh kws k d : sh_pyval d = d ->
    kw_get_default (sh_kws kws) k d = map_res sh_pyval (kw_get_default kws k d).
  Proof.
    intro Hd. unfold kw_get_default. destruct kws as [l|]; [|reflexivity]. cbn [option_map map_res].
    rewrite (kw_lookup_sh at_ ins). destruct (kw_lookup k l); cbn [option_map]; [reflexivity | rewrite Hd; reflexivity].
  Qed.

  Lemma node_lineno_sh c : node_lineno (sh_ctx c) = map_res sh (node_lineno c).
  Proof.
    unfold node_lineno. rewrite (c_node_sh at_ ins), (lineno_of_sh at_ ins).
    destruct (lineno_of (c_node c)); reflexivity.
  Qed.

  Lemma qual_is_sh c q : qual_is (sh_ctx c) q = qual_is c q.
  Proof. reflexivity. Qed.
  Lemma name_in_sh c l : name_in (sh_ctx c) l = name_in c l.
  Proof. reflexivity. Qed.

  (* ---------- B324 hashlib ---------- *)
  Lemma used_for_security_sh kws : used_for_security (sh_kws kws) = used_for_security kws.
  Proof.
    unfold used_for_security. rewrite kw_get_default_sh by reflexivity. rewrite bind_map_res.
    apply bind_ext. intro v. rewrite (pyval_eqb_sh_l at_ ins). reflexivity.
  Qed.

  Lemma report_weak_hash_sh c kws name :
    report_weak_hash (sh_ctx c) (sh_kws kws) name = sh_res (report_weak_hash c kws name).
  Proof.
    unfold report_weak_hash. rewrite used_for_security_sh, sh_res_bind. apply bind_ext. intros [|]; [|reflexivity].
    rewrite node_lineno_sh. destruct (node_lineno c); reflexivity.
  Qed.

  Lemma hash_new_name_sh args kws :
    hash_new_name (map sh_pyval args) (sh_kws kws) = map_res sh_pyval (hash_new_name args kws).
  Proof.
    unfold hash_new_name. destruct args as [|a t]; [|reflexivity]. cbn [map].
    apply kw_get_default_sh. reflexivity.
  Qed.

  Lemma hashlib_func_sh c func : hashlib_func (sh_ctx c) func = sh_res (hashlib_func c func).
  Proof.
    unfold hashlib_func. rewrite (call_keywords_sh at_ ins), bind_map_res, sh_res_bind.
    apply bind_ext. intro kws.
    destruct (mem_pstr func weak_hashes); [apply report_weak_hash_sh|].
    destruct (pstr_eqb func (s2p "new")); [|reflexivity].
    rewrite (call_args_sh at_ ins), bind_map_res, sh_res_bind. apply bind_ext. intro args.
    rewrite hash_new_name_sh, bind_map_res, sh_res_bind. apply bind_ext. intro name.
    destruct name; try reflexivity. cbn [ShiftContext.sh_pyval].
    destruct (mem_pstr (lower s) weak_hashes); [apply report_weak_hash_sh | reflexivity].
  Qed.

  Lemma report_weak_crypt_sh c name :
    report_weak_crypt (sh_ctx c) (sh_pyval name) = sh_res (report_weak_crypt c name).
  Proof.
    unfold report_weak_crypt. destruct name; try reflexivity. cbn [ShiftContext.sh_pyval].
    destruct (mem_pstr s weak_crypt_hashes); [|reflexivity].
    rewrite node_lineno_sh. destruct (node_lineno c); reflexivity.
  Qed.

  Lemma crypt_crypt_sh c func : crypt_crypt (sh_ctx c) func = sh_res (crypt_crypt c func).
  Proof.
    unfold crypt_crypt.
    rewrite (call_args_sh at_ ins), bind_map_res, sh_res_bind. apply bind_ext. intro args.
    rewrite (call_keywords_sh at_ ins), bind_map_res, sh_res_bind. apply bind_ext. intro kws.
    destruct (pstr_eqb func (s2p "crypt")).
    - rewrite sh_res_bind.
      assert (E : match map sh_pyval args with
                  | _ :: a :: _ => Ok a
                  | _ => kw_get_default (sh_kws kws) (s2p "salt") PNone
                  end
                  = map_res sh_pyval match args with
                                     | _ :: a :: _ => Ok a
                                     | _ => kw_get_default kws (s2p "salt") PNone
                                     end).
      { destruct args as [|a0 [|a1 t]]; cbn [map]; try reflexivity; apply kw_get_default_sh; reflexivity. }
      rewrite E, bind_map_res. apply bind_ext. intro name. apply report_weak_crypt_sh.
    - destruct (pstr_eqb func (s2p "mksalt")); [|reflexivity].
      rewrite sh_res_bind.
      assert (E : match map sh_pyval args with
                  | a :: _ => Ok a
                  | [] => kw_get_default (sh_kws kws) (s2p "method") PNone
                  end
                  = map_res sh_pyval match args with
                                     | a :: _ => Ok a
                                     | [] => kw_get_default kws (s2p "method") PNone
                                     end).
      { destruct args as [|a0 t]; cbn [map]; try reflexivity; apply kw_get_default_sh; reflexivity. }
      rewrite E, bind_map_res. apply bind_ext. intro name. apply report_weak_crypt_sh.
  Qed.

  Lemma hashlib_shift c : hashlib (sh_ctx c) = sh_res (hashlib c).
  Proof.
    unfold hashlib. rewrite (c_qualname_sh at_ ins). destruct (c_qualname c) as [q|]; [|reflexivity].
    cbv zeta.
    destruct (mem_pstr (s2p "hashlib") (split_on dot q)); [apply hashlib_func_sh|].
    destruct (mem_pstr (s2p "crypt") (split_on dot q) && mem_pstr (last (split_on dot q) []) [s2p "crypt"; s2p "mksalt"]);
      [apply crypt_crypt_sh | reflexivity].
  Qed.

  (* ---------- B505 weak_cryptographic_key ---------- *)
  Lemma classify_key_size_fix cfg kt k : sh_res (classify_key_size cfg kt k) = classify_key_size cfg kt k.
  Proof.
    unfold classify_key_size. destruct (is_number k); [|reflexivity].
    destruct (thresholds cfg kt) as [th|e]; [|reflexivity]. cbn [bind].
    destruct (lt_threshold k (fst th)) as [[|]|e]; try reflexivity. cbn [bind].
    destruct (lt_threshold k (snd th)) as [[|]|e]; reflexivity.
  Qed.

  Lemma classify_key_size_sh cfg kt k :
    classify_key_size cfg kt (sh_pyval k) = sh_res (classify_key_size cfg kt k).
  Proof.
    rewrite classify_key_size_fix. destruct (is_number k) eqn:E.
    - rewrite is_number_fix by exact E. reflexivity.
    - unfold classify_key_size. rewrite is_number_sh, E. reflexivity.
  Qed.

  Lemma key_size_of_sh c kw pos : key_size_of (sh_ctx c) kw pos = map_res sh_pyval (key_size_of c kw pos).
  Proof.
    unfold key_size_of. rewrite (get_call_arg_value_sh at_ ins), bind_map_res, map_res_bind.
    apply bind_ext. intro a. rewrite truthy_sh. destruct (truthy a); [reflexivity|].
    rewrite (get_call_arg_at_position_sh at_ ins), bind_map_res, map_res_bind.
    apply bind_ext. intro b. rewrite truthy_sh. destruct (truthy b); reflexivity.
  Qed.

  Lemma ec_curve_sh c : ec_curve (sh_ctx c) = map_res (option_map sh_pyval) (ec_curve c).
  Proof.
    unfold ec_curve. rewrite (get_call_arg_value_sh at_ ins), bind_map_res, map_res_bind.
    apply bind_ext. intro v. rewrite truthy_sh. destruct (truthy v); [reflexivity|].
    rewrite (call_args_sh at_ ins), bind_map_res, map_res_bind.
    apply bind_ext. intro args. destruct args; reflexivity.
  Qed.

  Lemma curve_size_sh o : curve_size (option_map sh_pyval o) = curve_size o.
  Proof. destruct o as [v|]; [|reflexivity]. destruct v; reflexivity. Qed.

  Lemma func_key_type_sh tab c : func_key_type tab (sh_ctx c) = func_key_type tab c.
  Proof. reflexivity. Qed.

  Lemma weak_crypto_key_size_cryptography_io_sh c cfg :
    weak_crypto_key_size_cryptography_io (sh_ctx c) cfg = sh_res (weak_crypto_key_size_cryptography_io c cfg).
  Proof.
    unfold weak_crypto_key_size_cryptography_io. rewrite func_key_type_sh.
    assert (G : forall kt,
      (do ks <- key_size_of (sh_ctx c) (s2p "key_size") (arg_position kt);; classify_key_size cfg kt ks)
      = sh_res (do ks <- key_size_of c (s2p "key_size") (arg_position kt);; classify_key_size cfg kt ks)).
    { intro kt. rewrite key_size_of_sh, bind_map_res, sh_res_bind. apply bind_ext. intro ks.
      apply classify_key_size_sh. }
    destruct (func_key_type cryptography_io_funcs c) as [[ | | ]|]; [apply G | apply G | | reflexivity].
    rewrite ec_curve_sh, bind_map_res, sh_res_bind. apply bind_ext. intro curve.
    rewrite curve_size_sh, classify_key_size_fix. reflexivity.
  Qed.

  Lemma weak_crypto_key_size_pycrypto_sh c cfg :
    weak_crypto_key_size_pycrypto (sh_ctx c) cfg = sh_res (weak_crypto_key_size_pycrypto c cfg).
  Proof.
    unfold weak_crypto_key_size_pycrypto. rewrite func_key_type_sh.
    destruct (func_key_type pycrypto_funcs c) as [kt|]; [|reflexivity].
    rewrite key_size_of_sh, bind_map_res, sh_res_bind. apply bind_ext. intro ks.
    apply classify_key_size_sh.
  Qed.

  Lemma weak_cryptographic_key_shift c cfg :
    weak_cryptographic_key (sh_ctx c) cfg = sh_res (weak_cryptographic_key c cfg).
  Proof.
    unfold weak_cryptographic_key. rewrite weak_crypto_key_size_cryptography_io_sh.
    destruct (weak_crypto_key_size_cryptography_io c cfg) as [[i|]|e]; try reflexivity.
    cbn [Shift.sh_res bind]. apply weak_crypto_key_size_pycrypto_sh.
  Qed.

  (* ---------- B502 / B503 / B504 insecure_ssl_tls ---------- *)
  Lemma check_call_arg_cfg_sh c name bad : check_call_arg_cfg (sh_ctx c) name bad = check_call_arg_cfg c name bad.
  Proof.
    unfold check_call_arg_cfg. rewrite (get_call_arg_value_sh at_ ins), bind_map_res. apply bind_ext. intro v.
    rewrite (existsb_ext' (pv_eq_jv (sh_pyval v)) (pv_eq_jv v)) by (intro j; apply pv_eq_jv_sh).
    destruct v; reflexivity.
  Qed.

  Lemma ssl_issue_sh sev conf text l : sh_ri (ssl_issue sev conf text l) = ssl_issue sev conf text (option_map sh l).
  Proof. reflexivity. Qed.

  Lemma ssl_with_bad_version_shift c cfg : ssl_with_bad_version (sh_ctx c) cfg = sh_res (ssl_with_bad_version c cfg).
  Proof.
    unfold ssl_with_bad_version. rewrite sh_res_bind. apply bind_ext. intro bad.
    rewrite !qual_is_sh, !check_call_arg_cfg_sh, !(get_lineno_for_call_arg_sh at_ ins).
    destruct (qual_is c q_wrap_socket).
    { rewrite sh_res_bind. apply bind_ext. intro r. destruct (is_true r); reflexivity. }
    destruct (qual_is c q_ssl_context).
    { rewrite sh_res_bind. apply bind_ext. intro r. destruct (is_true r); reflexivity. }
    rewrite sh_res_bind. apply bind_ext. intro r1.
    rewrite sh_res_bind. apply bind_ext. intros [|]; [|reflexivity].
    cbn [Shift.sh_res]. rewrite ssl_issue_sh.
    destruct (get_lineno_for_call_arg c (s2p "method")); reflexivity.
  Qed.

  Lemma ssl_with_bad_defaults_shift c cfg : ssl_with_bad_defaults (sh_ctx c) cfg = sh_res (ssl_with_bad_defaults c cfg).
  Proof.
    unfold ssl_with_bad_defaults. rewrite sh_res_bind. apply bind_ext. intro bad.
    rewrite (function_def_defaults_qual_sh at_ ins), sh_res_bind. apply bind_ext. intros [|]; reflexivity.
  Qed.

  Lemma ssl_with_no_version_shift c : ssl_with_no_version (sh_ctx c) = sh_res (ssl_with_no_version c).
  Proof.
    unfold ssl_with_no_version. rewrite qual_is_sh. destruct (qual_is c q_wrap_socket); [|reflexivity].
    rewrite (check_call_arg_value_sh at_ ins), (get_lineno_for_call_arg_sh at_ ins), sh_res_bind.
    apply bind_ext. intro r. destruct (is_none r); reflexivity.
  Qed.

  (* ---------- B501 / B113 ---------- *)
  Lemma qual_head_sh c : qual_head (sh_ctx c) = qual_head c.
  Proof. reflexivity. Qed.
  Lemma is_requests_call_sh c h : is_requests_call (sh_ctx c) h = is_requests_call c h.
  Proof. reflexivity. Qed.
  Lemma is_httpx_call_sh c h : is_httpx_call (sh_ctx c) h = is_httpx_call c h.
  Proof. reflexivity. Qed.

  Lemma request_with_no_cert_validation_shift c :
    request_with_no_cert_validation (sh_ctx c) = sh_res (request_with_no_cert_validation c).
  Proof.
    unfold request_with_no_cert_validation. rewrite qual_head_sh, sh_res_bind. apply bind_ext. intro h.
    rewrite is_requests_call_sh, is_httpx_call_sh.
    destruct (is_requests_call c h || is_httpx_call c h); [|reflexivity].
    rewrite (check_call_arg_value_sh at_ ins), (get_lineno_for_call_arg_sh at_ ins), sh_res_bind.
    apply bind_ext. intro r. destruct (is_true r); reflexivity.
  Qed.

  Lemma request_without_timeout_shift c :
    request_without_timeout (sh_ctx c) = sh_res (request_without_timeout c).
  Proof.
    unfold request_without_timeout. rewrite qual_head_sh, sh_res_bind. apply bind_ext. intro h.
    rewrite !is_requests_call_sh, is_httpx_call_sh, !(check_call_arg_value_sh at_ ins), sh_res_bind.
    apply bind_ext. intros [|]; [reflexivity|].
    destruct (is_requests_call c h || is_httpx_call c h); [|reflexivity].
    rewrite sh_res_bind. apply bind_ext. intro r. destruct (is_true r); reflexivity.
  Qed.

  (* ---------- B507 ---------- *)
  Lemma policy_argument_value_sh a : policy_argument_value (sh_node a) = policy_argument_value a.
  Proof.
    unfold policy_argument_value.
    rewrite !(is_cls_sh at_ ins), (attr_of_sh at_ ins), (name_id_sh at_ ins), (field_sh at_ ins),
      !(is_cls_sh at_ ins), (attr_of_sh at_ ins), (name_id_sh at_ ins).
    reflexivity.
  Qed.

  Lemma ssh_no_host_key_verification_shift c :
    ssh_no_host_key_verification (sh_ctx c) = sh_res (ssh_no_host_key_verification c).
  Proof.
    unfold ssh_no_host_key_verification.
    rewrite (is_module_imported_like_sh at_ ins), name_in_sh.
    destruct (is_module_imported_like c (s2p "paramiko") && name_in c [s_set_policy]); [|reflexivity].
    rewrite (c_node_sh at_ ins), (field_opt_sh at_ ins).
    destruct (field_opt "args" (c_node c)) as [args|]; [|reflexivity]. cbn [option_map].
    rewrite (items_sh at_ ins). destruct (items args) as [|a t]; [reflexivity|]. cbn [map].
    rewrite policy_argument_value_sh. destruct (policy_argument_value a) as [v|]; [|reflexivity].
    destruct (mem_pstr v bad_policies); [|reflexivity].
    rewrite (get_lineno_for_call_arg_sh at_ ins). reflexivity.
  Qed.

  (* ---------- B508 / B509 ---------- *)
  Lemma check_call_arg_int_sh c name z : check_call_arg_int (sh_ctx c) name z = check_call_arg_int c name z.
  Proof.
    unfold check_call_arg_int. rewrite (get_call_arg_value_sh at_ ins), bind_map_res. apply bind_ext. intro v.
    rewrite pv_eq_Z_sh. destruct v; reflexivity.
  Qed.

  Lemma snmp_insecure_version_check_shift c :
    snmp_insecure_version_check (sh_ctx c) = sh_res (snmp_insecure_version_check c).
  Proof.
    unfold snmp_insecure_version_check. rewrite qual_is_sh. destruct (qual_is c q_community_data); [|reflexivity].
    rewrite !check_call_arg_int_sh, (get_lineno_for_call_arg_sh at_ ins), sh_res_bind.
    apply bind_ext. intro r0. rewrite sh_res_bind. apply bind_ext. intros [|]; reflexivity.
  Qed.

  Lemma snmp_crypto_check_shift c : snmp_crypto_check (sh_ctx c) = sh_res (snmp_crypto_check c).
  Proof.
    unfold snmp_crypto_check. rewrite qual_is_sh. destruct (qual_is c q_usm_user_data); [|reflexivity].
    rewrite (call_args_count_sh at_ ins), (get_lineno_for_call_arg_sh at_ ins).
    destruct (call_args_count c) as [n|]; [|reflexivity]. destruct (Nat.ltb n 3); reflexivity.
  Qed.

  (* ---------- the family ---------- *)
  Theorem crypto_plugins_equiv :
    Forall (fun p => forall cfg c, pl_fn p cfg (sh_ctx c) = sh_res (pl_fn p cfg c)) crypto_plugins.
  Proof.
    repeat constructor; intros cfg c; cbn [pl_fn].
    - apply hashlib_shift.
    - apply weak_cryptographic_key_shift.
    - apply ssl_with_bad_version_shift.
    - apply ssl_with_bad_defaults_shift.
    - apply ssl_with_no_version_shift.
    - apply request_with_no_cert_validation_shift.
    - apply request_without_timeout_shift.
    - apply ssh_no_host_key_verification_shift.
    - apply snmp_insecure_version_check_shift.
    - apply snmp_crypto_check_shift.
  Qed.
End S.
