From Coq Require Import List NArith ZArith Bool String Lia.
From Bandit Require Import Base.PyStr.
Import ListNotations.

Lemma pstr_eqb_spec a b : pstr_eqb a b = true <-> a = b.
Proof.
  revert b; induction a as [|x a IH]; intros [|y b]; simpl; split; intro H; try congruence; try discriminate.
  - apply andb_true_iff in H as [H1 H2]. apply N.eqb_eq in H1. apply IH in H2. congruence.
  - inversion H; subst. rewrite N.eqb_refl. simpl. apply IH. reflexivity.
Qed.

Lemma pstr_eqb_refl a : pstr_eqb a a = true.
Proof. apply pstr_eqb_spec; reflexivity. Qed.

Lemma pstr_eqb_neq a b : pstr_eqb a b = false <-> a <> b.
Proof.
  split; intro H.
  - intro E. apply pstr_eqb_spec in E. congruence.
  - destruct (pstr_eqb a b) eqn:E; [|reflexivity]. apply pstr_eqb_spec in E. contradiction.
Qed.

Lemma mem_pstr_In x l : mem_pstr x l = true <-> In x l.
Proof.
  unfold mem_pstr. rewrite existsb_exists. split.
  - intros [y [Hy He]]. apply pstr_eqb_spec in He. subst. exact Hy.
  - intro H. exists x. split; [exact H | apply pstr_eqb_refl].
Qed.

Lemma startswith_spec s p : startswith s p = true <-> exists t, s = p ++ t.
Proof.
  revert s; induction p as [|y p IH]; intros s; simpl.
  - split; [intros _; exists s; reflexivity | intros _; destruct s; reflexivity].
  - destruct s as [|x s].
    + split; [discriminate | intros [t H]; discriminate].
    + simpl. rewrite andb_true_iff, N.eqb_eq, IH. split.
      * intros [-> [t ->]]. exists t. reflexivity.
      * intros [t H]. inversion H; subst. split; [reflexivity | exists t; reflexivity].
Qed.

Lemma assoc_set_same {A} k (v : A) l : assoc k (assoc_set k v l) = Some v.
Proof.
  induction l as [|[k' v'] l IH]; simpl.
  - rewrite pstr_eqb_refl. reflexivity.
  - destruct (pstr_eqb k k') eqn:E; simpl; rewrite ?E; auto.
Qed.

Lemma assoc_set_other {A} k k' (v : A) l : k <> k' -> assoc k (assoc_set k' v l) = assoc k l.
Proof.
  intro Hn. induction l as [|[k2 v2] l IH]; simpl.
  - apply pstr_eqb_neq in Hn. rewrite Hn. reflexivity.
  - destruct (pstr_eqb k' k2) eqn:E; simpl.
    + apply pstr_eqb_spec in E; subst k2. apply pstr_eqb_neq in Hn. rewrite Hn. reflexivity.
    + destruct (pstr_eqb k k2); auto.
Qed.

Lemma assoc_set_keys {A} k (v : A) l x :
  In x (map fst (assoc_set k v l)) -> x = k \/ In x (map fst l).
Proof.
  induction l as [|[k2 v2] l IH]; simpl.
  - intros [H|[]]; auto.
  - destruct (pstr_eqb k k2) eqn:E; simpl; intros [H|H]; auto.
    apply IH in H. tauto.
Qed.

Lemma assoc_In_key {A} k (l : list (pstr * A)) v : assoc k l = Some v -> In k (map fst l).
Proof.
  induction l as [|[k2 v2] l IH]; simpl; [discriminate|].
  destruct (pstr_eqb k k2) eqn:E.
  - apply pstr_eqb_spec in E. auto.
  - intro H. right. auto.
Qed.

Lemma assoc_None_notin {A} k (l : list (pstr * A)) : ~ In k (map fst l) -> assoc k l = None.
Proof.
  induction l as [|[k2 v2] l IH]; simpl; [reflexivity|].
  intro H. destruct (pstr_eqb k k2) eqn:E.
  - apply pstr_eqb_spec in E. subst. exfalso. apply H. auto.
  - apply IH. intro. apply H. auto.
Qed.
