(* Facts about the line-insertion transformation of Engine/Shift.v: accessors, line ranges, nosec maps. *)
From Coq Require Import List NArith ZArith Bool String Lia.
From Bandit Require Import Base.PyStr Ast.Node Engine.Types Engine.Resolve Engine.Linerange Engine.Tester
     Engine.Visitor Engine.Shift Proofs.PyStrFacts.
Import ListNotations.
Local Open Scope string_scope.
Local Open Scope list_scope.
Local Open Scope Z_scope.

(* ---------- zrange ---------- *)
Lemma zrange_nil a b : b <= a -> zrange a b = [].
Proof. intro H. unfold zrange. replace (Z.to_nat (b - a)) with O by lia. reflexivity. Qed.

Lemma map_seq_shift (f : nat -> Z) n s : map f (seq (S s) n) = map (fun i => f (S i)) (seq s n).
Proof. rewrite <- seq_shift, map_map. reflexivity. Qed.

Lemma zrange_cons a b : a < b -> zrange a b = a :: zrange (a + 1) b.
Proof.
  intro H. unfold zrange. replace (Z.to_nat (b - a)) with (S (Z.to_nat (b - (a + 1)))) by lia.
  cbn [seq map]. f_equal; [lia|]. rewrite map_seq_shift. apply map_ext. intro i. lia.
Qed.

Lemma zrange_ind_aux (P : Z -> Z -> Prop) :
  (forall a b, b <= a -> P a b) -> (forall a b, a < b -> P (a + 1) b -> P a b) -> forall a b, P a b.
Proof.
  intros H0 HS a b. remember (Z.to_nat (b - a)) as n eqn:En. revert a b En.
  induction n as [|n IH]; intros a b En; [apply H0; lia|].
  apply HS; [lia|]. apply IH. lia.
Qed.

Lemma In_zrange x a b : In x (zrange a b) <-> a <= x < b.
Proof.
  revert x. pattern a, b. apply zrange_ind_aux; clear a b.
  - intros a b H x. rewrite zrange_nil by exact H. simpl. lia.
  - intros a b H IH x. rewrite zrange_cons by exact H. simpl. rewrite IH. lia.
Qed.

Lemma zrange_app a c b : a <= c <= b -> zrange a b = zrange a c ++ zrange c b.
Proof.
  revert c. pattern a, b. apply zrange_ind_aux; clear a b.
  - intros a b H c Hc. rewrite (zrange_nil a b), (zrange_nil a c), (zrange_nil c b) by lia. reflexivity.
  - intros a b H IH c Hc. destruct (Z.eq_dec a c) as [->|Hne].
    + rewrite (zrange_nil c c) by lia. reflexivity.
    + rewrite (zrange_cons a b), (zrange_cons a c) by lia. simpl. f_equal. apply IH. lia.
Qed.

Lemma last_zrange a b d : a < b -> last (zrange a b) d = b - 1.
Proof.
  pattern a, b. apply zrange_ind_aux; clear a b.
  - intros; lia.
  - intros a b H IH _. rewrite zrange_cons by exact H.
    destruct (Z.eq_dec (a + 1) b) as [E|E].
    + rewrite zrange_nil by lia. simpl. lia.
    + assert (H2 : a + 1 < b) by lia. specialize (IH H2).
      rewrite zrange_cons in * by exact H2. exact IH.
Qed.

Lemma map_add_zrange k a b : map (fun x => x + k) (zrange a b) = zrange (a + k) (b + k).
Proof.
  pattern a, b. apply zrange_ind_aux; clear a b.
  - intros a b H. rewrite !zrange_nil by lia. reflexivity.
  - intros a b H IH. rewrite (zrange_cons a b), (zrange_cons (a + k) (b + k)) by lia. simpl. f_equal.
    rewrite IH. f_equal. lia.
Qed.

Lemma map_id_zrange (f : Z -> Z) a b : (forall x, a <= x < b -> f x = x) -> map f (zrange a b) = zrange a b.
Proof.
  intro H. rewrite <- (map_id (zrange a b)) at 2. apply map_ext_in. intros x Hx. apply In_zrange in Hx. auto.
Qed.

(* a zrange is a contiguous ascending run *)
Lemma zrange_consecutive a b i : (i < Z.to_nat (b - a))%nat -> nth i (zrange a b) 0 = a + Z.of_nat i.
Proof.
  revert i. pattern a, b. apply zrange_ind_aux; clear a b.
  - intros a b H i Hi. lia.
  - intros a b H IH i Hi. rewrite zrange_cons by exact H. destruct i as [|i]; [simpl; lia|].
    cbn [nth]. rewrite IH by lia. lia.
Qed.
Lemma zrange_length a b : List.length (zrange a b) = Z.to_nat (b - a).
Proof. unfold zrange. rewrite map_length, seq_length. reflexivity. Qed.

Section Facts.
  Variable at_ : Z.
  Variable ins : list pstr.
  Hypothesis Hat : 1 <= at_.
  Notation k := (k_ ins).
  Notation sh := (sh at_ ins).
  Notation sh_node := (sh_node at_ ins).
  Notation sh_range := (sh_range at_ ins).

  Lemma k_nonneg : 0 <= k.
  Proof. unfold k_. lia. Qed.

  Lemma sh_mono a b : a < b -> sh a < sh b.
  Proof. pose proof k_nonneg. unfold Shift.sh. intro Hab. destruct (at_ <=? a) eqn:E1, (at_ <=? b) eqn:E2; lia. Qed.
  Lemma sh_inj a b : sh a = sh b -> a = b.
  Proof.
    intro H. destruct (Z.lt_trichotomy a b) as [L|[L|L]]; [|exact L|].
    - apply sh_mono in L. lia.
    - apply sh_mono in L. lia.
  Qed.
  Lemma sh_ge a : a <= sh a.
  Proof. pose proof k_nonneg. unfold Shift.sh. destruct (at_ <=? a); lia. Qed.
  Lemma sh_0 : sh 0 = 0.
  Proof. unfold Shift.sh. destruct (at_ <=? 0) eqn:E; lia. Qed.
  Lemma sh_below a : a < at_ -> sh a = a.
  Proof. unfold Shift.sh. intro H. destruct (at_ <=? a) eqn:E; lia. Qed.
  Lemma sh_above a : at_ <= a -> sh a = a + k.
  Proof. unfold Shift.sh. intro H. destruct (at_ <=? a) eqn:E; lia. Qed.
  (* no line of the new file that lies inside the inserted block is the image of an old line *)
  Lemma sh_misses a y : at_ <= y < at_ + k -> sh a <> y.
  Proof. unfold Shift.sh. intro H. destruct (at_ <=? a) eqn:E; lia. Qed.

  (* ---------- structure ---------- *)
  Definition sh_fields (fs : list (string * node)) := map (fun kv => (fst kv, sh_node (snd kv))) fs.

  Lemma sh_node_Node c p fs : sh_node (Node c p fs) = Node c (option_map (sh_pos at_ ins) p) (sh_fields fs).
  Proof.
    cbn [Shift.sh_node]. f_equal. unfold sh_fields. induction fs as [|[f v] t IH]; [reflexivity|].
    cbn [map fst snd]. f_equal. exact IH.
  Qed.
  Lemma sh_node_NList l : sh_node (NList l) = NList (map sh_node l).
  Proof. reflexivity. Qed.

  Lemma cls_of_sh n : cls_of (sh_node n) = cls_of n.
  Proof. destruct n; reflexivity. Qed.
  Lemma is_cls_sh c n : is_cls c (sh_node n) = is_cls c n.
  Proof. destruct n; reflexivity. Qed.
  Lemma is_ast_sh n : is_ast (sh_node n) = is_ast n.
  Proof. destruct n; reflexivity. Qed.
  Lemma pos_of_sh n : pos_of (sh_node n) = option_map (sh_pos at_ ins) (pos_of n).
  Proof. destruct n; reflexivity. Qed.
  Lemma lineno_of_sh n : lineno_of (sh_node n) = option_map sh (lineno_of n).
  Proof. unfold lineno_of. rewrite pos_of_sh. destruct (pos_of n); reflexivity. Qed.
  Lemma fields_of_sh n : fields_of (sh_node n) = sh_fields (fields_of n).
  Proof. destruct n as [c p fs| | | | |]; try reflexivity. rewrite sh_node_Node. reflexivity. Qed.
  Lemma lookup_field_sh f fs : lookup_field f (sh_fields fs) = option_map sh_node (lookup_field f fs).
  Proof. induction fs as [|[k0 v] t IH]; [reflexivity|]. simpl. destruct (String.eqb f k0); [reflexivity | exact IH]. Qed.
  Lemma field_opt_sh f n : field_opt f (sh_node n) = option_map sh_node (field_opt f n).
  Proof. unfold field_opt. rewrite fields_of_sh. apply lookup_field_sh. Qed.
  Lemma field_sh f n : field f (sh_node n) = sh_node (field f n).
  Proof. unfold field. rewrite field_opt_sh. destruct (field_opt f n); reflexivity. Qed.
  Lemma has_field_sh f n : has_field f (sh_node n) = has_field f n.
  Proof. unfold has_field. rewrite field_opt_sh. destruct (field_opt f n); reflexivity. Qed.
  Lemma items_sh n : items (sh_node n) = map sh_node (items n).
  Proof. destruct n; reflexivity. Qed.
  Lemma field_list_sh f n : field_list f (sh_node n) = map sh_node (field_list f n).
  Proof. unfold field_list. rewrite field_sh. apply items_sh. Qed.
  Lemma id_of_sh n : id_of (sh_node n) = id_of n.
  Proof. destruct n; reflexivity. Qed.
  Lemma sh_node_NId n s : sh_node n = NId s <-> n = NId s.
  Proof. destruct n as [c p fs| l | | | |]; try (simpl; tauto); try (rewrite sh_node_Node); split; discriminate. Qed.

  Lemma const_of_sh n : const_of (sh_node n) = const_of n.
  Proof.
    destruct n as [c p fs| | | | |]; try reflexivity. rewrite sh_node_Node. unfold const_of.
    destruct (String.eqb c "Constant"); [|reflexivity]. rewrite lookup_field_sh.
    destruct (lookup_field "value" fs) as [v|]; [|reflexivity]. destruct v; reflexivity.
  Qed.
  Lemma str_of_sh n : str_of (sh_node n) = str_of n.
  Proof. unfold str_of. rewrite const_of_sh. reflexivity. Qed.
  Lemma is_Str_sh n : is_Str (sh_node n) = is_Str n.
  Proof. unfold is_Str. rewrite const_of_sh. reflexivity. Qed.
  Lemma is_Bytes_sh n : is_Bytes (sh_node n) = is_Bytes n.
  Proof. unfold is_Bytes. rewrite const_of_sh. reflexivity. Qed.
  Lemma is_Num_sh n : is_Num (sh_node n) = is_Num n.
  Proof. unfold is_Num. rewrite const_of_sh. reflexivity. Qed.
  Lemma is_NameConstant_sh n : is_NameConstant (sh_node n) = is_NameConstant n.
  Proof. unfold is_NameConstant. rewrite const_of_sh. reflexivity. Qed.

  Lemma child_nodes_of_fields_sh fs : child_nodes_of_fields (sh_fields fs) = map sh_node (child_nodes_of_fields fs).
  Proof.
    unfold child_nodes_of_fields. induction fs as [|[f v] t IH]; [reflexivity|].
    cbn [sh_fields map flat_map fst snd]. fold (sh_fields t). rewrite map_app. f_equal; [|exact IH].
    destruct v as [c p fs'| l | | | |]; try reflexivity.
    cbn [snd Shift.sh_node]. induction l as [|x l' IHl]; [reflexivity|]. cbn [map filter]. rewrite is_ast_sh.
    destruct (is_ast x); cbn [map]; [f_equal|]; exact IHl.
  Qed.
  Lemma child_nodes_sh n : child_nodes (sh_node n) = map sh_node (child_nodes n).
  Proof. unfold child_nodes. rewrite fields_of_sh. apply child_nodes_of_fields_sh. Qed.

  (* ---------- names ---------- *)
  Lemma name_id_sh n : name_id (sh_node n) = name_id n.
  Proof. unfold name_id. rewrite field_sh. destruct (field "id" n) as [c p fs| l | | | |]; try reflexivity;
         try (rewrite sh_node_Node; reflexivity). Qed.
  Lemma attr_of_sh n : attr_of (sh_node n) = attr_of n.
  Proof. unfold attr_of. rewrite field_sh. destruct (field "attr" n) as [c p fs| l | | | |]; try reflexivity;
         try (rewrite sh_node_Node; reflexivity). Qed.

  Lemma attr_qual_name_sh al : forall n, attr_qual_name (sh_node n) al = attr_qual_name n al.
  Proof.
    induction n as [c p fs IHfs | l IHl | | | | ] using node_ind'; try reflexivity.
    - rewrite sh_node_Node. cbn [attr_qual_name].
      rewrite <- (sh_node_Node c p fs), name_id_sh, attr_of_sh.
      destruct (String.eqb c "Name"); [reflexivity|]. destruct (String.eqb c "Attribute"); [|reflexivity].
      f_equal. f_equal.
      induction fs as [|[f v] t IHt]; [reflexivity|]. inversion IHfs as [|? ? Hv Ht]; subst.
      cbn [sh_fields map fst snd]. destruct (String.eqb "value" f); [exact Hv | apply IHt; exact Ht].
  Qed.

  Lemma get_call_name_sh n al : get_call_name (sh_node n) al = get_call_name n al.
  Proof. unfold get_call_name. rewrite field_sh, !is_cls_sh, name_id_sh, attr_qual_name_sh. reflexivity. Qed.
  Lemma get_qual_attr_sh n al : get_qual_attr (sh_node n) al = get_qual_attr n al.
  Proof. unfold get_qual_attr. rewrite is_cls_sh, field_sh, is_cls_sh, name_id_sh, attr_of_sh. reflexivity. Qed.
  Lemma get_called_name_sh n : get_called_name (sh_node n) = get_called_name n.
  Proof. unfold get_called_name. rewrite field_sh, !is_cls_sh, name_id_sh, attr_of_sh. reflexivity. Qed.

  Lemma alias_name_sh a : alias_name (sh_node a) = alias_name a.
  Proof. unfold alias_name. rewrite field_sh. destruct (field "name" a) as [c p fs| l | | | |]; try reflexivity;
         try (rewrite sh_node_Node; reflexivity). Qed.
  Lemma alias_asname_sh a : alias_asname (sh_node a) = alias_asname a.
  Proof. unfold alias_asname. rewrite field_sh. destruct (field "asname" a) as [c p fs| l | | | |]; try reflexivity;
         try (rewrite sh_node_Node; reflexivity). Qed.

  (* ---------- induction over AST children ---------- *)
  Lemma node_children_ind (P : node -> Prop) :
    (forall c p fs, Forall P (child_nodes_of_fields fs) -> P (Node c p fs)) ->
    (forall n, is_ast n = false -> P n) -> forall n, P n.
  Proof.
    intros HN HO.
    assert (G : forall n, P n /\ (forall l, n = NList l -> Forall P (filter is_ast l))).
    { induction n as [c p fs IHfs | l IHl | | | | ] using node_ind'.
      - split; [|intros l H; discriminate]. apply HN. unfold child_nodes_of_fields.
        induction fs as [|[f v] t IHt]; [constructor|]. inversion IHfs as [|? ? Hv Ht]; subst.
        cbn [flat_map snd]. apply Forall_app. split; [|apply IHt; exact Ht].
        destruct Hv as [Hv1 Hv2]. destruct v; try constructor; try exact Hv1; try constructor.
        apply Hv2. reflexivity.
      - split; [apply HO; reflexivity|]. intros l' H; inversion H; subst. clear H.
        induction IHl as [|x t [Hx _] Ht IHt]; [constructor|]. cbn [filter].
        destruct (is_ast x); [constructor; [exact Hx | exact IHt] | exact IHt].
      - split; [apply HO; reflexivity | intros l H; discriminate].
      - split; [apply HO; reflexivity | intros l H; discriminate].
      - split; [apply HO; reflexivity | intros l H; discriminate].
      - split; [apply HO; reflexivity | intros l H; discriminate]. }
    intro n. apply G.
  Qed.

  (* ---------- calc_linerange as a fold over the children ---------- *)
  Lemma calc_linerange_fold c p fs :
    calc_linerange (Node c p fs) =
    fold_left (fun acc x => lr_merge acc (calc_linerange x)) (child_nodes_of_fields fs)
              (match p with Some q => (p_line q, p_line q) | None => lr_none end).
  Proof.
    cbn [calc_linerange]. generalize (match p with Some q => (p_line q, p_line q) | None => lr_none end).
    unfold child_nodes_of_fields. induction fs as [|[f v] t IH]; intro acc; [reflexivity|].
    cbn [flat_map snd]. rewrite fold_left_app. rewrite <- IH. f_equal.
    destruct v as [c' p' fs'| l | | | |]; try reflexivity.
    revert acc. induction l as [|x l' IHl]; intro acc; [reflexivity|].
    cbn [filter]. destruct x; cbn [is_ast fold_left]; apply IHl.
  Qed.

  Lemma calc_linerange_nonast n : is_ast n = false -> calc_linerange n = lr_none.
  Proof. destruct n; try reflexivity. discriminate. Qed.

  (* ---------- the (min, max) pairs ---------- *)
  Hypothesis Hk : k < line_bound.

  Definition sh2 (r : Z * Z) : Z * Z :=
    (if fst r =? fst lr_none then fst r else sh (fst r), if snd r =? -1 then snd r else sh (snd r)).
  Definition lr_ok (r : Z * Z) : Prop := r = lr_none \/ (1 <= fst r <= snd r /\ snd r < line_bound).

  Lemma sh2_none : sh2 lr_none = lr_none.
  Proof. reflexivity. Qed.
  Lemma sh2_ok a b : 1 <= a <= b -> b < line_bound -> sh2 (a, b) = (sh a, sh b).
  Proof.
    intros H1 H2. unfold sh2, lr_none, line_bound in *. cbn [fst snd].
    destruct (a =? 9999999999) eqn:E1; [lia|]. destruct (b =? -1) eqn:E2; [lia|]. reflexivity.
  Qed.

  Lemma lr_merge_sh2 a b : lr_ok a -> lr_ok b -> lr_merge (sh2 a) (sh2 b) = sh2 (lr_merge a b) /\ lr_ok (lr_merge a b).
  Proof.
    pose proof k_nonneg as Hk0.
    intros [->|[Ha1 Ha2]] [->|[Hb1 Hb2]].
    - split; [reflexivity | left; reflexivity].
    - destruct b as [b1 b2]. cbn [fst snd] in *. rewrite sh2_none, sh2_ok by lia.
      unfold lr_merge, lr_none, line_bound in *. cbn [fst snd].
      pose proof (sh_ge b1). pose proof (sh_ge b2).
      assert (sh b1 <= b1 + k) by (unfold Shift.sh; destruct (at_ <=? b1); lia).
      replace (Z.min 9999999999 (sh b1)) with (sh b1) by lia. replace (Z.max (-1) (sh b2)) with (sh b2) by lia.
      replace (Z.min 9999999999 b1) with b1 by lia. replace (Z.max (-1) b2) with b2 by lia.
      split; [rewrite sh2_ok by (unfold line_bound; lia); reflexivity | right; cbn [fst snd]; unfold line_bound; lia].
    - destruct a as [a1 a2]. cbn [fst snd] in *. rewrite sh2_none, sh2_ok by lia.
      unfold lr_merge, lr_none, line_bound in *. cbn [fst snd].
      pose proof (sh_ge a1). pose proof (sh_ge a2).
      assert (sh a1 <= a1 + k) by (unfold Shift.sh; destruct (at_ <=? a1); lia).
      replace (Z.min (sh a1) 9999999999) with (sh a1) by lia. replace (Z.max (sh a2) (-1)) with (sh a2) by lia.
      replace (Z.min a1 9999999999) with a1 by lia. replace (Z.max a2 (-1)) with a2 by lia.
      split; [rewrite sh2_ok by (unfold line_bound; lia); reflexivity | right; cbn [fst snd]; unfold line_bound; lia].
    - destruct a as [a1 a2], b as [b1 b2]. cbn [fst snd] in *. rewrite !sh2_ok by lia.
      unfold lr_merge. cbn [fst snd].
      assert (M1 : Z.min (sh a1) (sh b1) = sh (Z.min a1 b1)).
      { destruct (Z.le_gt_cases a1 b1) as [L|L].
        - rewrite (Z.min_l a1 b1) by lia. apply Z.min_l. destruct (Z.eq_dec a1 b1) as [->|N]; [lia|]. pose proof (sh_mono a1 b1). lia.
        - rewrite (Z.min_r a1 b1) by lia. apply Z.min_r. pose proof (sh_mono b1 a1). lia. }
      assert (M2 : Z.max (sh a2) (sh b2) = sh (Z.max a2 b2)).
      { destruct (Z.le_gt_cases a2 b2) as [L|L].
        - rewrite (Z.max_r a2 b2) by lia. apply Z.max_r. destruct (Z.eq_dec a2 b2) as [->|N]; [lia|]. pose proof (sh_mono a2 b2). lia.
        - rewrite (Z.max_l a2 b2) by lia. apply Z.max_l. pose proof (sh_mono b2 a2). lia. }
      rewrite M1, M2. split; [rewrite sh2_ok by lia; reflexivity | right; cbn [fst snd]; lia].
  Qed.

  Lemma fold_merge_sh2 (xs : list node) :
    Forall (fun x => calc_linerange (sh_node x) = sh2 (calc_linerange x) /\ lr_ok (calc_linerange x)) xs ->
    forall acc, lr_ok acc ->
    fold_left (fun a x => lr_merge a (calc_linerange x)) (map sh_node xs) (sh2 acc)
    = sh2 (fold_left (fun a x => lr_merge a (calc_linerange x)) xs acc)
    /\ lr_ok (fold_left (fun a x => lr_merge a (calc_linerange x)) xs acc).
  Proof.
    induction 1 as [|x t [Hx1 Hx2] Ht IH]; intros acc Hacc; [split; [reflexivity | exact Hacc]|].
    cbn [map fold_left]. rewrite Hx1. destruct (lr_merge_sh2 acc (calc_linerange x) Hacc Hx2) as [E O].
    rewrite E. apply IH. exact O.
  Qed.

  (* every node of the tree has a plausible position *)
  Lemma wf_tree_children tested c p fs :
    wf_tree tested (Node c p fs) = true ->
    match p with Some q => pos_ok q = true | None => True end
    /\ Forall (fun x => wf_tree tested x = true) (child_nodes_of_fields fs).
  Proof.
    cbn [wf_tree]. intro H. apply andb_true_iff in H as [Hp H]. split; [destruct p; [exact Hp | exact I]|].
    unfold child_nodes_of_fields. induction fs as [|[f v] t IH]; [constructor|].
    apply andb_true_iff in H as [Hv Ht]. cbn [flat_map snd]. apply Forall_app. split; [|apply IH; exact Ht].
    destruct v as [c' p' fs'| l | | | |]; try constructor.
    - apply andb_true_iff in Hv as [_ Hv]. exact Hv.
    - constructor.
    - induction l as [|x l' IHl]; [constructor|]. apply andb_true_iff in Hv as [Hx Hl].
      cbn [filter]. destruct x as [c' p' fs'| | | | |]; cbn [is_ast]; try (apply IHl; exact Hl).
      constructor; [apply andb_true_iff in Hx as [_ Hx]; exact Hx | apply IHl; exact Hl].
  Qed.

  Lemma pos_ok_bounds q : pos_ok q = true -> 1 <= p_line q < line_bound /\ 1 <= p_eline q < line_bound.
  Proof. unfold pos_ok. intro H. repeat (apply andb_true_iff in H as [H ?]). lia. Qed.

  Lemma calc_linerange_sh tested : forall n, wf_tree tested n = true ->
    calc_linerange (sh_node n) = sh2 (calc_linerange n) /\ lr_ok (calc_linerange n).
  Proof.
    induction n as [c p fs IH | n Hn] using node_children_ind; intro W.
    - destruct (wf_tree_children _ _ _ _ W) as [Hp Hc].
      rewrite sh_node_Node, !calc_linerange_fold. unfold sh_fields. fold (sh_fields fs). rewrite child_nodes_of_fields_sh.
      assert (F : Forall (fun x => calc_linerange (sh_node x) = sh2 (calc_linerange x) /\ lr_ok (calc_linerange x)) (child_nodes_of_fields fs)).
      { rewrite Forall_forall in *. intros x Hx. apply IH; [exact Hx | apply Hc; exact Hx]. }
      destruct p as [q|]; cbn [option_map].
      + apply pos_ok_bounds in Hp. replace (p_line (sh_pos at_ ins q), p_line (sh_pos at_ ins q)) with (sh2 (p_line q, p_line q))
          by (rewrite sh2_ok by lia; reflexivity).
        apply fold_merge_sh2; [exact F | right; cbn [fst snd]; lia].
      + rewrite <- sh2_none at 1. apply fold_merge_sh2; [exact F | left; reflexivity].
    - rewrite !calc_linerange_nonast; [split; [reflexivity | left; reflexivity] | exact Hn | rewrite is_ast_sh; exact Hn].
  Qed.

  (* ---------- utils.linerange ---------- *)
  Lemma filter_sh_fields (g : string -> bool) fs :
    filter (fun kv => g (fst kv)) (sh_fields fs) = sh_fields (filter (fun kv => g (fst kv)) fs).
  Proof.
    induction fs as [|[f v] t IH]; [reflexivity|]. cbn [sh_fields map filter fst snd]. fold (sh_fields t).
    destruct (g f); cbn [sh_fields map fst snd]; rewrite IH; reflexivity.
  Qed.

  Lemma child_of_filtered_wf tested (g : string * node -> bool) fs :
    Forall (fun x => wf_tree tested x = true) (child_nodes_of_fields fs) ->
    Forall (fun x => wf_tree tested x = true) (child_nodes_of_fields (filter g fs)).
  Proof.
    unfold child_nodes_of_fields. induction fs as [|kv t IH]; intro H; [constructor|].
    cbn [flat_map] in H. apply Forall_app in H as [H1 H2]. cbn [filter].
    destruct (g kv); [cbn [flat_map]; apply Forall_app; split; [exact H1 | apply IH; exact H2] | apply IH; exact H2].
  Qed.

  Lemma stripped_minmax_sh tested n : wf_tree tested n = true ->
    stripped_minmax (sh_node n) = sh2 (stripped_minmax n) /\ lr_ok (stripped_minmax n).
  Proof.
    intro W. unfold stripped_minmax. rewrite fields_of_sh.
    rewrite (filter_sh_fields (fun f => negb (stripped_field f))). rewrite child_nodes_of_fields_sh.
    rewrite <- sh2_none at 1. apply fold_merge_sh2; [|left; reflexivity].
    destruct n as [c p fs| | | | |]; try constructor.
    destruct (wf_tree_children _ _ _ _ W) as [_ Hc]. cbn [fields_of].
    apply (child_of_filtered_wf tested (fun kv => negb (stripped_field (fst kv)))) in Hc.
    rewrite Forall_forall in *. intros x Hx. apply (calc_linerange_sh tested). apply Hc. exact Hx.
  Qed.

  Lemma sh_range_zrange a b : 1 <= a -> sh_range (zrange a (b + 1)) = zrange (sh a) (sh b + 1).
  Proof.
    intro Ha. destruct (Z.le_gt_cases a b) as [L|L].
    - rewrite (zrange_cons a (b + 1)) by lia. unfold Shift.sh_range.
      destruct (a =? 0) eqn:E; [lia|]. rewrite <- (zrange_cons a (b + 1)) by lia.
      rewrite last_zrange by lia. replace (b + 1 - 1) with b by lia. reflexivity.
    - rewrite (zrange_nil a (b + 1)) by lia. cbn [Shift.sh_range]. symmetry. apply zrange_nil.
      destruct (Z.eq_dec (b + 1) a) as [E|E]; [subst; pose proof (sh_mono b (b + 1)); lia|].
      pose proof (sh_mono (b + 1) a). pose proof (sh_mono b (b + 1)). lia.
  Qed.

  (* the range utils.linerange computes is one of: a run of real lines, or the synthetic [0; 1] *)
  Definition real_range (l : list Z) : Prop := exists a b, 1 <= a /\ l = zrange a b.

  Lemma linerange_sh tested n sib :
    wf_tree tested n = true -> (pos_of n = None -> lineno_of sib = None) ->
    linerange (sh_node n) (sh_node sib) = sh_range (linerange n sib)
    /\ (real_range (linerange n sib) \/ (pos_of n = None /\ snd (stripped_minmax n) = -1)).
  Proof.
    intros W Hs. unfold linerange. rewrite pos_of_sh. destruct (pos_of n) as [q|] eqn:Ep; cbn [option_map].
    - assert (Hq : pos_ok q = true).
      { destruct n as [c p fs| | | | |]; try discriminate. cbn [pos_of] in Ep. subst p.
        destruct (wf_tree_children _ _ _ _ W) as [Hp _]. exact Hp. }
      apply pos_ok_bounds in Hq. cbn [sh_pos p_line p_eline]. split.
      + symmetry. apply sh_range_zrange. lia.
      + left. exists (p_line q), (p_eline q + 1). split; [lia | reflexivity].
    - rewrite lineno_of_sh, (Hs eq_refl). cbn [option_map].
      fold (stripped_minmax (sh_node n)). fold (stripped_minmax n).
      destruct (stripped_minmax_sh tested n W) as [E O]. rewrite E.
      destruct O as [O|[O1 O2]].
      + rewrite O. split; [reflexivity | right; split; reflexivity].
      + destruct (stripped_minmax n) as [a b]. cbn [fst snd] in *. rewrite sh2_ok by lia. cbn [fst snd].
        destruct (b =? -1) eqn:E1; [lia|]. destruct (sh b =? -1) eqn:E2; [pose proof (sh_ge b); lia|]. cbn [fst snd].
        split; [symmetry; apply sh_range_zrange; lia | left; exists a, (b + 1); split; [lia | reflexivity]].
  Qed.

  (* ---------- nosec maps ---------- *)
  Notation sh_nosec := (sh_nosec at_ ins).
  Definition nosec_pos (m : nosec_map) : Prop := Forall (fun e => 1 <= fst e) m.

  Lemma nosec_get_sh m l : nosec_get (sh_nosec m) (sh l) = nosec_get m l.
  Proof.
    induction m as [|[k0 v] t IH]; [reflexivity|]. cbn [Shift.sh_nosec map nosec_get fst snd].
    destruct (k0 =? l) eqn:E.
    - apply Z.eqb_eq in E. subst. rewrite Z.eqb_refl. reflexivity.
    - destruct (sh k0 =? sh l) eqn:E2; [apply Z.eqb_eq, sh_inj in E2; lia | exact IH].
  Qed.
  Lemma nosec_get_inserted m y : at_ <= y < at_ + k -> nosec_get (sh_nosec m) y = None.
  Proof.
    intro H. induction m as [|[k0 v] t IH]; [reflexivity|]. cbn [Shift.sh_nosec map nosec_get fst snd].
    destruct (sh k0 =? y) eqn:E; [apply Z.eqb_eq in E; exfalso; exact (sh_misses k0 y H E) | exact IH].
  Qed.
  Lemma nosec_get_nonpos m y : nosec_pos m -> y < 1 -> nosec_get m y = None.
  Proof.
    intros Hm Hy. induction Hm as [|[k0 v] t Hk0 Ht IH]; [reflexivity|]. cbn [nosec_get]. cbn [fst] in Hk0.
    destruct (k0 =? y) eqn:E; [lia | exact IH].
  Qed.
  Lemma nosec_pos_sh m : nosec_pos m -> nosec_pos (sh_nosec m).
  Proof.
    unfold nosec_pos, Shift.sh_nosec. intro H. rewrite Forall_map. eapply Forall_impl; [|exact H].
    intros [k0 v] Hk0. cbn [fst] in *. pose proof (sh_ge k0). lia.
  Qed.

  Definition has_nosec (m : nosec_map) (x : Z) : bool := match nosec_get m x with Some _ => true | None => false end.
  Definition relevant (m : nosec_map) (l : list Z) : list Z := filter (has_nosec m) l.

  Lemma get_nosec_acc_relevant m l : forall f, get_nosec_acc m l f = get_nosec_acc m (relevant m l) f.
  Proof.
    induction l as [|x t IH]; intro f; [reflexivity|]. cbn [get_nosec_acc relevant filter]. unfold has_nosec at 1.
    destruct (nosec_get m x) as [[|i ids]|] eqn:E.
    - cbn [get_nosec_acc]. rewrite E. reflexivity.
    - cbn [get_nosec_acc]. rewrite E. apply IH.
    - apply IH.
  Qed.
  Lemma get_nosec_acc_map_sh m l : forall f, get_nosec_acc (sh_nosec m) (map sh l) f = get_nosec_acc m l f.
  Proof.
    induction l as [|x t IH]; intro f; [reflexivity|]. cbn [map get_nosec_acc]. rewrite nosec_get_sh.
    destruct (nosec_get m x) as [[|i ids]|]; [reflexivity | apply IH | apply IH].
  Qed.
  Lemma has_nosec_sh m x : has_nosec (sh_nosec m) (sh x) = has_nosec m x.
  Proof. unfold has_nosec. rewrite nosec_get_sh. reflexivity. Qed.
  Lemma relevant_map_sh m l : relevant (sh_nosec m) (map sh l) = map sh (relevant m l).
  Proof.
    unfold relevant. induction l as [|x t IH]; [reflexivity|]. cbn [map filter]. rewrite has_nosec_sh.
    destruct (has_nosec m x); cbn [map]; rewrite IH; reflexivity.
  Qed.
  Lemma relevant_app m a b : relevant m (a ++ b) = relevant m a ++ relevant m b.
  Proof. apply filter_app. Qed.
  Lemma relevant_inserted m a b : at_ <= a -> b <= at_ + k -> relevant (sh_nosec m) (zrange a b) = [].
  Proof.
    intros Ha Hb. unfold relevant.
    assert (G : forall l, (forall x, In x l -> has_nosec (sh_nosec m) x = false) -> filter (has_nosec (sh_nosec m)) l = []).
    { induction l as [|x t IH]; intro H; [reflexivity|]. cbn [filter]. rewrite (H x (or_introl eq_refl)).
      apply IH. intros y Hy. apply H. right. exact Hy. }
    apply G. intros x Hx. apply In_zrange in Hx. unfold has_nosec. rewrite nosec_get_inserted by lia. reflexivity.
  Qed.

  Lemma map_sh_below a b : b <= at_ -> map sh (zrange a b) = zrange a b.
  Proof. intro H. apply map_id_zrange. intros x Hx. apply sh_below. lia. Qed.
  Lemma map_sh_above a b : at_ <= a -> map sh (zrange a b) = zrange (a + k) (b + k).
  Proof.
    intro H. rewrite <- map_add_zrange. apply map_ext_in. intros x Hx. apply In_zrange in Hx. apply sh_above. lia.
  Qed.

  Lemma relevant_sh_zrange m a b :
    relevant (sh_nosec m) (zrange (sh a) (sh b + 1)) = map sh (relevant m (zrange a (b + 1))).
  Proof.
    rewrite <- relevant_map_sh.
    destruct (Z.le_gt_cases a b) as [L|L].
    - destruct (Z.le_gt_cases at_ a) as [A|A].
      + rewrite map_sh_above by exact A. rewrite !sh_above by lia. f_equal. f_equal. lia.
      + destruct (Z.le_gt_cases at_ b) as [B|B].
        * rewrite (sh_below a) by lia. rewrite (sh_above b) by lia.
          rewrite (zrange_app a at_ (b + 1)) by lia. rewrite map_app, map_sh_below, map_sh_above by lia.
          rewrite (zrange_app a at_ (b + k + 1)) by (pose proof k_nonneg; lia).
          rewrite (zrange_app at_ (at_ + k) (b + k + 1)) by (pose proof k_nonneg; lia).
          rewrite !relevant_app. rewrite (relevant_inserted m at_ (at_ + k)) by lia.
          cbn [app]. f_equal. f_equal. f_equal. lia.
        * rewrite map_sh_below by lia. rewrite !sh_below by lia. reflexivity.
    - rewrite (zrange_nil a (b + 1)) by lia. rewrite zrange_nil; [reflexivity|].
      destruct (Z.eq_dec (b + 1) a) as [E|E]; [subst; pose proof (sh_mono b (b + 1)); lia|].
      pose proof (sh_mono (b + 1) a). pose proof (sh_mono b (b + 1)). lia.
  Qed.

  Definition good_range (l : list Z) : Prop := real_range l \/ l = [0].

  Lemma get_nosec_sh m l : nosec_pos m -> good_range l -> get_nosec (sh_nosec m) (sh_range l) = get_nosec m l.
  Proof.
    intros Hm [[a [b [Ha E]]]|E]; subst l.
    - unfold get_nosec. replace b with (b - 1 + 1) by lia. rewrite sh_range_zrange by exact Ha.
      rewrite (get_nosec_acc_relevant (sh_nosec m)), relevant_sh_zrange, get_nosec_acc_map_sh.
      symmetry. apply get_nosec_acc_relevant.
    - cbn [Shift.sh_range]. rewrite Z.eqb_refl. unfold get_nosec. cbn [get_nosec_acc].
      rewrite (nosec_get_nonpos m 0 Hm) by lia. rewrite (nosec_get_nonpos _ 0 (nosec_pos_sh m Hm)) by lia. reflexivity.
  Qed.

  Lemma nosecs_from_contexts_sh m l lno : nosec_pos m -> good_range l ->
    nosecs_from_contexts (sh_nosec m) (sh_range l) (option_map sh lno) = nosecs_from_contexts m l lno.
  Proof.
    intros Hm Hl. unfold nosecs_from_contexts. rewrite get_nosec_sh by assumption.
    destruct lno as [x|]; cbn [option_map]; [rewrite nosec_get_sh|]; reflexivity.
  Qed.
End Facts.
