(* Position-equivariance of the "misc" plugin family (Plugins/Misc.v). *)
From Coq Require Import List NArith ZArith Bool String Lia.
From Bandit Require Import Base.PyStr Ast.Node Engine.Types Engine.Resolve Engine.Context Engine.Scan
     Engine.Shift Plugins.Misc Proofs.ShiftFacts Proofs.ShiftContext.
Import ListNotations.
Local Open Scope string_scope.
Local Open Scope list_scope.

Section S.
  Variable at_ : Z.
  Variable ins : list pstr.
  Notation sh := (sh at_ ins).
  Notation sh_node := (sh_node at_ ins).
  Notation sh_ctx := (sh_ctx at_ ins).
  Notation sh_ri := (sh_ri at_ ins).
  Notation sh_res := (sh_res at_ ins).
  Notation sh_pyval := (sh_pyval at_ ins).

  (* ---------- shared helpers ---------- *)
  Lemma sh_ri_mk_issue sev conf cwe text l :
    sh_ri (mk_issue sev conf cwe text l) = mk_issue sev conf cwe text (option_map sh l).
  Proof. reflexivity. Qed.

  Lemma node_keywords_sh c : node_keywords (sh_ctx c) = map_res (map sh_node) (node_keywords c).
  Proof.
    unfold node_keywords. rewrite (c_node_sh at_ ins), (field_opt_sh at_ ins).
    destruct (field_opt "keywords" (c_node c)) as [v|]; [|reflexivity].
    cbn [option_map map_res]. rewrite (items_sh at_ ins). reflexivity.
  Qed.

  Lemma first_kw_sh name kws : first_kw name (map sh_node kws) = option_map sh_node (first_kw name kws).
  Proof.
    unfold first_kw. rewrite find_map'. f_equal. apply find_ext'. intro k.
    rewrite (kw_arg_sh at_ ins). reflexivity.
  Qed.

  (* ---------- B506 yaml_load ---------- *)
  Lemma yaml_args_unsafe_sh c : yaml_args_unsafe (sh_ctx c) = yaml_args_unsafe c.
  Proof.
    unfold yaml_args_unsafe. rewrite !(check_call_arg_value_sh at_ ins), (get_call_arg_at_position_sh at_ ins).
    apply bind_ext; intro a. apply bind_ext; intro b. rewrite bind_map_res. apply bind_ext; intro p.
    rewrite !(pyval_eqb_sh_l at_ ins). reflexivity.
  Qed.

  Lemma yaml_load_fn_shift c : yaml_load_fn (sh_ctx c) = sh_res (yaml_load_fn c).
  Proof.
    unfold yaml_load_fn.
    rewrite (c_qualname_sh at_ ins), (is_module_imported_exact_sh at_ ins), yaml_args_unsafe_sh,
            (c_node_sh at_ ins), (lineno_of_sh at_ ins).
    destruct (c_qualname c) as [q|]; [|reflexivity].
    destruct (negb (is_module_imported_exact c (s2p "yaml"))); [reflexivity|].
    destruct (yaml_args_unsafe c) as [u|e]; [|reflexivity]. cbn [bind].
    destruct (yaml_name_hit q && u); [|reflexivity].
    destruct (lineno_of (c_node c)) as [l|]; reflexivity.
  Qed.

  (* ---------- B614 pytorch_load ---------- *)
  Lemma weights_only_true_sh v : weights_only_true (sh_pyval v) = weights_only_true v.
  Proof. unfold weights_only_true. apply pyval_eqb_sh_l. Qed.

  Lemma pytorch_load_fn_shift c : pytorch_load_fn (sh_ctx c) = sh_res (pytorch_load_fn c).
  Proof.
    unfold pytorch_load_fn.
    rewrite (c_qualname_sh at_ ins), (is_module_imported_exact_sh at_ ins), (get_call_arg_value_sh at_ ins),
            (get_lineno_for_call_arg_sh at_ ins).
    destruct (c_qualname c) as [q|]; [|reflexivity].
    destruct (negb (is_module_imported_exact c (s2p "torch"))); [reflexivity|].
    destruct (torch_name_hit q); [|reflexivity].
    destruct (get_call_arg_value c (s2p "weights_only")) as [w|e]; [|reflexivity].
    cbn [map_res bind]. rewrite weights_only_true_sh.
    destruct (weights_only_true w); reflexivity.
  Qed.

  (* ---------- B202 tarfile_unsafe_members ---------- *)
  Definition sh_mv (m : members_val) : members_val :=
    match m with MOtherNode n => MOtherNode (sh_node n) | x => x end.

  Lemma members_grade_sh m : members_grade (sh_mv m) = members_grade m.
  Proof. destruct m; reflexivity. Qed.
  Lemma members_dict_str_sh m : members_dict_str (sh_mv m) = members_dict_str m.
  Proof. destruct m; reflexivity. Qed.

  Lemma members_callee_name_sh f : members_callee_name (sh_node f) = members_callee_name f.
  Proof.
    unfold members_callee_name. rewrite (is_cls_sh at_ ins), (name_id_sh at_ ins), (attr_of_sh at_ ins). reflexivity.
  Qed.

  Lemma members_of_value_sh a : members_of_value (sh_node a) = sh_mv (members_of_value a).
  Proof.
    unfold members_of_value. rewrite !(is_cls_sh at_ ins), (field_sh at_ ins), members_callee_name_sh, (name_id_sh at_ ins).
    destruct (is_cls "Call" a); [reflexivity|]. destruct (is_cls "Name" a); reflexivity.
  Qed.

  Lemma get_members_value_sh c :
    get_members_value (sh_ctx c) = map_res (option_map sh_mv) (get_members_value c).
  Proof.
    unfold get_members_value. rewrite node_keywords_sh.
    destruct (node_keywords c) as [kws|e]; [|reflexivity]. cbn [map_res bind].
    rewrite first_kw_sh. destruct (first_kw (s2p "members") kws) as [k|]; [|reflexivity].
    cbn [option_map map_res]. rewrite (field_sh at_ ins), members_of_value_sh. reflexivity.
  Qed.

  Lemma value_is_data_sh v : value_is_data (sh_node v) = value_is_data v.
  Proof. unfold value_is_data. rewrite (str_of_sh at_ ins). reflexivity. Qed.

  Lemma is_filter_data_sh c : is_filter_data (sh_ctx c) = is_filter_data c.
  Proof.
    unfold is_filter_data. rewrite node_keywords_sh.
    destruct (node_keywords c) as [kws|e]; [|reflexivity]. cbn [map_res bind].
    rewrite first_kw_sh. destruct (first_kw (s2p "filter") kws) as [k|]; [|reflexivity].
    cbn [option_map]. rewrite (field_sh at_ ins), value_is_data_sh. reflexivity.
  Qed.

  Lemma sh_ri_tar_issue g m : sh_ri (tar_issue g m) = tar_issue g m.
  Proof. destruct g; reflexivity. Qed.

  Lemma tarfile_unsafe_members_fn_shift c :
    tarfile_unsafe_members_fn (sh_ctx c) = sh_res (tarfile_unsafe_members_fn c).
  Proof.
    unfold tarfile_unsafe_members_fn, tarfile_name_hit.
    rewrite (c_name_sh at_ ins), (is_module_imported_exact_sh at_ ins), (call_keywords_sh at_ ins),
            is_filter_data_sh, get_members_value_sh.
    destruct (c_name c) as [nm|]; [|reflexivity].
    destruct (is_module_imported_exact c (s2p "tarfile") && contains nm (s2p "extractall")); [|reflexivity].
    destruct (call_keywords c) as [[l|]|e]; try reflexivity.
    cbn [map_res option_map bind]. rewrite !(kw_mem_sh at_ ins).
    destruct (if kw_mem (s2p "filter") l then is_filter_data c else Ok false) as [fd|e]; [|reflexivity].
    cbn [bind]. destruct fd; [reflexivity|].
    destruct (kw_mem (s2p "members") l).
    - destruct (get_members_value c) as [[mv|]|e]; try reflexivity.
      cbn [map_res option_map bind Shift.sh_res].
      rewrite members_grade_sh, members_dict_str_sh, sh_ri_tar_issue. reflexivity.
    - cbn [Shift.sh_res]. rewrite sh_ri_tar_issue. reflexivity.
  Qed.

  (* ---------- B201 flask_debug_true ---------- *)
  Lemma flask_debug_true_fn_shift c : flask_debug_true_fn (sh_ctx c) = sh_res (flask_debug_true_fn c).
  Proof.
    unfold flask_debug_true_fn.
    rewrite (is_module_imported_like_sh at_ ins), (c_qualname_sh at_ ins), (check_call_arg_value_sh at_ ins),
            (get_lineno_for_call_arg_sh at_ ins).
    destruct (is_module_imported_like c (s2p "flask")); [|reflexivity].
    destruct (c_qualname c) as [q|]; [|reflexivity].
    destruct (endswith q (s2p ".run")); [|reflexivity].
    destruct (check_call_arg_value c (s2p "debug") [PStr (s2p "True")]) as [r|e]; [|reflexivity].
    cbn [bind]. destruct (is_some_true r); reflexivity.
  Qed.

  (* ---------- B612 logging_config_insecure_listen ---------- *)
  Lemma logging_config_insecure_listen_fn_shift c :
    logging_config_insecure_listen_fn (sh_ctx c) = sh_res (logging_config_insecure_listen_fn c).
  Proof.
    unfold logging_config_insecure_listen_fn. rewrite (c_qualname_sh at_ ins), (call_keywords_sh at_ ins).
    destruct (okey_eqb (c_qualname c) (Some listen_qual)); [|reflexivity].
    destruct (call_keywords c) as [[l|]|e]; try reflexivity.
    cbn [map_res option_map bind]. rewrite (kw_mem_sh at_ ins).
    destruct (kw_mem (s2p "verify") l); reflexivity.
  Qed.

  (* ---------- B601 paramiko_calls ---------- *)
  Lemma paramiko_calls_fn_shift c : paramiko_calls_fn (sh_ctx c) = sh_res (paramiko_calls_fn c).
  Proof.
    unfold paramiko_calls_fn. rewrite (is_module_imported_like_sh at_ ins), (c_name_sh at_ ins).
    destruct (is_module_imported_like c (s2p "paramiko")); [|reflexivity].
    destruct (okey_eqb (c_name c) (Some (s2p "exec_command"))); reflexivity.
  Qed.

  (* ---------- B102 exec_used ---------- *)
  Lemma exec_used_fn_shift c : exec_used_fn (sh_ctx c) = sh_res (exec_used_fn c).
  Proof.
    unfold exec_used_fn. rewrite (c_qualname_sh at_ ins).
    destruct (okey_eqb (c_qualname c) (Some (s2p "exec"))); reflexivity.
  Qed.

  (* ---------- B101 assert_used ---------- *)
  Lemma assert_loop_sh fname skips : sh_res (assert_loop fname skips) = assert_loop fname skips.
  Proof.
    induction skips as [|g t IH]; [reflexivity|]. cbn [assert_loop].
    destruct g; try reflexivity. destruct (fnmatch_b fname s); [reflexivity | exact IH].
  Qed.

  Lemma assert_used_fn_shift cfg c : assert_used_fn cfg (sh_ctx c) = sh_res (assert_used_fn cfg c).
  Proof.
    unfold assert_used_fn. rewrite (c_filename_sh at_ ins).
    destruct (assert_skips cfg) as [skips|e]; [|reflexivity]. cbn [bind].
    symmetry. apply assert_loop_sh.
  Qed.

  (* ---------- B110 try_except_pass / B112 try_except_continue ---------- *)
  Lemma handler_body_sh n : handler_body (sh_node n) = map_res (map sh_node) (handler_body n).
  Proof.
    unfold handler_body. rewrite (field_opt_sh at_ ins).
    destruct (field_opt "body" n) as [v|]; [|reflexivity].
    destruct v as [c' p' fs'| l | k | s | z |]; reflexivity.
  Qed.

  Lemma type_is_broad_sh t : type_is_broad (sh_node t) = type_is_broad t.
  Proof.
    destruct t as [c' p' fs'| l | k | s | z |]; try reflexivity.
    rewrite (sh_node_Node at_ ins). unfold type_is_broad. rewrite <- (sh_node_Node at_ ins), (field_opt_sh at_ ins).
    destruct (field_opt "id" (Node c' p' fs')) as [v|]; [|reflexivity].
    destruct v as [c2 p2 fs2| l | k | s | z |]; reflexivity.
  Qed.

  Lemma typed_gate_sh cfg n : typed_gate cfg (sh_node n) = typed_gate cfg n.
  Proof.
    unfold typed_gate. apply bind_ext; intro b. destruct b; [reflexivity|].
    rewrite (field_opt_sh at_ ins). destruct (field_opt "type" n) as [t|]; [|reflexivity].
    cbn [option_map]. rewrite type_is_broad_sh. reflexivity.
  Qed.

  Lemma try_except_fn_shift stmt_cls text cfg c :
    try_except_fn stmt_cls text cfg (sh_ctx c) = sh_res (try_except_fn stmt_cls text cfg c).
  Proof.
    unfold try_except_fn. cbv zeta. rewrite (c_node_sh at_ ins), handler_body_sh, typed_gate_sh.
    destruct (handler_body (c_node c)) as [body|e]; [|reflexivity]. cbn [map_res bind].
    destruct body as [|s [|s2 t]]; try reflexivity. cbn [map].
    destruct (typed_gate cfg (c_node c)) as [go|e]; [|reflexivity]. cbn [bind].
    destruct go; [|reflexivity]. rewrite (is_cls_sh at_ ins).
    destruct (is_cls stmt_cls s); reflexivity.
  Qed.

  Lemma try_except_pass_fn_shift cfg c : try_except_pass_fn cfg (sh_ctx c) = sh_res (try_except_pass_fn cfg c).
  Proof. apply try_except_fn_shift. Qed.
  Lemma try_except_continue_fn_shift cfg c :
    try_except_continue_fn cfg (sh_ctx c) = sh_res (try_except_continue_fn cfg c).
  Proof. apply try_except_fn_shift. Qed.

  (* ---------- the family ---------- *)
  Theorem misc_plugins_equiv :
    Forall (fun p => forall cfg c, pl_fn p cfg (sh_ctx c) = sh_res (pl_fn p cfg c)) misc_plugins.
  Proof.
    unfold misc_plugins. repeat constructor; intros cfg c; cbn [pl_fn].
    - apply yaml_load_fn_shift.
    - apply pytorch_load_fn_shift.
    - apply tarfile_unsafe_members_fn_shift.
    - apply flask_debug_true_fn_shift.
    - apply logging_config_insecure_listen_fn_shift.
    - apply paramiko_calls_fn_shift.
    - apply exec_used_fn_shift.
    - apply assert_used_fn_shift.
    - apply try_except_pass_fn_shift.
    - apply try_except_continue_fn_shift.
  Qed.
End S.
