From Coq Require Import List NArith ZArith Bool String Lia.
From Bandit Require Import Base.PyStr Engine.Types Engine.Tables Manager.Registry Proofs.PyStrFacts.
Import ListNotations.

Lemma nodupb_NoDup l : nodupb l = true -> NoDup l.
Proof.
  induction l as [|x t IH]; simpl; intro H; constructor.
  - apply andb_true_iff in H as [H _]. apply negb_true_iff in H. intro Hin.
    apply mem_pstr_In in Hin. congruence.
  - apply IH. apply andb_true_iff in H as [_ H]. exact H.
Qed.

Lemma last_by_name_In name rows i : last_by_name name rows = Some i -> In (i, name) rows.
Proof.
  induction rows as [|[i' n'] t IH]; simpl; [discriminate|].
  destruct (last_by_name name t) as [x|] eqn:E.
  - intro H; inversion H; subst. right. apply IH. reflexivity.
  - destruct (pstr_eqb n' name) eqn:E2; [|discriminate].
    intro H; inversion H; subst. apply pstr_eqb_spec in E2. subst. left. reflexivity.
Qed.

Lemma last_by_name_unique name rows i :
  NoDup (map snd rows) -> In (i, name) rows -> last_by_name name rows = Some i.
Proof.
  induction rows as [|[i' n'] t IH]; simpl; [intros _ []|].
  intros Hnd [Heq|Hin]; inversion Hnd as [|? ? Hnot Hnd']; subst.
  - inversion Heq; subst.
    destruct (last_by_name name t) as [x|] eqn:E.
    + exfalso. apply last_by_name_In in E. apply Hnot. apply in_map_iff. exists (x, name). auto.
    + rewrite pstr_eqb_refl. reflexivity.
  - rewrite (IH Hnd' Hin). reflexivity.
Qed.

Lemma last_by_name_None name rows : ~ In name (map snd rows) -> last_by_name name rows = None.
Proof.
  induction rows as [|[i' n'] t IH]; simpl; [reflexivity|].
  intro H. rewrite IH by tauto.
  destruct (pstr_eqb n' name) eqn:E; [|reflexivity].
  apply pstr_eqb_spec in E. exfalso. apply H. auto.
Qed.

Lemma has_id_In id rows : has_id id rows = true <-> In id (map fst rows).
Proof.
  unfold has_id. rewrite existsb_exists. split.
  - intros [[i n] [Hin He]]. simpl in He. apply pstr_eqb_spec in He. subst.
    apply in_map_iff. exists (id, n). auto.
  - intro H. apply in_map_iff in H as [[i n] [He Hin]]. simpl in He. subst.
    exists (id, n). split; [exact Hin | apply pstr_eqb_refl].
Qed.

Section Lookup.
  Variables (reg : list reg_row) (tab : bl_table) (builtin : list pstr).
  Let rows := plugin_rows reg ++ blacklist_rows tab.
  (* names unique among plugins, and among the distinct blacklist rules; no name shared between them *)
  Hypothesis Hpn : NoDup (map snd (plugin_rows reg)).
  Hypothesis Hbn : forall i1 i2 n, In (i1, n) (blacklist_rows tab) -> In (i2, n) (blacklist_rows tab) -> i1 = i2.
  Hypothesis Hdisj : forall n, In n (map snd (plugin_rows reg)) -> ~ In n (map snd (blacklist_rows tab)).

  (* name -> id: every registered (id, name) pair is found by name, and only registered pairs are *)
  Theorem get_test_id_complete i n : In (i, n) rows -> get_test_id reg tab n = Some i.
  Proof.
    unfold rows, get_test_id. intro H. apply in_app_or in H as [H|H].
    - rewrite (last_by_name_unique _ _ _ Hpn H). reflexivity.
    - rewrite last_by_name_None.
      + destruct (last_by_name n (blacklist_rows tab)) as [x|] eqn:E.
        * apply last_by_name_In in E. f_equal. eapply Hbn; eauto.
        * exfalso.
          assert (G : forall rws, In (i, n) rws -> last_by_name n rws <> None).
          { clear. induction rws as [|[i' n'] t IH]; simpl; [intros []|].
            intros [Heq|Hin].
            - inversion Heq; subst. destruct (last_by_name n t); [discriminate|].
              rewrite pstr_eqb_refl. discriminate.
            - destruct (last_by_name n t) eqn:E; [discriminate|]. exfalso. apply (IH Hin). reflexivity. }
          apply (G _ H E).
      + intro Hc. apply (Hdisj n Hc). apply in_map_iff. exists (i, n). auto.
  Qed.

  Theorem get_test_id_sound i n : get_test_id reg tab n = Some i -> In (i, n) rows.
  Proof.
    unfold rows, get_test_id.
    destruct (last_by_name n (plugin_rows reg)) as [x|] eqn:E.
    - intro H; inversion H; subst. apply in_or_app. left. apply last_by_name_In. exact E.
    - intro H. apply in_or_app. right. apply last_by_name_In. exact H.
  Qed.

  Theorem check_id_iff id :
    check_id reg tab builtin id = true <-> In id (map fst rows) \/ In id builtin.
  Proof.
    unfold check_id, rows. rewrite !orb_true_iff, !has_id_In, mem_pstr_In, map_app, in_app_iff. tauto.
  Qed.

  (* ID and name are interchangeable wherever a token is resolved (nosec comments, profiles) *)
  Theorem id_name_interchangeable i n :
    In (i, n) rows -> ~ In n (map fst rows) -> ~ In n builtin ->
    find_test_id reg tab builtin i = Some i /\ find_test_id reg tab builtin n = Some i.
  Proof.
    intros Hin Hn1 Hn2. unfold find_test_id. split.
    - assert (C : check_id reg tab builtin i = true).
      { apply check_id_iff. left. apply in_map_iff. exists (i, n). auto. }
      rewrite C. reflexivity.
    - destruct (check_id reg tab builtin n) eqn:C.
      + apply check_id_iff in C. tauto.
      + apply get_test_id_complete. exact Hin.
  Qed.
End Lookup.
