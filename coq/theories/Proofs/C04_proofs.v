From Coq Require Import List NArith ZArith Bool String Lia Permutation.
From Bandit Require Import Base.PyStr Engine.Types Engine.Facts Manager.Accounting Proofs.PyStrFacts.
Import ListNotations.

Section Acc.
  Variable supers : list (pstr * list pstr).
  Variable L : ladders.
  Hypothesis Habs : absorbs_all supers L = true.

  Definition input_ok (fi : file_input) : Prop :=
    match snd (fst fi) with Some f => fault_ok supers f = true | None => True end.

  (* the outcome of a file does not depend on its findings, except that they are what a scan yields *)
  Lemma one_file_shape fault rs :
    (exists r, one_file supers L fault rs = Skipped r /\ forall rs', one_file supers L fault rs' = Skipped r) \/
    (one_file supers L fault rs = Scanned rs /\ forall rs', one_file supers L fault rs' = Scanned rs') \/
    (exists n, forall rs', one_file supers L fault rs' = Exits n) \/
    (exists c, forall rs', one_file supers L fault rs' = Escapes c).
  Proof.
    unfold one_file. destruct fault as [[st cls]|]; [|right; left; auto].
    assert (P : forall cls, (exists r, parse_level supers L cls = Skipped r) \/ (exists n, parse_level supers L cls = Exits n)
                            \/ (exists c, parse_level supers L cls = Escapes c)).
    { intro c0. unfold parse_level, by_handlers.
      destruct (catching supers (l_parse L) c0) as [[]|]; eauto;
      destruct (catching supers (l_run L) c0) as [[]|]; eauto. }
    assert (Q : forall cls, (exists r, by_handlers supers (l_run L) cls (Escapes cls) = Skipped r)
                            \/ (exists n, by_handlers supers (l_run L) cls (Escapes cls) = Exits n)
                            \/ (exists c, by_handlers supers (l_run L) cls (Escapes cls) = Escapes c)).
    { intro c0. unfold by_handlers. destruct (catching supers (l_run L) c0) as [[]|]; eauto. }
    destruct st.
    - destruct (Q cls) as [[r H]|[[n H]|[c H]]]; rewrite H; [left; exists r | right; right; left; exists n | right; right; right; exists c]; auto.
    - destruct (P cls) as [[r H]|[[n H]|[c H]]]; rewrite H; [left; exists r | right; right; left; exists n | right; right; right; exists c]; auto.
    - destruct (catching supers (l_tok L) cls) as [[]|];
        try (destruct (P cls) as [[r H]|[[n H]|[c H]]]; rewrite H; [left; exists r | right; right; left; exists n | right; right; right; exists c]; auto; fail).
      right; left; auto.
    - destruct (P cls) as [[r H]|[[n H]|[c H]]]; rewrite H; [left; exists r | right; right; left; exists n | right; right; right; exists c]; auto.
  Qed.

  Lemma absorbed_of_ok st cls rs :
    fault_ok supers (st, cls) = true -> absorbed (one_file supers L (Some (st, cls)) rs) = true.
  Proof.
    intro Hok. unfold absorbs_all in Habs. rewrite forallb_forall in Habs.
    assert (Hin : In cls (map fst supers)).
    { unfold fault_ok in Hok. apply andb_true_iff in Hok as [H _]. apply mem_pstr_In. exact H. }
    specialize (Habs cls Hin). rewrite forallb_forall in Habs.
    assert (Hst : In st [AtOpen; AtRead; AtTokenize; AtProcess]) by (destruct st; simpl; auto).
    specialize (Habs st Hst). rewrite Hok in Habs. cbn [negb orb] in Habs.
    destruct (one_file_shape (Some (st, cls)) []) as [[r [H1 H2]]|[[H1 H2]|[[n H]|[c H]]]].
    - rewrite H2. rewrite H1 in Habs. exact Habs.
    - rewrite H2. reflexivity.
    - rewrite H in Habs. discriminate.
    - rewrite H in Habs. discriminate.
  Qed.

  (* ----- every discovered file is accounted for exactly once; the run completes ----- *)
  Theorem accounted files : forall st,
    Forall input_ok files ->
    exists st', run_files supers L files st = Completed st' /\
      Permutation (ms_files st' ++ map fst (ms_skipped st'))
                  (ms_files st ++ map fst (ms_skipped st) ++ map (fun fi => fst (fst fi)) files) /\
      (forall n r, In (n, r) (ms_skipped st') -> In (n, r) (ms_skipped st) \/ r <> []).
  Proof.
    induction files as [|[[name fault] rs] t IH]; intros st Hok; simpl.
    - exists st. split; [reflexivity|]. split; [rewrite app_nil_r; apply Permutation_refl | auto].
    - inversion Hok as [|? ? H1 H2]; subst. unfold input_ok in H1. simpl in H1.
      assert (Habsd : absorbed (one_file supers L fault rs) = true).
      { destruct fault as [[s c]|]; [apply absorbed_of_ok; exact H1 | reflexivity]. }
      destruct (one_file supers L fault rs) as [rs'|reason|n|c] eqn:E; try discriminate.
      + destruct (IH (MState (ms_files st ++ [name]) (ms_skipped st) (ms_results st ++ rs')) H2) as [st' [Hr [Hp Hs]]].
        exists st'. split; [exact Hr|]. split; [|exact Hs].
        eapply Permutation_trans; [exact Hp|]. cbn [ms_files ms_skipped].
        rewrite <- !app_assoc. apply Permutation_app_head. simpl.
        apply Permutation_sym. apply Permutation_middle || (apply Permutation_sym; apply Permutation_middle).
      + destruct (IH (MState (ms_files st) (ms_skipped st ++ [(name, reason)]) (ms_results st)) H2) as [st' [Hr [Hp Hs]]].
        exists st'. split; [exact Hr|]. split.
        * eapply Permutation_trans; [exact Hp|]. cbn [ms_files ms_skipped].
          rewrite map_app. simpl. rewrite <- !app_assoc. apply Permutation_app_head. apply Permutation_app_head.
          simpl. apply Permutation_refl.
        * intros n r Hin. destruct (Hs n r Hin) as [H|H]; [|auto]. cbn [ms_skipped] in H.
          apply in_app_or in H as [H|[H|[]]]; [auto|]. inversion H; subst. right.
          simpl in Habsd. destruct r; [discriminate | discriminate].
  Qed.

  (* ----- isolation: the reported findings are the scanned files' own findings, in file order ----- *)
  Fixpoint own_results (files : list file_input) : list finding :=
    match files with
    | [] => []
    | (name, fault, rs) :: t =>
        match one_file supers L fault rs with
        | Scanned rs' => rs' ++ own_results t
        | _ => own_results t
        end
    end.

  Theorem isolated files : forall st st',
    run_files supers L files st = Completed st' -> ms_results st' = ms_results st ++ own_results files.
  Proof.
    induction files as [|[[name fault] rs] t IH]; intros st st'; simpl.
    - intro H; inversion H; subst. rewrite app_nil_r. reflexivity.
    - destruct (one_file supers L fault rs) as [rs'|reason|n|c]; try discriminate.
      + intro H. rewrite (IH _ _ H). cbn [ms_results]. rewrite app_assoc. reflexivity.
      + intro H. rewrite (IH _ _ H). reflexivity.
  Qed.

  (* a scanned file contributes exactly its own findings, whatever happens to the other files *)
  Theorem own_findings_unaffected name fault rs before after before' after' :
    (forall rs', one_file supers L fault rs' = Scanned rs') ->
    exists p q p' q',
      own_results (before ++ (name, fault, rs) :: after) = p ++ rs ++ q /\
      own_results (before' ++ (name, fault, rs) :: after') = p' ++ rs ++ q'.
  Proof.
    intro Hs.
    assert (G : forall b a, exists p q, own_results (b ++ (name, fault, rs) :: a) = p ++ rs ++ q).
    { induction b as [|[[n f] r] b IHb]; intro a; simpl.
      - rewrite Hs. exists [], (own_results a). reflexivity.
      - destruct (IHb a) as [p [q H]]. rewrite H.
        destruct (one_file supers L f r) as [rs'| | |]; [exists (rs' ++ p), q; rewrite <- app_assoc; reflexivity | exists p, q; reflexivity ..]. }
    destruct (G before after) as [p [q H1]]. destruct (G before' after') as [p' [q' H2]].
    exists p, q, p', q'. auto.
  Qed.
End Acc.

(* ----- "exactly once", spelled out for a run from the initial state over distinct file names ----- *)
Lemma NoDup_app_disjoint {A} (a b : list A) x : NoDup (a ++ b) -> In x a -> In x b -> False.
Proof.
  induction a as [|y a IH]; intros Hn Ha Hb; [destruct Ha|].
  cbn [app] in Hn. inversion Hn as [|? ? Hy Hn']; subst. destruct Ha as [->|Ha].
  - apply Hy, in_or_app. right. exact Hb.
  - exact (IH Hn' Ha Hb).
Qed.

Theorem exactly_once supers L : absorbs_all supers L = true ->
  forall files, Forall (input_ok supers) files -> NoDup (map (fun fi : file_input => fst (fst fi)) files) ->
  exists st', run_files supers L files ms_init = Completed st' /\
    NoDup (ms_files st' ++ map fst (ms_skipped st')) /\
    (forall n, In n (map (fun fi : file_input => fst (fst fi)) files) <->
               In n (ms_files st') \/ In n (map fst (ms_skipped st'))) /\
    (forall n, ~ (In n (ms_files st') /\ In n (map fst (ms_skipped st')))).
Proof.
  intros Habs files Hok Hnd.
  destruct (accounted supers L Habs files ms_init Hok) as [st' [Hrun [Hperm _]]].
  cbn [ms_init ms_files ms_skipped map app] in Hperm.
  exists st'. split; [exact Hrun|].
  assert (Hn : NoDup (ms_files st' ++ map fst (ms_skipped st'))).
  { apply (Permutation_NoDup (Permutation_sym Hperm)). exact Hnd. }
  split; [exact Hn|]. split.
  - intro n. rewrite <- in_app_iff. split; intro H.
    + exact (Permutation_in n (Permutation_sym Hperm) H).
    + exact (Permutation_in n Hperm H).
  - intros n [H1 H2]. exact (NoDup_app_disjoint _ _ n Hn H1 H2).
Qed.

(* a file that meets no fault is scanned - never skipped - whatever happens to the files around it *)
Lemma run_files_keeps supers L files : forall st st' n,
  run_files supers L files st = Completed st' -> In n (ms_files st) -> In n (ms_files st').
Proof.
  induction files as [|[[name fault] rs] t IH]; intros st st' n Hrun Hin; cbn [run_files] in Hrun.
  - injection Hrun as <-. exact Hin.
  - destruct (one_file supers L fault rs) as [rs'|r|c|c]; try discriminate;
      apply (IH _ _ n Hrun); cbn [ms_files]; [apply in_or_app; left|]; exact Hin.
Qed.

Theorem healthy_scanned supers L files : forall st st' name rs,
  run_files supers L files st = Completed st' -> In (name, None, rs) files -> In name (ms_files st').
Proof.
  induction files as [|[[nm fault] rs0] t IH]; intros st st' name rs Hrun Hin; [destruct Hin|].
  cbn [run_files] in Hrun. destruct Hin as [Heq|Hin].
  - injection Heq as -> -> ->. cbn [one_file] in Hrun.
    apply (run_files_keeps supers L t _ _ name Hrun). cbn [ms_files]. apply in_or_app. right. left. reflexivity.
  - destruct (one_file supers L fault rs0) as [rs'|r|c|c]; try discriminate; exact (IH _ _ name rs Hrun Hin).
Qed.
