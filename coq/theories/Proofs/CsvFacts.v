From Coq Require Import List NArith ZArith Bool Lia ZifyBool ZifyN.
From Bandit Require Import Base.PyStr Formats.CsvEnc.
Import ListNotations.
Local Open Scope N_scope.

(* unquoted characters accumulate *)
Lemma parse_unquoted f : forall rest cur acc,
  needs_quote f = false ->
  csv_parse (f ++ rest) UQ cur acc = csv_parse rest UQ (rev f ++ cur) acc.
Proof.
  induction f as [|c t IH]; intros rest cur acc H; [reflexivity|].
  unfold needs_quote in H. cbn [existsb] in H. apply orb_false_iff in H as [Hc Ht].
  unfold is_special in Hc. cbn [app csv_parse].
  assert (E1 : (c =? 44) = false) by lia. assert (E2 : (c =? 13) || (c =? 10) = false) by lia.
  rewrite E1, E2. rewrite IH by exact Ht. cbn [rev]. rewrite <- app_assoc. reflexivity.
Qed.

Lemma parse_unquoted_start f rest acc :
  needs_quote f = false ->
  csv_parse (f ++ rest) SF [] acc =
  match f with [] => csv_parse rest SF [] acc | _ => csv_parse rest UQ (rev f) acc end.
Proof.
  intro H. destruct f as [|c t]; [reflexivity|].
  unfold needs_quote in H. cbn [existsb] in H. apply orb_false_iff in H as [Hc Ht]. unfold is_special in Hc.
  cbn [app csv_parse].
  assert (E0 : (c =? 34) = false) by lia. assert (E1 : (c =? 44) = false) by lia. assert (E2 : (c =? 13) || (c =? 10) = false) by lia.
  rewrite E0, E1, E2. rewrite parse_unquoted by exact Ht. cbn [rev]. reflexivity.
Qed.

(* inside quotes: doubled quotes give one quote, everything else is taken literally *)
Lemma parse_quoted f : forall rest cur acc,
  csv_parse (flat_map dq_char f ++ 34 :: rest) IQ cur acc = csv_parse rest QQ (rev f ++ cur) acc.
Proof.
  induction f as [|c t IH]; intros rest cur acc; [reflexivity|].
  cbn [flat_map]. rewrite <- app_assoc. unfold dq_char at 1.
  destruct (c =? 34) eqn:E.
  - apply N.eqb_eq in E. subst. cbn [app csv_parse N.eqb Pos.eqb]. rewrite IH. cbn [rev]. rewrite <- app_assoc. reflexivity.
  - cbn [app csv_parse]. rewrite E, IH. cbn [rev]. rewrite <- app_assoc. reflexivity.
Qed.

(* one written field followed by a delimiter or by the record terminator is read back as that field *)
Lemma field_then_comma f rest acc :
  csv_parse (csv_field f ++ 44 :: rest) SF [] acc = csv_parse rest SF [] (f :: acc).
Proof.
  unfold csv_field. destruct (needs_quote f) eqn:E.
  - cbn [app csv_parse N.eqb Pos.eqb]. rewrite <- app_assoc. cbn [app]. rewrite parse_quoted.
    cbn [csv_parse N.eqb Pos.eqb]. rewrite app_nil_r, rev_involutive. reflexivity.
  - rewrite parse_unquoted_start by exact E. destruct f as [|c t]; [reflexivity|].
    cbn [csv_parse N.eqb Pos.eqb]. rewrite rev_involutive. reflexivity.
Qed.

Lemma field_then_end f acc :
  csv_parse (csv_field f ++ [13; 10]) SF [] acc = Some (rev (f :: acc)).
Proof.
  unfold csv_field. destruct (needs_quote f) eqn:E.
  - cbn [app csv_parse N.eqb Pos.eqb]. rewrite <- app_assoc. cbn [app]. rewrite parse_quoted.
    cbn [csv_parse N.eqb Pos.eqb orb]. rewrite app_nil_r, rev_involutive. reflexivity.
  - rewrite parse_unquoted_start by exact E. destruct f as [|c t]; [reflexivity|].
    cbn [csv_parse N.eqb Pos.eqb orb]. rewrite rev_involutive. reflexivity.
Qed.

(* a written record is read back field for field, whatever the fields contain *)
Theorem csv_roundtrip fields : fields <> [] -> csv_read (csv_row fields) = Some fields.
Proof.
  intro Hne. unfold csv_read, csv_row.
  assert (G : forall l acc, l <> [] -> csv_parse (csv_fields l ++ [13; 10]) SF [] acc = Some (rev acc ++ l)).
  { induction l as [|f t IH]; intros acc H; [contradiction|].
    destruct t as [|g t'].
    - cbn [csv_fields]. rewrite field_then_end. cbn [rev]. reflexivity.
    - change (csv_fields (f :: g :: t')) with (csv_field f ++ 44 :: csv_fields (g :: t')).
      rewrite <- app_assoc. cbn [app]. rewrite field_then_comma. rewrite IH by discriminate.
      cbn [rev]. rewrite <- app_assoc. reflexivity. }
  rewrite (G fields [] Hne). reflexivity.
Qed.
