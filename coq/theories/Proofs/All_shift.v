(* Every check of the real test set is position-equivariant; hence inserting blank or ordinary comment
   lines shifts the findings of a whole scan and changes nothing else. *)
From Coq Require Import List NArith ZArith Bool String Lia.
From Bandit Require Import Base.PyStr Ast.Node Engine.Types Engine.Tables Engine.Tester Engine.Visitor Engine.Scan Engine.Shift
     Plugins.Blacklist Plugins.Trojan Plugins.Shell Plugins.Crypto Plugins.Secrets Plugins.Inject Plugins.Misc Plugins.All
     Gen.Constants
     Proofs.ShiftFacts Proofs.ShiftVisitor Proofs.C10_proofs Proofs.Blacklist_shift
     Proofs.Shell_shift Proofs.Crypto_shift Proofs.Secrets_shift Proofs.Inject_shift Proofs.Misc_shift.
Import ListNotations.
Local Open Scope string_scope.
Local Open Scope list_scope.

Section All.
  Variable at_ : Z.
  Variable ins : list pstr.
  Hypothesis Hat : (1 <= at_)%Z.
  Hypothesis Hk : (k_ ins < line_bound)%Z.
  (* the inserted lines are blank or ordinary comments: none carries a bidirectional control character
     (and none a nosec marker: that is the hypothesis on the nosec map of scan_insert) *)
  Hypothesis ins_ordinary : Forall (fun l => first_bidi BIDI_CHARACTERS l = None) ins.

  Definition p_equiv (p : plugin) : Prop := forall cfg c, pl_fn p cfg (sh_ctx at_ ins c) = sh_res at_ ins (pl_fn p cfg c).

  Theorem all_plugins_equiv : Forall p_equiv all_plugins.
  Proof.
    unfold all_plugins. repeat (apply Forall_app; split).
    - apply shell_plugins_equiv.
    - apply crypto_plugins_equiv.
    - apply secrets_plugins_equiv.
    - apply inject_plugins_equiv. exact Hat.
    - apply misc_plugins_equiv.
    - constructor; [|constructor]. intros cfg c. apply (trojansource_shift at_ ins Hat BIDI_CHARACTERS ins_ordinary).
  Qed.

  Lemma find_plugin_In nm ps p : find_plugin nm ps = Some p -> In p ps.
  Proof.
    induction ps as [|q t IH]; [discriminate|]. cbn [find_plugin].
    destruct (pstr_eqb nm (pl_name q)); [intro H; inversion H; left; reflexivity | intro H; right; apply IH; exact H].
  Qed.

  Theorem build_tests_equiv reg plugins defaults cfg sel tab :
    Forall p_equiv plugins -> Forall (t_equiv at_ ins) (build_tests reg plugins defaults cfg sel tab).
  Proof.
    intro Hp. unfold build_tests. apply Forall_app. split.
    - apply Forall_flat_map. apply Forall_forall. intros r _.
      destruct (sel (r_id r)); [|constructor].
      destruct (find_plugin (r_name r) plugins) as [p|] eqn:F; [|constructor].
      constructor; [|constructor]. intro c. cbn [t_fn].
      rewrite Forall_forall in Hp. apply (Hp p (find_plugin_In _ _ _ F)).
    - destruct (filter_table sel tab) as [|e t]; [constructor|]. constructor; [|constructor].
      apply blacklist_test_equiv.
  Qed.

  (* which node classes have a check registered *)
  Definition tested_of (tests : list test) (ct : string) : bool :=
    match tests_for tests ct with [] => false | _ => true end.

  (* C10, second sentence, for the real test set under every configuration and selection *)
  Theorem scan_insert_all K reg defaults cfg sel tab m fname lines module :
    let tests := build_tests reg all_plugins defaults cfg sel tab in
    nosec_pos m ->
    wf_tree (tested_of tests) module = true -> wf_here (tested_of tests) module NNone = true ->
    scan K tests (sh_nosec at_ ins m) fname (option_map (sh_lines at_ ins) lines) (sh_node at_ ins module)
    = sh_out at_ ins (scan K tests m fname lines module).
  Proof.
    intros tests Hm W H.
    apply (scan_insert at_ ins Hat Hk (tested_of tests)); try assumption.
    - apply build_tests_equiv. exact all_plugins_equiv.
    - intros ct Hc. unfold tested_of in Hc. destruct (tests_for tests ct); [reflexivity | discriminate].
  Qed.
End All.
