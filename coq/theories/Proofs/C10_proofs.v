(* C10: reported locations and excerpts point at the flagged code. *)
From Coq Require Import List NArith ZArith Bool String Lia ZifyBool.
From Bandit Require Import Base.PyStr Ast.Node Engine.Types Engine.Resolve Engine.Context Engine.Linerange Engine.Tester
     Engine.Visitor Engine.Scan Engine.Shift Engine.Excerpt Proofs.PyStrFacts Proofs.ShiftFacts Proofs.ShiftVisitor.
Import ListNotations.
Local Open Scope string_scope.
Local Open Scope list_scope.
Local Open Scope Z_scope.

(* ================= the excerpt ================= *)
Lemma take_lines_spec lines : forall count k e t,
  1 <= k -> In (e, t) (take_lines lines k count) ->
  k <= e < k + Z.of_nat count /\ nth_error lines (Z.to_nat (e - 1)) = Some t /\ t <> [].
Proof.
  induction count as [|c IH]; intros k e t Hk Hin; [destruct Hin|].
  cbn [take_lines] in Hin. destruct (getline lines k) as [|x xs] eqn:G; [destruct Hin|].
  destruct Hin as [Hin|Hin].
  - inversion Hin; subst. split; [lia|]. split; [|discriminate].
    unfold getline in G. destruct (e <? 1) eqn:E1; [discriminate|].
    destruct (nth_error lines (Z.to_nat (e - 1))) as [y|] eqn:N.
    + rewrite (nth_error_nth _ _ _ N) in G. subst. reflexivity.
    + apply nth_error_None in N. rewrite nth_overflow in G by exact N. discriminate.
  - destruct (IH (k + 1) e t ltac:(lia) Hin) as [H1 H2]. split; [lia | exact H2].
Qed.

Lemma take_lines_numbers lines : forall count k,
  map fst (take_lines lines k count) = zrange k (k + Z.of_nat (List.length (take_lines lines k count))).
Proof.
  induction count as [|c IH]; intro k; [cbn; rewrite zrange_nil by lia; reflexivity|].
  cbn [take_lines]. destruct (getline lines k) as [|x xs]; [cbn; rewrite zrange_nil by lia; reflexivity|].
  cbn [map fst List.length]. rewrite (zrange_cons k) by lia. f_equal. rewrite IH. f_equal. lia.
Qed.

Lemma take_lines_length lines count k : (List.length (take_lines lines k count) <= count)%nat.
Proof.
  revert k. induction count as [|c IH]; intro k; [apply le_n|]. cbn [take_lines].
  destruct (getline lines k); [apply Nat.le_0_l | cbn [List.length]; apply le_n_S, IH].
Qed.

Lemma getline_inside lines k : (forall t, In t lines -> t <> []) -> 1 <= k <= Z.of_nat (List.length lines) -> getline lines k <> [].
Proof.
  intros Hne Hk. unfold getline. destruct (k <? 1) eqn:E; [apply Z.ltb_lt in E; lia|]. apply Hne. apply nth_In. unfold pstr in *. apply Z.ltb_ge in E. lia.
Qed.

Lemma take_lines_reaches lines : (forall t, In t lines -> t <> []) ->
  forall count k e, 1 <= k -> k <= e < k + Z.of_nat count -> e <= Z.of_nat (List.length lines) ->
  In e (map fst (take_lines lines k count)).
Proof.
  intros Hne. induction count as [|c IH]; intros k e Hk He Hl; [lia|].
  cbn [take_lines]. destruct (getline lines k) as [|x xs] eqn:G.
  - exfalso. apply (getline_inside lines k Hne); [lia | exact G].
  - cbn [map fst]. destruct (Z.eq_dec k e) as [->|N]; [left; reflexivity|]. right. apply IH; lia.
Qed.

(* every excerpt row is a verbatim line of the file, under its own number *)
Theorem excerpt_verbatim lines lineno len n e t :
  In (e, t) (excerpt lines lineno len n) -> 1 <= e /\ nth_error lines (Z.to_nat (e - 1)) = Some t.
Proof.
  unfold excerpt, window. intro H. apply take_lines_spec in H; [|lia]. split; [lia | tauto].
Qed.

(* the rows are consecutive lines starting at max(1, lineno - max(n,1)/2) *)
Theorem excerpt_consecutive lines lineno len n :
  let e := excerpt lines lineno len n in
  map fst e = zrange (fst (window lineno len n)) (fst (window lineno len n) + Z.of_nat (List.length e)).
Proof. unfold excerpt, window. cbn [fst]. apply take_lines_numbers. Qed.

(* the flagged line is among them *)
Theorem excerpt_contains_line lines lineno len n :
  (forall t, In t lines -> t <> []) -> 1 <= lineno <= Z.of_nat (List.length lines) -> 1 <= len ->
  In lineno (map fst (excerpt lines lineno len n)).
Proof.
  intros Hne Hl Hlen. unfold excerpt, window. apply take_lines_reaches; [exact Hne | lia | | lia].
  assert (0 <= Z.max n 1 / 2 <= Z.max n 1 - 1) by (split; [apply Z.div_pos; lia | apply Z.lt_le_pred; apply Z.div_lt; lia]).
  lia.
Qed.

(* at most the construct's lines plus max(n,1) - 1 lines of context, at most max(n,1)/2 of them before the flagged line *)
Theorem excerpt_size lines lineno len n :
  0 <= len -> Z.of_nat (List.length (excerpt lines lineno len n)) <= len + Z.max n 1 - 1.
Proof.
  intro H. unfold excerpt, window. pose proof (take_lines_length lines (Z.to_nat (Z.max 1 (lineno - Z.max n 1 / 2) + len + Z.max n 1 - 1 - Z.max 1 (lineno - Z.max n 1 / 2)))
    (Z.max 1 (lineno - Z.max n 1 / 2))). lia.
Qed.
Theorem excerpt_starts lines lineno len n e t :
  In (e, t) (excerpt lines lineno len n) -> lineno - Z.max n 1 / 2 <= e.
Proof. unfold excerpt, window. intro H. apply take_lines_spec in H; lia. Qed.

Example excerpt_demo :
  map fst (excerpt [[97;10];[98;10];[99;10];[100;10];[101;10]]%N 4 2 3) = [3; 4; 5].
Proof. vm_compute. reflexivity. Qed.

(* ================= line number and line range ================= *)
(* every range utils.linerange returns is a run of consecutive ascending lines *)
Theorem linerange_is_run n sib : exists a b, linerange n sib = zrange a b.
Proof.
  unfold linerange. destruct (pos_of n) as [q|]; [eexists; eexists; reflexivity|].
  destruct (lineno_of sib) as [sl|]; [|eexists; eexists; reflexivity].
  match goal with |- context [if ?b then _ else _] => destruct b end; eexists; eexists; reflexivity.
Qed.
Theorem run_is_consecutive a b i : (i < List.length (zrange a b))%nat -> nth i (zrange a b) 0 = a + Z.of_nat i.
Proof. rewrite zrange_length. apply zrange_consecutive. Qed.

(* a check that leaves the location to the tester gets the node's own first line and its whole span *)
Theorem default_location E t n ps sib st r q :
  pos_of n = Some q -> ri_lineno r = None -> ri_linerange r = None ->
  let f := fill_defaults t (base_ctx E n ps sib st) r in
  f_lineno f = p_line q /\ f_linerange f = zrange (p_line q) (p_eline q + 1)
  /\ (p_line q <= p_eline q -> In (f_lineno f) (f_linerange f)).
Proof.
  intros Hp H1 H2. unfold fill_defaults, base_ctx, linerange. cbn [f_lineno f_linerange c_lineno c_linerange].
  rewrite H1, H2, Hp. cbn [option_map]. repeat split. intro H. apply In_zrange. lia.
Qed.

(* a check that reports the line of a keyword argument (shell=, verify=, debug=, ...) stays inside the call
   whenever the keyword's value lies inside the call's span *)
Definition kw_within (call : node) : bool :=
  match pos_of call with
  | Some q => forallb (fun k => match lineno_of (field "value" k) with
                                | Some l => (p_line q <=? l) && (l <=? p_eline q)
                                | None => true
                                end) (field_list "keywords" call)
  | None => true
  end.
Theorem kwarg_location c name l q sib :
  pos_of (c_node c) = Some q -> kw_within (c_node c) = true ->
  get_lineno_for_call_arg c name = Some l -> In l (linerange (c_node c) sib).
Proof.
  intros Hp Hw Hg. unfold get_lineno_for_call_arg in Hg. unfold kw_within in Hw. rewrite Hp in Hw.
  destruct (find _ _) as [k0|] eqn:F; [|discriminate]. apply find_some in F as [Hin _].
  rewrite forallb_forall in Hw. specialize (Hw k0 Hin). rewrite Hg in Hw.
  unfold linerange. rewrite Hp. apply In_zrange. lia.
Qed.

(* a string constant reports its own line; the range is its parent's: inside it when the parent has a
   position spanning the string, or has none and takes its range from its children *)
Definition inside (p x : node) : bool :=
  match pos_of p, pos_of x with
  | Some q, Some r => (p_line q <=? p_line r) && (p_line r <=? p_eline q)
  | _, _ => true
  end.

Lemma fold_merge_bounds (xs : list node) : forall acc,
  let r := fold_left (fun a x => lr_merge a (calc_linerange x)) xs acc in
  fst r <= fst acc /\ snd acc <= snd r
  /\ forall x, In x xs -> fst r <= fst (calc_linerange x) /\ snd (calc_linerange x) <= snd r.
Proof.
  induction xs as [|x t IH]; intro acc; cbn [fold_left].
  - split; [lia|]. split; [lia|]. intros y Hy. destruct Hy.
  - destruct (IH (lr_merge acc (calc_linerange x))) as [H1 [H2 H3]]. unfold lr_merge in *. cbn [fst snd] in *.
    split; [lia|]. split; [lia|]. intros y [Hy|Hy]; [subst y; lia | apply H3; exact Hy].
Qed.

Lemma calc_covers_self n q : pos_of n = Some q -> fst (calc_linerange n) <= p_line q <= snd (calc_linerange n).
Proof.
  destruct n as [c p fs| | | | |]; try discriminate. cbn [pos_of]. intros ->.
  rewrite calc_linerange_fold.
  destruct (fold_merge_bounds (child_nodes_of_fields fs) (p_line q, p_line q)) as [H1 [H2 _]]. cbn [fst snd] in *. lia.
Qed.

Theorem str_location p psib x r :
  pos_of x = Some r -> 1 <= p_line r ->
  (pos_of p <> None -> inside p x = true) ->
  (pos_of p = None -> lineno_of psib = None /\ In x (child_nodes_of_fields (filter (fun kv => negb (stripped_field (fst kv))) (fields_of p)))) ->
  In (p_line r) (linerange p psib).
Proof.
  intros Hx Hr Hin Hun. unfold linerange. destruct (pos_of p) as [q|] eqn:Hp.
  - specialize (Hin ltac:(discriminate)). unfold inside in Hin. rewrite Hp, Hx in Hin. apply In_zrange. lia.
  - destruct (Hun eq_refl) as [Hs Hc]. rewrite Hs.
    destruct (fold_merge_bounds (child_nodes_of_fields (filter (fun kv => negb (stripped_field (fst kv))) (fields_of p))) lr_none) as [_ [_ H3]].
    specialize (H3 x Hc). pose proof (calc_covers_self x r Hx) as Hc2.
    set (mm := fold_left _ _ lr_none) in *.
    destruct (snd mm =? -1) eqn:E; [apply Z.eqb_eq in E; exfalso; lia|].
    apply In_zrange. lia.
Qed.

(* ================= inserting lines ================= *)
Section Insert.
  Variable at_ : Z.
  Variable ins : list pstr.
  Hypothesis Hat : 1 <= at_.
  Hypothesis Hk : k_ ins < line_bound.
  Variable tested : string -> bool.

  Definition sh_out (o : scan_out) : scan_out :=
    ScanOut (map (sh_finding at_ ins) (o_results o)) (o_nosec o) (o_skipped o) (o_errors o) (o_sev o) (o_conf o).

  (* the whole scan of the file with the lines inserted is the old scan with every location shifted *)
  Theorem scan_insert K tests m fname lines module :
    Forall (t_equiv at_ ins) tests -> nosec_pos m ->
    (forall ct, tested ct = false -> tests_for tests ct = []) ->
    wf_tree tested module = true -> wf_here tested module NNone = true ->
    scan K tests (sh_nosec at_ ins m) fname (option_map (sh_lines at_ ins) lines) (sh_node at_ ins module)
    = sh_out (scan K tests m fname lines module).
  Proof.
    intros Ht Hm Hu W H. unfold scan.
    change (Env K tests (sh_nosec at_ ins m) fname (option_map (sh_lines at_ ins) lines)) with (sh_env at_ ins (Env K tests m fname lines)).
    rewrite (process_sh at_ ins Hat Hk tested (Env K tests m fname lines) Ht Hm Hu module W H). reflexivity.
  Qed.

  (* what "shifted" means for one finding: everything but the location is untouched; a location at or after
     the insertion point moves by exactly the number of inserted lines; one before it does not move *)
  Theorem shifted_finding f :
    let g := sh_finding at_ ins f in
    f_test_id g = f_test_id f /\ f_test g = f_test f /\ f_sev g = f_sev f /\ f_conf g = f_conf f /\ f_cwe g = f_cwe f
    /\ f_text g = f_text f /\ f_col g = f_col f /\ f_ecol g = f_ecol f
    /\ (at_ <= f_lineno f -> f_lineno g = f_lineno f + k_ ins)
    /\ (f_lineno f < at_ -> f_lineno g = f_lineno f).
  Proof.
    cbn. repeat split; intro H; [apply sh_above | apply sh_below]; exact H.
  Qed.

  (* a range wholly after the insertion point moves as a block, one wholly before it stays, one that spans it
     keeps its first line and grows by the inserted lines *)
  Theorem shifted_range a b :
    1 <= a <= b ->
    (at_ <= a -> sh_range at_ ins (zrange a (b + 1)) = zrange (a + k_ ins) (b + k_ ins + 1))
    /\ (b < at_ -> sh_range at_ ins (zrange a (b + 1)) = zrange a (b + 1))
    /\ (a < at_ <= b -> sh_range at_ ins (zrange a (b + 1)) = zrange a (b + k_ ins + 1)).
  Proof.
    intro H. rewrite (sh_range_zrange at_ ins) by lia. repeat split; intro H2.
    - rewrite !(sh_above at_ ins) by lia. reflexivity.
    - rewrite !(sh_below at_ ins) by lia. reflexivity.
    - rewrite (sh_below at_ ins a), (sh_above at_ ins b) by lia. reflexivity.
  Qed.
End Insert.
