From Coq Require Import List NArith ZArith Bool String Lia.
From Bandit Require Import Base.PyStr Ast.Node Engine.Types Engine.Tester Engine.Visitor
     Proofs.PyStrFacts Proofs.VisitorFacts Proofs.VisitPlan Proofs.C02_proofs.
Import ListNotations.
Local Open Scope Z_scope.

Definition is_kept (x : finding * status) : bool := match snd x with Kept => true | _ => false end.
Definition is_bare (x : finding * status) : bool := match snd x with Bare => true | _ => false end.
Definition is_specific (x : finding * status) : bool := match snd x with Specific => true | _ => false end.
Definition countb {A} (p : A -> bool) (l : list A) : Z := Z.of_nat (List.length (filter p l)).

Lemma countb_app {A} (p : A -> bool) a b : countb p (a ++ b) = countb p a + countb p b.
Proof. unfold countb. rewrite filter_app, app_length. lia. Qed.

(* ---------- counters and reported list are determined by the ghost record of all findings ---------- *)
Definition AllInv (ts : tstate) : Prop :=
  ts_results ts = map fst (filter is_kept (ts_all ts)) /\
  ts_nosec ts = countb is_bare (ts_all ts) /\
  ts_skipped ts = countb is_specific (ts_all ts).

Lemma run_one_allinv K m c t ts sc : AllInv ts -> AllInv (fst (run_one K m c t (ts, sc))).
Proof.
  intros [H1 [H2 H3]]. unfold run_one.
  destruct (t_fn t c) as [[r|]|e]; cbn [fst]; try (split; [|split]; assumption).
  set (f := fill_defaults t c r).
  assert (Keep : forall (sc' : scores) errs, AllInv (TState (ts_results ts ++ [f]) (ts_nosec ts) (ts_skipped ts) errs (ts_all ts ++ [(f, Kept)]))).
  { intros _ errs. unfold AllInv. cbn [ts_results ts_nosec ts_skipped ts_all].
    rewrite filter_app, map_app, !countb_app, H1, H2, H3. unfold countb. cbn. split; [reflexivity|]. split; lia. }
  destruct (nosecs_from_contexts m (c_linerange c) (ri_lineno r)) as [[|i ids]|].
  - unfold AllInv. cbn [fst ts_results ts_nosec ts_skipped ts_all].
    rewrite filter_app, !countb_app, H1, H2, H3. unfold countb. cbn. rewrite app_nil_r. split; [reflexivity|]. split; lia.
  - destruct (mem_pstr (f_test_id f) (i :: ids)).
    + unfold AllInv. cbn [fst ts_results ts_nosec ts_skipped ts_all].
      rewrite filter_app, !countb_app, H1, H2, H3. unfold countb. cbn. rewrite app_nil_r. split; [reflexivity|]. split; lia.
    + destruct (score_one K f sc); cbn [fst]; apply Keep; exact sc.
  - destruct (score_one K f sc); cbn [fst]; apply Keep; exact sc.
Qed.

Lemma run_tests_allinv K tests m c ct ts : AllInv ts -> AllInv (fst (run_tests K tests m c ct ts)).
Proof.
  unfold run_tests. generalize (zero_scores K) as sc. generalize (tests_for tests ct) as l.
  intros l. revert ts. induction l as [|t l IH]; intros ts sc H; [exact H|].
  cbn [fold_left]. destruct (run_one K m c t (ts, sc)) as [ts' sc'] eqn:E.
  apply IH. replace ts' with (fst (run_one K m c t (ts, sc))) by (rewrite E; reflexivity).
  apply run_one_allinv. exact H.
Qed.

Section OneRun.
  Variable E : env.
  Definition VInv (st : vstate) : Prop := AllInv (v_tester st).

  Lemma with_tests_allinv c ct st : VInv st -> VInv (with_tests E c ct st).
  Proof.
    unfold VInv, with_tests. intro H.
    pose proof (run_tests_allinv (e_consts E) (e_tests E) (e_nosec E) c ct (v_tester st) H) as G.
    destruct (run_tests (e_consts E) (e_tests E) (e_nosec E) c ct (v_tester st)) as [ts sc]. exact G.
  Qed.

  Lemma visit_one_allinv n ps sib st : VInv st -> VInv (visit_one E n ps sib st).
  Proof.
    intro H. rewrite visit_one_plan.
    destruct (visit_plan (e_fname E) (e_lines E) n ps sib (v_imports st) (v_aliases st)) as [[i' a'] [[c ct]|]].
    - apply with_tests_allinv. exact H.
    - exact H.
  Qed.

  (* for every program: the reported findings are the kept ones among all findings produced, and the
     nosec / skipped-tests counters count the findings withheld by bare / test-specific comments *)
  Theorem process_counters module :
    AllInv (v_tester (process E module)).
  Proof.
    unfold process. apply with_tests_allinv.
    apply (generic_visit_inv E VInv).
    - intros; apply visit_one_allinv; assumption.
    - unfold VInv, AllInv. cbn. repeat split.
  Qed.
End OneRun.

Corollary counters_sum E module :
  let ts := v_tester (process E module) in
  ts_nosec ts + ts_skipped ts = countb (fun x => negb (is_kept x)) (ts_all ts).
Proof.
  destruct (process_counters E module) as [_ [H2 H3]]. cbn zeta. rewrite H2, H3.
  unfold countb. generalize (ts_all (v_tester (process E module))).
  induction l as [|[f s] l IH]; [reflexivity|].
  destruct s; simpl filter; simpl List.length; rewrite ?Nat2Z.inj_succ; simpl in IH; lia.
Qed.

(* ---------- --ignore-nosec: the same run with an empty comment map reports everything ---------- *)
Lemma nosecs_empty lr ln : nosecs_from_contexts [] lr ln = None.
Proof.
  unfold nosecs_from_contexts, get_nosec.
  assert (G : forall lr, get_nosec_acc [] lr None = None) by (induction lr0; simpl; auto).
  rewrite G. destruct ln; reflexivity.
Qed.

Section TwoRuns.
  Variables (K : consts) (tests : list test) (m : nosec_map) (fname : pstr) (lines : option (list pstr)).
  Let E1 := Env K tests m fname lines.
  Let E2 := Env K tests [] fname lines.

  Definition TR (t1 t2 : tstate) : Prop := map fst (ts_all t1) = ts_results t2.

  Lemma run_one_tr c t t1 s1 t2 s2 :
    TR t1 t2 -> TR (fst (run_one K m c t (t1, s1))) (fst (run_one K [] c t (t2, s2))).
  Proof.
    intro H. unfold run_one.
    destruct (t_fn t c) as [[r|]|e]; cbn [fst]; try exact H.
    rewrite nosecs_empty.
    set (f := fill_defaults t c r).
    assert (Right : forall x, TR x t2 -> forall st, map fst (ts_all x) ++ [f] = map fst (ts_all st) ->
            TR st (fst (match score_one K f s2 with
                        | Some sc' => (TState (ts_results t2 ++ [f]) (ts_nosec t2) (ts_skipped t2) (ts_errors t2) (ts_all t2 ++ [(f, Kept)]), sc')
                        | None => (TState (ts_results t2 ++ [f]) (ts_nosec t2) (ts_skipped t2) (ts_errors t2 ++ [(t_name t, ValueError)]) (ts_all t2 ++ [(f, Kept)]), s2)
                        end))).
    { intros x Hx st Hst. unfold TR in *. destruct (score_one K f s2); cbn [fst ts_results]; rewrite <- Hst, Hx; reflexivity. }
    destruct (nosecs_from_contexts m (c_linerange c) (ri_lineno r)) as [[|i ids]|].
    - apply (Right t1 H). cbn [fst ts_all]. rewrite map_app. reflexivity.
    - destruct (mem_pstr (f_test_id f) (i :: ids)).
      + apply (Right t1 H). cbn [fst ts_all]. rewrite map_app. reflexivity.
      + apply (Right t1 H). destruct (score_one K f s1); cbn [fst ts_all]; rewrite map_app; reflexivity.
    - apply (Right t1 H). destruct (score_one K f s1); cbn [fst ts_all]; rewrite map_app; reflexivity.
  Qed.

  Lemma run_tests_tr c ct t1 t2 :
    TR t1 t2 -> TR (fst (run_tests K tests m c ct t1)) (fst (run_tests K tests [] c ct t2)).
  Proof.
    unfold run_tests. generalize (zero_scores K) at 1 as s1. generalize (zero_scores K) as s2.
    generalize (tests_for tests ct) as l. intro l. revert t1 t2.
    induction l as [|t l IH]; intros t1 t2 s2 s1 H; [exact H|].
    cbn [fold_left].
    pose proof (run_one_tr c t t1 s1 t2 s2 H) as G.
    destruct (run_one K m c t (t1, s1)) as [t1' s1']. destruct (run_one K [] c t (t2, s2)) as [t2' s2'].
    apply IH. exact G.
  Qed.

  Definition VR (s1 s2 : vstate) : Prop :=
    v_imports s1 = v_imports s2 /\ v_aliases s1 = v_aliases s2 /\ TR (v_tester s1) (v_tester s2).

  Lemma with_tests_vr c ct s1 s2 : VR s1 s2 -> VR (with_tests E1 c ct s1) (with_tests E2 c ct s2).
  Proof.
    intros [Hi [Ha Ht]]. unfold with_tests. cbn [e_consts e_tests e_nosec E1 E2].
    pose proof (run_tests_tr c ct _ _ Ht) as G.
    destruct (run_tests K tests m c ct (v_tester s1)) as [ts1 sc1].
    destruct (run_tests K tests [] c ct (v_tester s2)) as [ts2 sc2].
    repeat split; assumption.
  Qed.

  Lemma visit_one_vr n ps sib s1 s2 : VR s1 s2 -> VR (visit_one E1 n ps sib s1) (visit_one E2 n ps sib s2).
  Proof.
    intros [Hi [Ha Ht]]. rewrite !visit_one_plan. cbn [e_fname e_lines E1 E2]. rewrite Hi, Ha.
    destruct (visit_plan fname lines n ps sib (v_imports s2) (v_aliases s2)) as [[i' a'] [[c ct]|]].
    - apply with_tests_vr. repeat split; assumption.
    - repeat split; assumption.
  Qed.

  (* every finding produced (reported or withheld) under comment map m, in production order, is exactly
     what the same scan reports with nosec handling off - unchanged, field for field *)
  Theorem ignore_nosec_reports_all module :
    map fst (ts_all (v_tester (process E1 module))) = ts_results (v_tester (process E2 module)).
  Proof.
    unfold process.
    assert (G : VR (generic_visit E1 module NNone [] (v_init E1)) (generic_visit E2 module NNone [] (v_init E2))).
    { apply (generic_visit_rel E1 E2 VR).
      - intros; apply visit_one_vr; assumption.
      - repeat split. }
    pose proof (with_tests_vr (file_ctx E1) "File" _ _ G) as [_ [_ H]]. exact H.
  Qed.
End TwoRuns.
