(* json.dumps(str) with ensure_ascii=True (py_encode_basestring_ascii) and the matching decoder
   (json.decoder.py_scanstring, strict) on the strings the encoder produces; definitions only. *)
From Coq Require Import List NArith ZArith Bool.
From Bandit Require Import Base.PyStr.
Import ListNotations.
Local Open Scope N_scope.

Definition hexd (d : N) : N := if d <? 10 then 48 + d else 87 + d.           (* lower-case hex digit *)
Definition hex4 (n : N) : pstr := [hexd (n / 4096 mod 16); hexd (n / 256 mod 16); hexd (n / 16 mod 16); hexd (n mod 16)].
Definition uesc (n : N) : pstr := 92 :: 117 :: hex4 n.                        (* \uXXXX *)

Definition enc_char (c : N) : pstr :=
  if c =? 34 then [92; 34] else if c =? 92 then [92; 92]
  else if c =? 10 then [92; 110] else if c =? 13 then [92; 114] else if c =? 9 then [92; 116]
  else if c =? 8 then [92; 98] else if c =? 12 then [92; 102]
  else if (32 <=? c) && (c <=? 126) then [c]
  else if c <? 65536 then uesc c
  else let v := c - 65536 in uesc (55296 + v / 1024) ++ uesc (56320 + v mod 1024).

Definition json_encode (s : pstr) : pstr := 34 :: flat_map enc_char s ++ [34].

Definition unhexd (d : N) : option N :=
  if (48 <=? d) && (d <=? 57) then Some (d - 48)
  else if (97 <=? d) && (d <=? 102) then Some (d - 87)
  else if (65 <=? d) && (d <=? 70) then Some (d - 55) else None.
Definition unhex4 (a b c d : N) : option N :=
  match unhexd a, unhexd b, unhexd c, unhexd d with
  | Some w, Some x, Some y, Some z => Some (w * 4096 + x * 256 + y * 16 + z)
  | _, _, _, _ => None
  end.

(* decoding the body of a string literal (between the quotes); fuel = length of the input *)
Definition simple_escape (e : N) : option N :=
  if e =? 34 then Some 34 else if e =? 92 then Some 92 else if e =? 47 then Some 47
  else if e =? 110 then Some 10 else if e =? 114 then Some 13 else if e =? 116 then Some 9
  else if e =? 98 then Some 8 else if e =? 102 then Some 12 else None.

Fixpoint dec_body (fuel : nat) (s : pstr) : option pstr :=
  match fuel with
  | O => match s with [] => Some [] | _ => None end
  | S f =>
      match s with
      | [] => Some []
      | c :: rest =>
          if c =? 92 then
            match rest with
            | [] => None
            | e :: rest1 =>
                if e =? 117 then
                  match rest1 with
                  | a :: b :: c1 :: d :: rest2 =>
                      match unhex4 a b c1 d with
                      | None => None
                      | Some hi =>
                          let plain := option_map (cons hi) (dec_body f rest2) in
                          if (55296 <=? hi) && (hi <=? 56319) then
                            match rest2 with
                            | b1 :: u1 :: a2 :: b2 :: c2 :: d2 :: rest3 =>
                                if (b1 =? 92) && (u1 =? 117) then
                                  match unhex4 a2 b2 c2 d2 with
                                  | Some lo =>
                                      if (56320 <=? lo) && (lo <=? 57343)
                                      then option_map (cons (65536 + (hi - 55296) * 1024 + (lo - 56320))) (dec_body f rest3)
                                      else plain
                                  | None => None
                                  end
                                else plain
                            | _ => plain
                            end
                          else plain
                      end
                  | _ => None
                  end
                else match simple_escape e with
                     | Some c' => option_map (cons c') (dec_body f rest1)
                     | None => None
                     end
            end
          else if c =? 34 then None              (* an unescaped quote ends the literal early *)
          else if c <? 32 then None
          else option_map (cons c) (dec_body f rest)
      end
  end.

Definition json_decode (s : pstr) : option pstr :=
  match s with
  | 34 :: t => match rev t with
               | 34 :: body_rev => dec_body (List.length t) (rev body_rev)
               | _ => None
               end
  | _ => None
  end.

Definition is_surrogate (c : N) : bool := (55296 <=? c) && (c <=? 57343).
Definition valid_cp (c : N) : bool := (c <=? 1114111) && negb (is_surrogate c).
