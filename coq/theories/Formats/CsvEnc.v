(* csv.writer with the default dialect (QUOTE_MINIMAL, comma delimiter, double-quote quotechar with doubling, CRLF
   record terminator) for one record, and a reader for it; definitions only. *)
From Coq Require Import List NArith ZArith Bool.
From Bandit Require Import Base.PyStr.
Import ListNotations.
Local Open Scope N_scope.

Definition is_special (c : N) : bool := (c =? 44) || (c =? 34) || (c =? 13) || (c =? 10).
Definition needs_quote (s : pstr) : bool := existsb is_special s.
Definition dq_char (c : N) : pstr := if c =? 34 then [34; 34] else [c].
Definition csv_field (s : pstr) : pstr :=
  if needs_quote s then 34 :: flat_map dq_char s ++ [34] else s.
Fixpoint csv_fields (l : list pstr) : pstr :=
  match l with
  | [] => []
  | [f] => csv_field f
  | f :: t => csv_field f ++ 44 :: csv_fields t
  end.
Definition csv_row (l : list pstr) : pstr := csv_fields l ++ [13; 10].

Inductive pstate := SF | UQ | IQ | QQ.

(* reads one record; None = malformed *)
Fixpoint csv_parse (s : pstr) (st : pstate) (cur : pstr) (acc : list pstr) : option (list pstr) :=
  match s with
  | [] => match st with IQ => None | _ => Some (rev (rev cur :: acc)) end
  | c :: t =>
      match st with
      | SF => if c =? 34 then csv_parse t IQ cur acc
              else if c =? 44 then csv_parse t SF [] (rev cur :: acc)
              else if (c =? 13) || (c =? 10) then Some (rev (rev cur :: acc))
              else csv_parse t UQ (c :: cur) acc
      | UQ => if c =? 44 then csv_parse t SF [] (rev cur :: acc)
              else if (c =? 13) || (c =? 10) then Some (rev (rev cur :: acc))
              else csv_parse t UQ (c :: cur) acc
      | IQ => if c =? 34 then csv_parse t QQ cur acc else csv_parse t IQ (c :: cur) acc
      | QQ => if c =? 34 then csv_parse t IQ (34 :: cur) acc
              else if c =? 44 then csv_parse t SF [] (rev cur :: acc)
              else if (c =? 13) || (c =? 10) then Some (rev (rev cur :: acc))
              else None
      end
  end.

Definition csv_read (s : pstr) : option (list pstr) := csv_parse s SF [] [].
