(* sorted(collector, key=itemgetter(k)): a stable sort by a string key; definitions only. *)
From Coq Require Import List NArith ZArith Bool.
From Bandit Require Import Base.PyStr.
Import ListNotations.

Fixpoint str_leb (a b : pstr) : bool :=
  match a, b with
  | [], _ => true
  | _ :: _, [] => false
  | x :: a', y :: b' => if N.ltb x y then true else if N.ltb y x then false else str_leb a' b'
  end.

Section By.
  Variable A : Type.
  Variable key : A -> pstr.
  (* insert after the elements with a key <= the new one: equal keys keep their order (stability) *)
  Fixpoint insert_by (x : A) (l : list A) : list A :=
    match l with
    | [] => [x]
    | y :: t => if str_leb (key y) (key x) then y :: insert_by x t else x :: l
    end.
  Definition sort_by (l : list A) : list A := fold_left (fun acc x => insert_by x acc) l [].
End By.
