(* html.escape(quote=True), ElementTree's _escape_cdata/_escape_attrib, the XML formatter's _xml_safe, and
   decoders for the entities they produce; definitions only. *)
From Coq Require Import List NArith ZArith Bool String.
From Bandit Require Import Base.PyStr Formats.JsonEnc.
Import ListNotations.
Local Open Scope N_scope.

(* ---- html.escape(s, quote=True) ---- *)
Definition html_char (c : N) : pstr :=
  if c =? 38 then s2p "&amp;" else if c =? 60 then s2p "&lt;" else if c =? 62 then s2p "&gt;"
  else if c =? 34 then s2p "&quot;" else if c =? 39 then s2p "&#x27;" else [c].
Definition html_escape (s : pstr) : pstr := flat_map html_char s.

(* no character that can open markup or close an attribute value *)
Definition html_inert (c : N) : bool := negb ((c =? 60) || (c =? 62) || (c =? 34) || (c =? 39)).

(* decoder for exactly these entities; any other '&' is left as is *)
Definition entities_html : list (pstr * N) :=
  [(s2p "&amp;", 38); (s2p "&lt;", 60); (s2p "&gt;", 62); (s2p "&quot;", 34); (s2p "&#x27;", 39)].
Definition entities_cdata : list (pstr * N) := [(s2p "&amp;", 38); (s2p "&lt;", 60); (s2p "&gt;", 62)].
Definition entities_attrib : list (pstr * N) :=
  [(s2p "&amp;", 38); (s2p "&lt;", 60); (s2p "&gt;", 62); (s2p "&quot;", 34); (s2p "&#13;", 13); (s2p "&#10;", 10); (s2p "&#09;", 9)].

Fixpoint match_entity (ents : list (pstr * N)) (s : pstr) : option (N * nat) :=
  match ents with
  | [] => None
  | (e, c) :: t => if startswith s e then Some (c, List.length e) else match_entity t s
  end.

Fixpoint unescape (ents : list (pstr * N)) (fuel : nat) (s : pstr) : pstr :=
  match fuel with
  | O => []
  | S f => match s with
           | [] => []
           | c :: rest => match match_entity ents s with
                          | Some (d, n) => d :: unescape ents f (skipn n s)
                          | None => c :: unescape ents f rest
                          end
           end
  end.

(* ---- ElementTree ---- *)
Definition cdata_char (c : N) : pstr :=
  if c =? 38 then s2p "&amp;" else if c =? 60 then s2p "&lt;" else if c =? 62 then s2p "&gt;" else [c].
Definition escape_cdata (s : pstr) : pstr := flat_map cdata_char s.

Definition attrib_char (c : N) : pstr :=
  if c =? 38 then s2p "&amp;" else if c =? 60 then s2p "&lt;" else if c =? 62 then s2p "&gt;"
  else if c =? 34 then s2p "&quot;" else if c =? 13 then s2p "&#13;" else if c =? 10 then s2p "&#10;"
  else if c =? 9 then s2p "&#09;" else [c].
Definition escape_attrib (s : pstr) : pstr := flat_map attrib_char s.

(* XML 1.0 Char production *)
Definition xml_char (c : N) : bool :=
  (c =? 9) || (c =? 10) || (c =? 13) || ((32 <=? c) && (c <=? 55295)) || ((57344 <=? c) && (c <=? 65533))
  || ((65536 <=? c) && (c <=? 1114111)).

(* "%02x" *)
Fixpoint hex_digits (fuel : nat) (n : N) (acc : pstr) : pstr :=
  match fuel with
  | O => acc
  | S f => if n <? 16 then hexd n :: acc else hex_digits f (n / 16) (hexd (n mod 16) :: acc)
  end.
Definition hex02 (n : N) : pstr :=
  let d := hex_digits 8 n [] in match d with [x] => [48; x] | _ => d end.
Definition xml_safe_char (c : N) : pstr := if xml_char c then [c] else 92 :: 120 :: hex02 c.
Definition xml_safe (s : pstr) : pstr := flat_map xml_safe_char s.
