(* How source text becomes lines: io.StringIO(text, newline=None).readlines() (universal newlines: every
   terminator - LF, CRLF, lone CR - ends a line and is delivered as LF), and the transcodings of C19. *)
From Coq Require Import List NArith ZArith Bool.
From Bandit Require Import Base.PyStr.
Import ListNotations.
Local Open Scope N_scope.

Fixpoint ulines_aux (s : pstr) (cur : pstr) : list pstr :=
  match s with
  | [] => match cur with [] => [] | _ => [rev cur] end
  | c :: t =>
      if c =? 10 then rev (10 :: cur) :: ulines_aux t []
      else if c =? 13 then
        match t with
        | d :: t' => if d =? 10 then rev (10 :: cur) :: ulines_aux t' [] else rev (10 :: cur) :: ulines_aux t []
        | [] => [rev (10 :: cur)]
        end
      else ulines_aux t (c :: cur)
  end.
Definition ulines (s : pstr) : list pstr := ulines_aux s [].

(* the same program with Windows / classic-Mac line ends *)
Definition to_crlf (s : pstr) : pstr := flat_map (fun c => if c =? 10 then [13; 10] else [c]) s.
Definition to_cr (s : pstr) : pstr := map (fun c => if c =? 10 then 13 else c) s.

(* decoding with utf-8-sig drops one leading U+FEFF *)
Definition with_bom (s : pstr) : pstr := 65279 :: s.
Definition decode_sig (s : pstr) : pstr := match s with 65279 :: t => t | _ => s end.
