(* Python str values as lists of code points; definitions only. *)
From Coq Require Import List NArith ZArith Bool String Ascii.
Import ListNotations.
Local Open Scope N_scope.

Definition pstr := list N.

Definition s2p (s : string) : pstr :=
  map N_of_ascii (list_ascii_of_string s).

Fixpoint pstr_eqb (a b : pstr) : bool :=
  match a, b with
  | [], [] => true
  | x :: a', y :: b' => N.eqb x y && pstr_eqb a' b'
  | _, _ => false
  end.

Fixpoint startswith (s p : pstr) {struct p} : bool :=
  match p, s with
  | [], _ => true
  | y :: p', x :: s' => N.eqb x y && startswith s' p'
  | _ :: _, [] => false
  end.

Definition endswith (s p : pstr) : bool := startswith (rev s) (rev p).

(* [sub in s] *)
Fixpoint contains (s sub : pstr) : bool :=
  startswith s sub ||
  match s with
  | [] => false
  | _ :: s' => contains s' sub
  end.

Definition mem_pstr (x : pstr) (l : list pstr) : bool := existsb (pstr_eqb x) l.

(* str.split(c) on a single code point *)
Fixpoint split_on_aux (c : N) (s : pstr) (cur : pstr) : list pstr :=
  match s with
  | [] => [rev cur]
  | x :: s' => if N.eqb x c then rev cur :: split_on_aux c s' [] else split_on_aux c s' (x :: cur)
  end.
Definition split_on (c : N) (s : pstr) : list pstr := split_on_aux c s [].

Fixpoint join (sep : pstr) (l : list pstr) : pstr :=
  match l with
  | [] => []
  | [x] => x
  | x :: l' => x ++ sep ++ join sep l'
  end.

Definition dot : N := 46.
Definition last_component (s : pstr) : pstr := last (split_on dot s) [].

(* str.replace(old,new) for non-empty old; structural on s with skip counter *)
Fixpoint replace_aux (old new : pstr) (s : pstr) (skip : nat) : pstr :=
  match s with
  | [] => []
  | x :: s' =>
      match skip with
      | S k => replace_aux old new s' k
      | O => if startswith s old
             then new ++ replace_aux old new s' (Nat.pred (List.length old))
             else x :: replace_aux old new s' O
      end
  end.
Definition replace (s old new : pstr) : pstr :=
  match old with [] => s | _ => replace_aux old new s O end.

(* decimal rendering of numbers *)
Fixpoint digits_fuel (fuel : nat) (n : N) (acc : pstr) : pstr :=
  match fuel with
  | O => acc
  | S f => let d := 48 + (n mod 10) in
           if n <? 10 then d :: acc else digits_fuel f (n / 10) (d :: acc)
  end.
Definition str_of_N (n : N) : pstr := digits_fuel (S (N.to_nat (N.log2 n))) n [].
Definition str_of_Z (z : Z) : pstr :=
  match z with
  | Z0 => [48]
  | Zpos p => str_of_N (Npos p)
  | Zneg p => 45 :: str_of_N (Npos p)
  end.
Fixpoint oct_fuel (fuel : nat) (n : N) (acc : pstr) : pstr :=
  match fuel with
  | O => acc
  | S f => let d := 48 + (n mod 8) in
           if n <? 8 then d :: acc else oct_fuel f (n / 8) (d :: acc)
  end.
(* Python oct(): '0o17', '-0o17' *)
Definition oct_of_Z (z : Z) : pstr :=
  let body n := 48 :: 111 :: oct_fuel (S (N.to_nat (N.log2 n))) n [] in
  match z with
  | Z0 => body 0
  | Zpos p => body (Npos p)
  | Zneg p => 45 :: body (Npos p)
  end.

(* ASCII helpers *)
Definition is_ascii_ws (c : N) : bool :=
  (c =? 32) || ((9 <=? c) && (c <=? 13)).
Definition ascii_lower (c : N) : N := if (65 <=? c) && (c <=? 90) then c + 32 else c.
Definition is_digit (c : N) : bool := (48 <=? c) && (c <=? 57).

Fixpoint lstrip_ws (s : pstr) : pstr :=
  match s with
  | c :: s' => if is_ascii_ws c then lstrip_ws s' else s
  | [] => []
  end.
Definition strip_ws (s : pstr) : pstr := rev (lstrip_ws (rev (lstrip_ws s))).

(* association lists keyed by pstr *)
Fixpoint assoc {A} (k : pstr) (l : list (pstr * A)) : option A :=
  match l with
  | [] => None
  | (k', v) :: l' => if pstr_eqb k k' then Some v else assoc k l'
  end.
(* dict assignment d[k] = v : replace in place if present (keeps insertion order), else append *)
Fixpoint assoc_set {A} (k : pstr) (v : A) (l : list (pstr * A)) : list (pstr * A) :=
  match l with
  | [] => [(k, v)]
  | (k', v') :: l' => if pstr_eqb k k' then (k', v) :: l' else (k', v') :: assoc_set k v l'
  end.
Definition set_add (x : pstr) (l : list pstr) : list pstr :=
  if mem_pstr x l then l else l ++ [x].
