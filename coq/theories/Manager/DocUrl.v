(* bandit.core.docs_utils.get_url: the documentation link of a check or blacklist rule *)
From Coq Require Import List NArith ZArith Bool String.
From Bandit Require Import Base.PyStr.
Import ListNotations.
Local Open Scope list_scope.

Definition lower (s : pstr) : pstr := map ascii_lower s.

(* plugins: <base>plugins/<id lower>_<function name>.html *)
Definition doc_url_plugin (base id fname : pstr) : pstr :=
  base ++ s2p "plugins/" ++ lower id ++ [95%N] ++ fname ++ s2p ".html".

(* blacklist rules: <base>blacklists/blacklist_{calls|imports}.html#<id>-<name with dashes>, lower-cased; two groups of call
   rules share one anchor *)
Definition combined_b313 : list pstr :=
  [s2p "B313"; s2p "B314"; s2p "B315"; s2p "B316"; s2p "B317"; s2p "B318"; s2p "B319"; s2p "B320"].
Definition doc_url_blacklist (base id name : pstr) : pstr :=
  let dashed := replace name [95%N] [45%N] in
  if startswith id (s2p "B3") then
    let '(i, n) :=
      if mem_pstr id [s2p "B304"; s2p "B305"] then (s2p "b304-b305", s2p "ciphers-and-modes")
      else if mem_pstr id combined_b313 then (s2p "b313-b320", dashed)
      else (id, dashed) in
    base ++ lower (s2p "blacklists/blacklist_calls.html#" ++ i ++ [45%N] ++ n)
  else base ++ lower (s2p "blacklists/blacklist_imports.html#" ++ id ++ [45%N] ++ dashed).
