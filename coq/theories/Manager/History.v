(* Process-wide state behind BanditTestSet: the plugin functions are module-level objects shared by every
   manager; _load_tests / _load_builtins write '_config' onto them when a manager is constructed, and the
   tester reads it when a check is called.  Definitions only. *)
From Coq Require Import List NArith ZArith Bool String.
From Bandit Require Import Base.PyStr Engine.Types Engine.Tables.
Import ListNotations.

(* what a manager wants for one shared function object: Some value = it writes that value at construction,
   None = the function is not in its test set (nothing written) *)
Definition wish := list (pstr * jv).          (* function name -> value written *)

Record manager := Manager { m_id : nat; m_wish : wish; m_funcs : list pstr (* functions in its test set *) }.

Definition registry := list (pstr * jv).      (* function name -> current '_config' attribute *)

Fixpoint reg_set (k : pstr) (v : jv) (r : registry) : registry :=
  match r with
  | [] => [(k, v)]
  | (k', v') :: t => if pstr_eqb k k' then (k, v) :: t else (k', v') :: reg_set k v t
  end.

Definition construct (m : manager) (r : registry) : registry :=
  fold_left (fun acc kv => reg_set (fst kv) (snd kv) acc) (m_wish m) r.

Inductive op := New (m : manager) | Run (m : manager).

(* the configuration each of m's functions sees when m runs: whatever is in the registry now *)
Definition effective (m : manager) (r : registry) : list (pstr * option jv) :=
  map (fun f => (f, assoc f r)) (m_funcs m).

Fixpoint play (ops : list op) (r : registry) : list (nat * list (pstr * option jv)) :=
  match ops with
  | [] => []
  | New m :: t => play t (construct m r)
  | Run m :: t => (m_id m, effective m r) :: play t r
  end.

(* what m would see right after its own construction on any registry *)
Definition own (m : manager) : list (pstr * option jv) :=
  map (fun f => (f, assoc f (m_wish m))) (m_funcs m).

Definition wf_manager (m : manager) : Prop :=
  (forall f, In f (m_funcs m) -> exists v, assoc f (m_wish m) = Some v) /\ NoDup (map fst (m_wish m)).

(* a later manager is compatible with m when it writes the same value to every function m uses *)
Definition compatible (m m' : manager) : Prop :=
  forall f v', In f (m_funcs m) -> assoc f (m_wish m') = Some v' -> assoc f (m_wish m) = Some v'.
