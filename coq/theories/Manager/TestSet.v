(* bandit.core.test_set.BanditTestSet._get_filter; definitions only. *)
From Coq Require Import List NArith ZArith Bool String.
From Bandit Require Import Base.PyStr Engine.Types Engine.Tables.
Import ListNotations.

Definition B001 : pstr := s2p "B001".

Definition remove_id (x : pstr) (l : list pstr) : list pstr := filter (fun y => negb (pstr_eqb y x)) l.

(* the backwards-compatibility block: B001 stands for every blacklist id unless specific ones are listed *)
Definition expand (bl_ids s : list pstr) : list pstr :=
  if mem_pstr B001 s then
    remove_id B001 (if existsb (fun x => mem_pstr x bl_ids) s then s else s ++ bl_ids)
  else s.

Definition get_filter (plugin_ids builtin bl_ids inc exc : list pstr) : list pstr :=
  let inc' := expand bl_ids inc in
  let exc' := expand bl_ids exc in
  let filtered := match inc' with [] => plugin_ids ++ builtin ++ bl_ids | _ => inc' end in
  filter (fun x => negb (mem_pstr x exc')) filtered.

(* extension manager: validate_profile rejects a non-empty include/exclude intersection *)
Definition conflicting (inc exc : list pstr) : list pstr := filter (fun x => mem_pstr x exc) inc.
