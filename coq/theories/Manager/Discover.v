(* BanditManager.discover_files, _get_files_from_dir, _is_file_included, _matches_glob_list; definitions only.
   The file system enters through oracles: which strings are directories, and what os.walk lists. *)
From Coq Require Import List NArith ZArith Bool String.
From Bandit Require Import Base.PyStr Engine.Types Plugins.Misc.
Import ListNotations.

Definition matches_glob_list (path : pstr) (globs : list pstr) : bool :=
  existsb (fun g => fnmatch_b path g) globs.

Definition is_file_included (path : pstr) (inc exc : list pstr) (enforce : bool) : bool :=
  (matches_glob_list path inc || negb enforce)
  && negb (matches_glob_list path exc) && negb (existsb (fun x => contains path x) exc).

(* os.path.join(a, b) for a relative b *)
Definition slash : N := 47%N.
Definition path_join (a b : pstr) : pstr :=
  match b with
  | 47%N :: _ => b                       (* an absolute second component wins *)
  | _ => match a with
         | [] => b
         | _ => if endswith a [slash] then a ++ b else a ++ [slash] ++ b
         end
  end.

(* os.walk(dir) = list of (root, file names) *)
Definition walk_listing := list (pstr * list pstr).

Definition files_from_dir (w : walk_listing) (inc exc : list pstr) : list pstr * list pstr :=
  let paths := flat_map (fun rf => map (path_join (fst rf)) (snd rf)) w in
  (filter (fun p => is_file_included p inc exc true) paths,
   filter (fun p => negb (is_file_included p inc exc true)) paths).

Record fs_oracle := FS { fs_isdir : pstr -> bool; fs_walk : pstr -> walk_listing }.

Definition comma : N := 44%N.
Definition exclude_globs (fs : fs_oracle) (cfg_exclude : list pstr) (excluded_paths : pstr) : list pstr :=
  cfg_exclude ++
  match excluded_paths with
  | [] => []
  | _ => map (fun p => if fs_isdir fs p then path_join p [42%N] else p) (split_on comma excluded_paths)
  end.

Definition dash : pstr := [45%N].

(* returns (files_list, excluded_files) before sorting/deduplication (both are sets in the code) *)
Definition discover (fs : fs_oracle) (inc cfg_exclude : list pstr) (targets : list pstr) (recursive : bool)
           (excluded_paths : pstr) : list pstr * list pstr :=
  let exc := exclude_globs fs cfg_exclude excluded_paths in
  fold_left (fun acc t =>
               if fs_isdir fs t then
                 if recursive then
                   let '(a, b) := files_from_dir (fs_walk fs t) inc exc in (fst acc ++ a, snd acc ++ b)
                 else acc
               else if is_file_included t inc exc false
                    then (fst acc ++ [if pstr_eqb t dash then t else path_join [46%N] t], snd acc)
                    else (fst acc, snd acc ++ [t]))
            targets ([], []).
