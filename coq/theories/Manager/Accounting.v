(* BanditManager.run_tests / _parse_file as a state machine over per-file outcome oracles; the
   exception handling is interpreted from the handler ladders regenerated from the source. *)
From Coq Require Import List NArith ZArith Bool String.
From Bandit Require Import Base.PyStr Engine.Types Engine.Facts.
Import ListNotations.

Record ladders := Ladders {
  l_run : list handler;       (* try around open()/_parse_file in run_tests *)
  l_parse : list handler;     (* outer try of _parse_file *)
  l_tok : list handler        (* inner try around the tokenizer loop *)
}.

Inductive fstage := AtOpen | AtRead | AtTokenize | AtProcess.

(* what happens to one file *)
Inductive fres :=
| Scanned (rs : list finding)
| Skipped (reason : pstr)
| Exits (code : Z)
| Escapes (cls : pstr).

Section Machine.
  Variable supers : list (pstr * list pstr).
  Variable L : ladders.

  Definition by_handlers (hs : list handler) (cls : pstr) (k : fres) : fres :=
    match catching supers hs cls with
    | Some (ASkip r) => Skipped r
    | Some (AExit n) => Exits n
    | Some _ => Escapes cls          (* re-raise / raise-another / unknown: not absorbed *)
    | None => k
    end.

  Definition parse_level (cls : pstr) : fres :=
    by_handlers (l_parse L) cls (by_handlers (l_run L) cls (Escapes cls)).

  (* [fault] = the exception class raised at a stage, if any; [rs] = the file's own findings *)
  Definition one_file (fault : option (fstage * pstr)) (rs : list finding) : fres :=
    match fault with
    | None => Scanned rs
    | Some (AtOpen, cls) => by_handlers (l_run L) cls (Escapes cls)
    | Some (AtTokenize, cls) =>
        match catching supers (l_tok L) cls with
        | Some APass => Scanned rs          (* the comment map stays incomplete, the scan goes on *)
        | _ => parse_level cls
        end
    | Some (_, cls) => parse_level cls
    end.

  Record mstate := MState {
    ms_files : list pstr;                  (* files_list after the run: scanned files, in order *)
    ms_skipped : list (pstr * pstr);       (* (file, reason) *)
    ms_results : list finding
  }.

  Inductive run_result := Completed (st : mstate) | Aborted (code : option Z) (cls : pstr) (st : mstate).

  Definition file_input := (pstr * option (fstage * pstr) * list finding)%type.

  Fixpoint run_files (files : list file_input) (st : mstate) : run_result :=
    match files with
    | [] => Completed st
    | (name, fault, rs) :: t =>
        match one_file fault rs with
        | Scanned rs' => run_files t (MState (ms_files st ++ [name]) (ms_skipped st) (ms_results st ++ rs'))
        | Skipped r => run_files t (MState (ms_files st) (ms_skipped st ++ [(name, r)]) (ms_results st))
        | Exits n => Aborted (Some n) [] st
        | Escapes cls => Aborted None cls st
        end
    end.

  Definition ms_init : mstate := MState [] [] [].
End Machine.

(* which faults the property quantifies over: I/O failures when opening, any Exception afterwards *)
Definition fault_ok (supers : list (pstr * list pstr)) (f : fstage * pstr) : bool :=
  mem_pstr (snd f) (map fst supers) &&
  match fst f with
  | AtOpen => is_subclass supers (snd f) (s2p "OSError")
  | _ => is_subclass supers (snd f) (s2p "Exception")
  end.

Definition absorbed (r : fres) : bool :=
  match r with
  | Scanned _ => true
  | Skipped reason => negb (match reason with [] => true | _ => false end)
  | _ => false
  end.

(* decidable over the finite exception matrix: every admissible fault is absorbed by the ladders *)
Definition absorbs_all (supers : list (pstr * list pstr)) (L : ladders) : bool :=
  forallb (fun cls =>
     forallb (fun st => negb (fault_ok supers (st, cls)) || absorbed (one_file supers L (Some (st, cls)) []))
             [AtOpen; AtRead; AtTokenize; AtProcess]) (map fst supers).
