(* bandit.core.manager._parse_nosec_comment; definitions only.
   The pattern is  '#' \s* 'nosec' ':'? \s* (?P<tests>[^#]+)? '#'?   (skeleton and character classes are
   regenerated; Inst/C02_inst.v checks that the skeleton is this one). *)
From Coq Require Import List NArith ZArith Bool String.
From Bandit Require Import Base.PyStr Engine.Types Engine.Tables Regex.Regex Manager.Registry.
Import ListNotations.

Section Parse.
  Variables (ws tok : cset).

  Fixpoint skip_ws (s : pstr) : pstr :=
    match s with
    | c :: t => if in_cset c ws then skip_ws t else s
    | [] => []
    end.

  Definition nosec_word : pstr := s2p "nosec".

  (* text after the leftmost  '#' \s* 'nosec' *)
  Fixpoint after_nosec (s : pstr) : option pstr :=
    match s with
    | [] => None
    | c :: t =>
        if N.eqb c 35 then
          let r := skip_ws t in
          if startswith r nosec_word then Some (skipn 5 r) else after_nosec t
        else after_nosec t
    end.

  Fixpoint take_non_hash (s : pstr) : pstr :=
    match s with
    | c :: t => if N.eqb c 35 then [] else c :: take_non_hash t
    | [] => []
    end.

  (* the 'tests' group: None when nothing but whitespace (or a '#') follows *)
  Definition tests_group (rest : pstr) : option pstr :=
    let r1 := match rest with 58%N :: t => t | _ => rest end in
    match take_non_hash (skip_ws r1) with
    | [] => None
    | g => Some g
    end.

  (* finditer of ([class]+): maximal runs *)
  Fixpoint tokens_aux (s : pstr) (cur : pstr) : list pstr :=
    match s with
    | [] => match cur with [] => [] | _ => [rev cur] end
    | c :: t => if in_cset c tok then tokens_aux t (c :: cur)
                else match cur with [] => tokens_aux t [] | _ => rev cur :: tokens_aux t [] end
    end.
  Definition tokens (s : pstr) : list pstr := tokens_aux s [].

  Variables (reg : list reg_row) (tab : bl_table) (builtin : list pstr).

  Definition resolve_tokens (toks : list pstr) : list pstr :=
    fold_left (fun acc t => match find_test_id reg tab builtin t with
                            | Some i => set_add i acc
                            | None => acc end) toks [].

  (* None = no nosec comment; Some [] = blanket; Some ids = test-specific *)
  Definition parse_nosec (comment : pstr) : option (list pstr) :=
    match after_nosec comment with
    | None => None
    | Some rest => match tests_group rest with
                   | None => Some []
                   | Some g => Some (resolve_tokens (tokens g))
                   end
    end.

  (* nosec_lines: one entry per COMMENT token (line, text); ordinary comments leave no entry *)
  Definition build_map (comments : list (Z * pstr)) : list (Z * list pstr) :=
    flat_map (fun lc => match parse_nosec (snd lc) with Some ids => [(fst lc, ids)] | None => [] end) comments.
End Parse.
