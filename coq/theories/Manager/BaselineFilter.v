(* Issue.__eq__, manager._compare_baseline_results, _find_candidate_matches, filter_results with a baseline;
   definitions only.  An issue here is (file name, finding). *)
From Coq Require Import List NArith ZArith Bool String Arith.
From Bandit Require Import Base.PyStr Engine.Types Engine.Tester Cli.Thresholds.
Import ListNotations.

Definition bissue := (pstr * finding)%type.

(* Issue.__eq__ over the regenerated match_types: text, severity, cwe, confidence, fname, test, test_id *)
Definition field_eqb (fld : pstr) (a b : bissue) : bool :=
  let fa := snd a in let fb := snd b in
  if pstr_eqb fld (s2p "text") then pstr_eqb (f_text fa) (f_text fb)
  else if pstr_eqb fld (s2p "severity") then rank_eqb (f_sev fa) (f_sev fb)
  else if pstr_eqb fld (s2p "cwe") then Z.eqb (f_cwe fa) (f_cwe fb)
  else if pstr_eqb fld (s2p "confidence") then rank_eqb (f_conf fa) (f_conf fb)
  else if pstr_eqb fld (s2p "fname") then pstr_eqb (fst a) (fst b)
  else if pstr_eqb fld (s2p "test") then pstr_eqb (f_test fa) (f_test fb)
  else if pstr_eqb fld (s2p "test_id") then pstr_eqb (f_test_id fa) (f_test_id fb)
  else if pstr_eqb fld (s2p "lineno") then Z.eqb (f_lineno fa) (f_lineno fb)
  else if pstr_eqb fld (s2p "linerange") then (fix leq (x y : list Z) := match x, y with [], [] => true | u :: x', v :: y' => Z.eqb u v && leq x' y' | _, _ => false end) (f_linerange fa) (f_linerange fb)
  else if pstr_eqb fld (s2p "col_offset") then Z.eqb (f_col fa) (f_col fb)
  else false.       (* a field the model does not know: never equal (fail closed) *)

Definition issue_eqb_on (match_types : list pstr) (a b : bissue) : bool :=
  forallb (fun fld => field_eqb fld a b) match_types.

Definition std_match_types : list pstr :=
  map s2p ["text"; "severity"; "cwe"; "confidence"; "fname"; "test"; "test_id"]%string.
(* the same, written out (Inst/C07_inst.v shows it is issue_eqb_on over the regenerated match_types) *)
Definition issue_eqb (a b : bissue) : bool :=
  pstr_eqb (f_text (snd a)) (f_text (snd b)) && (rank_eqb (f_sev (snd a)) (f_sev (snd b))
  && (Z.eqb (f_cwe (snd a)) (f_cwe (snd b)) && (rank_eqb (f_conf (snd a)) (f_conf (snd b))
  && (pstr_eqb (fst a) (fst b) && (pstr_eqb (f_test (snd a)) (f_test (snd b))
  && (pstr_eqb (f_test_id (snd a)) (f_test_id (snd b)) && true)))))).

Section Baseline.
  Variable eqb : bissue -> bissue -> bool.

  (* list.remove(a): drop the first element equal to a; None if there is none ('a in remaining' is false) *)
  Fixpoint remove_first (a : bissue) (l : list bissue) : option (list bissue) :=
    match l with
    | [] => None
    | b :: t => if eqb a b then Some t
                else match remove_first a t with Some t' => Some (b :: t') | None => None end
    end.

  Fixpoint compare_baseline (baseline results : list bissue) : list bissue :=
    match results with
    | [] => []
    | a :: t => match remove_first a baseline with
                | Some rem => compare_baseline rem t
                | None => a :: compare_baseline baseline t
                end
    end.

  Definition find_candidates (unmatched results : list bissue) : list (bissue * list bissue) :=
    map (fun u => (u, filter (fun i => eqb u i) results)) unmatched.

  Inductive report := Plain (l : list bissue) | WithCandidates (l : list (bissue * list bissue)).

  Definition filter_results_b (thr : bissue -> bool) (baseline results : list bissue) : report :=
    let rs := filter thr results in
    match baseline with
    | [] => Plain rs
    | _ => WithCandidates (find_candidates (compare_baseline baseline rs) rs)
    end.

  Definition report_count (r : report) : nat :=
    match r with Plain l => List.length l | WithCandidates l => List.length l end.
End Baseline.
