(* bandit.core.extension_loader.Manager lookups; definitions only. *)
From Coq Require Import List NArith ZArith Bool String.
From Bandit Require Import Base.PyStr Engine.Types Engine.Tables.
Import ListNotations.

(* the (id, name) rows the manager knows: plugins, then blacklist rules (all node types) *)
Definition plugin_rows (reg : list reg_row) : list (pstr * pstr) := map (fun r => (r_id r, r_name r)) reg.
Definition blacklist_rows (tab : bl_table) : list (pstr * pstr) :=
  flat_map (fun kv => map (fun b => (bl_id b, bl_name b)) (snd kv)) tab.

(* dict comprehensions: a later row with the same key overwrites an earlier one *)
Fixpoint last_by_name (name : pstr) (rows : list (pstr * pstr)) : option pstr :=
  match rows with
  | [] => None
  | (i, n) :: t => match last_by_name name t with
                   | Some x => Some x
                   | None => if pstr_eqb n name then Some i else None
                   end
  end.
Definition has_id (id : pstr) (rows : list (pstr * pstr)) : bool := existsb (fun r => pstr_eqb (fst r) id) rows.

Definition get_test_id (reg : list reg_row) (tab : bl_table) (name : pstr) : option pstr :=
  match last_by_name name (plugin_rows reg) with
  | Some i => Some i
  | None => last_by_name name (blacklist_rows tab)
  end.

Definition check_id (reg : list reg_row) (tab : bl_table) (builtin : list pstr) (id : pstr) : bool :=
  has_id id (plugin_rows reg) || has_id id (blacklist_rows tab) || mem_pstr id builtin.

(* manager._find_test_id_from_nosec_string: how nosec comments (and, through convert_names_to_ids,
   profiles) turn a token into a test id *)
Definition find_test_id (reg : list reg_row) (tab : bl_table) (builtin : list pstr) (tok : pstr) : option pstr :=
  if check_id reg tab builtin tok then Some tok else get_test_id reg tab tok.

(* well-formed id: 'B' followed by exactly three decimal digits *)
Definition wf_id (i : pstr) : bool :=
  match i with
  | [66%N; a; b; c] => is_digit a && is_digit b && is_digit c
  | _ => false
  end.

Fixpoint nodupb (l : list pstr) : bool :=
  match l with
  | [] => true
  | x :: t => negb (mem_pstr x t) && nodupb t
  end.

(* distinct (id, name) rows of the blacklist across the node types *)
Fixpoint dedup_rows (rows : list (pstr * pstr)) : list (pstr * pstr) :=
  match rows with
  | [] => []
  | r :: t => if existsb (fun r' => pstr_eqb (fst r) (fst r') && pstr_eqb (snd r) (snd r')) t
              then dedup_rows t else r :: dedup_rows t
  end.
