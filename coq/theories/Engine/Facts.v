(* Control-flow facts extracted from the source by tools/translate/gen_facts.py *)
From Coq Require Import List NArith ZArith Bool String.
From Bandit Require Import Base.PyStr.
Import ListNotations.

Inductive action :=
| AExit (code : Z) | ASkip (reason : pstr) | APass | AReraise | ARaise (cls : pstr) | ALog | ALogReraiseIfDebug
| AAssign | AUnknown.
Record handler := Handler { h_types : list pstr; h_action : action }.
Record tryfact := TryFact {
  t_calls : list pstr; t_handlers : list handler; t_finally : bool; t_finally_calls : list pstr;
  t_yield_inside : bool }.
Record funcfact := FuncFact { ff_tries : list tryfact; ff_calls : list pstr; ff_unprotected_yields : nat }.

Definition action_eqb (a b : action) : bool :=
  match a, b with
  | AExit x, AExit y => Z.eqb x y
  | ASkip x, ASkip y => pstr_eqb x y
  | APass, APass | AReraise, AReraise | ALog, ALog
  | ALogReraiseIfDebug, ALogReraiseIfDebug | AAssign, AAssign | AUnknown, AUnknown => true
  | ARaise x, ARaise y => pstr_eqb x y
  | _, _ => false
  end.

(* issubclass over the regenerated matrix *)
Definition is_subclass (supers : list (pstr * list pstr)) (c base : pstr) : bool :=
  match assoc c supers with Some l => mem_pstr base l | None => false end.

(* which handler of a try statement catches exception class c (first match, as Python does) *)
Definition catching (supers : list (pstr * list pstr)) (hs : list handler) (c : pstr) : option action :=
  option_map h_action (find (fun h => existsb (fun t => is_subclass supers c t
                                                       || is_subclass supers c (last_component t)) (h_types h)) hs).
Definition func_fact (l : list (pstr * funcfact)) (k : pstr) : funcfact :=
  match assoc k l with Some f => f | None => FuncFact [] [] 0 end.
