From Coq Require Import List NArith ZArith Bool String.
From Bandit Require Import Base.PyStr Engine.Types.
Record bl_rule := BlRule {
  bl_name : pstr; bl_id : pstr; bl_cwe : Z; bl_qualnames : list pstr; bl_message : pstr; bl_level : rank
}.
Definition bl_table := list (string * list bl_rule).
Fixpoint bl_lookup (k : string) (t : bl_table) : option (list bl_rule) :=
  match t with
  | nil => None
  | (k', v) :: t' => if String.eqb k k' then Some v else bl_lookup k t'
  end.

Record reg_row := RegRow {
  r_id : pstr; r_name : pstr; r_func : pstr; r_module : pstr; r_checks : list string; r_cfg : option pstr
}.
