(* bandit.core.issue.Issue.get_code: the numbered source excerpt shown with a finding.
   The file is its list of lines as linecache.getline returns them (each with its terminator, so
   never empty inside the file; '' outside). *)
From Coq Require Import List NArith ZArith Bool String.
From Bandit Require Import Base.PyStr.
Import ListNotations.
Local Open Scope list_scope.
Local Open Scope Z_scope.

Definition window (lineno len max_lines : Z) : Z * Z :=
  let n := Z.max max_lines 1 in
  let lmin := Z.max 1 (lineno - n / 2) in
  (lmin, lmin + len + n - 1).

Definition getline (lines : list pstr) (k : Z) : pstr :=
  if k <? 1 then [] else nth (Z.to_nat (k - 1)) lines [].

(* for line in range(lmin, lmax): text = getline(line); if not len(text): break; append *)
Fixpoint take_lines (lines : list pstr) (k : Z) (count : nat) : list (Z * pstr) :=
  match count with
  | O => []
  | S c => match getline lines k with
           | [] => []
           | t => (k, t) :: take_lines lines (k + 1) c
           end
  end.

Definition excerpt (lines : list pstr) (lineno len max_lines : Z) : list (Z * pstr) :=
  let '(lmin, lmax) := window lineno len max_lines in
  take_lines lines lmin (Z.to_nat (lmax - lmin)).

(* "%i %s" / "%i\t%s" *)
Definition render (tabbed : bool) (e : list (Z * pstr)) : pstr :=
  flat_map (fun kt => str_of_Z (fst kt) ++ [if tabbed then 9%N else 32%N] ++ snd kt) e.

Definition get_code (lines : list pstr) (lineno len max_lines : Z) (tabbed : bool) : pstr :=
  render tabbed (excerpt lines lineno len max_lines).
