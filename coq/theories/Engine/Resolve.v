(* bandit.core.utils name resolution *)
From Coq Require Import List NArith ZArith Bool String.
From Bandit Require Import Base.PyStr Ast.Node Engine.Types.
Import ListNotations.
Local Open Scope string_scope.
Local Open Scope list_scope.

Definition name_id (n : node) : pstr :=
  match field "id" n with NId s => s | _ => [] end.
Definition attr_of (n : node) : pstr :=
  match field "attr" n with NId s => s | _ => [] end.

Definition alias_or (aliases : list (pstr * pstr)) (k : pstr) : pstr :=
  match assoc k aliases with Some v => v | None => k end.

(* _get_attr_qual_name: structural on the Attribute chain *)
Fixpoint attr_qual_name (n : node) (aliases : list (pstr * pstr)) : pstr :=
  match n with
  | Node c _ fs =>
      if String.eqb c "Name" then alias_or aliases (name_id n)
      else if String.eqb c "Attribute" then
        let base := (fix find (l : list (string * node)) : pstr :=
                       match l with
                       | [] => []
                       | (k, v) :: t => if String.eqb "value" k then attr_qual_name v aliases else find t
                       end) fs in
        alias_or aliases (base ++ [dot] ++ attr_of n)
      else []
  | _ => []
  end.

Definition get_call_name (call : node) (aliases : list (pstr * pstr)) : pstr :=
  let f := field "func" call in
  if is_cls "Name" f then alias_or aliases (name_id f)
  else if is_cls "Attribute" f then attr_qual_name f aliases
  else [].

Definition get_qual_attr (n : node) (aliases : list (pstr * pstr)) : pstr :=
  if is_cls "Attribute" n then
    let v := field "value" n in
    let prefix := if is_cls "Name" v then alias_or aliases (name_id v) else [] in
    prefix ++ [dot] ++ attr_of n
  else [].

(* utils.get_called_name *)
Definition get_called_name (call : node) : pstr :=
  let f := field "func" call in
  if is_cls "Attribute" f then attr_of f
  else if is_cls "Name" f then name_id f else [].
