(* bandit.core.context.Context accessors over the generic node *)
From Coq Require Import List NArith ZArith Bool String.
From Bandit Require Import Base.PyStr Ast.Node Engine.Types Engine.Resolve.
Import ListNotations.
Local Open Scope string_scope.
Local Open Scope list_scope.

Fixpoint hashable (v : pyval) : bool :=
  match v with
  | PList _ | PSet _ | PDict _ => false
  | PTuple l => forallb hashable l
  | _ => true
  end.

Definition const_value (k : const) : pyval :=
  match k with
  | CInt z => PInt z
  | CFloat r t => PFloat r t
  | CComplex r t => PComplex r t
  | CStr s => PStr s
  | CBytes b => PBytes b
  | CNone => PStr (s2p "None")
  | CBool true => PStr (s2p "True")
  | CBool false => PStr (s2p "False")
  | CEllipsis => PNone
  end.

(* Python == restricted to the value shapes bandit compares (same-kind structural equality;
   int/float cross-kind equality is not needed: every caller compares against str/int literals) *)
Fixpoint pyval_eqb (a b : pyval) : bool :=
  match a, b with
  | PNone, PNone => true
  | PInt x, PInt y => Z.eqb x y
  | PFloat x _, PFloat y _ => pstr_eqb x y
  | PComplex x _, PComplex y _ => pstr_eqb x y
  | PStr x, PStr y => pstr_eqb x y
  | PBytes x, PBytes y => pstr_eqb x y
  | PList x, PList y | PTuple x, PTuple y =>
      (fix go (l1 l2 : list pyval) : bool :=
         match l1, l2 with
         | [], [] => true
         | u :: l1', v :: l2' => pyval_eqb u v && go l1' l2'
         | _, _ => false
         end) x y
  | _, _ => false
  end.

Definition set_add_val (v : pyval) (l : list pyval) : list pyval :=
  if existsb (pyval_eqb v) l then l else l ++ [v].

(* Context._get_literal_value *)
Fixpoint literal_value (n : node) : res pyval :=
  match n with
  | Node c _ fs =>
      let elts :=
        (fix find (l : list (string * node)) : res (list pyval) :=
           match l with
           | [] => Ok []
           | (k, v) :: t =>
               if String.eqb "elts" k then
                 match v with
                 | NList its =>
                     (fix go (is : list node) : res (list pyval) :=
                        match is with
                        | [] => Ok []
                        | i :: is' => do x <- literal_value i;; do xs <- go is';; Ok (x :: xs)
                        end) its
                 | _ => Ok []
                 end
               else find t
           end) fs in
      if String.eqb c "Constant" then
        match lookup_field "value" fs with
        | Some (NConst k) => Ok (const_value k)
        | _ => Ok PNone
        end
      else if String.eqb c "List" then do l <- elts;; Ok (PList l)
      else if String.eqb c "Tuple" then do l <- elts;; Ok (PTuple l)
      else if String.eqb c "Set" then
        do l <- elts;;
        (fix addall (l : list pyval) (acc : list pyval) : res pyval :=
           match l with
           | [] => Ok (PSet acc)
           | v :: l' => if hashable v then addall l' (set_add_val v acc) else addall l' acc   (* unhashable: skipped *)
           end) l []
      else if String.eqb c "Dict" then
        Ok (PDict (combine (items (match lookup_field "keys" fs with Some k => k | None => NNone end))
                           (items (match lookup_field "values" fs with Some k => k | None => NNone end))))
      else if String.eqb c "Name" then
        Ok (PStr (match lookup_field "id" fs with Some (NId s) => s | _ => [] end))
      else Ok PNone
  | _ => Ok PNone
  end.

Definition arg_value (a : node) : res pyval :=
  if is_cls "Attribute" a then Ok (PStr (attr_of a)) else literal_value a.

Definition call_args (c : ctx) : res (list pyval) :=
  match c_call c with
  | Some call => mapM arg_value (field_list "args" call)
  | None => Ok []
  end.

Definition call_args_count (c : ctx) : option nat :=
  match c_call c with
  | Some call => Some (List.length (field_list "args" call))
  | None => None
  end.

Definition kw_arg (k : node) : option pstr := id_of (field "arg" k).

(* call_keywords: None when the context has no call; entries in source order, later duplicates win *)
Definition call_keywords (c : ctx) : res (option (list (option pstr * pyval))) :=
  match c_call c with
  | Some call =>
      do l <- mapM (fun k => do v <- arg_value (field "value" k);; Ok (kw_arg k, v))
                   (field_list "keywords" call);;
      Ok (Some l)
  | None => Ok None
  end.

Definition okey_eqb (a b : option pstr) : bool :=
  match a, b with
  | Some x, Some y => pstr_eqb x y
  | None, None => true
  | _, _ => false
  end.
Fixpoint kw_lookup (k : pstr) (l : list (option pstr * pyval)) : option pyval :=
  match l with
  | [] => None
  | (k', v) :: t => match kw_lookup k t with
                    | Some v' => Some v'
                    | None => if okey_eqb (Some k) k' then Some v else None
                    end
  end.
Definition kw_mem (k : pstr) (l : list (option pstr * pyval)) : bool :=
  match kw_lookup k l with Some _ => true | None => false end.

(* get_call_arg_value: Python None both for "absent" and for a non-literal value *)
Definition get_call_arg_value (c : ctx) (name : pstr) : res pyval :=
  do kws <- call_keywords c;;
  match kws with
  | Some l => match kw_lookup name l with Some v => Ok v | None => Ok PNone end
  | None => Ok PNone
  end.

(* check_call_arg_value: Some true / Some false / None (argument absent or not literal) *)
Definition check_call_arg_value (c : ctx) (name : pstr) (vals : list pyval) : res (option bool) :=
  do v <- get_call_arg_value c name;;
  match v with
  | PNone => Ok None
  | _ => Ok (Some (existsb (pyval_eqb v) vals))
  end.

Definition get_lineno_for_call_arg (c : ctx) (name : pstr) : option Z :=
  match find (fun k => okey_eqb (kw_arg k) (Some name)) (field_list "keywords" (c_node c)) with
  | Some k => lineno_of (field "value" k)
  | None => None
  end.

Definition truthy_str (s : pstr) : bool := match s with [] => false | _ => true end.

Definition get_call_arg_at_position (c : ctx) (i : nat) : res pyval :=
  match c_call c with
  | Some call =>
      let args := field_list "args" call in
      if Nat.ltb i (List.length args) then
        let a := nth i args NNone in
        if is_cls "Attribute" a && truthy_str (attr_of a) then Ok (PStr (attr_of a))
        else literal_value a
      else Ok PNone
  | None => Ok PNone
  end.

Definition function_def_defaults_qual (c : ctx) : list pstr :=
  let a := field "args" (c_node c) in
  map (fun d => get_qual_attr d (c_aliases c)) (field_list "defaults" a).

Definition is_module_being_imported (c : ctx) (m : pstr) : bool :=
  match c_module c with Some x => pstr_eqb x m | None => false end.
Definition is_module_imported_exact (c : ctx) (m : pstr) : bool := mem_pstr m (c_imports c).
Definition is_module_imported_like (c : ctx) (m : pstr) : bool :=
  existsb (fun imp => contains imp m) (c_imports c).

Definition qualname (c : ctx) : pstr := match c_qualname c with Some q => q | None => [] end.
