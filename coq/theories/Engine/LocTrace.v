(* Executable helpers for the location checks: structural equality of trees, and the line range the
   visitor computes for every node, in visiting order. *)
From Coq Require Import List NArith ZArith Bool String.
From Bandit Require Import Base.PyStr Ast.Node Engine.Linerange.
Import ListNotations.
Local Open Scope string_scope.
Local Open Scope list_scope.

Definition const_eqb (a b : const) : bool :=
  match a, b with
  | CNone, CNone | CEllipsis, CEllipsis => true
  | CBool x, CBool y => Bool.eqb x y
  | CInt x, CInt y => Z.eqb x y
  | CFloat r t, CFloat r' t' | CComplex r t, CComplex r' t' => pstr_eqb r r' && Bool.eqb t t'
  | CStr x, CStr y => pstr_eqb x y
  | CBytes x, CBytes y => pstr_eqb x y
  | _, _ => false
  end.

Definition pos_eqb (a b : option pos4) : bool :=
  match a, b with
  | Some p, Some q => Z.eqb (p_line p) (p_line q) && Z.eqb (p_col p) (p_col q)
                      && Z.eqb (p_eline p) (p_eline q) && Z.eqb (p_ecol p) (p_ecol q)
  | None, None => true
  | _, _ => false
  end.

Fixpoint node_eqb (a b : node) : bool :=
  match a, b with
  | Node c p fs, Node c' p' fs' =>
      String.eqb c c' && pos_eqb p p'
      && (fix go (l l' : list (string * node)) : bool :=
            match l, l' with
            | [], [] => true
            | (k, v) :: t, (k', v') :: t' => String.eqb k k' && node_eqb v v' && go t t'
            | _, _ => false
            end) fs fs'
  | NList l, NList l' =>
      (fix go (l l' : list node) : bool :=
         match l, l' with
         | [], [] => true
         | x :: t, y :: t' => node_eqb x y && go t t'
         | _, _ => false
         end) l l'
  | NConst x, NConst y => const_eqb x y
  | NId x, NId y => pstr_eqb x y
  | NInt x, NInt y => Z.eqb x y
  | NNone, NNone => true
  | _, _ => false
  end.

(* b_utils.linerange(node) for every node generic_visit reaches, in that order *)
Fixpoint visit_ranges (n : node) : list (list Z) :=
  match n with
  | Node _ _ fs =>
      (fix go (l : list (string * node)) : list (list Z) :=
         match l with
         | [] => []
         | (_, v) :: t =>
             match v with
             | Node _ _ _ => linerange v NNone :: visit_ranges v
             | NList its =>
                 (fix goi (is : list node) : list (list Z) :=
                    match is with
                    | [] => []
                    | i :: is' =>
                        match i with
                        | Node _ _ _ => linerange i (match is' with s :: _ => s | [] => NNone end) :: visit_ranges i
                        | _ => []
                        end ++ goi is'
                    end) its
             | _ => []
             end ++ go t
         end) fs
  | _ => []
  end.
