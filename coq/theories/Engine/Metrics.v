(* bandit.core.metrics.Metrics; definitions only. *)
From Coq Require Import List NArith ZArith Bool String.
From Bandit Require Import Base.PyStr Engine.Types Engine.Tester.
Import ListNotations.
Local Open Scope Z_scope.

(* bytes.splitlines(): split on \n, \r\n, \r; no trailing empty line *)
Fixpoint splitlines_aux (s : list N) (cur : list N) : list (list N) :=
  match s with
  | [] => match cur with [] => [] | _ => [rev cur] end
  | 13%N :: 10%N :: t => rev cur :: splitlines_aux t []
  | 10%N :: t => rev cur :: splitlines_aux t []
  | 13%N :: t => rev cur :: splitlines_aux t []
  | c :: t => splitlines_aux t (c :: cur)
  end.
Definition splitlines (s : list N) : list (list N) := splitlines_aux s [].

(* proc(line) in count_locs: bytes.strip() is ASCII whitespace only *)
Definition is_loc (line : list N) : bool :=
  match lstrip_ws line with
  | [] => false
  | c :: _ => negb (N.eqb c 35)
  end.
(* a UTF-8 byte order mark is removed from the first line before it is classified *)
Definition strip_bom (lines : list (list N)) : list (list N) :=
  match lines with
  | (239%N :: 187%N :: 191%N :: rest) :: t => rest :: t
  | _ => lines
  end.
Definition count_locs (lines : list (list N)) : Z := Z.of_nat (List.length (filter is_loc (strip_bom lines))).

(* _get_issue_counts([score]) : label order is CRITERIA-major, RANKING-minor; value = score // weight *)
Definition weight (K : consts) (r : pstr) : Z := match assoc r (k_values K) with Some w => w | None => 0 end.
Definition counts_of (K : consts) (sc : list Z) : list (pstr * Z) :=
  map (fun rs => (fst rs, snd rs / weight K (fst rs))) (combine (k_ranking K) sc).

Record file_block := FileBlock {
  fb_name : pstr; fb_loc : Z; fb_nosec : Z; fb_skipped : Z;
  fb_sev : option (list (pstr * Z)); fb_conf : option (list (pstr * Z))   (* None: file failed before count_issues *)
}.

Definition block_rank (o : option (list (pstr * Z))) (r : pstr) : Z :=
  match o with Some l => match assoc r l with Some v => v | None => 0 end | None => 0 end.

(* aggregate(): Counter over every block (the zero-initialised _totals included) *)
Definition sumZ (l : list Z) : Z := fold_right Z.add 0 l.
Record totals := Totals { tt_loc : Z; tt_nosec : Z; tt_skipped : Z; tt_sev : list (pstr * Z); tt_conf : list (pstr * Z) }.
Definition aggregate (K : consts) (blocks : list file_block) : totals :=
  Totals (sumZ (map fb_loc blocks)) (sumZ (map fb_nosec blocks)) (sumZ (map fb_skipped blocks))
         (map (fun r => (r, sumZ (map (fun b => block_rank (fb_sev b) r) blocks))) (k_ranking K))
         (map (fun r => (r, sumZ (map (fun b => block_rank (fb_conf b) r) blocks))) (k_ranking K)).

(* scores accumulated for a list of appended findings (what the tester adds up) *)
Definition scores_of (K : consts) (fs : list finding) : option scores :=
  fold_left (fun acc f => match acc with Some sc => score_one K f sc | None => None end) fs (Some (zero_scores K)).

Definition count_sev (r : rank) (fs : list finding) : Z :=
  Z.of_nat (List.length (filter (fun f => rank_eqb (f_sev f) r) fs)).
Definition count_conf (r : rank) (fs : list finding) : Z :=
  Z.of_nat (List.length (filter (fun f => rank_eqb (f_conf f) r) fs)).
