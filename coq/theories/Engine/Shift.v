(* What inserting lines into a source file does to everything that carries a line number:
   k = |ins| lines are inserted in front of line [at_] (1-based). *)
From Coq Require Import List NArith ZArith Bool String.
From Bandit Require Import Base.PyStr Ast.Node Engine.Types Engine.Linerange Engine.Tester Engine.Visitor.
Import ListNotations.
Local Open Scope string_scope.
Local Open Scope list_scope.
Local Open Scope Z_scope.

Section Shift.
  Variable at_ : Z.
  Variable ins : list pstr.
  Definition k_ : Z := Z.of_nat (List.length ins).

  Definition sh (l : Z) : Z := if at_ <=? l then l + k_ else l.
  Definition sh_pos (p : pos4) : pos4 := Pos (sh (p_line p)) (p_col p) (sh (p_eline p)) (p_ecol p).

  Fixpoint sh_node (n : node) : node :=
    match n with
    | Node c p fs =>
        Node c (option_map sh_pos p)
             ((fix go (l : list (string * node)) : list (string * node) :=
                 match l with [] => [] | (f, v) :: t => (f, sh_node v) :: go t end) fs)
    | NList l => NList ((fix go (l : list node) : list node :=
                           match l with [] => [] | x :: t => sh_node x :: go t end) l)
    | x => x
    end.

  (* a line range is a run of consecutive lines: it keeps its first and last line, shifted; line 0 is the
     synthetic location of whole-file contexts and is never shifted *)
  Definition sh_range (l : list Z) : list Z :=
    match l with
    | [] => []
    | a :: _ => if a =? 0 then l else zrange (sh a) (sh (last l a) + 1)
    end.

  Definition sh_lines (lines : list pstr) : list pstr :=
    firstn (Z.to_nat (at_ - 1)) lines ++ ins ++ skipn (Z.to_nat (at_ - 1)) lines.

  Definition sh_nosec (m : nosec_map) : nosec_map := map (fun e => (sh (fst e), snd e)) m.

  Definition sh_ps (ps : list (node * node)) : list (node * node) :=
    map (fun e => (sh_node (fst e), sh_node (snd e))) ps.

  Definition sh_ctx (c : ctx) : ctx :=
    Ctx (sh_node (c_node c)) (sh_ps (c_parents c)) (sh_node (c_sibling c)) (c_imports c) (c_aliases c)
        (option_map sh (c_lineno c)) (c_col c) (c_ecol c) (sh_range (c_linerange c))
        (option_map sh_node (c_call c)) (c_qualname c) (c_name c) (c_module c) (c_str c) (c_bytes c)
        (option_map sh_node (c_function c)) (c_filename c) (option_map sh_lines (c_lines c)).

  Definition sh_ri (r : rissue) : rissue :=
    RIssue (ri_sev r) (ri_conf r) (ri_cwe r) (ri_text r) (option_map sh (ri_lineno r)) (ri_test_id r)
           (ri_col r) (option_map sh_range (ri_linerange r)).

  Definition sh_res (r : res (option rissue)) : res (option rissue) :=
    match r with Ok (Some x) => Ok (Some (sh_ri x)) | other => other end.

  Definition sh_finding (f : finding) : finding :=
    Finding (f_test_id f) (f_test f) (f_sev f) (f_conf f) (f_cwe f) (f_text f)
            (sh (f_lineno f)) (sh_range (f_linerange f)) (f_col f) (f_ecol f).

  Definition sh_ts (t : tstate) : tstate :=
    TState (map sh_finding (ts_results t)) (ts_nosec t) (ts_skipped t) (ts_errors t)
           (map (fun e => (sh_finding (fst e), snd e)) (ts_all t)).

  Definition sh_st (s : vstate) : vstate :=
    VState (v_imports s) (v_aliases s) (sh_ts (v_tester s)) (v_scores s).

  Definition sh_env (E : env) : env :=
    Env (e_consts E) (e_tests E) (sh_nosec (e_nosec E)) (e_fname E) (option_map sh_lines (e_lines E)).

  (* a check is position-equivariant: on the shifted context it answers the shifted issue *)
  Definition t_equiv (t : test) : Prop := forall c, t_fn t (sh_ctx c) = sh_res (t_fn t c).

  (* ---- which trees the equivariance theorem speaks about ---- *)
  Definition line_bound : Z := 1000000000.
  Definition pos_ok (p : pos4) : bool :=
    (1 <=? p_line p) && (p_line p <? line_bound) && (1 <=? p_eline p) && (p_eline p <? line_bound).

  Definition has_text_child (n : node) : bool :=
    existsb (fun x => match const_of x with Some (CStr _) | Some (CBytes _) => true | _ => false end)
            (child_nodes n).

  (* the (min, max) pair utils.linerange computes for a node without a position *)
  Definition stripped_minmax (n : node) : Z * Z :=
    fold_left (fun acc x => lr_merge acc (calc_linerange x))
              (child_nodes_of_fields (filter (fun kv => negb (stripped_field (fst kv))) (fields_of n))) lr_none.

  (* what visiting x (whose next sibling is sib) needs: a real position; or, without one, no positioned
     sibling (the multi-line-string work-around stays off) and either a positioned child to take the
     range from, or nothing that looks at the range (no check registered for the class, no string
     child) *)
  (* classes the visitor treats specially (they always carry a position in a CPython tree) *)
  Definition special_cls (c : string) : bool :=
    String.eqb c "Import" || String.eqb c "ImportFrom" || String.eqb c "Call" || String.eqb c "FunctionDef"
    || String.eqb c "Constant".

  Definition wf_here (tested : string -> bool) (x sib : node) : bool :=
    match pos_of x with
    | Some p => true
    | None =>
        match lineno_of sib with Some _ => false | None => true end
        && ((negb (snd (stripped_minmax x) =? -1))
            || (negb (tested (cls_of x)) && negb (special_cls (cls_of x)) && negb (has_text_child x)))
    end.

  Fixpoint wf_tree (tested : string -> bool) (n : node) : bool :=
    match n with
    | Node c p fs =>
        match p with Some q => pos_ok q | None => true end
        && (fix go (l : list (string * node)) : bool :=
              match l with
              | [] => true
              | (_, v) :: t =>
                  match v with
                  | Node _ _ _ => wf_here tested v NNone && wf_tree tested v
                  | NList its =>
                      (fix goi (is : list node) : bool :=
                         match is with
                         | [] => true
                         | i :: is' =>
                             match i with
                             | Node _ _ _ =>
                                 wf_here tested i (match is' with s :: _ => s | [] => NNone end)
                                 && wf_tree tested i
                             | _ => true
                             end && goi is'
                         end) its
                  | _ => true
                  end && go t
              end) fs
    | _ => true
    end.
End Shift.
