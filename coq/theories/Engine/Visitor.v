(* bandit.core.node_visitor.BanditNodeVisitor: pre_visit / visit / generic_visit / process *)
From Coq Require Import List NArith ZArith Bool String.
From Bandit Require Import Base.PyStr Ast.Node Engine.Types Engine.Resolve Engine.Linerange Engine.Tester.
Import ListNotations.
Local Open Scope string_scope.
Local Open Scope list_scope.

Record vstate := VState {
  v_imports : list pstr;
  v_aliases : list (pstr * pstr);
  v_tester : tstate;
  v_scores : scores
}.

Record env := Env {
  e_consts : consts;
  e_tests : list test;
  e_nosec : nosec_map;
  e_fname : pstr;
  e_lines : option (list pstr)
}.

Definition base_ctx (E : env) (n : node) (parents : list (node * node)) (sib : node) (st : vstate) : ctx :=
  Ctx n parents sib (v_imports st) (v_aliases st)
      (option_map p_line (pos_of n)) (option_map p_col (pos_of n)) (option_map p_ecol (pos_of n))
      (linerange n sib)
      None None None None None None None
      (e_fname E) (e_lines E).

Definition with_tests (E : env) (c : ctx) (checktype : string) (st : vstate) : vstate :=
  let '(ts, sc) := run_tests (e_consts E) (e_tests E) (e_nosec E) c checktype (v_tester st) in
  VState (v_imports st) (v_aliases st) ts (add_scores (v_scores st) sc).

Definition set_ctx_state (c : ctx) (st : vstate) : ctx :=
  Ctx (c_node c) (c_parents c) (c_sibling c) (v_imports st) (v_aliases st)
      (c_lineno c) (c_col c) (c_ecol c) (c_linerange c)
      (c_call c) (c_qualname c) (c_name c) (c_module c) (c_str c) (c_bytes c) (c_function c)
      (c_filename c) (c_lines c).

Definition alias_name (a : node) : pstr := match field "name" a with NId s => s | _ => [] end.
Definition alias_asname (a : node) : option pstr :=
  match field "asname" a with NId s => (match s with [] => None | _ => Some s end) | _ => None end.

(* visit_Import: returns updated state and the 'module' left in the context *)
Definition do_import (names : list node) (st : vstate) : vstate * option pstr :=
  fold_left (fun acc a =>
               let st := fst acc in
               let al := match alias_asname a with
                         | Some asn => assoc_set asn (alias_name a) (v_aliases st)
                         | None => v_aliases st
                         end in
               (VState (set_add (alias_name a) (v_imports st)) al (v_tester st) (v_scores st),
                Some (alias_name a)))
            names (st, None).

Definition do_import_from (module : pstr) (names : list node) (st : vstate) : vstate * option pstr :=
  fold_left (fun acc a =>
               let st := fst acc in
               let full := module ++ [dot] ++ alias_name a in
               let key := match alias_asname a with Some asn => asn | None => alias_name a end in
               (VState (set_add full (v_imports st)) (assoc_set key full (v_aliases st))
                       (v_tester st) (v_scores st),
                Some (alias_name a)))
            names (st, None).

Definition ctx_set_call (c : ctx) (call : node) (q : pstr) : ctx :=
  Ctx (c_node c) (c_parents c) (c_sibling c) (c_imports c) (c_aliases c)
      (c_lineno c) (c_col c) (c_ecol c) (c_linerange c)
      (Some call) (Some q) (Some (last_component q)) (c_module c) (c_str c) (c_bytes c) (c_function c)
      (c_filename c) (c_lines c).
Definition ctx_set_func (c : ctx) (f : node) (nm : pstr) : ctx :=
  Ctx (c_node c) (c_parents c) (c_sibling c) (c_imports c) (c_aliases c)
      (c_lineno c) (c_col c) (c_ecol c) (c_linerange c)
      (c_call c) (Some ([dot] ++ nm)) (Some nm) (c_module c) (c_str c) (c_bytes c) (Some f)
      (c_filename c) (c_lines c).
Definition ctx_set_module (c : ctx) (m : option pstr) (nm : option pstr) : ctx :=
  Ctx (c_node c) (c_parents c) (c_sibling c) (c_imports c) (c_aliases c)
      (c_lineno c) (c_col c) (c_ecol c) (c_linerange c)
      (c_call c) (c_qualname c) (match nm with Some _ => nm | None => c_name c end) m
      (c_str c) (c_bytes c) (c_function c) (c_filename c) (c_lines c).
Definition ctx_set_str (c : ctx) (s : option pstr) (b : option (list N)) (lr : list Z) : ctx :=
  Ctx (c_node c) (c_parents c) (c_sibling c) (c_imports c) (c_aliases c)
      (c_lineno c) (c_col c) (c_ecol c) lr
      (c_call c) (c_qualname c) (c_name c) (c_module c) s b (c_function c)
      (c_filename c) (c_lines c).

(* pre_visit followed by visit (dispatch on the class name); not recursive *)
Definition visit_one (E : env) (n : node) (parents : list (node * node)) (sib : node) (st : vstate) : vstate :=
  let c := base_ctx E n parents sib st in
  let cls := cls_of n in
  if String.eqb cls "Import" || (String.eqb cls "ImportFrom" && negb (match field "module" n with NId _ => true | _ => false end)) then
    let '(st', m) := do_import (field_list "names" n) st in
    with_tests E (ctx_set_module (set_ctx_state c st') m None) "Import" st'
  else if String.eqb cls "ImportFrom" then
    let module := match field "module" n with NId s => s | _ => [] end in
    let '(st', nm) := do_import_from module (field_list "names" n) st in
    with_tests E (ctx_set_module (set_ctx_state c st') (match nm with Some _ => Some module | None => None end) nm)
               "ImportFrom" st'
  else if String.eqb cls "Call" then
    with_tests E (ctx_set_call c n (get_call_name n (v_aliases st))) "Call" st
  else if String.eqb cls "FunctionDef" then
    with_tests E (ctx_set_func c n (match field "name" n with NId s => s | _ => [] end)) "FunctionDef" st
  else if String.eqb cls "ClassDef" then st
  else if String.eqb cls "Constant" then
    match const_of n with
    | Some (CStr s) =>
        match parents with
        | (p, psib) :: _ =>
            if is_cls "Expr" p then st
            else with_tests E (ctx_set_str c (Some s) None (linerange p psib)) "Str" st
        | [] => st
        end
    | Some (CBytes b) =>
        match parents with
        | (p, psib) :: _ =>
            if is_cls "Expr" p then st
            else with_tests E (ctx_set_str c None (Some b) (linerange p psib)) "Bytes" st
        | [] => st
        end
    | _ => st
    end
  else with_tests E c cls st.

(* generic_visit: fields in order; list items get the next element as sibling *)
Fixpoint generic_visit (E : env) (n : node) (nsib : node) (parents : list (node * node)) (st : vstate) : vstate :=
  match n with
  | Node _ _ fs =>
      let ps := (n, nsib) :: parents in
      (fix go (l : list (string * node)) (st : vstate) : vstate :=
         match l with
         | [] => st
         | (_, v) :: t =>
             let st' :=
               match v with
               | Node _ _ _ => generic_visit E v NNone ps (visit_one E v ps NNone st)
               | NList its =>
                   (fix goi (is : list node) (st : vstate) : vstate :=
                      match is with
                      | [] => st
                      | i :: is' =>
                          let sib := match is' with s :: _ => s | [] => NNone end in
                          goi is' (match i with
                                   | Node _ _ _ => generic_visit E i sib ps (visit_one E i ps sib st)
                                   | _ => st
                                   end)
                      end) its st
               | _ => st
               end in
             go t st'
         end) fs st
  | _ => st
  end.

Definition file_ctx (E : env) : ctx :=
  Ctx NNone [] NNone [] [] (Some 0%Z) (Some 0%Z) None [0%Z]
      None None None None None None None (e_fname E) (e_lines E).

Definition v_init (E : env) : vstate := VState [] [] ts_init (zero_scores (e_consts E)).

(* BanditNodeVisitor.process on an already parsed module *)
Definition process (E : env) (module : node) : vstate :=
  let st := generic_visit E module NNone [] (v_init E) in
  with_tests E (file_ctx E) "File" st.
