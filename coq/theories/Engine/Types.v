(* Shared types of the engine model; definitions only. *)
From Coq Require Import List NArith ZArith Bool String.
From Bandit Require Import Base.PyStr Ast.Node.
Import ListNotations.

Inductive exn :=
| TypeError | IndexError | KeyError | AttributeError | ValueError
| FileNotFoundError | UnicodeError | OtherError.

Inductive res (A : Type) := Ok (a : A) | Raise (e : exn).
Arguments Ok {A} a.
Arguments Raise {A} e.

Definition bind {A B} (r : res A) (f : A -> res B) : res B :=
  match r with Ok a => f a | Raise e => Raise e end.
Notation "'do' x <- r ;; k" := (bind r (fun x => k)) (at level 200, x name, r at level 100, k at level 200).

Fixpoint mapM {A B} (f : A -> res B) (l : list A) : res (list B) :=
  match l with
  | [] => Ok []
  | x :: t => do y <- f x;; do ys <- mapM f t;; Ok (y :: ys)
  end.

Inductive rank := UNDEFINED | LOW | MEDIUM | HIGH.
Definition rank_eqb (a b : rank) : bool :=
  match a, b with
  | UNDEFINED, UNDEFINED | LOW, LOW | MEDIUM, MEDIUM | HIGH, HIGH => true
  | _, _ => false
  end.
Definition rank_name (r : rank) : pstr :=
  match r with
  | UNDEFINED => s2p "UNDEFINED" | LOW => s2p "LOW" | MEDIUM => s2p "MEDIUM" | HIGH => s2p "HIGH"
  end.
Definition all_ranks : list rank := [UNDEFINED; LOW; MEDIUM; HIGH].
Definition rank_of_name (s : pstr) : option rank :=
  find (fun r => pstr_eqb (rank_name r) s) all_ranks.

(* list.index on a list of names *)
Fixpoint index_of (x : pstr) (l : list pstr) : option nat :=
  match l with
  | [] => None
  | y :: t => if pstr_eqb x y then Some O else option_map S (index_of x t)
  end.

(* JSON-like configuration values *)
Inductive jv :=
| JNull | JBool (b : bool) | JInt (z : Z) | JStr (s : pstr)
| JList (l : list jv) | JDict (kv : list (pstr * jv)).

Definition jget (k : pstr) (j : jv) : option jv :=
  match j with JDict kv => assoc k kv | _ => None end.
Definition jstrs (j : jv) : list pstr :=
  match j with
  | JList l => flat_map (fun x => match x with JStr s => [s] | _ => [] end) l
  | _ => []
  end.

(* dynamic values produced by Context._get_literal_value *)
Inductive pyval :=
| PNone | PInt (z : Z) | PFloat (r : pstr) (t : bool) | PComplex (r : pstr) (t : bool)
| PStr (s : pstr) | PBytes (b : list N)
| PList (l : list pyval) | PTuple (l : list pyval) | PSet (l : list pyval)
| PDict (kv : list (node * node)).

(* what a plugin returns: bandit.Issue(...) before the tester fills in defaults *)
Record rissue := RIssue {
  ri_sev : rank; ri_conf : rank; ri_cwe : Z; ri_text : pstr;
  ri_lineno : option Z; ri_test_id : option pstr; ri_col : option Z; ri_linerange : option (list Z)
}.

Record finding := Finding {
  f_test_id : pstr; f_test : pstr; f_sev : rank; f_conf : rank; f_cwe : Z; f_text : pstr;
  f_lineno : Z; f_linerange : list Z; f_col : Z; f_ecol : Z
}.

Record ctx := Ctx {
  c_node : node;
  c_parents : list (node * node);     (* (_bandit_parent, that parent's _bandit_sibling), nearest first *)
  c_sibling : node;
  c_imports : list pstr;
  c_aliases : list (pstr * pstr);
  c_lineno : option Z; c_col : option Z; c_ecol : option Z;
  c_linerange : list Z;
  c_call : option node; c_qualname : option pstr; c_name : option pstr;
  c_module : option pstr; c_str : option pstr; c_bytes : option (list N);
  c_function : option node;
  c_filename : pstr;
  c_lines : option (list pstr)        (* what reading c_filename yields; None = cannot be opened *)
}.

Definition parent_of (c : ctx) : node := match c_parents c with (p, _) :: _ => p | [] => NNone end.
Definition parent_n (k : nat) (c : ctx) : node := fst (nth k (c_parents c) (NNone, NNone)).

Record test := Test {
  t_id : pstr; t_name : pstr; t_checks : list string;
  t_fn : ctx -> res (option rissue)
}.
