(* bandit.core.tester.BanditTester.run_tests *)
From Coq Require Import List NArith ZArith Bool String.
From Bandit Require Import Base.PyStr Ast.Node Engine.Types.
Import ListNotations.
Local Open Scope list_scope.

(* the constants module, as regenerated *)
Record consts := Consts { k_ranking : list pstr; k_values : list (pstr * Z) }.

Definition nosec_map := list (Z * list pstr).   (* lineno -> set of test ids; [] = bare nosec *)

Fixpoint nosec_get (m : nosec_map) (l : Z) : option (list pstr) :=
  match m with
  | [] => None
  | (k, v) :: t => if Z.eqb k l then Some v else nosec_get t l
  end.

Definition union_ids (a b : list pstr) : list pstr := fold_left (fun acc x => set_add x acc) b a.

(* utils.get_nosec: every nosec comment of the span counts; a blanket comment ([]) wins at once *)
Fixpoint get_nosec_acc (m : nosec_map) (lr : list Z) (found : option (list pstr)) : option (list pstr) :=
  match lr with
  | [] => found
  | l :: t => match nosec_get m l with
              | Some [] => Some []
              | Some s => get_nosec_acc m t (Some (match found with Some f => union_ids f s | None => s end))
              | None => get_nosec_acc m t found
              end
  end.
Definition get_nosec (m : nosec_map) (lr : list Z) : option (list pstr) := get_nosec_acc m lr None.

(* _get_nosecs_from_contexts *)
Definition nosecs_from_contexts (m : nosec_map) (ctx_lr : list Z) (res_lineno : option Z)
  : option (list pstr) :=
  let base := match res_lineno with Some l => nosec_get m l | None => None end in
  let cont := get_nosec m ctx_lr in
  match base, cont with
  | Some [], _ | _, Some [] => Some []
  | None, None => None
  | Some b, None => Some b
  | None, Some c => Some c
  | Some b, Some c => Some (union_ids b c)
  end.

Inductive status := Kept | Bare | Specific.
Record tstate := TState {
  ts_results : list finding;          (* in append order *)
  ts_nosec : Z; ts_skipped : Z;
  ts_errors : list (pstr * exn);      (* (test name, exception class) per logged internal error *)
  ts_all : list (finding * status)    (* ghost: every finding a check produced, with what became of it *)
}.
Definition ts_init : tstate := TState [] 0 0 [] [].

Definition scores := (list Z * list Z)%type.   (* SEVERITY, CONFIDENCE slots *)
Definition zero_scores (K : consts) : scores :=
  (map (fun _ => 0%Z) (k_ranking K), map (fun _ => 0%Z) (k_ranking K)).

Fixpoint add_at (i : nat) (v : Z) (l : list Z) : list Z :=
  match l, i with
  | [], _ => []
  | x :: t, O => (x + v)%Z :: t
  | x :: t, S j => x :: add_at j v t
  end.
Fixpoint zip_add (a b : list Z) : list Z :=
  match a, b with
  | x :: a', y :: b' => (x + y)%Z :: zip_add a' b'
  | _, _ => []
  end.
Definition add_scores (a b : scores) : scores := (zip_add (fst a) (fst b), zip_add (snd a) (snd b)).

(* Issue.__init__: text.encode("utf-8", "backslashreplace").decode("utf-8") - lone surrogates become '\udXXX' *)
Definition hexd (d : N) : N := if (d <? 10)%N then (48 + d)%N else (87 + d)%N.
Definition sanitize_text (s : pstr) : pstr :=
  flat_map (fun c => if ((55296 <=? c) && (c <=? 57343))%N
                     then [92; 117; hexd (c / 4096 mod 16); hexd (c / 256 mod 16); hexd (c / 16 mod 16); hexd (c mod 16)]%N
                     else [c]) s.

Definition fill_defaults (t : test) (c : ctx) (r : rissue) : finding :=
  Finding
    (match ri_test_id r with Some i => i | None => t_id t end)
    (t_name t) (ri_sev r) (ri_conf r) (ri_cwe r) (sanitize_text (ri_text r))
    (match ri_lineno r with Some l => l | None => match c_lineno c with Some l => l | None => 0%Z end end)
    (match ri_linerange r with Some l => l | None => c_linerange c end)
    (match ri_col r with Some x => x | None => match c_col c with Some x => x | None => 0%Z end end)
    (match c_ecol c with Some x => x | None => 0%Z end).

(* score one appended result: Some scores, or None when RANKING.index / RANKING_VALUES[...] raises *)
Definition score_one (K : consts) (f : finding) (sc : scores) : option scores :=
  match index_of (rank_name (f_sev f)) (k_ranking K), assoc (rank_name (f_sev f)) (k_values K),
        index_of (rank_name (f_conf f)) (k_ranking K), assoc (rank_name (f_conf f)) (k_values K) with
  | Some si, Some sv, Some ci, Some cv => Some (add_at si sv (fst sc), add_at ci cv (snd sc))
  | _, _, _, _ => None
  end.

Definition run_one (K : consts) (m : nosec_map) (c : ctx) (t : test) (acc : tstate * scores)
  : tstate * scores :=
  let '(st, sc) := acc in
  match t_fn t c with
  | Raise e => (TState (ts_results st) (ts_nosec st) (ts_skipped st) (ts_errors st ++ [(t_name t, e)]) (ts_all st), sc)
  | Ok None => acc
  | Ok (Some r) =>
      let ns := nosecs_from_contexts m (c_linerange c) (ri_lineno r) in
      let f := fill_defaults t c r in
      let keep :=
        match score_one K f sc with
        | Some sc' => (TState (ts_results st ++ [f]) (ts_nosec st) (ts_skipped st) (ts_errors st)
                              (ts_all st ++ [(f, Kept)]), sc')
        | None => (TState (ts_results st ++ [f]) (ts_nosec st) (ts_skipped st)
                          (ts_errors st ++ [(t_name t, ValueError)]) (ts_all st ++ [(f, Kept)]), sc)
        end in
      match ns with
      | None => keep
      | Some [] => (TState (ts_results st) (ts_nosec st + 1) (ts_skipped st) (ts_errors st)
                           (ts_all st ++ [(f, Bare)]), sc)
      | Some ids =>
          if mem_pstr (f_test_id f) ids
          then (TState (ts_results st) (ts_nosec st) (ts_skipped st + 1) (ts_errors st)
                       (ts_all st ++ [(f, Specific)]), sc)
          else keep
      end
  end.

Definition tests_for (tests : list test) (checktype : string) : list test :=
  filter (fun t => existsb (String.eqb checktype) (t_checks t)) tests.

(* returns the new tester state and the scores of this call *)
Definition run_tests (K : consts) (tests : list test) (m : nosec_map) (c : ctx) (checktype : string)
           (st : tstate) : tstate * scores :=
  fold_left (fun acc t => run_one K m c t acc) (tests_for tests checktype) (st, zero_scores K).
