(* bandit.core.utils.linerange / calc_linerange *)
From Coq Require Import List NArith ZArith Bool String.
From Bandit Require Import Base.PyStr Ast.Node Engine.Types.
Import ListNotations.
Local Open Scope string_scope.
Local Open Scope list_scope.
Local Open Scope Z_scope.

Definition zrange (a b : Z) : list Z :=        (* list(range(a, b)) *)
  map (fun i => a + Z.of_nat i) (seq 0 (Z.to_nat (b - a))).

Definition lr_none : Z * Z := (9999999999, -1).
Definition lr_merge (a b : Z * Z) : Z * Z := (Z.min (fst a) (fst b), Z.max (snd a) (snd b)).

Fixpoint calc_linerange (n : node) : Z * Z :=
  match n with
  | Node _ p fs =>
      let init := match p with Some q => (p_line q, p_line q) | None => lr_none end in
      (fix go (l : list (string * node)) (acc : Z * Z) : Z * Z :=
         match l with
         | [] => acc
         | (_, v) :: t =>
             let acc' :=
               match v with
               | Node _ _ _ => lr_merge acc (calc_linerange v)
               | NList its =>
                   (fix goi (is : list node) (acc : Z * Z) : Z * Z :=
                      match is with
                      | [] => acc
                      | i :: is' => goi is' (match i with
                                             | Node _ _ _ => lr_merge acc (calc_linerange i)
                                             | _ => acc
                                             end)
                      end) its acc
               | _ => acc
               end in
             go t acc'
         end) fs init
  | _ => lr_none
  end.

Definition stripped_field (k : string) : bool :=
  String.eqb k "body" || String.eqb k "orelse" || String.eqb k "handlers" || String.eqb k "finalbody".

Definition linerange (n sibling : node) : list Z :=
  match pos_of n with
  | Some q => zrange (p_line q) (p_eline q + 1)
  | None =>
      let kids := child_nodes_of_fields (filter (fun kv => negb (stripped_field (fst kv))) (fields_of n)) in
      let mm := fold_left (fun acc k => lr_merge acc (calc_linerange k)) kids lr_none in
      let mm := if snd mm =? -1 then (0, 1) else mm in
      let lines := zrange (fst mm) (snd mm + 1) in
      match lineno_of sibling with
      | Some sl =>
          let start := fst mm in            (* min(lines); lines is never empty here *)
          if sl - start >? 1 then zrange start sl else lines
      | None => lines
      end
  end.
