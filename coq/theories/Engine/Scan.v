(* One file's scan: test-set assembly (BanditTestSet) + visitor; and the observable record compared
   with the implementation. *)
From Coq Require Import List NArith ZArith Bool String.
From Bandit Require Import Base.PyStr Ast.Node Engine.Types Engine.Tables Engine.Tester Engine.Visitor
     Plugins.Blacklist.
Import ListNotations.
Local Open Scope list_scope.

Record plugin := Plugin { pl_name : pstr; pl_fn : jv -> ctx -> res (option rissue) }.

Fixpoint find_plugin (nm : pstr) (ps : list plugin) : option plugin :=
  match ps with
  | [] => None
  | p :: t => if pstr_eqb nm (pl_name p) then Some p else find_plugin nm t
  end.

(* effective plugin configuration: config option under the _takes_config name, else gen_config *)
Definition effective_cfg (defaults cfg : list (pstr * jv)) (key : option pstr) : jv :=
  match key with
  | None => JNull
  | Some k => match assoc k cfg with
              | Some JNull | None => match assoc k defaults with Some v => v | None => JNull end
              | Some v => v       (* "if cfg is None": only a null option falls back to gen_config *)
              end
  end.

(* BanditTestSet.__init__: selected plugins in registry order, then the built-in blacklist check *)
Definition build_tests (reg : list reg_row) (plugins : list plugin) (defaults cfg : list (pstr * jv))
           (sel : pstr -> bool) (tab : bl_table) : list test :=
  flat_map (fun r =>
              if sel (r_id r) then
                match find_plugin (r_name r) plugins with
                | Some p => [Test (r_id r) (r_func r) (r_checks r)
                                  (pl_fn p (effective_cfg defaults cfg (r_cfg r)))]
                | None => []
                end
              else []) reg
  ++ match filter_table sel tab with
     | [] => []
     | ft => [blacklist_test ft]
     end.

Record scan_out := ScanOut {
  o_results : list finding; o_nosec : Z; o_skipped : Z;
  o_errors : list (pstr * exn); o_sev : list Z; o_conf : list Z
}.

Definition scan (K : consts) (tests : list test) (m : nosec_map) (fname : pstr)
           (lines : option (list pstr)) (module : node) : scan_out :=
  let st := process (Env K tests m fname lines) module in
  ScanOut (ts_results (v_tester st)) (ts_nosec (v_tester st)) (ts_skipped (v_tester st))
          (ts_errors (v_tester st)) (fst (v_scores st)) (snd (v_scores st)).

(* boolean equalities for the correspondence check *)
Definition exn_eqb (a b : exn) : bool :=
  match a, b with
  | TypeError, TypeError | IndexError, IndexError | KeyError, KeyError
  | AttributeError, AttributeError | ValueError, ValueError | FileNotFoundError, FileNotFoundError
  | UnicodeError, UnicodeError | OtherError, OtherError => true
  | _, _ => false
  end.
Fixpoint list_eqb {A} (eqb : A -> A -> bool) (a b : list A) : bool :=
  match a, b with
  | [], [] => true
  | x :: a', y :: b' => eqb x y && list_eqb eqb a' b'
  | _, _ => false
  end.
Definition finding_eqb (a b : finding) : bool :=
  pstr_eqb (f_test_id a) (f_test_id b) && pstr_eqb (f_test a) (f_test b)
  && rank_eqb (f_sev a) (f_sev b) && rank_eqb (f_conf a) (f_conf b) && Z.eqb (f_cwe a) (f_cwe b)
  && pstr_eqb (f_text a) (f_text b) && Z.eqb (f_lineno a) (f_lineno b)
  && list_eqb Z.eqb (f_linerange a) (f_linerange b) && Z.eqb (f_col a) (f_col b) && Z.eqb (f_ecol a) (f_ecol b).
Definition scan_out_eqb (a b : scan_out) : bool :=
  list_eqb finding_eqb (o_results a) (o_results b) && Z.eqb (o_nosec a) (o_nosec b)
  && Z.eqb (o_skipped a) (o_skipped b)
  && list_eqb (fun x y => pstr_eqb (fst x) (fst y) && exn_eqb (snd x) (snd y)) (o_errors a) (o_errors b)
  && list_eqb Z.eqb (o_sev a) (o_sev b) && list_eqb Z.eqb (o_conf a) (o_conf b).

(* indices (and model outputs) of the cases where model and implementation differ *)
Fixpoint mismatches {I O} (run : I -> O) (eqb : O -> O -> bool) (cases : list (I * O)) (i : N)
  : list (N * O) :=
  match cases with
  | [] => []
  | (x, exp) :: t =>
      let got := run x in
      (if eqb got exp then [] else [(i, got)]) ++ mismatches run eqb t (N.succ i)
  end.
