(* Plugin family "misc": Gallina models of bandit plugins; definitions only (proofs go to Proofs/).
   B506 yaml_load, B614 pytorch_load, B202 tarfile_unsafe_members, B201 flask_debug_true,
   B612 logging_config_insecure_listen, B601 paramiko_calls, B102 exec_used, B101 assert_used,
   B110 try_except_pass, B112 try_except_continue. *)
From Coq Require Import List NArith ZArith Bool String.
From Bandit Require Import Base.PyStr Ast.Node Engine.Types Engine.Resolve Engine.Context Engine.Linerange
     Engine.Scan Regex.Regex.
Import ListNotations.
Local Open Scope string_scope.
Local Open Scope list_scope.

(* ------------------------------------------------------------------------------------------ *)
(* shared helpers                                                                              *)

Definition mk_issue (sev conf : rank) (cwe : Z) (text : pstr) (lineno : option Z) : rissue :=
  RIssue sev conf cwe text lineno None None None.

(* qualname.split('.') and its last element *)
Definition qual_parts (q : pstr) : list pstr := split_on dot q.
Definition qual_func (q : pstr) : pstr := last (qual_parts q) [].

Definition is_some_true (o : option bool) : bool :=
  match o with Some true => true | _ => false end.

(* context.node.keywords : AttributeError when the node has no such attribute *)
Definition node_keywords (c : ctx) : res (list node) :=
  match field_opt "keywords" (c_node c) with
  | Some v => Ok (items v)
  | None => Raise AttributeError
  end.

(* first keyword of the node whose .arg == name (the `for keyword in ...: if keyword.arg == name` loops) *)
Definition first_kw (name : pstr) (kws : list node) : option node :=
  find (fun k => okey_eqb (kw_arg k) (Some name)) kws.

(* bool(x) of a configuration value *)
Definition jv_truthy (v : jv) : bool :=
  match v with
  | JNull => false
  | JBool b => b
  | JInt z => negb (Z.eqb z 0)
  | JStr s => truthy_str s
  | JList l => match l with [] => false | _ => true end
  | JDict l => match l with [] => false | _ => true end
  end.

(* ------------------------------------------------------------------------------------------ *)
(* B506 yaml_load                                                                              *)

Definition yaml_text : pstr :=
  s2p "Use of unsafe yaml load. Allows instantiation of arbitrary objects. Consider yaml.safe_load().".
Definition yaml_issue (l : Z) : rissue := mk_issue MEDIUM HIGH 20 yaml_text (Some l).

Definition SafeLoader_s : pstr := s2p "SafeLoader".
Definition CSafeLoader_s : pstr := s2p "CSafeLoader".

(* the four argument conditions of the all([...]) list, all evaluated (the list is built eagerly) *)
Definition yaml_args_unsafe (c : ctx) : res bool :=
  do a <- check_call_arg_value c (s2p "Loader") [PStr SafeLoader_s];;
  do b <- check_call_arg_value c (s2p "Loader") [PStr CSafeLoader_s];;
  do p <- get_call_arg_at_position c 1;;
  Ok (negb (is_some_true a) && negb (is_some_true b)
      && negb (pyval_eqb p (PStr SafeLoader_s)) && negb (pyval_eqb p (PStr CSafeLoader_s))).

Definition yaml_name_hit (q : pstr) : bool :=
  mem_pstr (s2p "yaml") (qual_parts q) && pstr_eqb (qual_func q) (s2p "load").

Definition yaml_load_fn (c : ctx) : res (option rissue) :=
  match c_qualname c with
  | None => Raise AttributeError                       (* None.split *)
  | Some q =>
      if negb (is_module_imported_exact c (s2p "yaml")) then Ok None
      else
        do u <- yaml_args_unsafe c;;
        if yaml_name_hit q && u then
          match lineno_of (c_node c) with
          | Some l => Ok (Some (yaml_issue l))
          | None => Raise AttributeError
          end
        else Ok None
  end.

(* ------------------------------------------------------------------------------------------ *)
(* B614 pytorch_load                                                                           *)

Definition torch_text : pstr := s2p "Use of unsafe PyTorch load".
Definition torch_issue (l : option Z) : rissue := mk_issue MEDIUM HIGH 502 torch_text l.

Definition torch_name_hit (q : pstr) : bool :=
  mem_pstr (s2p "torch") (qual_parts q) && pstr_eqb (qual_func q) (s2p "load").

(* weights_only == 'True' (the `is True` disjunct can never hold: keyword values are str/None/...) *)
Definition weights_only_true (v : pyval) : bool := pyval_eqb v (PStr (s2p "True")).

Definition pytorch_load_fn (c : ctx) : res (option rissue) :=
  match c_qualname c with
  | None => Raise AttributeError
  | Some q =>
      if negb (is_module_imported_exact c (s2p "torch")) then Ok None
      else if torch_name_hit q then
        do w <- get_call_arg_value c (s2p "weights_only");;
        if weights_only_true w then Ok None
        else Ok (Some (torch_issue (get_lineno_for_call_arg c (s2p "load"))))
      else Ok None
  end.

(* ------------------------------------------------------------------------------------------ *)
(* B202 tarfile_unsafe_members                                                                 *)

Inductive members_val :=
| MFunction (id : pstr)        (* {'Function': <callee name>} *)
| MOtherName (id : pstr)       (* {'Other': arg.id} *)
| MOtherNode (n : node).       (* {'Other': <ast object>} *)

Definition tar_low_prefix : pstr :=
  s2p "Usage of tarfile.extractall(members=function(tarfile)). Make sure your function properly discards dangerous members ".
Definition tar_medium_prefix : pstr :=
  s2p "Found tarfile.extractall(members=?) but couldn't identify the type of members. Check if the members were properly validated ".
Definition tar_high_text : pstr :=
  s2p "tarfile.extractall used without any validation. Please check and discard dangerous members.".
Definition tar_suffix : pstr := s2p ").".

(* str() of the one-entry dict; an identifier's repr is the identifier in single quotes.
   For an AST object the text is '<ast.X object at 0x...>': not renderable, marked. *)
Definition ast_object_marker : pstr := s2p "<AST-OBJECT>".
Definition members_dict_str (m : members_val) : pstr :=
  match m with
  | MFunction f => s2p "{'Function': '" ++ f ++ s2p "'}"
  | MOtherName x => s2p "{'Other': '" ++ x ++ s2p "'}"
  | MOtherNode _ => s2p "{'Other': " ++ ast_object_marker ++ s2p "}"
  end.

Inductive tar_grade := TarLow | TarMedium | TarHigh.
Definition tar_issue (g : tar_grade) (m : pstr) : rissue :=
  match g with
  | TarLow => mk_issue LOW LOW 22 (tar_low_prefix ++ m ++ tar_suffix) None
  | TarMedium => mk_issue MEDIUM MEDIUM 22 (tar_medium_prefix ++ m ++ tar_suffix) None
  | TarHigh => mk_issue HIGH HIGH 22 tar_high_text None
  end.

(* get_members_value: None = the loop ends without a return.
   For a Call value: name = func.id if isinstance(func, ast.Name) else None;
                     {"Function": name or getattr(func, "attr", "")} *)
Definition members_callee_name (func : node) : pstr :=
  let name := if is_cls "Name" func then name_id func else [] in
  if truthy_str name then name else attr_of func.

Definition members_of_value (arg : node) : members_val :=
  if is_cls "Call" arg then MFunction (members_callee_name (field "func" arg))
  else if is_cls "Name" arg then MOtherName (name_id arg)
  else MOtherNode arg.

Definition get_members_value (c : ctx) : res (option members_val) :=
  do kws <- node_keywords c;;
  match first_kw (s2p "members") kws with
  | Some k => Ok (Some (members_of_value (field "value" k)))
  | None => Ok None
  end.

(* is_filter_data: truthiness of the result (None when no keyword is called filter) *)
Definition value_is_data (v : node) : bool :=
  match str_of v with Some s => pstr_eqb s (s2p "data") | None => false end.
Definition is_filter_data (c : ctx) : res bool :=
  do kws <- node_keywords c;;
  match first_kw (s2p "filter") kws with
  | Some k => Ok (value_is_data (field "value" k))
  | None => Ok false
  end.

Definition members_grade (m : members_val) : tar_grade :=
  match m with MFunction _ => TarLow | _ => TarMedium end.

Definition tarfile_name_hit (c : ctx) (nm : pstr) : bool :=
  is_module_imported_exact c (s2p "tarfile") && contains nm (s2p "extractall").

Definition tarfile_unsafe_members_fn (c : ctx) : res (option rissue) :=
  match c_name c with
  | None => Raise TypeError                                  (* 'extractall' in None *)
  | Some nm =>
      if tarfile_name_hit c nm then
        do kws <- call_keywords c;;
        match kws with
        | None => Raise TypeError                            (* 'filter' in None *)
        | Some l =>
            do fd <- (if kw_mem (s2p "filter") l then is_filter_data c else Ok false);;
            if fd then Ok None
            else if kw_mem (s2p "members") l then
              do m <- get_members_value c;;
              match m with
              | Some mv => Ok (Some (tar_issue (members_grade mv) (members_dict_str mv)))
              | None => Raise TypeError                      (* 'Function' in None *)
              end
            else Ok (Some (tar_issue TarHigh []))
        end
      else Ok None
  end.

(* ------------------------------------------------------------------------------------------ *)
(* B201 flask_debug_true                                                                       *)

Definition flask_text : pstr :=
  s2p "A Flask app appears to be run with debug=True, which exposes the Werkzeug debugger and allows the execution of arbitrary code.".
Definition flask_issue (l : option Z) : rissue := mk_issue HIGH MEDIUM 94 flask_text l.

Definition flask_debug_true_fn (c : ctx) : res (option rissue) :=
  if is_module_imported_like c (s2p "flask") then
    match c_qualname c with
    | None => Raise AttributeError                            (* None.endswith *)
    | Some q =>
        if endswith q (s2p ".run") then
          do r <- check_call_arg_value c (s2p "debug") [PStr (s2p "True")];;
          if is_some_true r
          then Ok (Some (flask_issue (get_lineno_for_call_arg c (s2p "debug"))))
          else Ok None
        else Ok None
    end
  else Ok None.

(* ------------------------------------------------------------------------------------------ *)
(* B612 logging_config_insecure_listen                                                         *)

Definition listen_text : pstr := s2p "Use of insecure logging.config.listen detected.".
Definition listen_issue : rissue := mk_issue MEDIUM HIGH 94 listen_text None.
Definition listen_qual : pstr := s2p "logging.config.listen".

Definition logging_config_insecure_listen_fn (c : ctx) : res (option rissue) :=
  if okey_eqb (c_qualname c) (Some listen_qual) then
    do kws <- call_keywords c;;
    match kws with
    | None => Raise TypeError                                 (* 'verify' not in None *)
    | Some l => if kw_mem (s2p "verify") l then Ok None else Ok (Some listen_issue)
    end
  else Ok None.

(* ------------------------------------------------------------------------------------------ *)
(* B601 paramiko_calls                                                                         *)

Definition paramiko_text : pstr :=
  s2p "Possible shell injection via Paramiko call, check inputs are properly sanitized.".
Definition paramiko_issue : rissue := mk_issue MEDIUM MEDIUM 78 paramiko_text None.

Definition paramiko_calls_fn (c : ctx) : res (option rissue) :=
  if is_module_imported_like c (s2p "paramiko") then
    if okey_eqb (c_name c) (Some (s2p "exec_command")) then Ok (Some paramiko_issue) else Ok None
  else Ok None.

(* ------------------------------------------------------------------------------------------ *)
(* B102 exec_used                                                                              *)

Definition exec_text : pstr := s2p "Use of exec detected.".
Definition exec_issue : rissue := mk_issue MEDIUM HIGH 78 exec_text None.

Definition exec_used_fn (c : ctx) : res (option rissue) :=
  if okey_eqb (c_qualname c) (Some (s2p "exec")) then Ok (Some exec_issue) else Ok None.

(* ------------------------------------------------------------------------------------------ *)
(* fnmatch.fnmatch on POSIX (normcase is the identity): fnmatch.translate + re.match            *)

Local Open Scope N_scope.

Inductive sitem := SLit (c : N) | SRange (lo hi : N).
Inductive gtok := GStar | GAny | GLit (c : N) | GSet (neg : bool) (its : list sitem).

Definition ch_star : N := 42.     (* * *)
Definition ch_qm : N := 63.       (* ? *)
Definition ch_lb : N := 91.       (* [ *)
Definition ch_rb : N := 93.       (* ] *)
Definition ch_bang : N := 33.     (* ! *)
Definition ch_hyphen : N := 45.   (* - *)

(* The chunk splitting of translate(): a '-' that follows a non-operator character and is followed by
   at least one more character is a range operator; the character after the upper end never is. *)
Fixpoint set_items (s : pstr) : list sitem :=
  match s with
  | [] => []
  | c :: rest =>
      match rest with
      | h :: hi :: rest' =>
          if h =? ch_hyphen then SRange c hi :: set_items rest' else SLit c :: set_items rest
      | _ => SLit c :: set_items rest
      end
  end.

(* "Remove empty ranges -- invalid in RE." *)
Definition sitem_nonempty (i : sitem) : bool :=
  match i with SLit _ => true | SRange lo hi => lo <=? hi end.

Definition sitem_accepts (i : sitem) (c : N) : bool :=
  match i with
  | SLit x => c =? x
  | SRange lo hi => (lo <=? c) && (c <=? hi)
  end.

(* stuff = pat[i:j] -> the character class.  GSet false [] is '(?!)', GSet true [] is '.'.
   When the pattern has no leading '!' but removing empty ranges leaves a '!' in front, translate()
   still reads it as the negation sign ('[b-a!x]' = '[^x]', '[b-a!-z]' = '[^-z]'). *)
Definition set_token_pos (its : list sitem) : gtok :=
  match its with
  | SLit x :: r => if x =? ch_bang then GSet true r else GSet false its
  | SRange lo hi :: r =>
      if lo =? ch_bang then GSet true (SLit ch_hyphen :: SLit hi :: r) else GSet false its
  | [] => GSet false []
  end.
Definition set_token (body : pstr) : gtok :=
  match body with
  | c :: core =>
      if c =? ch_bang then GSet true (filter sitem_nonempty (set_items core))
      else set_token_pos (filter sitem_nonempty (set_items body))
  | [] => GSet false []
  end.

(* characters up to (excluding) the first ']' ; None when there is none *)
Fixpoint until_rbracket (p : pstr) : option pstr :=
  match p with
  | [] => None
  | c :: p' => if c =? ch_rb then Some [] else option_map (cons c) (until_rbracket p')
  end.

(* p = the pattern after a '[' ; the text between the brackets, None when the set is not closed *)
Definition set_body (p : pstr) : option pstr :=
  let pre1 := match p with c :: _ => if c =? ch_bang then [c] else [] | [] => [] end in
  let p1 := skipn (List.length pre1) p in
  let pre2 := match p1 with c :: _ => if c =? ch_rb then [c] else [] | [] => [] end in
  let p2 := skipn (List.length pre2) p1 in
  option_map (fun b => pre1 ++ pre2 ++ b) (until_rbracket p2).

(* translate(): pattern text -> tokens; [skip] characters are consumed by a set already emitted *)
Fixpoint glob_parse_aux (p : pstr) (skip : nat) : list gtok :=
  match p with
  | [] => []
  | c :: p' =>
      match skip with
      | S k => glob_parse_aux p' k
      | O =>
          if c =? ch_star then GStar :: glob_parse_aux p' O
          else if c =? ch_qm then GAny :: glob_parse_aux p' O
          else if c =? ch_lb then
            match set_body p' with
            | Some b => set_token b :: glob_parse_aux p' (S (List.length b))
            | None => GLit c :: glob_parse_aux p' O
            end
          else GLit c :: glob_parse_aux p' O
      end
  end.
Definition glob_parse (p : pstr) : list gtok := glob_parse_aux p O.

Definition tok_accepts (t : gtok) (c : N) : bool :=
  match t with
  | GStar => false
  | GAny => true
  | GLit x => c =? x
  | GSet neg its => xorb neg (existsb (fun i => sitem_accepts i c) its)
  end.

(* re.match('(?s:...)\Z', name) on the token sequence *)
Fixpoint glob_match (ts : list gtok) : pstr -> bool :=
  match ts with
  | [] => fun s => match s with [] => true | _ => false end
  | GStar :: ts' =>
      fix star (s : pstr) : bool :=
        glob_match ts' s || match s with [] => false | _ :: s' => star s' end
  | t :: ts' =>
      fun s => match s with [] => false | c :: s' => tok_accepts t c && glob_match ts' s' end
  end.

Definition fnmatch_b (name pat : pstr) : bool := glob_match (glob_parse pat) name.

Local Close Scope N_scope.

(* ------------------------------------------------------------------------------------------ *)
(* B101 assert_used                                                                            *)

Definition assert_text : pstr :=
  s2p "Use of assert detected. The enclosed code will be removed when compiling to optimised byte code.".
Definition assert_issue : rissue := mk_issue LOW HIGH 703 assert_text None.

(* config.get('skips', []) as the sequence the for loop iterates *)
Definition assert_skips (cfg : jv) : res (list jv) :=
  match cfg with
  | JDict kv =>
      match assoc (s2p "skips") kv with
      | None => Ok []
      | Some (JList l) => Ok l
      | Some (JStr s) => Ok (map (fun ch => JStr [ch]) s)      (* iterating a str *)
      | Some (JDict d) => Ok (map (fun kv => JStr (fst kv)) d) (* iterating a dict's keys *)
      | Some _ => Raise TypeError                                (* None / int / bool not iterable *)
      end
  | _ => Raise AttributeError                                    (* no .get *)
  end.

Fixpoint assert_loop (fname : pstr) (skips : list jv) : res (option rissue) :=
  match skips with
  | [] => Ok (Some assert_issue)
  | JStr g :: t => if fnmatch_b fname g then Ok None else assert_loop fname t
  | _ :: _ => Raise TypeError                                    (* os.fspath(non-str) *)
  end.

Definition assert_used_fn (cfg : jv) (c : ctx) : res (option rissue) :=
  do skips <- assert_skips cfg;;
  assert_loop (c_filename c) skips.

(* ------------------------------------------------------------------------------------------ *)
(* B110 try_except_pass / B112 try_except_continue                                             *)

Definition try_pass_text : pstr := s2p "Try, Except, Pass detected.".
Definition try_continue_text : pstr := s2p "Try, Except, Continue detected.".
Definition try_issue (text : pstr) : rissue := mk_issue LOW HIGH 703 text None.

(* config['check_typed_exception'] as a truth value *)
Definition cfg_check_typed (cfg : jv) : res bool :=
  match cfg with
  | JDict kv =>
      match assoc (s2p "check_typed_exception") kv with
      | Some v => Ok (jv_truthy v)
      | None => Raise KeyError
      end
  | _ => Raise TypeError                                         (* str/list indices, None/int not subscriptable *)
  end.

(* len(node.body) *)
Definition handler_body (n : node) : res (list node) :=
  match field_opt "body" n with
  | Some (NList l) => Ok l
  | Some _ => Raise TypeError
  | None => Raise AttributeError
  end.

(* node.type is None or getattr(node.type, 'id', None) == 'Exception' *)
Definition type_is_broad (t : node) : bool :=
  match t with
  | NNone => true
  | _ => match field_opt "id" t with
         | Some (NId s) => pstr_eqb s (s2p "Exception")
         | _ => false
         end
  end.

(* the early `return` of the typed-exception test: Ok true = go on to the isinstance test *)
Definition typed_gate (cfg : jv) (n : node) : res bool :=
  do b <- cfg_check_typed cfg;;
  if b then Ok true
  else match field_opt "type" n with
       | Some t => Ok (type_is_broad t)
       | None => Raise AttributeError
       end.

Definition try_except_fn (stmt_cls : string) (text : pstr) (cfg : jv) (c : ctx) : res (option rissue) :=
  let n := c_node c in
  do body <- handler_body n;;
  match body with
  | [s] =>
      do go <- typed_gate cfg n;;
      if go then
        if is_cls stmt_cls s then Ok (Some (try_issue text)) else Ok None
      else Ok None
  | _ => Ok None
  end.

Definition try_except_pass_fn : jv -> ctx -> res (option rissue) := try_except_fn "Pass" try_pass_text.
Definition try_except_continue_fn : jv -> ctx -> res (option rissue) :=
  try_except_fn "Continue" try_continue_text.

(* ------------------------------------------------------------------------------------------ *)

Definition misc_plugins : list plugin := [
  Plugin (s2p "yaml_load") (fun _ => yaml_load_fn);
  Plugin (s2p "pytorch_load") (fun _ => pytorch_load_fn);
  Plugin (s2p "tarfile_unsafe_members") (fun _ => tarfile_unsafe_members_fn);
  Plugin (s2p "flask_debug_true") (fun _ => flask_debug_true_fn);
  Plugin (s2p "logging_config_insecure_listen") (fun _ => logging_config_insecure_listen_fn);
  Plugin (s2p "paramiko_calls") (fun _ => paramiko_calls_fn);
  Plugin (s2p "exec_used") (fun _ => exec_used_fn);
  Plugin (s2p "assert_used") assert_used_fn;
  Plugin (s2p "try_except_pass") try_except_pass_fn;
  Plugin (s2p "try_except_continue") try_except_continue_fn
].
