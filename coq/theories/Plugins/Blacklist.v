(* bandit.core.blacklisting.blacklist (B001) *)
From Coq Require Import List NArith ZArith Bool String.
From Bandit Require Import Base.PyStr Ast.Node Engine.Types Engine.Resolve Engine.Context Engine.Tables.
Import ListNotations.
Local Open Scope string_scope.
Local Open Scope list_scope.

Definition name_placeholder : pstr := s2p "{name}".

Definition report_issue (r : bl_rule) (name : pstr) : rissue :=
  RIssue (bl_level r) HIGH (bl_cwe r) (replace (bl_message r) name_placeholder name)
         None (Some (bl_id r)) None None.

(* first (rule, qualname) in rule-major order with qualname = name *)
Fixpoint first_rule_listing (name : pstr) (rules : list bl_rule) : option bl_rule :=
  match rules with
  | [] => None
  | r :: t => if mem_pstr name (bl_qualnames r) then Some r else first_rule_listing name t
  end.

Definition blacklist_call_name (c : ctx) : res pyval :=
  let n := c_node c in
  let func := field "func" n in
  if is_cls "Name" func && pstr_eqb (name_id func) (s2p "__import__") then
    match field_list "args" n with
    | a :: _ => match str_of a with Some s => Ok (PStr s) | None => Ok (PStr (s2p "UNKNOWN")) end
    | [] => Ok (PStr [])
    end
  else
    match c_qualname c with
    | None => Ok PNone
    | Some q =>
        if mem_pstr q [s2p "importlib.import_module"; s2p "importlib.__import__"] then
          match call_args_count c with
          | Some (S _) => do args <- call_args c;; Ok (hd PNone args)
          | _ => do kws <- call_keywords c;;
                 match kws with
                 | Some l => match kw_lookup (s2p "name") l with Some v => Ok v | None => Ok PNone end   (* .get("name") *)
                 | None => Raise TypeError
                 end
          end
        else Ok (PStr q)
    end.

(* first (rule, imported name) in rule-major, name-middle, qualname-inner order with a dotted-prefix hit *)
Definition dotted_prefix_b (full qn : pstr) : bool :=
  pstr_eqb full qn || startswith full (qn ++ [dot]).
Definition import_hit (prefix : pstr) (names : list node) (r : bl_rule) : option pstr :=
  match find (fun a => existsb (fun qn => dotted_prefix_b (prefix ++ (match field "name" a with NId s => s | _ => [] end)) qn)
                               (bl_qualnames r)) names with
  | Some a => Some (match field "name" a with NId s => s | _ => [] end)
  | None => None
  end.
Fixpoint first_import_rule (prefix : pstr) (names : list node) (rules : list bl_rule) : option (bl_rule * pstr) :=
  match rules with
  | [] => None
  | r :: t => match import_hit prefix names r with
              | Some nm => Some (r, nm)
              | None => first_import_rule prefix names t
              end
  end.

Definition blacklist (tab : bl_table) (c : ctx) : res (option rissue) :=
  let n := c_node c in
  let nt := cls_of n in
  if String.eqb nt "Call" then
    do name <- blacklist_call_name c;;
    match bl_lookup nt tab with
    | None => Raise KeyError
    | Some rules =>
        match name with
        | PStr s => match first_rule_listing s rules with
                    | Some r => Ok (Some (report_issue r s))
                    | None => Ok None
                    end
        | _ => Ok None
        end
    end
  else if String.eqb nt "Import" || String.eqb nt "ImportFrom" then
    let prefix := if String.eqb nt "ImportFrom" then
                    match field "module" n with NId m => m ++ [dot] | _ => [] end
                  else [] in
    match bl_lookup nt tab with
    | None => Raise KeyError
    | Some rules =>
        match first_import_rule prefix (field_list "names" n) rules with
        | Some (r, nm) => Ok (Some (report_issue r nm))
        | None => Ok None
        end
    end
  else Ok None.

(* BanditTestSet._load_builtins: the filtered table and the node types the check is registered for *)
Definition filter_table (sel : pstr -> bool) (tab : bl_table) : bl_table :=
  flat_map (fun kv => match filter (fun r => sel (bl_id r)) (snd kv) with
                      | [] => []
                      | vs => [(fst kv, vs)]
                      end) tab.

Definition blacklist_test (tab : bl_table) : test :=
  Test (s2p "B001") (s2p "blacklist") (map fst tab) (blacklist tab).
