(* The registry of modelled plugins (entry-point name -> Gallina function). *)
From Coq Require Import List NArith ZArith Bool String.
From Bandit Require Import Base.PyStr Ast.Node Engine.Types Engine.Scan
     Plugins.Shell Plugins.Crypto Plugins.Secrets Plugins.Inject Plugins.Misc Plugins.Trojan Gen.Constants.
Import ListNotations.
Definition all_plugins : list plugin :=
  shell_plugins ++ crypto_plugins ++ secrets_plugins ++ inject_plugins ++ misc_plugins
  ++ [Plugin (s2p "trojansource") (trojansource BIDI_CHARACTERS)].
