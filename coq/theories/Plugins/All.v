(* The registry of modelled plugins (name -> Gallina function). *)
From Coq Require Import List NArith ZArith Bool String.
From Bandit Require Import Base.PyStr Ast.Node Engine.Types Engine.Scan.
Import ListNotations.
Definition all_plugins : list plugin := [].
