(* Plugin family "crypto": Gallina models of bandit plugins; definitions only (proofs go to Proofs/).
   B324 hashlib, B505 weak_cryptographic_key, B502/B503/B504 insecure_ssl_tls, B501
   request_with_no_cert_validation, B113 request_without_timeout, B507 ssh_no_host_key_verification,
   B508/B509 snmp_security_check. *)
From Coq Require Import List NArith ZArith Bool String.
From Bandit Require Import Base.PyStr Ast.Node Engine.Types Engine.Resolve Engine.Context Engine.Linerange
     Engine.Scan Regex.Regex.
Import ListNotations.
Local Open Scope string_scope.
Local Open Scope list_scope.

(* ------------------------------------------------------------------------------------------------ *)
(* Python value helpers                                                                              *)
(* ------------------------------------------------------------------------------------------------ *)

(* bool(v) *)
Definition truthy (v : pyval) : bool :=
  match v with
  | PNone => false
  | PInt z => negb (Z.eqb z 0)
  | PFloat _ t | PComplex _ t => t
  | PStr s => truthy_str s
  | PBytes b => match b with [] => false | _ => true end
  | PList l | PTuple l | PSet l => match l with [] => false | _ => true end
  | PDict kv => match kv with [] => false | _ => true end
  end.

Definition ascii_upper (c : N) : N := if (97 <=? c)%N && (c <=? 122)%N then (c - 32)%N else c.
Definition lower (s : pstr) : pstr := map ascii_lower s.
Definition upper (s : pstr) : pstr := map ascii_upper s.

(* The decimal value of a float literal's repr ("2048.0", "1e+22", "1.5e-05", "inf"): Some (m, e) stands
   for m * 10^e, None for inf.  Float literals are never negative (a sign is a UnaryOp). *)
Fixpoint take_digits (s : pstr) (acc : Z) (n : Z) : Z * Z * pstr :=
  match s with
  | c :: s' => if is_digit c then take_digits s' (acc * 10 + Z.of_N (c - 48))%Z (n + 1)%Z
               else (acc, n, s)
  | [] => (acc, n, [])
  end.
Definition dec_exponent (s : pstr) : option Z :=
  match s with
  | [] => Some 0%Z
  | 101%N :: 43%N :: ds => let '(e, _, _) := take_digits ds 0%Z 0%Z in Some e
  | 101%N :: 45%N :: ds => let '(e, _, _) := take_digits ds 0%Z 0%Z in Some (- e)%Z
  | _ => None
  end.
Definition float_dec (r : pstr) : option (Z * Z) :=
  let '(m1, _, rest1) := take_digits r 0%Z 0%Z in
  match rest1 with
  | 46%N :: rest =>
      let '(m2, nf, rest2) := take_digits rest m1 0%Z in
      option_map (fun e => (m2, (e - nf)%Z)) (dec_exponent rest2)
  | _ => option_map (fun e => (m1, e)) (dec_exponent rest1)
  end.
(* The IEEE binary64 number nearest to m * 10^e (round half to even, gradual underflow): (q, k) stands
   for q * 2^k.  repr() round-trips, so this is exactly the float the literal denotes. *)
Definition to_binary64 (m e : Z) : Z * Z :=
  if (m <=? 0)%Z then (0, 0)%Z else
  let n := if (0 <=? e)%Z then (m * 10 ^ e)%Z else m in
  let d := if (0 <=? e)%Z then 1%Z else (10 ^ (- e))%Z in
  let scaled (k : Z) : Z * Z :=                (* n / (d * 2^k) as a fraction *)
    if (0 <=? k)%Z then (n, d * 2 ^ k)%Z else (n * 2 ^ (- k), d)%Z in
  let k0 := (Z.log2 n - Z.log2 d - 52)%Z in
  let q0 := (let (a, b) := scaled k0 in a / b)%Z in
  let k1 := if (2 ^ 53 <=? q0)%Z then (k0 + 1)%Z else if (q0 <? 2 ^ 52)%Z then (k0 - 1)%Z else k0 in
  let k := Z.max k1 (-1074) in
  let (a, b) := scaled k in
  let q := (a / b)%Z in
  let r := (a mod b)%Z in
  let q' := if (b <? 2 * r)%Z then (q + 1)%Z
            else if (2 * r =? b)%Z then (if Z.odd q then q + 1 else q)%Z
            else q in
  (q', k).
Definition bin_ltb_Z (x : Z * Z) (s : Z) : bool :=
  let (q, k) := x in
  if (0 <=? k)%Z then (q * 2 ^ k <? s)%Z else (q <? s * 2 ^ (- k))%Z.
Definition bin_eqb_Z (x : Z * Z) (s : Z) : bool :=
  let (q, k) := x in
  if (0 <=? k)%Z then (q * 2 ^ k =? s)%Z else (q =? s * 2 ^ (- k))%Z.
(* float < int and float == int, exactly as Python compares them (inf is neither below nor equal) *)
Definition float_ltb_Z (r : pstr) (s : Z) : bool :=
  match float_dec r with Some (m, e) => bin_ltb_Z (to_binary64 m e) s | None => false end.
Definition float_eqb_Z (r : pstr) (s : Z) : bool :=
  match float_dec r with Some (m, e) => bin_eqb_Z (to_binary64 m e) s | None => false end.

(* configuration values that behave as numbers: int, and bool (True == 1) *)
Definition thr_num (j : jv) : option Z :=
  match j with
  | JInt z => Some z
  | JBool b => Some (if b then 1%Z else 0%Z)
  | _ => None
  end.

(* literal_value == int constant (B508 compares with 0 and 1; 0.0 == 0, 0j == 0, 1.0 == 1) *)
Definition pv_eq_Z (v : pyval) (z : Z) : bool :=
  match v with
  | PInt x => Z.eqb x z
  | PFloat r _ => float_eqb_Z r z
  | PComplex _ t => negb t && Z.eqb z 0     (* an imaginary literal is real only when it is 0j *)
  | _ => false
  end.

(* literal_value == configuration value *)
Fixpoint pv_eq_jv (v : pyval) (j : jv) : bool :=
  match v, j with
  | PNone, JNull => true
  | PStr s, JStr s' => pstr_eqb s s'
  | PList l, JList l' =>
      (fix go (l1 : list pyval) (l2 : list jv) : bool :=
         match l1, l2 with
         | [], [] => true
         | u :: l1', w :: l2' => pv_eq_jv u w && go l1' l2'
         | _, _ => false
         end) l l'
  | PDict [], JDict [] => true
  | (PInt _ | PFloat _ _ | PComplex _ _), (JInt _ | JBool _) =>
      match thr_num j with Some z => pv_eq_Z v z | None => false end
  | _, _ => false
  end.

(* config[k] *)
Definition cfg_item (cfg : jv) (k : pstr) : res jv :=
  match cfg with
  | JDict kv => match assoc k kv with Some v => Ok v | None => Raise KeyError end
  | _ => Raise TypeError
  end.

(* keywords.get(k, d) on the call_keywords dictionary (None has no .get) *)
Definition kw_get_default (kws : option (list (option pstr * pyval))) (k : pstr) (d : pyval) : res pyval :=
  match kws with
  | Some l => Ok (match kw_lookup k l with Some v => v | None => d end)
  | None => Raise AttributeError
  end.

(* context.node.lineno *)
Definition node_lineno (c : ctx) : res Z :=
  match lineno_of (c_node c) with Some l => Ok l | None => Raise AttributeError end.

(* check_call_arg_value(...) used as a condition: only True is truthy *)
Definition is_true (o : option bool) : bool := match o with Some true => true | _ => false end.
Definition is_none (o : option bool) : bool := match o with None => true | _ => false end.

Definition qual_is (c : ctx) (q : pstr) : bool :=
  match c_qualname c with Some x => pstr_eqb x q | None => false end.
Definition name_in (c : ctx) (l : list pstr) : bool :=
  match c_name c with Some n => mem_pstr n l | None => false end.

(* ------------------------------------------------------------------------------------------------ *)
(* B324 hashlib                                                                                      *)
(* ------------------------------------------------------------------------------------------------ *)

Definition weak_hashes : list pstr := [s2p "md4"; s2p "md5"; s2p "sha"; s2p "sha1"].
Definition weak_crypt_hashes : list pstr := [s2p "METHOD_CRYPT"; s2p "METHOD_MD5"; s2p "METHOD_BLOWFISH"].

Definition hash_issue (name_upper : pstr) (l : Z) : rissue :=
  RIssue HIGH HIGH 327
         (s2p "Use of weak " ++ name_upper ++ s2p " hash for security. Consider usedforsecurity=False")
         (Some l) None None None.
Definition crypt_issue (name_upper : pstr) (l : Z) : rissue :=
  RIssue MEDIUM HIGH 327
         (s2p "Use of insecure crypt." ++ name_upper ++ s2p " hash function.")
         (Some l) None None None.

(* keywords.get("usedforsecurity", "True") == "True" *)
Definition used_for_security (kws : option (list (option pstr * pyval))) : res bool :=
  do v <- kw_get_default kws (s2p "usedforsecurity") (PStr (s2p "True"));;
  Ok (pyval_eqb v (PStr (s2p "True"))).

Definition report_weak_hash (c : ctx) (kws : option (list (option pstr * pyval))) (name : pstr)
  : res (option rissue) :=
  do u <- used_for_security kws;;
  if u then do l <- node_lineno c;; Ok (Some (hash_issue (upper name) l)) else Ok None.

(* name = args[0] if args else keywords.get("name", None) *)
Definition hash_new_name (args : list pyval) (kws : option (list (option pstr * pyval))) : res pyval :=
  match args with
  | a :: _ => Ok a
  | [] => kw_get_default kws (s2p "name") PNone
  end.

Definition is_weak_hash_name (v : pyval) : bool :=
  match v with PStr s => mem_pstr (lower s) weak_hashes | _ => false end.

Definition hashlib_func (c : ctx) (func : pstr) : res (option rissue) :=
  do kws <- call_keywords c;;
  if mem_pstr func weak_hashes then report_weak_hash c kws func
  else if pstr_eqb func (s2p "new") then
    do args <- call_args c;;
    do name <- hash_new_name args kws;;
    match name with
    | PStr s => if mem_pstr (lower s) weak_hashes then report_weak_hash c kws s else Ok None
    | _ => Ok None
    end
  else Ok None.

Definition report_weak_crypt (c : ctx) (name : pyval) : res (option rissue) :=
  match name with
  | PStr s => if mem_pstr s weak_crypt_hashes
              then do l <- node_lineno c;; Ok (Some (crypt_issue (upper s) l))
              else Ok None
  | _ => Ok None
  end.

Definition crypt_crypt (c : ctx) (func : pstr) : res (option rissue) :=
  do args <- call_args c;;
  do kws <- call_keywords c;;
  if pstr_eqb func (s2p "crypt") then
    do name <- match args with
               | _ :: a :: _ => Ok a
               | _ => kw_get_default kws (s2p "salt") PNone
               end;;
    report_weak_crypt c name
  else if pstr_eqb func (s2p "mksalt") then
    do name <- match args with
               | a :: _ => Ok a
               | [] => kw_get_default kws (s2p "method") PNone
               end;;
    report_weak_crypt c name
  else Ok None.

Definition hashlib (c : ctx) : res (option rissue) :=
  match c_qualname c with
  | None => Ok None
  | Some q =>
      let ql := split_on dot q in
      let func := last ql [] in
      if mem_pstr (s2p "hashlib") ql then hashlib_func c func
      else if mem_pstr (s2p "crypt") ql && mem_pstr func [s2p "crypt"; s2p "mksalt"]
      then crypt_crypt c func
      else Ok None
  end.

(* ------------------------------------------------------------------------------------------------ *)
(* B505 weak_cryptographic_key                                                                       *)
(* ------------------------------------------------------------------------------------------------ *)

Inductive key_type := DSA | RSA | EC.
Definition kt_name (k : key_type) : pstr :=
  match k with DSA => s2p "DSA" | RSA => s2p "RSA" | EC => s2p "EC" end.

Definition weak_key_default_cfg : jv :=
  JDict [(s2p "weak_key_size_dsa_high", JInt 1024); (s2p "weak_key_size_dsa_medium", JInt 2048);
         (s2p "weak_key_size_rsa_high", JInt 1024); (s2p "weak_key_size_rsa_medium", JInt 2048);
         (s2p "weak_key_size_ec_high", JInt 160); (s2p "weak_key_size_ec_medium", JInt 224)].

(* the key_sizes dictionary is built in full (six config look-ups) before it is indexed *)
Definition thresholds (cfg : jv) (kt : key_type) : res (jv * jv) :=
  do dh <- cfg_item cfg (s2p "weak_key_size_dsa_high");;
  do dm <- cfg_item cfg (s2p "weak_key_size_dsa_medium");;
  do rh <- cfg_item cfg (s2p "weak_key_size_rsa_high");;
  do rm <- cfg_item cfg (s2p "weak_key_size_rsa_medium");;
  do eh <- cfg_item cfg (s2p "weak_key_size_ec_high");;
  do em <- cfg_item cfg (s2p "weak_key_size_ec_medium");;
  Ok (match kt with DSA => (dh, dm) | RSA => (rh, rm) | EC => (eh, em) end).

(* key_size < size, reached only with an int or float key_size (see classify_key_size): a numeric
   threshold (int, or bool as 0/1) is compared exactly; any other threshold (str, None, list, dict)
   makes Python raise TypeError. *)
Definition lt_threshold (k : pyval) (size : jv) : res bool :=
  match thr_num size with
  | Some s =>
      match k with
      | PInt z => Ok (z <? s)%Z
      | PFloat r _ => Ok (float_ltb_Z r s)
      | _ => Raise TypeError
      end
  | None => Raise TypeError
  end.

Definition key_issue (kt : key_type) (lvl : rank) (size : jv) : rissue :=
  RIssue lvl HIGH 326
         (kt_name kt ++ s2p " key sizes below "
          ++ str_of_Z (match thr_num size with Some s => s | None => 0%Z end)
          ++ s2p " bits are considered breakable. ")
         None None None None.

(* isinstance(key_size, bool) or not isinstance(key_size, (int, float)) -> return.  A pyval is never a
   Python bool (True/False literals arrive as the strings 'True'/'False'), so exactly PInt and PFloat pass. *)
Definition is_number (k : pyval) : bool :=
  match k with PInt _ | PFloat _ _ => true | _ => false end.

Definition classify_key_size (cfg : jv) (kt : key_type) (k : pyval) : res (option rissue) :=
  if is_number k then
    do th <- thresholds cfg kt;;
    do b <- lt_threshold k (fst th);;
    if b then Ok (Some (key_issue kt HIGH (fst th)))
    else do b2 <- lt_threshold k (snd th);;
         if b2 then Ok (Some (key_issue kt MEDIUM (snd th))) else Ok None
  else Ok None.

(* get_call_arg_value(kw) or get_call_arg_at_position(pos) or 2048 *)
Definition key_size_of (c : ctx) (kw : pstr) (pos : nat) : res pyval :=
  do a <- get_call_arg_value c kw;;
  if truthy a then Ok a
  else do b <- get_call_arg_at_position c pos;;
       if truthy b then Ok b else Ok (PInt 2048).

(* curve_key_sizes of the plugin: written once, as data *)
Definition curve_table : list (string * Z) :=
  [("SECT571K1", 571); ("SECT571R1", 570); ("SECP521R1", 521); ("BrainpoolP512R1", 512);
   ("SECT409K1", 409); ("SECT409R1", 409); ("BrainpoolP384R1", 384); ("SECP384R1", 384);
   ("SECT283K1", 283); ("SECT283R1", 283); ("BrainpoolP256R1", 256); ("SECP256K1", 256);
   ("SECP256R1", 256); ("SECT233K1", 233); ("SECT233R1", 233); ("SECP224R1", 224);
   ("SECP192R1", 192); ("SECT163K1", 163); ("SECT163R2", 163)]%Z.
Definition curve_key_sizes : list (pstr * Z) := map (fun kv => (s2p (fst kv), snd kv)) curve_table.

(* curve = get_call_arg_value("curve") or (len(call_args) > 0 and call_args[0]);  None = Python False *)
Definition ec_curve (c : ctx) : res (option pyval) :=
  do v <- get_call_arg_value c (s2p "curve");;
  if truthy v then Ok (Some v)
  else do args <- call_args c;;
       match args with
       | [] => Ok None
       | a :: _ => Ok (Some a)
       end.

(* curve_key_sizes[curve] if isinstance(curve, str) and curve in curve_key_sizes else 224 *)
Definition curve_size (curve : option pyval) : Z :=
  match curve with
  | Some (PStr s) => match assoc s curve_key_sizes with Some z => z | None => 224%Z end
  | _ => 224%Z
  end.

Definition cryptography_io_funcs : list (pstr * key_type) :=
  [(s2p "cryptography.hazmat.primitives.asymmetric.dsa.generate_private_key", DSA);
   (s2p "cryptography.hazmat.primitives.asymmetric.rsa.generate_private_key", RSA);
   (s2p "cryptography.hazmat.primitives.asymmetric.ec.generate_private_key", EC)].
Definition pycrypto_funcs : list (pstr * key_type) :=
  [(s2p "Crypto.PublicKey.DSA.generate", DSA); (s2p "Crypto.PublicKey.RSA.generate", RSA);
   (s2p "Cryptodome.PublicKey.DSA.generate", DSA); (s2p "Cryptodome.PublicKey.RSA.generate", RSA)].

Definition func_key_type (tab : list (pstr * key_type)) (c : ctx) : option key_type :=
  match c_qualname c with Some q => assoc q tab | None => None end.

Definition arg_position (kt : key_type) : nat := match kt with RSA => 1 | _ => 0 end.

Definition weak_crypto_key_size_cryptography_io (c : ctx) (cfg : jv) : res (option rissue) :=
  match func_key_type cryptography_io_funcs c with
  | Some EC =>
      do curve <- ec_curve c;;
      classify_key_size cfg EC (PInt (curve_size curve))
  | Some kt =>
      do ks <- key_size_of c (s2p "key_size") (arg_position kt);;
      classify_key_size cfg kt ks
  | None => Ok None
  end.

Definition weak_crypto_key_size_pycrypto (c : ctx) (cfg : jv) : res (option rissue) :=
  match func_key_type pycrypto_funcs c with
  | Some kt =>
      do ks <- key_size_of c (s2p "bits") 0;;
      classify_key_size cfg kt ks
  | None => Ok None
  end.

Definition weak_cryptographic_key (c : ctx) (cfg : jv) : res (option rissue) :=
  do r <- weak_crypto_key_size_cryptography_io c cfg;;
  match r with
  | Some i => Ok (Some i)
  | None => weak_crypto_key_size_pycrypto c cfg
  end.

(* ------------------------------------------------------------------------------------------------ *)
(* B502 / B503 / B504 insecure_ssl_tls                                                               *)
(* ------------------------------------------------------------------------------------------------ *)

Definition get_bad_proto_versions (cfg : jv) : res jv := cfg_item cfg (s2p "bad_protocol_versions").

(* check_call_arg_value(name, <config value>): a non-list value is wrapped into a one-element list *)
Definition cfg_values (bad : jv) : list jv := match bad with JList l => l | _ => [bad] end.
Definition check_call_arg_cfg (c : ctx) (name : pstr) (bad : jv) : res (option bool) :=
  do v <- get_call_arg_value c name;;
  match v with
  | PNone => Ok None
  | _ => Ok (Some (existsb (pv_eq_jv v) (cfg_values bad)))
  end.

Definition ssl_issue (sev conf : rank) (text : pstr) (l : option Z) : rissue :=
  RIssue sev conf 327 text l None None None.

Definition txt_wrap_socket_bad : pstr :=
  s2p "ssl.wrap_socket call with insecure SSL/TLS protocol version identified, security issue.".
Definition txt_context_bad : pstr :=
  s2p "SSL.Context call with insecure SSL/TLS protocol version identified, security issue.".
Definition txt_other_bad : pstr :=
  s2p "Function call with insecure SSL/TLS protocol identified, possible security issue.".
Definition txt_default_bad : pstr :=
  s2p "Function definition identified with insecure SSL/TLS protocol version by default, possible security issue.".
Definition txt_no_version : pstr :=
  s2p "ssl.wrap_socket call with no SSL/TLS protocol version specified, the default SSLv23 could be insecure, possible security issue.".

Definition q_wrap_socket : pstr := s2p "ssl.wrap_socket".
Definition q_ssl_context : pstr := s2p "pyOpenSSL.SSL.Context".

Definition ssl_with_bad_version (c : ctx) (cfg : jv) : res (option rissue) :=
  do bad <- get_bad_proto_versions cfg;;
  if qual_is c q_wrap_socket then
    do r <- check_call_arg_cfg c (s2p "ssl_version") bad;;
    if is_true r
    then Ok (Some (ssl_issue HIGH HIGH txt_wrap_socket_bad (get_lineno_for_call_arg c (s2p "ssl_version"))))
    else Ok None
  else if qual_is c q_ssl_context then
    do r <- check_call_arg_cfg c (s2p "method") bad;;
    if is_true r
    then Ok (Some (ssl_issue HIGH HIGH txt_context_bad (get_lineno_for_call_arg c (s2p "method"))))
    else Ok None
  else
    do r1 <- check_call_arg_cfg c (s2p "method") bad;;
    do r <- (if is_true r1 then Ok true
             else do r2 <- check_call_arg_cfg c (s2p "ssl_version") bad;; Ok (is_true r2));;
    if r then
      let l := match get_lineno_for_call_arg c (s2p "method") with
               | Some l => Some l
               | None => get_lineno_for_call_arg c (s2p "ssl_version")
               end in
      Ok (Some (ssl_issue MEDIUM MEDIUM txt_other_bad l))
    else Ok None.

(* val in bad_ssl_versions, for a str val *)
Definition in_cfg (val : pstr) (bad : jv) : res bool :=
  match bad with
  | JList l => Ok (existsb (fun j => match j with JStr s => pstr_eqb val s | _ => false end) l)
  | JStr s => Ok (contains s val)
  | JDict kv => Ok (existsb (fun p => pstr_eqb val (fst p)) kv)
  | _ => Raise TypeError
  end.

Fixpoint first_bad_default (bad : jv) (ds : list pstr) : res bool :=
  match ds with
  | [] => Ok false
  | d :: t => do b <- in_cfg (last (split_on dot d) []) bad;;
              if b then Ok true else first_bad_default bad t
  end.

Definition ssl_with_bad_defaults (c : ctx) (cfg : jv) : res (option rissue) :=
  do bad <- get_bad_proto_versions cfg;;
  do b <- first_bad_default bad (function_def_defaults_qual c);;
  if b then Ok (Some (ssl_issue MEDIUM MEDIUM txt_default_bad None)) else Ok None.

Definition ssl_with_no_version (c : ctx) : res (option rissue) :=
  if qual_is c q_wrap_socket then
    do r <- check_call_arg_value c (s2p "ssl_version") [PNone];;
    if is_none r
    then Ok (Some (ssl_issue LOW MEDIUM txt_no_version (get_lineno_for_call_arg c (s2p "ssl_version"))))
    else Ok None
  else Ok None.

(* ------------------------------------------------------------------------------------------------ *)
(* B501 request_with_no_cert_validation, B113 request_without_timeout                                *)
(* ------------------------------------------------------------------------------------------------ *)

Definition http_verbs : list pstr :=
  [s2p "get"; s2p "options"; s2p "head"; s2p "post"; s2p "put"; s2p "patch"; s2p "delete"].
Definition httpx_attrs : list pstr :=
  [s2p "request"; s2p "stream"; s2p "Client"; s2p "AsyncClient"] ++ http_verbs.

(* context.call_function_name_qual.split(".")[0] *)
Definition qual_head (c : ctx) : res pstr :=
  match c_qualname c with
  | Some q => Ok (hd [] (split_on dot q))
  | None => Raise AttributeError
  end.

Definition is_requests_call (c : ctx) (h : pstr) : bool :=
  pstr_eqb h (s2p "requests") && name_in c http_verbs.
Definition is_httpx_call (c : ctx) (h : pstr) : bool :=
  pstr_eqb h (s2p "httpx") && name_in c httpx_attrs.

Definition verify_issue (h : pstr) (l : option Z) : rissue :=
  RIssue HIGH HIGH 295
         (s2p "Call to " ++ h ++ s2p " with verify=False disabling SSL certificate checks, security issue.")
         l None None None.

Definition request_with_no_cert_validation (c : ctx) : res (option rissue) :=
  do h <- qual_head c;;
  if is_requests_call c h || is_httpx_call c h then
    do r <- check_call_arg_value c (s2p "verify") [PStr (s2p "False")];;
    if is_true r then Ok (Some (verify_issue h (get_lineno_for_call_arg c (s2p "verify")))) else Ok None
  else Ok None.

Definition timeout_issue (text : pstr) : rissue := RIssue MEDIUM LOW 400 text None None None None.
Definition txt_without_timeout (h : pstr) : pstr := s2p "Call to " ++ h ++ s2p " without timeout".
Definition txt_timeout_none (h : pstr) : pstr := s2p "Call to " ++ h ++ s2p " with timeout set to None".

Definition request_without_timeout (c : ctx) : res (option rissue) :=
  do h <- qual_head c;;
  do first <- (if is_requests_call c h then
                 do r <- check_call_arg_value c (s2p "timeout") [PNone];;
                 Ok (is_none r)
               else Ok false);;
  if first then Ok (Some (timeout_issue (txt_without_timeout h)))
  else if is_requests_call c h || is_httpx_call c h then
    do r <- check_call_arg_value c (s2p "timeout") [PStr (s2p "None")];;
    if is_true r then Ok (Some (timeout_issue (txt_timeout_none h))) else Ok None
  else Ok None.

(* ------------------------------------------------------------------------------------------------ *)
(* B507 ssh_no_host_key_verification                                                                 *)
(* ------------------------------------------------------------------------------------------------ *)

Definition policy_argument_value (a : node) : option pstr :=
  if is_cls "Attribute" a then Some (attr_of a)
  else if is_cls "Name" a then Some (name_id a)
  else if is_cls "Call" a then
    let f := field "func" a in
    if is_cls "Attribute" f then Some (attr_of f)
    else if is_cls "Name" f then Some (name_id f)
    else None
  else None.

Definition bad_policies : list pstr := [s2p "AutoAddPolicy"; s2p "WarningPolicy"].
Definition s_set_policy : pstr := s2p "set_missing_host_key_policy".

Definition hostkey_issue (l : option Z) : rissue :=
  RIssue HIGH MEDIUM 295
         (s2p "Paramiko call with policy set to automatically trust the unknown host key.")
         l None None None.

Definition ssh_no_host_key_verification (c : ctx) : res (option rissue) :=
  if is_module_imported_like c (s2p "paramiko") && name_in c [s_set_policy] then
    match field_opt "args" (c_node c) with
    | None => Raise AttributeError
    | Some args =>
        match items args with
        | [] => Ok None
        | a :: _ =>
            match policy_argument_value a with
            | Some v => if mem_pstr v bad_policies
                        then Ok (Some (hostkey_issue (get_lineno_for_call_arg c s_set_policy)))
                        else Ok None
            | None => Ok None
            end
        end
    end
  else Ok None.

(* ------------------------------------------------------------------------------------------------ *)
(* B508 / B509 snmp_security_check                                                                   *)
(* ------------------------------------------------------------------------------------------------ *)

(* check_call_arg_value(name, <int>): Python's == between the literal value and an int *)
Definition check_call_arg_int (c : ctx) (name : pstr) (z : Z) : res (option bool) :=
  do v <- get_call_arg_value c name;;
  match v with
  | PNone => Ok None
  | _ => Ok (Some (pv_eq_Z v z))
  end.

Definition snmp_version_issue (l : option Z) : rissue :=
  RIssue MEDIUM HIGH 319
         (s2p "The use of SNMPv1 and SNMPv2 is insecure. You should use SNMPv3 if able.")
         l None None None.
Definition snmp_crypto_issue (l : option Z) : rissue :=
  RIssue MEDIUM HIGH 319
         (s2p "You should not use SNMPv3 without encryption. noAuthNoPriv & authNoPriv is insecure")
         l None None None.

Definition q_community_data : pstr := s2p "pysnmp.hlapi.CommunityData".
Definition q_usm_user_data : pstr := s2p "pysnmp.hlapi.UsmUserData".

Definition snmp_insecure_version_check (c : ctx) : res (option rissue) :=
  if qual_is c q_community_data then
    do r0 <- check_call_arg_int c (s2p "mpModel") 0;;
    do r <- (if is_true r0 then Ok true
             else do r1 <- check_call_arg_int c (s2p "mpModel") 1;; Ok (is_true r1));;
    if r then Ok (Some (snmp_version_issue (get_lineno_for_call_arg c (s2p "CommunityData"))))
    else Ok None
  else Ok None.

Definition snmp_crypto_check (c : ctx) : res (option rissue) :=
  if qual_is c q_usm_user_data then
    match call_args_count c with
    | None => Raise TypeError
    | Some n => if Nat.ltb n 3
                then Ok (Some (snmp_crypto_issue (get_lineno_for_call_arg c (s2p "UsmUserData"))))
                else Ok None
    end
  else Ok None.

(* ------------------------------------------------------------------------------------------------ *)
(* registry                                                                                          *)
(* ------------------------------------------------------------------------------------------------ *)

Definition ssl_default_cfg : jv :=
  JDict [(s2p "bad_protocol_versions",
          JList (map (fun s => JStr (s2p s))
                     ["PROTOCOL_SSLv2"; "SSLv2_METHOD"; "SSLv23_METHOD"; "PROTOCOL_SSLv3";
                      "PROTOCOL_TLSv1"; "SSLv3_METHOD"; "TLSv1_METHOD"; "PROTOCOL_TLSv1_1";
                      "TLSv1_1_METHOD"]))].

Definition crypto_plugins : list plugin :=
  [Plugin (s2p "hashlib_insecure_functions") (fun _ c => hashlib c);
   Plugin (s2p "weak_cryptographic_key") (fun cfg c => weak_cryptographic_key c cfg);
   Plugin (s2p "ssl_with_bad_version") (fun cfg c => ssl_with_bad_version c cfg);
   Plugin (s2p "ssl_with_bad_defaults") (fun cfg c => ssl_with_bad_defaults c cfg);
   Plugin (s2p "ssl_with_no_version") (fun _ c => ssl_with_no_version c);
   Plugin (s2p "request_with_no_cert_validation") (fun _ c => request_with_no_cert_validation c);
   Plugin (s2p "request_without_timeout") (fun _ c => request_without_timeout c);
   Plugin (s2p "ssh_no_host_key_verification") (fun _ c => ssh_no_host_key_verification c);
   Plugin (s2p "snmp_insecure_version") (fun _ c => snmp_insecure_version_check c);
   Plugin (s2p "snmp_weak_cryptography") (fun _ c => snmp_crypto_check c)].
