(* Plugin family "shell": Gallina models of bandit plugins; definitions only (proofs go to Proofs/).
   bandit/plugins/injection_shell.py (B602..B607) and bandit/plugins/injection_wildcard.py (B609). *)
From Coq Require Import List NArith ZArith Bool String.
From Bandit Require Import Base.PyStr Ast.Node Engine.Types Engine.Resolve Engine.Context Engine.Linerange
     Engine.Scan Regex.Regex Gen.Regexes.
Import ListNotations.
Local Open Scope string_scope.
Local Open Scope list_scope.

(* ---------------------------------------------------------------------------------------------- *)
(* The configuration value `config` (whatever the user's YAML put under `shell_injection`).        *)

(* bool(config) *)
Definition cfg_truthy (cfg : jv) : bool :=
  match cfg with
  | JNull => false
  | JBool b => b
  | JInt z => negb (Z.eqb z 0)
  | JStr s => match s with [] => false | _ => true end
  | JList l => match l with [] => false | _ => true end
  | JDict kv => match kv with [] => false | _ => true end
  end.

(* config[k] with a str key: KeyError on a dict without the key, TypeError on str/list/int/bool/None *)
Definition cfg_section (k : pstr) (cfg : jv) : res jv :=
  match cfg with
  | JDict _ => match jget k cfg with Some v => Ok v | None => Raise KeyError end
  | _ => Raise TypeError
  end.

Definition is_jnull (j : jv) : bool := match j with JNull => true | _ => false end.

(* `q in v` where q is a str or None: list -> element equality, dict -> key membership,
   str -> substring (TypeError for None in str), None/int/bool -> TypeError *)
Definition py_in (q : option pstr) (v : jv) : res bool :=
  match v with
  | JList l => Ok (match q with Some s => mem_pstr s (jstrs v) | None => existsb is_jnull l end)
  | JDict kv => Ok (match q with
                    | Some s => match assoc s kv with Some _ => true | None => false end
                    | None => false
                    end)
  | JStr s => match q with Some t => Ok (contains s t) | None => Raise TypeError end
  | _ => Raise TypeError
  end.

Definition sec_subprocess : pstr := s2p "subprocess".
Definition sec_shell : pstr := s2p "shell".
Definition sec_no_shell : pstr := s2p "no_shell".
Definition kw_shell : pstr := s2p "shell".

(* context.call_function_name_qual in config[k] *)
Definition in_section (k : pstr) (cfg : jv) (c : ctx) : res bool :=
  do v <- cfg_section k cfg;; py_in (c_qualname c) v.

(* ---------------------------------------------------------------------------------------------- *)
(* has_shell *)

Definition nonempty {A} (l : list A) : bool := match l with [] => false | _ => true end.

(* the if/elif ladder on one `shell=` value *)
Definition shell_value_truth (val : node) : bool :=
  if is_Num val then
    match const_of val with
    | Some (CInt z) => negb (Z.eqb z 0)
    | Some (CFloat _ t) => t
    | Some (CComplex _ t) => t
    | _ => true
    end
  else if is_cls "List" val then nonempty (field_list "elts" val)
  else if is_cls "Dict" val then nonempty (field_list "keys" val)
  else if is_cls "Tuple" val || is_cls "Set" val then nonempty (field_list "elts" val)
  else if is_Str val || is_Bytes val then
    match const_of val with
    | Some (CStr s) => nonempty s
    | Some (CBytes b) => nonempty b
    | _ => true
    end
  else if is_cls "Name" val && mem_pstr (name_id val) [s2p "False"; s2p "None"] then false
  else if is_NameConstant val then
    match const_of val with
    | Some (CBool b) => b
    | _ => false                      (* None *)
    end
  else true.

Definition is_shell_kw (k : node) : bool := okey_eqb (kw_arg k) (Some kw_shell).

(* the for loop: the last keyword named shell decides *)
Definition has_shell_loop (kws : list node) : bool :=
  fold_left (fun r k => if is_shell_kw k then shell_value_truth (field "value" k) else r) kws false.

Definition has_shell (c : ctx) : res bool :=
  match field_opt "keywords" (c_node c) with
  | None => Raise AttributeError
  | Some kws =>
      do ck <- call_keywords c;;
      match ck with
      | None => Raise TypeError                         (* "shell" in None *)
      | Some d => if kw_mem kw_shell d then Ok (has_shell_loop (items kws)) else Ok false
      end
  end.

(* _evaluate_shell_call: isinstance(context.node.args[0], ast.Str) *)
Definition first_arg (c : ctx) : res node :=
  match field_opt "args" (c_node c) with
  | None => Raise AttributeError
  | Some a => match items a with [] => Raise IndexError | x :: _ => Ok x end
  end.

Definition grade (a0 : node) : rank := if is_Str a0 then LOW else HIGH.

Definition evaluate_shell_call (c : ctx) : res rank :=
  do a0 <- first_arg c;; Ok (grade a0).

(* ---------------------------------------------------------------------------------------------- *)
(* Issues *)

Definition cwe_os_command_injection : Z := 78.
Definition cwe_improper_wildcard : Z := 155.

Definition issue (sev conf : rank) (cwe : Z) (text : pstr) (ln : option Z) : rissue :=
  RIssue sev conf cwe text ln None None None.

Definition shell_line (c : ctx) : option Z := get_lineno_for_call_arg c kw_shell.

Definition b602_issue (sev : rank) (c : ctx) : rissue :=
  match sev with
  | LOW => issue LOW HIGH cwe_os_command_injection
             (s2p "subprocess call with shell=True seems safe, but may be changed in the future, consider rewriting without shell")
             (shell_line c)
  | _ => issue HIGH HIGH cwe_os_command_injection
             (s2p "subprocess call with shell=True identified, security issue.")
             (shell_line c)
  end.

Definition b603_issue (c : ctx) : rissue :=
  issue LOW HIGH cwe_os_command_injection
        (s2p "subprocess call - check for execution of untrusted input.") (shell_line c).

Definition b604_issue (c : ctx) : rissue :=
  issue MEDIUM LOW cwe_os_command_injection
        (s2p "Function call with shell=True parameter identified, possible security issue.") (shell_line c).

Definition b605_issue (sev : rank) : rissue :=
  match sev with
  | LOW => issue LOW HIGH cwe_os_command_injection
             (s2p "Starting a process with a shell: Seems safe, but may be changed in the future, consider rewriting without shell")
             None
  | _ => issue HIGH HIGH cwe_os_command_injection
             (s2p "Starting a process with a shell, possible injection detected, security issue.")
             None
  end.

Definition b606_issue : rissue :=
  issue LOW MEDIUM cwe_os_command_injection (s2p "Starting a process without a shell.") None.

Definition b607_issue : rissue :=
  issue LOW HIGH cwe_os_command_injection (s2p "Starting a process with a partial executable path") None.

Definition qual_text (c : ctx) : pstr :=
  match c_qualname c with Some q => q | None => s2p "None" end.

Definition b609_issue (c : ctx) : rissue :=
  issue HIGH MEDIUM cwe_improper_wildcard
        (s2p "Possible wildcard injection in call: " ++ qual_text c) (shell_line c).

(* ---------------------------------------------------------------------------------------------- *)
(* B602 subprocess_popen_with_shell_equals_true *)
Definition b602 (cfg : jv) (c : ctx) : res (option rissue) :=
  if cfg_truthy cfg then
    do m <- in_section sec_subprocess cfg c;;
    if m then
      do hs <- has_shell c;;
      if hs then
        do args <- call_args c;;
        if nonempty args then
          do sev <- evaluate_shell_call c;;
          Ok (Some (b602_issue sev c))
        else Ok None
      else Ok None
    else Ok None
  else Ok None.

(* B603 subprocess_without_shell_equals_true *)
Definition b603 (cfg : jv) (c : ctx) : res (option rissue) :=
  if cfg_truthy cfg then
    do m <- in_section sec_subprocess cfg c;;
    if m then
      do hs <- has_shell c;;
      if hs then Ok None else Ok (Some (b603_issue c))
    else Ok None
  else Ok None.

(* B604 any_other_function_with_shell_equals_true *)
Definition b604 (cfg : jv) (c : ctx) : res (option rissue) :=
  if cfg_truthy cfg then
    do m <- in_section sec_subprocess cfg c;;
    if m then Ok None
    else
      do hs <- has_shell c;;
      if hs then Ok (Some (b604_issue c)) else Ok None
  else Ok None.

(* B605 start_process_with_a_shell *)
Definition b605 (cfg : jv) (c : ctx) : res (option rissue) :=
  if cfg_truthy cfg then
    do m <- in_section sec_shell cfg c;;
    if m then
      do args <- call_args c;;
      if nonempty args then
        do sev <- evaluate_shell_call c;;
        Ok (Some (b605_issue sev))
      else Ok None
    else Ok None
  else Ok None.

(* B606 start_process_with_no_shell *)
Definition b606 (cfg : jv) (c : ctx) : res (option rissue) :=
  if cfg_truthy cfg then
    do m <- in_section sec_no_shell cfg c;;
    if m then Ok (Some b606_issue) else Ok None
  else Ok None.

(* B607 start_process_with_partial_path *)

(* a or b or c over the three sections, short-circuiting (a later section is not even indexed) *)
Definition in_any_section (cfg : jv) (c : ctx) : res bool :=
  do a <- in_section sec_subprocess cfg c;;
  if a then Ok true else
  do b <- in_section sec_shell cfg c;;
  if b then Ok true else
  in_section sec_no_shell cfg c.

(* "some calls take an arg list, check the first part" *)
Definition path_node (a0 : node) : node :=
  if is_cls "List" a0 then
    match field_list "elts" a0 with
    | e :: _ => e
    | [] => a0
    end
  else a0.

Definition is_partial_path (n : node) : bool :=
  match str_of n with
  | Some s => negb (re_match re_full_path s)
  | None => false
  end.

Definition b607 (cfg : jv) (c : ctx) : res (option rissue) :=
  if cfg_truthy cfg then
    do args <- call_args c;;
    if nonempty args then
      do m <- in_any_section cfg c;;
      if m then
        do a0 <- first_arg c;;
        if is_partial_path (path_node a0) then Ok (Some b607_issue) else Ok None
      else Ok None
    else Ok None
  else Ok None.

(* ---------------------------------------------------------------------------------------------- *)
(* B609 linux_commands_wildcard_injection *)

Definition hex_digit (n : N) : N := if (n <? 10)%N then (48 + n)%N else (87 + n)%N.

(* repr(bytes) *)
Definition bytes_repr (b : list N) : pstr :=
  let has_sq := existsb (N.eqb 39) b in
  let has_dq := existsb (N.eqb 34) b in
  let q : N := if has_sq && negb has_dq then 34%N else 39%N in
  let esc (x : N) : pstr :=
    if N.eqb x q || N.eqb x 92 then [92%N; x]
    else if N.eqb x 9 then s2p "\t"
    else if N.eqb x 10 then s2p "\n"
    else if N.eqb x 13 then s2p "\r"
    else if (x <? 32)%N || (127 <=? x)%N then [92%N; 120%N; hex_digit (x / 16)%N; hex_digit (x mod 16)%N]
    else [x] in
  [98%N; q] ++ flat_map esc b ++ [q].

Definition unrendered_marker : pstr := s2p "<?>".

(* format(li, "") for the element kinds _get_literal_value produces *)
Definition fmt_elem (v : pyval) : pstr :=
  match v with
  | PStr s => s
  | PInt z => str_of_Z z
  | PNone => s2p "None"
  | PFloat r _ => r
  | PComplex r _ => r
  | PBytes b => bytes_repr b
  | _ => unrendered_marker            (* nested list/tuple/set/dict: repr not modelled *)
  end.

Definition argument_string (v : pyval) : pstr :=
  match v with
  | PList l => flat_map (fun li => 32%N :: fmt_elem li) l
  | PStr s => s
  | _ => []
  end.

Definition vulnerable_funcs : list pstr := [s2p "chown"; s2p "chmod"; s2p "tar"; s2p "rsync"].

Definition wildcard_hit (s : pstr) : bool :=
  nonempty s && existsb (fun f => contains s f && contains s (s2p "*")) vulnerable_funcs.

(* name in config["shell"] or (name in config["subprocess"] and injection_shell.has_shell(context)) *)
Definition b609_applies (cfg : jv) (c : ctx) : res bool :=
  do a <- in_section sec_shell cfg c;;
  if a then Ok true else
  do b <- in_section sec_subprocess cfg c;;
  if b then has_shell c else Ok false.

(* "shell" in config and "subprocess" in config *)
Definition b609_cfg_ok (cfg : jv) : res bool :=
  do a <- py_in (Some sec_shell) cfg;;
  if a then py_in (Some sec_subprocess) cfg else Ok false.

Definition b609 (cfg : jv) (c : ctx) : res (option rissue) :=
  do ok <- b609_cfg_ok cfg;;
  if negb ok then Ok None else
  do ap <- b609_applies cfg c;;
  if ap then
    match call_args_count c with
    | None => Raise TypeError                      (* None >= 1 *)
    | Some n =>
        if Nat.leb 1 n then
          do a <- get_call_arg_at_position c 0;;
          if wildcard_hit (argument_string a) then Ok (Some (b609_issue c)) else Ok None
        else Ok None
    end
  else Ok None.

Definition shell_plugins : list plugin := [
  Plugin (s2p "subprocess_popen_with_shell_equals_true") b602;
  Plugin (s2p "subprocess_without_shell_equals_true") b603;
  Plugin (s2p "any_other_function_with_shell_equals_true") b604;
  Plugin (s2p "start_process_with_a_shell") b605;
  Plugin (s2p "start_process_with_no_shell") b606;
  Plugin (s2p "start_process_with_partial_path") b607;
  Plugin (s2p "linux_commands_wildcard_injection") b609
].
