(* Plugin family "secrets": Gallina models of bandit plugins; definitions only (proofs go to Proofs/).
     B103 set_bad_file_permissions      (general_bad_file_permissions.py, Call)
     B104 hardcoded_bind_all_interfaces (general_bind_all_interfaces.py, Str)
     B105 hardcoded_password_string     (general_hardcoded_password.py, Str)
     B106 hardcoded_password_funcarg    (general_hardcoded_password.py, Call)
     B107 hardcoded_password_default    (general_hardcoded_password.py, FunctionDef)
     B108 hardcoded_tmp_directory       (general_hardcoded_tmp.py, Str, takes config) *)
From Coq Require Import List NArith ZArith Bool String.
From Bandit Require Import Base.PyStr Ast.Node Engine.Types Engine.Resolve Engine.Context Engine.Linerange
     Engine.Scan Regex.Regex Gen.Regexes.
Import ListNotations.
Local Open Scope string_scope.
Local Open Scope list_scope.

(* ------------------------------------------------------------------------------------------ *)
(* rendering helpers: str() of the values that can reach a message                             *)

Definition hex_digit (n : N) : N := if (n <? 10)%N then (48 + n)%N else (87 + n)%N.

(* repr(bytes) == str(bytes) *)
Definition bytes_repr_char (q c : N) : pstr :=
  if (c =? q)%N || (c =? 92)%N then [92; c]%N
  else if (c =? 9)%N then [92; 116]%N
  else if (c =? 10)%N then [92; 110]%N
  else if (c =? 13)%N then [92; 114]%N
  else if (c <? 32)%N || (127 <=? c)%N then [92; 120; hex_digit (c / 16); hex_digit (c mod 16)]%N
  else [c].
Definition bytes_quote (b : list N) : N :=
  if existsb (N.eqb 39%N) b && negb (existsb (N.eqb 34%N) b) then 34%N else 39%N.
Definition bytes_repr (b : list N) : pstr :=
  let q := bytes_quote b in
  [98%N; q] ++ flat_map (bytes_repr_char q) b ++ [q].

(* str(v) for a Constant's value (what an f-string / %s renders) *)
Definition const_str (k : const) : pstr :=
  match k with
  | CNone => s2p "None"
  | CBool true => s2p "True"
  | CBool false => s2p "False"
  | CInt z => str_of_Z z
  | CFloat r _ => r
  | CComplex r _ => r
  | CStr s => s
  | CBytes b => bytes_repr b
  | CEllipsis => s2p "Ellipsis"
  end.

(* marker for a value whose str() embeds repr of Python containers / AST objects *)
Definition unrendered_marker : pstr := s2p "<UNRENDERED-CONTAINER>".

(* '%s' % v for a non-None value returned by Context._get_literal_value *)
Definition pyval_str (v : pyval) : pstr :=
  match v with
  | PNone => s2p "None"
  | PInt z => str_of_Z z
  | PFloat r _ => r
  | PComplex r _ => r
  | PStr s => s
  | PBytes b => bytes_repr b
  | PList [] => s2p "[]"
  | PTuple [] => s2p "()"
  | PSet [] => s2p "set()"
  | PDict [] => s2p "{}"
  | PList _ | PTuple _ | PSet _ | PDict _ => unrendered_marker
  end.

(* ------------------------------------------------------------------------------------------ *)
(* B105 / B106 / B107                                                                          *)

(* RE_CANDIDATES.search(s) is not None *)
Definition is_candidate (s : pstr) : bool := re_search re_candidates s.

Definition cwe_hard_coded_password : Z := 259%Z.

Definition pw_text (value : pstr) : pstr :=
  s2p "Possible hardcoded password: '" ++ value ++ s2p "'".

(* _report(value) *)
Definition pw_report (value : pstr) : rissue :=
  RIssue LOW MEDIUM cwe_hard_coded_password (pw_text value) None None None None.

(* f"{node.s}" : node.s is the deprecated alias of Constant.value; other classes have no .s *)
Definition node_s_text (n : node) : res pstr :=
  match const_of n with
  | Some k => Ok (const_str k)
  | None => Raise AttributeError
  end.

(* RE_CANDIDATES.search(node.s): a str pattern applied to a non-str raises TypeError *)
Definition node_s_search (n : node) : res bool :=
  match const_of n with
  | Some (CStr s) => Ok (is_candidate s)
  | Some _ => Raise TypeError
  | None => Raise AttributeError
  end.

(* one iteration of the loop over Assign.targets: does this target make the check return? *)
Definition targ_matches (t : node) : bool :=
  (is_cls "Name" t && is_candidate (name_id t))
  || (is_cls "Attribute" t && is_candidate (attr_of t)).

(* isinstance(parent, ast.Assign) branch *)
Definition pw_assign_branch (node parent : node) : res (option rissue) :=
  if existsb targ_matches (field_list "targets" parent) then
    do s <- node_s_text node;; Ok (Some (pw_report s))
  else Ok None.

(* the common tail of the Subscript / Index branches:
   "if isinstance(assign, ast.Assign) and isinstance(assign.value, ast.Str): return _report(assign.value.s)" *)
Definition pw_assigned_value (assign : node) : option rissue :=
  if is_cls "Assign" assign then
    match str_of (field "value" assign) with
    | Some v => Some (pw_report v)
    | None => None
    end
  else None.

(* x._bandit_parent for the k-th ancestor; a missing ancestor is an AttributeError *)
Definition ancestor (k : nat) (c : ctx) : res node :=
  match nth_error (c_parents c) k with
  | Some (p, _) => Ok p
  | None => Raise AttributeError
  end.

Definition pw_subscript_branch (k : nat) (c : ctx) : res (option rissue) :=
  do assign <- ancestor k c;; Ok (pw_assigned_value assign).

(* isinstance(parent, ast.Compare) branch *)
Definition pw_compare_first (comp : node) : res (option rissue) :=
  match field_list "comparators" comp with
  | c0 :: _ => match str_of c0 with
               | Some s => Ok (Some (pw_report s))
               | None => Ok None
               end
  | [] => Raise IndexError
  end.

Definition pw_compare_branch (comp : node) : res (option rissue) :=
  let left := field "left" comp in
  if is_cls "Name" left then
    if is_candidate (name_id left) then pw_compare_first comp else Ok None
  else if is_cls "Attribute" left then
    if is_candidate (attr_of left) then pw_compare_first comp else Ok None
  else Ok None.

(* B105 hardcoded_password_string *)
Definition hardcoded_password_string (_ : jv) (c : ctx) : res (option rissue) :=
  let node := c_node c in
  do parent <- ancestor 0 c;;
  if is_cls "Assign" parent then pw_assign_branch node parent
  else
    (* elif isinstance(parent, ast.Subscript) and RE_CANDIDATES.search(node.s) *)
    do sub_hit <- (if is_cls "Subscript" parent then node_s_search node else Ok false);;
    if sub_hit then pw_subscript_branch 1 c
    else
      (* elif isinstance(parent, ast.Index) and RE_CANDIDATES.search(node.s): no CPython >= 3.9 tree
         contains an Index instance, so py2node never produces this class *)
      do idx_hit <- (if is_cls "Index" parent then node_s_search node else Ok false);;
      if idx_hit then pw_subscript_branch 2 c
      else if is_cls "Compare" parent then pw_compare_branch parent
      else Ok None.

(* B106 hardcoded_password_funcarg: the loop over context.node.keywords
     if isinstance(kw.value, ast.Str) and kw.arg is not None and RE_CANDIDATES.search(kw.arg):
         return _report(kw.value.s)
   kw.arg is the engine's [kw_arg] (an identifier, or None for "**mapping") *)
Definition kw_hit (kw : node) : option pstr :=
  match str_of (field "value" kw) with
  | Some s =>
      match kw_arg kw with
      | Some a => if is_candidate a then Some s else None
      | None => None
      end
  | None => None
  end.

Fixpoint funcarg_scan (kws : list node) : option rissue :=
  match kws with
  | [] => None
  | kw :: t =>
      match kw_hit kw with
      | Some s => Some (pw_report s)
      | None => funcarg_scan t
      end
  end.

(* context.node.keywords: present on every Call node (the only class the check is registered for) *)
Definition hardcoded_password_funcarg (_ : jv) (c : ctx) : res (option rissue) :=
  Ok (funcarg_scan (field_list "keywords" (c_node c))).

(* B107: params = args.posonlyargs + args.args;
         defs = [None] * (len(params) - len(defaults)); defs.extend(defaults)
   (a negative count gives the empty list = truncated subtraction) *)
Definition pad_defaults (params defaults : list node) : list (option node) :=
  repeat None (List.length params - List.length defaults) ++ map Some defaults.

Definition is_none_constant (v : node) : bool :=
  match const_of v with Some CNone => true | _ => false end.

Fixpoint default_scan (l : list (node * option node)) : res (option rissue) :=
  match l with
  | [] => Ok None
  | (key, val) :: t =>
      if is_cls "Name" key || is_cls "arg" key then
        match val with
        | None => default_scan t
        | Some v =>
            if is_none_constant v then default_scan t
            else
              match str_of v with
              | Some s =>
                  match field_opt "arg" key with
                  | Some (NId a) => if is_candidate a then Ok (Some (pw_report s)) else default_scan t
                  | Some _ => Raise TypeError
                  | None => Raise AttributeError
                  end
              | None => default_scan t
              end
        end
      else default_scan t
  end.

Definition hardcoded_password_default (_ : jv) (c : ctx) : res (option rissue) :=
  match field_opt "args" (c_node c) with
  | Some a =>
      let params := field_list "posonlyargs" a ++ field_list "args" a in
      let defaults := field_list "defaults" a in
      default_scan (combine params (pad_defaults params defaults))
  | None => Raise AttributeError
  end.

(* ------------------------------------------------------------------------------------------ *)
(* B108 hardcoded_tmp_directory                                                                *)

Definition key_tmp_dirs : pstr := s2p "tmp_dirs".
Definition default_tmp_dirs : jv :=
  JList [JStr (s2p "/tmp"); JStr (s2p "/var/tmp"); JStr (s2p "/dev/shm")].

Definition jv_is_str (s : pstr) (j : jv) : bool :=
  match j with JStr x => pstr_eqb x s | _ => false end.

(* if config is not None and "tmp_dirs" in config: tmp_dirs = config["tmp_dirs"] else: the default.
   `in` is key membership on a dict, element membership on a list, substring on a str and a
   TypeError on an int/bool; indexing a list/str with a str key is a TypeError *)
Definition tmp_dirs_of (cfg : jv) : res jv :=
  match cfg with
  | JNull => Ok default_tmp_dirs
  | JDict kv => match assoc key_tmp_dirs kv with
                | Some v => Ok v
                | None => Ok default_tmp_dirs
                end
  | JList l => if existsb (jv_is_str key_tmp_dirs) l then Raise TypeError else Ok default_tmp_dirs
  | JStr s => if contains s key_tmp_dirs then Raise TypeError else Ok default_tmp_dirs
  | JInt _ | JBool _ => Raise TypeError
  end.

(* iter(tmp_dirs) *)
Definition iter_jv (j : jv) : res (list jv) :=
  match j with
  | JList l => Ok l
  | JStr s => Ok (map (fun ch => JStr [ch]) s)
  | JDict kv => Ok (map (fun p => JStr (fst p)) kv)
  | JNull | JInt _ | JBool _ => Raise TypeError
  end.

(* any(context.string_val.startswith(s) for s in tmp_dirs) *)
Fixpoint any_startswith (sv : option pstr) (l : list jv) : res bool :=
  match l with
  | [] => Ok false
  | x :: t =>
      match sv with
      | None => Raise AttributeError
      | Some s =>
          match x with
          | JStr p => if startswith s p then Ok true else any_startswith sv t
          | _ => Raise TypeError
          end
      end
  end.

Definition cwe_insecure_temp_file : Z := 377%Z.
Definition tmp_issue : rissue :=
  RIssue MEDIUM MEDIUM cwe_insecure_temp_file (s2p "Probable insecure usage of temp file/directory.")
         None None None None.

Definition hardcoded_tmp_directory (cfg : jv) (c : ctx) : res (option rissue) :=
  do dirs <- tmp_dirs_of cfg;;
  do l <- iter_jv dirs;;
  do hit <- any_startswith (c_str c) l;;
  if hit then Ok (Some tmp_issue) else Ok None.

(* ------------------------------------------------------------------------------------------ *)
(* B104 hardcoded_bind_all_interfaces                                                          *)

Definition cwe_multiple_binds : Z := 605%Z.
Definition bind_all_issue : rissue :=
  RIssue MEDIUM MEDIUM cwe_multiple_binds (s2p "Possible binding to all interfaces.") None None None None.

Definition all_interfaces : pstr := s2p "0.0.0.0".

Definition hardcoded_bind_all_interfaces (_ : jv) (c : ctx) : res (option rissue) :=
  match c_str c with
  | Some s => if pstr_eqb s all_interfaces then Ok (Some bind_all_issue) else Ok None
  | None => Ok None
  end.

(* ------------------------------------------------------------------------------------------ *)
(* B103 set_bad_file_permissions                                                               *)

Local Open Scope Z_scope.
Definition S_IWOTH : Z := 2.    (* 0o002 *)
Definition S_IWGRP : Z := 16.   (* 0o020 *)
Definition S_IXGRP : Z := 8.    (* 0o010 *)
Definition S_IXOTH : Z := 1.    (* 0o001 *)

Definition truthy_Z (z : Z) : bool := negb (z =? 0).

(* _stat_is_dangerous(mode), as a truth value *)
Definition stat_is_dangerous (mode : Z) : bool :=
  truthy_Z (Z.land mode S_IWOTH) || truthy_Z (Z.land mode S_IWGRP)
  || truthy_Z (Z.land mode S_IXGRP) || truthy_Z (Z.land mode S_IXOTH).

Definition chmod_severity (mode : Z) : rank :=
  if truthy_Z (Z.land mode S_IWOTH) then HIGH else MEDIUM.

Definition cwe_incorrect_permission_assignment : Z := 732.

Definition chmod_text (mode : Z) (filename : pstr) : pstr :=
  (s2p "Chmod setting a permissive mask " ++ oct_of_Z mode ++ s2p " on file (" ++ filename ++ s2p ").")%list.

(* filename = context.get_call_arg_at_position(0); if filename is None: filename = "NOT PARSED";
   then '%s' % filename *)
Definition chmod_filename (c : ctx) : res pstr :=
  do v <- get_call_arg_at_position c 0;;
  match v with
  | PNone => Ok (s2p "NOT PARSED")
  | _ => Ok (pyval_str v)
  end.

Definition chmod_issue (mode : Z) (filename : pstr) : rissue :=
  RIssue (chmod_severity mode) HIGH cwe_incorrect_permission_assignment (chmod_text mode filename)
         None None None None.

(* the body under "if context.call_args_count == 2" *)
Definition chmod_check_mode (c : ctx) : res (option rissue) :=
  do mode <- get_call_arg_at_position c 1;;
  match mode with
  | PInt m =>
      if stat_is_dangerous m then
        do fn <- chmod_filename c;; Ok (Some (chmod_issue m fn))
      else Ok None
  | _ => Ok None
  end.

Definition chmod_name : pstr := s2p "chmod".

Definition set_bad_file_permissions (_ : jv) (c : ctx) : res (option rissue) :=
  match c_name c with
  | None => Raise TypeError                      (* "chmod" in None *)
  | Some nm =>
      if contains nm chmod_name then
        match call_args_count c with
        | Some 2%nat => chmod_check_mode c
        | _ => Ok None
        end
      else Ok None
  end.

(* ------------------------------------------------------------------------------------------ *)

Definition secrets_plugins : list plugin :=
  [ Plugin (s2p "set_bad_file_permissions") set_bad_file_permissions;
    Plugin (s2p "hardcoded_bind_all_interfaces") hardcoded_bind_all_interfaces;
    Plugin (s2p "hardcoded_password_string") hardcoded_password_string;
    Plugin (s2p "hardcoded_password_funcarg") hardcoded_password_funcarg;
    Plugin (s2p "hardcoded_password_default") hardcoded_password_default;
    Plugin (s2p "hardcoded_tmp_directory") hardcoded_tmp_directory ].
