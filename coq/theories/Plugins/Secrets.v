(* Plugin family "secrets": Gallina models of bandit plugins; definitions only (proofs go to Proofs/). *)
From Coq Require Import List NArith ZArith Bool String.
From Bandit Require Import Base.PyStr Ast.Node Engine.Types Engine.Resolve Engine.Context Engine.Linerange
     Engine.Scan Regex.Regex.
Import ListNotations.
Local Open Scope string_scope.
Local Open Scope list_scope.

Definition secrets_plugins : list plugin := [].
