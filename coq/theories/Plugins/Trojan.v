(* bandit.plugins.trojansource (B613), a "File" check; definitions only. *)
From Coq Require Import List NArith ZArith Bool String.
From Bandit Require Import Base.PyStr Ast.Node Engine.Types Engine.Scan.
Import ListNotations.
Local Open Scope list_scope.

Fixpoint index_char (c : N) (line : pstr) : option nat :=
  match line with
  | [] => None
  | x :: t => if N.eqb x c then Some O else option_map S (index_char c t)
  end.

(* first character of the BIDI tuple (in tuple order) that occurs in the line, with its index *)
Fixpoint first_bidi (bidi : list N) (line : pstr) : option (N * nat) :=
  match bidi with
  | [] => None
  | c :: t => match index_char c line with
              | Some i => Some (c, i)
              | None => first_bidi t line
              end
  end.

Definition hex_digit (d : N) : N := if (d <? 10)%N then (48 + d)%N else (87 + d)%N.
(* repr() of a non-printable BMP character: '\uXXXX' *)
Definition repr_bmp (c : N) : pstr :=
  [39; 92; 117]%N ++ [hex_digit (c / 4096 mod 16); hex_digit (c / 256 mod 16); hex_digit (c / 16 mod 16); hex_digit (c mod 16)]%N ++ [39%N].

Definition trojan_text (c : N) : pstr :=
  s2p "A Python source file contains bidirectional control characters (" ++ repr_bmp c ++ s2p ").".

Fixpoint scan_lines (bidi : list N) (lines : list pstr) (lineno : Z) : option rissue :=
  match lines with
  | [] => None
  | l :: t => match first_bidi bidi l with
              | Some (c, i) => Some (RIssue HIGH MEDIUM 838 (trojan_text c) (Some lineno) None
                                            (Some (Z.of_nat i + 1)%Z) (Some [lineno]))
              | None => scan_lines bidi t (lineno + 1)%Z
              end
  end.

(* the check reads context.file_data (the bytes bandit was given, also for stdin); c_lines is what decoding them with
   the detected encoding and universal newlines yields; None = no file data in the context *)
Definition trojansource (bidi : list N) (cfg : jv) (c : ctx) : res (option rissue) :=
  match c_lines c with
  | None => Raise AttributeError
  | Some ls => Ok (scan_lines bidi ls 1%Z)
  end.
