(* Plugin family "inject": Gallina models of bandit plugins; definitions only (proofs go to Proofs/). *)
From Coq Require Import List NArith ZArith Bool String.
From Bandit Require Import Base.PyStr Ast.Node Engine.Types Engine.Resolve Engine.Context Engine.Linerange
     Engine.Scan Regex.Regex Gen.Regexes.
Import ListNotations.
Local Open Scope string_scope.
Local Open Scope list_scope.

(* ------------------------------------------------------------------------------------------------ *)
(* Shared helpers                                                                                    *)

(* [a is b] / [a != b] on AST objects is object identity.  Every node of a parsed tree carries its own
   (class, source span), so identity coincides with structural equality of the generic nodes. *)
Definition pos_eqb (a b : option pos4) : bool :=
  match a, b with
  | Some p, Some q => Z.eqb (p_line p) (p_line q) && Z.eqb (p_col p) (p_col q)
                      && Z.eqb (p_eline p) (p_eline q) && Z.eqb (p_ecol p) (p_ecol q)
  | None, None => true
  | _, _ => false
  end.
Definition const_eqb (a b : const) : bool :=
  match a, b with
  | CNone, CNone | CEllipsis, CEllipsis => true
  | CBool x, CBool y => Bool.eqb x y
  | CInt x, CInt y => Z.eqb x y
  | CFloat x _, CFloat y _ | CComplex x _, CComplex y _ | CStr x, CStr y | CBytes x, CBytes y => pstr_eqb x y
  | _, _ => false
  end.
Fixpoint node_eqb (a b : node) : bool :=
  match a, b with
  | Node c p fs, Node c' p' fs' =>
      String.eqb c c' && pos_eqb p p' &&
      (fix go (l l' : list (string * node)) : bool :=
         match l, l' with
         | [], [] => true
         | (k, v) :: t, (k', v') :: t' => String.eqb k k' && node_eqb v v' && go t t'
         | _, _ => false
         end) fs fs'
  | NList l, NList l' =>
      (fix go (l l' : list node) : bool :=
         match l, l' with
         | [], [] => true
         | v :: t, v' :: t' => node_eqb v v' && go t t'
         | _, _ => false
         end) l l'
  | NConst x, NConst y => const_eqb x y
  | NId x, NId y => pstr_eqb x y
  | NInt x, NInt y => Z.eqb x y
  | NNone, NNone => true
  | _, _ => false
  end.

(* getattr(n, "id", None) == s  /  getattr(n, "attr", None) == s *)
Definition getattr_id_is (n : node) (s : pstr) : bool :=
  match field_opt "id" n with Some (NId x) => pstr_eqb x s | _ => false end.
Definition getattr_attr_is (n : node) (s : pstr) : bool :=
  match field_opt "attr" n with Some (NId x) => pstr_eqb x s | _ => false end.
(* getattr(n, "value", None) is True/False *)
Definition getattr_value_is_bool (n : node) (b : bool) : bool :=
  match field_opt "value" n with Some (NConst (CBool x)) => Bool.eqb x b | _ => false end.

Definition opt_is (o : option pstr) (s : pstr) : bool :=
  match o with Some x => pstr_eqb x s | None => false end.

(* the value of the last keyword called [k] (dict assignment: later entries win) *)
Definition kw_last (k : pstr) (kws : list node) : option node :=
  fold_left (fun acc kw => if is_cls "keyword" kw && okey_eqb (kw_arg kw) (Some k)
                           then Some (field "value" kw) else acc) kws None.

(* ------------------------------------------------------------------------------------------------ *)
(* B608 hardcoded_sql_expressions (injection_sql.py)                                                 *)

Definition check_string (s : pstr) : bool := re_search re_simple_sql s.

(* utils.concat_string._get: the entries appended to [bits]; a recursive call leaves a [None] behind *)
Fixpoint cs_get (stop : node) (n : node) : list node :=
  match n with
  | Node _ _ fs =>
      if node_eqb n stop then []
      else
        (fix find (l : list (string * node)) : list node :=
           match l with
           | [] => []
           | (k, v) :: t =>
               if String.eqb "left" k
               then (if is_cls "BinOp" v then cs_get stop v ++ [NNone] else [v])
               else find t
           end) fs
        ++
        (fix find (l : list (string * node)) : list node :=
           match l with
           | [] => []
           | (k, v) :: t =>
               if String.eqb "right" k
               then (if is_cls "BinOp" v then cs_get stop v ++ [NNone] else [v])
               else find t
           end) fs
  | _ => []
  end.

(* while isinstance(node._bandit_parent, ast.BinOp): node = node._bandit_parent
   returns the final node and what is left of the ancestor stack (its head is that node's parent) *)
Fixpoint binop_top (cur : node) (ps : list (node * node)) : node * list (node * node) :=
  match ps with
  | (p, _) :: t => if is_cls "BinOp" p then binop_top p t else (cur, ps)
  | [] => (cur, [])
  end.

Definition str_parts (bits : list node) : list pstr :=
  flat_map (fun x => match str_of x with Some s => [s] | None => [] end) bits.

(* utils.concat_string(node, stop) with the ancestor stack of [node]: (parent of the root, text) *)
Definition concat_string (n : node) (ps : list (node * node)) (stop : node) : node * pstr :=
  let '(top, rest) := binop_top n ps in
  let bits := n :: (if is_cls "BinOp" top then cs_get stop top else []) in
  (match rest with (w, _) :: _ => w | [] => NNone end, join (s2p " ") (str_parts bits)).

Inductive sql_kind := SqlBinOp | SqlFormat | SqlReplace | SqlJoinedFirst | SqlJoinedOther | SqlPlain.

Definition sql_kind_of (c : ctx) : sql_kind :=
  let p := parent_of c in
  if is_cls "BinOp" p then SqlBinOp
  else if is_cls "Attribute" p && pstr_eqb (attr_of p) (s2p "format") then SqlFormat
  else if is_cls "Attribute" p && pstr_eqb (attr_of p) (s2p "replace") then SqlReplace
  else if is_cls "JoinedStr" p then
    match filter is_Str (field_list "values" p) with
    | s0 :: _ => if node_eqb (c_node c) s0 then SqlJoinedFirst else SqlJoinedOther
    | [] => SqlJoinedOther
    end
  else SqlPlain.

Definition node_s (n : node) : pstr := match str_of n with Some s => s | None => [] end.

(* x._bandit_parent chains run off the Module (which has no _bandit_parent): AttributeError *)
Definition ancestor (k : nat) (c : ctx) : res node :=
  match nth_error (c_parents c) k with Some (p, _) => Ok p | None => Raise AttributeError end.

(* _evaluate_ast without the final wrapper test: (wrapper, statement, str_replace) *)
Definition sql_evaluate (c : ctx) : res (node * pstr * bool) :=
  match sql_kind_of c with
  | SqlBinOp => let '(w, s) := concat_string (c_node c) (c_parents c) (parent_of c) in Ok (w, s, false)
  | SqlFormat => do w <- ancestor 2 c;; Ok (w, node_s (c_node c), false)
  | SqlReplace => do w <- ancestor 2 c;; Ok (w, node_s (c_node c), true)
  | SqlJoinedFirst =>
      do w <- ancestor 1 c;;
      Ok (w, List.concat (map node_s (filter is_Str (field_list "values" (parent_of c)))), false)
  | SqlJoinedOther | SqlPlain => Ok (NNone, [], false)
  end.

Definition sql_exec_names : list pstr := [s2p "execute"; s2p "executemany"].
Definition sql_execute_call (wrapper : node) : bool :=
  is_cls "Call" wrapper && mem_pstr (get_called_name wrapper) sql_exec_names.

Definition sql_conf (execute_call str_replace : bool) : rank :=
  if execute_call && negb str_replace then MEDIUM else LOW.

Definition sql_issue (conf : rank) : rissue :=
  RIssue MEDIUM conf 89
         (s2p "Possible SQL injection vector through string-based query construction.")
         None None None None.

Definition hardcoded_sql_expressions (_ : jv) (c : ctx) : res (option rissue) :=
  do e <- sql_evaluate c;;
  let '(w, stmt, rep) := e in
  if check_string stmt then Ok (Some (sql_issue (sql_conf (sql_execute_call w) rep))) else Ok None.

(* ------------------------------------------------------------------------------------------------ *)
(* B610 django_extra_used / B611 django_rawsql_used (django_sql_injection.py)                        *)

(* kwargs[key] after keywords2dict and the positional overrides *)
Definition extra_arg (call : node) (k : pstr) (pos : nat) : option node :=
  match nth_error (field_list "args" call) pos with
  | Some a => Some a
  | None => kw_last k (field_list "keywords" call)
  end.

Definition all_str (l : list node) : bool := forallb is_Str l.

(* a "where"/"tables" value is acceptable iff it is a list display of string literals *)
Definition extra_list_ok (v : node) : bool := is_cls "List" v && all_str (field_list "elts" v).
(* a "select" value is acceptable iff it is a dict display whose keys and values are string literals *)
Definition extra_select_ok (v : node) : bool :=
  is_cls "Dict" v && all_str (field_list "keys" v) && all_str (field_list "values" v).

Definition extra_part_ok (call : node) (k : pstr) (pos : nat) (ok : node -> bool) : bool :=
  match extra_arg call k pos with Some v => ok v | None => true end.

Definition extra_literal_only (call : node) : bool :=
  extra_part_ok call (s2p "where") 1 extra_list_ok
  && extra_part_ok call (s2p "tables") 3 extra_list_ok
  && extra_part_ok call (s2p "select") 0 extra_select_ok.

Definition extra_issue : rissue :=
  RIssue MEDIUM MEDIUM 89 (s2p "Use of extra potential SQL attack vector.") None None None None.

Definition django_extra_used (_ : jv) (c : ctx) : res (option rissue) :=
  if opt_is (c_name c) (s2p "extra") then
    if extra_literal_only (c_node c) then Ok None else Ok (Some extra_issue)
  else Ok None.

Definition rawsql_issue : rissue :=
  RIssue MEDIUM MEDIUM 89 (s2p "Use of RawSQL potential SQL attack vector.") None None None None.

(* the expression taken for the SQL text: args[0], else kwargs.get("sql") (None when absent) *)
Definition rawsql_sql (call : node) : option node :=
  match field_list "args" call with
  | a :: _ => Some a
  | [] => kw_last (s2p "sql") (field_list "keywords" call)
  end.

Definition rawsql_applies (c : ctx) : bool :=
  is_module_imported_like c (s2p "django.db.models") && opt_is (c_name c) (s2p "RawSQL").

Definition django_rawsql_used (_ : jv) (c : ctx) : res (option rissue) :=
  if rawsql_applies c then
    match rawsql_sql (c_node c) with
    | None => Ok None                       (* RawSQL() / RawSQL with only **kw: "if sql is None: return" *)
    | Some sql => if is_Str sql then Ok None else Ok (Some rawsql_issue)
    end
  else Ok None.

(* ------------------------------------------------------------------------------------------------ *)
(* B701 jinja2_autoescape_false (jinja2_templates.py)                                                *)

(* ast.walk is breadth first: level by level, each level left to right *)
Fixpoint walk_levels (fuel : nat) (level : list node) : list node :=
  match level with
  | [] => []
  | _ => match fuel with
         | O => level
         | S f => level ++ walk_levels f (flat_map child_nodes level)
         end
  end.
(* the depth of a tree is below its size, so the fuel is never exhausted *)
Definition ast_walk (n : node) : list node := walk_levels (node_size n) [n].

Definition is_autoescape_kw (n : node) : bool :=
  is_cls "keyword" n && match field_opt "arg" n with Some (NId s) => pstr_eqb s (s2p "autoescape") | _ => false end.

(* the value of the first keyword named autoescape that ast.walk(context.node) meets *)
Definition jinja_autoescape_value (call : node) : option node :=
  match find is_autoescape_kw (ast_walk call) with
  | Some kw => Some (field "value" kw)
  | None => None
  end.

Inductive autoescape_form := AeFalse | AeTrue | AeSelect | AeOther.

Definition is_select_autoescape_call (v : node) : bool :=
  is_cls "Call" v &&
  (getattr_attr_is (field "func" v) (s2p "select_autoescape")
   || getattr_id_is (field "func" v) (s2p "select_autoescape")).

Definition autoescape_form_of (v : node) : autoescape_form :=
  if getattr_id_is v (s2p "False") || getattr_value_is_bool v false then AeFalse
  else if getattr_id_is v (s2p "True") || getattr_value_is_bool v true then AeTrue
  else if is_select_autoescape_call v then AeSelect
  else AeOther.

Definition jinja_issue (conf : rank) (text : pstr) : rissue :=
  RIssue HIGH conf 94 text None None None None.
Definition jinja_text_false : pstr :=
  s2p "Using jinja2 templates with autoescape=False is dangerous and can lead to XSS. Use autoescape=True or use the select_autoescape function to mitigate XSS vulnerabilities.".
Definition jinja_text_other : pstr :=
  s2p "Using jinja2 templates with autoescape=False is dangerous and can lead to XSS. Ensure autoescape=True or use the select_autoescape function to mitigate XSS vulnerabilities.".
Definition jinja_text_default : pstr :=
  s2p "By default, jinja2 sets autoescape to False. Consider using autoescape=True or use the select_autoescape function to mitigate XSS vulnerabilities.".

Definition jinja_decide (v : option node) : option rissue :=
  match v with
  | None => Some (jinja_issue HIGH jinja_text_default)
  | Some v =>
      match autoescape_form_of v with
      | AeFalse => Some (jinja_issue HIGH jinja_text_false)
      | AeTrue | AeSelect => None
      | AeOther => Some (jinja_issue MEDIUM jinja_text_other)
      end
  end.

(* "m" in qualname.split(".") and qualname.split(".")[-1] == f *)
Definition qual_has (q m f : pstr) : bool :=
  mem_pstr m (split_on dot q) && pstr_eqb (last_component q) f.

Definition jinja_applies (c : ctx) : bool :=
  match c_qualname c with
  | Some q => qual_has q (s2p "jinja2") (s2p "Environment")
  | None => false
  end.

Definition jinja2_autoescape_false (_ : jv) (c : ctx) : res (option rissue) :=
  if jinja_applies c then Ok (jinja_decide (jinja_autoescape_value (c_node c))) else Ok None.

(* ------------------------------------------------------------------------------------------------ *)
(* B702 use_of_mako_templates (mako_templates.py)                                                    *)

Definition mako_issue : rissue :=
  RIssue MEDIUM HIGH 80
    (s2p "Mako templates allow HTML/JS rendering by default and are inherently open to XSS attacks. Ensure variables in all templates are properly sanitized via the 'n', 'h' or 'x' flags (depending on context). For example, to HTML escape the variable 'data' do ${ data |h }.")
    None None None None.

Definition mako_applies (c : ctx) : bool :=
  match c_qualname c with
  | Some q => qual_has q (s2p "mako") (s2p "Template")
  | None => false
  end.

Definition use_of_mako_templates (_ : jv) (c : ctx) : res (option rissue) :=
  if mako_applies c then Ok (Some mako_issue) else Ok None.

(* ------------------------------------------------------------------------------------------------ *)
(* B704 markupsafe_markup_xss (markupsafe_markup_xss.py)                                             *)

(* config.get(k, []) : AttributeError unless the configuration is a mapping *)
Definition cfg_get (cfg : jv) (k : pstr) : res jv :=
  match cfg with
  | JDict kv => Ok (match assoc k kv with Some v => v | None => JList [] end)
  | _ => Raise AttributeError
  end.

(* [x in j] for a str x *)
Definition jstr_is (x : pstr) (e : jv) : bool := match e with JStr s => pstr_eqb s x | _ => false end.
Definition jv_contains (x : pstr) (j : jv) : res bool :=
  match j with
  | JList l => Ok (existsb (jstr_is x) l)
  | JStr s => Ok (contains s x)
  | JDict kv => Ok (match assoc x kv with Some _ => true | None => false end)
  | JNull | JBool _ | JInt _ => Raise TypeError
  end.

Definition jv_truthy (j : jv) : bool :=
  match j with
  | JNull => false
  | JBool b => b
  | JInt z => negb (Z.eqb z 0)
  | JStr s => match s with [] => false | _ => true end
  | JList l => match l with [] => false | _ => true end
  | JDict kv => match kv with [] => false | _ => true end
  end.

Definition markup_builtin_names : list pstr := [s2p "markupsafe.Markup"; s2p "flask.Markup"].

(* is the called name one of the Markup spellings (built in or configured)? *)
Definition markup_applies (cfg : jv) (q : pstr) : res bool :=
  if mem_pstr q markup_builtin_names then Ok true
  else do names <- cfg_get cfg (s2p "extend_markup_names");; jv_contains q names.

Definition markup_issue (q nm : pstr) : rissue :=
  RIssue MEDIUM HIGH 79
    (s2p "Potential XSS with ``" ++ q ++ s2p "`` detected. Do not use ``" ++ nm ++ s2p "`` on untrusted data.")
    None None None None.

(* the allowed_calls exemption for a first argument that is not a constant *)
Definition markup_allowed_call (cfg : jv) (c : ctx) (a : node) : res bool :=
  do allowed <- cfg_get cfg (s2p "allowed_calls");;
  if jv_truthy allowed && is_cls "Call" a
  then jv_contains (get_call_name a (c_aliases c)) allowed
  else Ok false.

(* not args or isinstance(args[0], ast.Constant) *)
Definition markup_arg_constant (call : node) : bool :=
  match field_list "args" call with
  | [] => true
  | a :: _ => is_cls "Constant" a
  end.

Definition markupsafe_markup_xss (cfg : jv) (c : ctx) : res (option rissue) :=
  let q := qualname c in
  do ap <- markup_applies cfg q;;
  if negb ap then Ok None
  else if markup_arg_constant (c_node c) then Ok None
  else
    do al <- markup_allowed_call cfg c (hd NNone (field_list "args" (c_node c)));;
    if al then Ok None
    else Ok (Some (markup_issue q (match c_name c with Some s => s | None => s2p "None" end))).

(* ------------------------------------------------------------------------------------------------ *)
(* B703 django_mark_safe (django_xss.py)                                                             *)

(* what DeepAssignation.is_assigned returns: False, one AST object, or a list of AST objects *)
Inductive asg := AFalse | ANode (n : node) | AList (l : list node).

(* is_assigned_in: truthy results are appended (objects) or spliced in (lists) *)
Definition asg_flat (a : asg) : list node :=
  match a with AFalse => [] | ANode n => [n] | AList l => l end.

Definition node_line (n : node) : Z := match lineno_of n with Some l => l | None => 0%Z end.

(* DeepAssignation(var_name=Name(id)).is_assigned(node); ignore_nodes is never supplied by the plugin *)
Fixpoint is_assigned (id : pstr) (n : node) : res asg :=
  match n with
  | Node c _ fs =>
      let in_field (f : string) : res (list node) :=        (* self.is_assigned_in(node.<f>) *)
        (fix find (l : list (string * node)) : res (list node) :=
           match l with
           | [] => Ok []
           | (k, v) :: t =>
               if String.eqb f k then
                 match v with
                 | NList its =>
                     (fix go (is : list node) : res (list node) :=
                        match is with
                        | [] => Ok []
                        | i :: is' => do a <- is_assigned id i;; do r <- go is';; Ok (asg_flat a ++ r)
                        end) its
                 | _ => Ok []
                 end
               else find t
           end) fs in
      if String.eqb c "Expr" then
        (fix find (l : list (string * node)) : res asg :=
           match l with
           | [] => Ok AFalse
           | (k, v) :: t => if String.eqb "value" k then is_assigned id v else find t
           end) fs
      else if String.eqb c "FunctionDef" then
        (* the loop over node.args.args tests isinstance(name, ast.Name): ast.arg objects never are *)
        do l <- in_field "body";; Ok (AList l)
      else if String.eqb c "With" then
        let hits := map (fun it => getattr_id_is (field "optional_vars" it) id) (field_list "items" n) in
        if forallb (fun b => b) hits then
          Ok (match hits with [] => AFalse | _ => ANode n end)
        else
          do l <- in_field "body";;
          Ok (if last hits false then ANode n else AList l)
      else if String.eqb c "Try" then
        do a <- in_field "body";; do b <- in_field "handlers";;
        do c' <- in_field "orelse";; do d <- in_field "finalbody";;
        Ok (AList (a ++ b ++ c' ++ d))
      else if String.eqb c "ExceptHandler" then
        do a <- in_field "body";; Ok (AList a)
      else if String.eqb c "If" || String.eqb c "For" || String.eqb c "While" then
        do a <- in_field "body";; do b <- in_field "orelse";; Ok (AList (a ++ b))
      else if String.eqb c "AugAssign" then
        let target := field "target" n in
        if is_cls "Name" target && pstr_eqb (name_id target) id then Ok (ANode (field "value" n))
        else Ok AFalse
      else if String.eqb c "Assign" then
        match field_list "targets" n with
        | [] => Ok AFalse
        | target :: _ =>
            let value := field "value" n in
            if is_cls "Name" target then
              if pstr_eqb (name_id target) id then Ok (ANode value) else Ok AFalse
            else if is_cls "Tuple" target && is_cls "Tuple" value then
              (fix scan (ts : list node) (pos : nat) : res asg :=
                 match ts with
                 | [] => Ok AFalse
                 | t :: ts' =>
                     match field_opt "id" t with
                     | Some (NId s) =>
                         if pstr_eqb s id then
                           match nth_error (field_list "elts" value) pos with
                           | Some v => Ok (ANode v)
                           | None => Raise IndexError
                           end
                         else scan ts' (S pos)
                     | _ => Raise AttributeError          (* name.id on a non-Name target element *)
                     end
                 end) (field_list "elts" target) O
            else Ok AFalse
        end
      else Ok AFalse
  | _ => Ok AFalse
  end.

(* for name in parent.args.args: if name.arg == xss_var.id  (parent a FunctionDef) *)
Definition is_param (parent : node) (id : pstr) : bool :=
  is_cls "FunctionDef" parent &&
  existsb (fun a => match field "arg" a with NId s => pstr_eqb s id | _ => false end)
          (field_list "args" (field "args" parent)).

(* the mutually recursive evaluate_var / evaluate_call / the worklist loop of evaluate_call *)
Inductive xtask :=
| TVar (id : pstr) (until : Z)                 (* evaluate_var(Name(id), parent, until) *)
| TCall (call : node)                          (* evaluate_call(call, parent) *)
| TArgs (lineno : Z) (queue : list node).      (* one sweep of "for arg in args" (args grows while iterated) *)

(* "<str literal>.format(...)" without keywords *)
Definition is_format_call (call : node) : bool :=
  is_cls "Call" call && is_cls "Attribute" (field "func" call)
  && is_Str (field "value" (field "func" call))
  && pstr_eqb (attr_of (field "func" call)) (s2p "format")
  && match field_list "keywords" call with [] => true | _ => false end.

Definition is_starred_display (a : node) : bool :=
  is_cls "Starred" a && (is_cls "List" (field "value" a) || is_cls "Tuple" (field "value" a)).

(* One unfolding of evaluate_var / evaluate_call, with [rec] standing for the recursive calls. *)
Section XssStep.
  Variable rec : xtask -> res bool.
  Variable parent : node.

  (* evaluate_var, "to" is a list: every element must be a string literal or a secure name *)
  Fixpoint xss_all (ln : Z) (l : list node) : res bool :=
    match l with
    | [] => Ok true
    | x :: l' =>
        if is_Str x then xss_all ln l'
        else if is_cls "Name" x then
          do s <- rec (TVar (name_id x) ln);; if s then xss_all ln l' else Ok false
        else Ok false
    end.

  (* evaluate_var: "for node in parent.body" with the running value of [secure] *)
  Fixpoint xss_loop (id : pstr) (until : Z) (body : list node) (secure : bool) : res bool :=
    match body with
    | [] => Ok secure
    | st :: rest =>
        if Z.geb (node_line st) until then Ok secure
        else
          do to <- is_assigned id st;;
          match to with
          | AFalse => xss_loop id until rest secure
          | ANode v =>
              if is_Str v then xss_loop id until rest true
              else if is_cls "Name" v then
                do s <- rec (TVar (name_id v) (node_line v));; xss_loop id until rest s
              else if is_cls "Call" v then
                do s <- rec (TCall v);; xss_loop id until rest s
              else Ok false
          | AList [] => xss_loop id until rest secure
          | AList l =>
              do ok <- xss_all (node_line st) l;;
              if ok then xss_loop id until rest true else Ok false
          end
    end.

  (* evaluate_call: one sweep over the argument list; starred displays queue their elements *)
  Fixpoint xss_args (ln : Z) (q pending : list node) : res bool :=
    match q with
    | [] => match pending with [] => Ok true | _ => rec (TArgs ln pending) end
    | a :: q' =>
        if is_Str a then xss_args ln q' pending
        else if is_cls "Name" a then
          do s <- rec (TVar (name_id a) ln);; if s then xss_args ln q' pending else Ok false
        else if is_cls "Call" a then
          do s <- rec (TCall a);; if s then xss_args ln q' pending else Ok false
        else if is_starred_display a then xss_args ln q' (pending ++ field_list "elts" (field "value" a))
        else Ok false
    end.

  Definition xss_step (t : xtask) : res bool :=
    match t with
    | TVar id until =>
        if is_param parent id then Ok false
        else xss_loop id until (field_list "body" parent) false
    | TCall call =>
        if is_format_call call
        then rec (TArgs (node_line call) (field_list "args" call))
        else Ok false
    | TArgs ln queue => xss_args ln queue []
    end.
End XssStep.

(* The recursion of django_xss is not structural (and not always terminating: see the report); the fuel
   bounds the recursion depth and running out of it is Python's RecursionError. *)
Fixpoint xss_eval (fuel : nat) (parent : node) (t : xtask) : res bool :=
  match fuel with
  | O => Raise OtherError
  | S f => xss_step (xss_eval f parent) parent t
  end.

Definition xss_fuel (parent : node) : nat := S (3 * node_size parent).

(* while not isinstance(parent, (ast.Module, ast.FunctionDef)): parent = parent._bandit_parent *)
Definition is_scope (n : node) : bool := is_cls "Module" n || is_cls "FunctionDef" n.
Definition enclosing_scope (c : ctx) : res node :=
  match find (fun p => is_scope (fst p)) (c_parents c) with
  | Some (p, _) => Ok p
  | None => Raise AttributeError
  end.

(* transform2call: "<lit> % x" seen as "<lit>".format(x) / .format of the tuple elements *)
Definition transform2call (v : node) : node :=
  let right := field "right" v in
  Node "Call" (pos_of v)
       [("func", Node "Attribute" None [("value", field "left" v); ("attr", NId (s2p "format"))]);
        ("args", NList (if is_cls "Tuple" right then field_list "elts" right else [right]));
        ("keywords", NNone)].

Definition is_mod_of_literal (v : node) : bool :=
  is_cls "BinOp" v && is_cls "Mod" (field "op" v) && is_Str (field "left" v).

(* check_risk's verdict on its argument *)
Definition mark_safe_secure (c : ctx) (xss : node) : res bool :=
  if is_cls "Name" xss then
    do parent <- enclosing_scope c;;
    if is_param parent (name_id xss) then Ok false
    else xss_eval (xss_fuel parent) parent (TVar (name_id xss) (node_line (c_node c)))
  else if is_cls "Call" xss then
    do parent <- enclosing_scope c;; xss_eval (xss_fuel parent) parent (TCall xss)
  else if is_mod_of_literal xss then
    do parent <- enclosing_scope c;; xss_eval (xss_fuel parent) parent (TCall (transform2call xss))
  else Ok false.

Definition mark_safe_issue : rissue :=
  RIssue MEDIUM HIGH 80 (s2p "Potential XSS on mark_safe function.") None None None None.

Definition mark_safe_names : list pstr :=
  [s2p "mark_safe"; s2p "SafeText"; s2p "SafeUnicode"; s2p "SafeString"; s2p "SafeBytes"].

Definition mark_safe_applies (c : ctx) : bool :=
  is_module_imported_like c (s2p "django.utils.safestring")
  && match c_name c with Some n => mem_pstr n mark_safe_names | None => false end.

(* check_risk(node) once node.args[0] is known to exist *)
Definition check_risk (c : ctx) (xss : node) : res (option rissue) :=
  do s <- mark_safe_secure c xss;; if s then Ok None else Ok (Some mark_safe_issue).

Definition django_mark_safe (_ : jv) (c : ctx) : res (option rissue) :=
  if mark_safe_applies c then
    match field_list "args" (c_node c) with
    | [] => Ok None                     (* "if not context.node.args: return None" *)
    | xss :: _ => if is_Str xss then Ok None else check_risk c xss
    end
  else Ok None.

Definition inject_plugins : list plugin :=
  [ Plugin (s2p "hardcoded_sql_expressions") hardcoded_sql_expressions;
    Plugin (s2p "django_extra_used") django_extra_used;
    Plugin (s2p "django_rawsql_used") django_rawsql_used;
    Plugin (s2p "jinja2_autoescape_false") jinja2_autoescape_false;
    Plugin (s2p "use_of_mako_templates") use_of_mako_templates;
    Plugin (s2p "markupsafe_markup_xss") markupsafe_markup_xss;
    Plugin (s2p "django_mark_safe") django_mark_safe ].
