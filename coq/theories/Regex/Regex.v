(* Boolean regular-expression matching as CPython's re defines it for the fragment bandit uses:
   literals/classes as code-point range sets, concatenation, alternation, greedy/lazy repeats (the
   boolean outcome does not depend on greediness), ^ and $ without MULTILINE, lookahead.
   [ends r n s] = every suffix of the subject that can remain after r matched a prefix of s, where n
   is the length of the whole subject (so that "at start" is decidable from the suffix). *)
From Coq Require Import List NArith ZArith Bool Arith.
From Bandit Require Import Base.PyStr.
Import ListNotations.

Definition cset := list (N * N).      (* inclusive ranges *)
Definition in_cset (c : N) (s : cset) : bool :=
  existsb (fun r => (fst r <=? c)%N && (c <=? snd r)%N) s.

Inductive re :=
| Eps
| Chr (s : cset)
| Cat (a b : re)
| Alt (a b : re)
| Star (a : re)
| Bol
| Eol            (* end of subject, or just before a final newline *)
| Look (a : re)  (* positive lookahead *)
| NLook (a : re) (* negative lookahead *)
| Fail.

Definition Opt (a : re) : re := Alt a Eps.
Definition Plus (a : re) : re := Cat a (Star a).
Fixpoint Rep (a : re) (mn : nat) (extra : option nat) : re :=   (* a{mn, mn+extra} ; None = unbounded *)
  match mn with
  | S k => Cat a (Rep a k extra)
  | O => match extra with
         | None => Star a
         | Some e => (fix opt (e : nat) : re := match e with O => Eps | S e' => Opt (Cat a (opt e')) end) e
         end
  end.

(* keep one representative per remaining length *)
Fixpoint add_suffix (s : pstr) (l : list pstr) : list pstr :=
  match l with
  | [] => [s]
  | x :: t => if Nat.eqb (length x) (length s) then l else x :: add_suffix s t
  end.
Definition union_suffix (a b : list pstr) : list pstr := fold_left (fun acc s => add_suffix s acc) b a.

Fixpoint star_ends (step : pstr -> list pstr) (fuel : nat) (s : pstr) : list pstr :=
  match fuel with
  | O => [s]
  | S f =>
      fold_left (fun acc s' => if Nat.ltb (length s') (length s) then union_suffix acc (star_ends step f s') else acc)
                (step s) [s]
  end.

Fixpoint ends (r : re) (n : nat) (s : pstr) : list pstr :=
  match r with
  | Eps => [s]
  | Chr cs => match s with c :: t => if in_cset c cs then [t] else [] | [] => [] end
  | Cat a b => fold_left (fun acc s' => union_suffix acc (ends b n s')) (ends a n s) []
  | Alt a b => union_suffix (ends a n s) (ends b n s)
  | Star a => star_ends (ends a n) (S (length s)) s
  | Bol => if Nat.eqb (length s) n then [s] else []
  | Eol => match s with [] => [s] | [10%N] => [s] | _ => [] end
  | Look a => match ends a n s with [] => [] | _ => [s] end
  | NLook a => match ends a n s with [] => [s] | _ => [] end
  | Fail => []
  end.

Definition matches_here (r : re) (n : nat) (s : pstr) : bool :=
  match ends r n s with [] => false | _ => true end.

(* re.match *)
Definition re_match (r : re) (s : pstr) : bool := matches_here r (length s) s.
(* re.fullmatch *)
Definition re_fullmatch (r : re) (s : pstr) : bool :=
  existsb (fun x => match x with [] => true | _ => false end) (ends r (length s) s).
(* re.search *)
Fixpoint search_from (r : re) (n : nat) (s : pstr) : bool :=
  matches_here r n s || match s with [] => false | _ :: t => search_from r n t end.
Definition re_search (r : re) (s : pstr) : bool := search_from r (length s) s.
