(* C03 - Exit status and threshold filtering.  Statements only. *)
From Coq Require Import List NArith ZArith Bool String Arith.
From Bandit Require Import Base.PyStr Engine.Types Engine.Tester Cli.Thresholds Proofs.C03_proofs.
From Bandit Require Import Manager.BaselineFilter Cli.ExitBaseline Proofs.C07_proofs Proofs.C03b_proofs.
Import ListNotations.

Theorem C03_exit_iff : forall sev conf ez l,
  fst (exit_status std_ranking (rank_name sev) (rank_name conf) ez l) = Exit 1
  <-> (ez = false /\ exists f, In f l /\ meets sev conf f = true).
Proof. exact exit_iff. Qed.
Print Assumptions C03_exit_iff.

Theorem C03_exit_otherwise_zero : forall sev conf ez l,
  fst (exit_status std_ranking (rank_name sev) (rank_name conf) ez l) = Exit 1 \/
  fst (exit_status std_ranking (rank_name sev) (rank_name conf) ez l) = Exit 0.
Proof. exact exit_otherwise_zero. Qed.
Print Assumptions C03_exit_otherwise_zero.

Theorem C03_exit_zero_flag : forall sev conf l,
  fst (exit_status std_ranking (rank_name sev) (rank_name conf) true l) = Exit 0.
Proof. exact exit_zero_always_zero. Qed.
Print Assumptions C03_exit_zero_flag.

Theorem C03_report_exact : forall sev conf ez l,
  snd (exit_status std_ranking (rank_name sev) (rank_name conf) ez l) = filter (meets sev conf) l.
Proof. exact report_exact. Qed.
Print Assumptions C03_report_exact.

Theorem C03_same_list : forall sev conf ez l,
  let '(o, rep) := exit_status std_ranking (rank_name sev) (rank_name conf) ez l in
  (o = Exit 1 <-> (rep <> [] /\ ez = false)).
Proof. exact same_list. Qed.
Print Assumptions C03_same_list.

Theorem C03_monotone : forall s1 s2 c1 c2 l f,
  rank_ord s1 <= rank_ord s2 -> rank_ord c1 <= rank_ord c2 ->
  In f (filter (meets s2 c2) l) -> In f (filter (meets s1 c1) l).
Proof. exact threshold_monotone. Qed.
Print Assumptions C03_monotone.

Theorem C03_below_threshold_not_reported : forall sev conf l f,
  In f (filter (meets sev conf) l) ->
  rank_ord sev <= rank_ord (f_sev f) /\ rank_ord conf <= rank_ord (f_conf f).
Proof. exact below_threshold_not_reported. Qed.
Print Assumptions C03_below_threshold_not_reported.

Theorem C03_count_spelling : forall k r,
  nth_error all_ranks k = Some r -> level_of_count std_ranking (S k) = Some (rank_name r).
Proof. exact count_levels_std. Qed.
Print Assumptions C03_count_spelling.

(* a flag repeated more often than there are ranks indexes outside RANKING (IndexError in the code
   unless the CLI rejects it first; see Inst/C03_inst.v and known_findings.json) *)
Theorem C03_count_overflow : forall ranking k, List.length ranking <= k -> level_of_count ranking (S k) = None.
Proof. exact count_out_of_range. Qed.
Print Assumptions C03_count_overflow.

(* ---- with a baseline (-b): the exit status is decided on the list the report is written from ---- *)
Theorem C03_baseline_same_list : forall eqb thr ez baseline results,
  fst (exit_status_b eqb thr ez baseline results) = Exit 1
  <-> (listed (snd (exit_status_b eqb thr ez baseline results)) <> [] /\ ez = false).
Proof. exact exit_b_same_list. Qed.
Print Assumptions C03_baseline_same_list.

Theorem C03_baseline_otherwise_zero : forall eqb thr ez baseline results,
  fst (exit_status_b eqb thr ez baseline results) = Exit 1 \/ fst (exit_status_b eqb thr ez baseline results) = Exit 0.
Proof. exact exit_b_otherwise_zero. Qed.
Print Assumptions C03_baseline_otherwise_zero.

Theorem C03_baseline_listed : forall eqb thr ez baseline results,
  listed (snd (exit_status_b eqb thr ez baseline results)) =
  match baseline with [] => filter thr results | _ => compare_baseline eqb baseline (filter thr results) end.
Proof. exact exit_b_listed. Qed.
Print Assumptions C03_baseline_listed.

Theorem C03_baseline_accounted : forall thr ez baseline results,
  baseline <> [] ->
  (forall x, cnt x (filter thr results) <= cnt x baseline) ->
  exit_status_b issue_eqb thr ez baseline results = (Exit 0, WithCandidates []).
Proof. exact exit_b_accounted. Qed.
Print Assumptions C03_baseline_accounted.

Theorem C03_baseline_new_identity : forall thr baseline results a,
  In a results -> thr a = true -> cnt a baseline = 0 ->
  fst (exit_status_b issue_eqb thr false baseline results) = Exit 1.
Proof. exact exit_b_new_identity. Qed.
Print Assumptions C03_baseline_new_identity.
