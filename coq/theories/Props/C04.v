(* C04 - A scan always completes and accounts for every file.  Statements only. *)
From Coq Require Import List NArith ZArith Bool String Permutation.
From Bandit Require Import Base.PyStr Engine.Types Engine.Facts Manager.Accounting Proofs.C04_proofs.
Import ListNotations.

(* For every exception matrix and ladders that absorb all admissible faults (a decidable condition,
   instantiated on the regenerated facts in Inst/C04_inst.v), every file list and every assignment of
   faults (an OSError subclass when opening; any Exception subclass while reading, tokenising, parsing or
   visiting): the run completes, the scanned and the skipped files together are a permutation of the
   discovered files, and every file skipped by this run carries a non-empty reason. *)
Theorem C04_accounted : forall supers L, absorbs_all supers L = true ->
  forall files st, Forall (input_ok supers) files ->
  exists st', run_files supers L files st = Completed st' /\
    Permutation (ms_files st' ++ map fst (ms_skipped st'))
                (ms_files st ++ map fst (ms_skipped st) ++ map (fun fi => fst (fst fi)) files) /\
    (forall n r, In (n, r) (ms_skipped st') -> In (n, r) (ms_skipped st) \/ r <> []).
Proof. exact accounted. Qed.
Print Assumptions C04_accounted.

(* the reported findings are the scanned files' own findings, concatenated in file order *)
Theorem C04_isolated : forall supers L files st st',
  run_files supers L files st = Completed st' ->
  ms_results st' = ms_results st ++ own_results supers L files.
Proof. exact isolated. Qed.
Print Assumptions C04_isolated.

(* a healthy file contributes exactly its own findings whatever surrounds it *)
Theorem C04_own_findings_unaffected : forall supers L name fault rs before after before' after',
  (forall rs', one_file supers L fault rs' = Scanned rs') ->
  exists p q p' q',
    own_results supers L (before ++ (name, fault, rs) :: after) = p ++ rs ++ q /\
    own_results supers L (before' ++ (name, fault, rs) :: after') = p' ++ rs ++ q'.
Proof. exact own_findings_unaffected. Qed.
Print Assumptions C04_own_findings_unaffected.

(* "exactly once", spelled out: from the initial state over distinct file names the scanned and the skipped
   names together have no repetition, are exactly the discovered names, and no name is in both lists *)
Theorem C04_exactly_once : forall supers L, absorbs_all supers L = true ->
  forall files, Forall (input_ok supers) files -> NoDup (map (fun fi : file_input => fst (fst fi)) files) ->
  exists st', run_files supers L files ms_init = Completed st' /\
    NoDup (ms_files st' ++ map fst (ms_skipped st')) /\
    (forall n, In n (map (fun fi : file_input => fst (fst fi)) files) <->
               In n (ms_files st') \/ In n (map fst (ms_skipped st'))) /\
    (forall n, ~ (In n (ms_files st') /\ In n (map fst (ms_skipped st')))).
Proof. exact exactly_once. Qed.
Print Assumptions C04_exactly_once.

(* a file that meets no fault is scanned, never skipped, whatever happens to the files around it *)
Theorem C04_healthy_scanned : forall supers L files st st' name rs,
  run_files supers L files st = Completed st' -> In (name, None, rs) files -> In name (ms_files st').
Proof. exact healthy_scanned. Qed.
Print Assumptions C04_healthy_scanned.
