(* C12 - Run metrics are exact.  Statements only. *)
From Coq Require Import List NArith ZArith Bool String.
From Bandit Require Import Base.PyStr Ast.Node Engine.Types Engine.Tester Engine.Visitor Engine.Metrics
     Cli.Thresholds Proofs.C12_proofs.
Import ListNotations.
Local Open Scope Z_scope.

(* what the tester adds up for a list of reported findings is weight x count, rank by rank *)
Theorem C12_scores_closed_form : forall wU wL wM wH fs,
  scores_of (K_std wU wL wM wH) fs = Some (vec wU wL wM wH fs).
Proof. exact scores_of_vec. Qed.
Print Assumptions C12_scores_closed_form.

(* hence the per-rank counts published in the metrics equal the number of findings of that rank *)
Theorem C12_counts_exact : forall wU wL wM wH, 0 < wU -> 0 < wL -> 0 < wM -> 0 < wH -> forall fs,
  counts_of (K_std wU wL wM wH) (fst (vec wU wL wM wH fs)) =
    [(rank_name UNDEFINED, count_sev UNDEFINED fs); (rank_name LOW, count_sev LOW fs);
     (rank_name MEDIUM, count_sev MEDIUM fs); (rank_name HIGH, count_sev HIGH fs)]
  /\ counts_of (K_std wU wL wM wH) (snd (vec wU wL wM wH fs)) =
    [(rank_name UNDEFINED, count_conf UNDEFINED fs); (rank_name LOW, count_conf LOW fs);
     (rank_name MEDIUM, count_conf MEDIUM fs); (rank_name HIGH, count_conf HIGH fs)].
Proof. exact counts_exact. Qed.
Print Assumptions C12_counts_exact.

(* for every program, nosec map, test set: the scores a file's scan returns are those of exactly the
   findings it reported (induction over the whole AST through the visitor) *)
Theorem C12_process_scores : forall wU wL wM wH tests m fname lines module,
  v_scores (process (Env (K_std wU wL wM wH) tests m fname lines) module)
  = vec wU wL wM wH (ts_results (v_tester (process (Env (K_std wU wL wM wH) tests m fname lines) module))).
Proof. exact process_scores. Qed.
Print Assumptions C12_process_scores.

Theorem C12_totals_are_sums : forall K blocks,
  tt_loc (aggregate K blocks) = sumZ (map fb_loc blocks) /\
  tt_nosec (aggregate K blocks) = sumZ (map fb_nosec blocks) /\
  tt_skipped (aggregate K blocks) = sumZ (map fb_skipped blocks) /\
  (forall r, In r (k_ranking K) ->
     In (r, sumZ (map (fun b => block_rank (fb_sev b) r) blocks)) (tt_sev (aggregate K blocks)) /\
     In (r, sumZ (map (fun b => block_rank (fb_conf b) r) blocks)) (tt_conf (aggregate K blocks))).
Proof. exact totals_are_sums. Qed.
Print Assumptions C12_totals_are_sums.

(* a physical line counts as code iff it is neither blank nor comment-only *)
Theorem C12_loc_line_spec : forall l, is_loc l = true <-> ~ blank l /\ ~ comment_only l.
Proof. exact is_loc_spec. Qed.
Print Assumptions C12_loc_line_spec.

(* loc = number of such lines, the byte order mark not being part of the first line *)
Theorem C12_loc_count : forall lines,
  count_locs lines = Z.of_nat (List.length (filter is_loc (strip_bom lines))).
Proof. exact count_locs_spec. Qed.
Print Assumptions C12_loc_count.
