(* C20 - bandit-baseline leaves the git repository as it found it.  Statements only. *)
From Coq Require Import List NArith ZArith Bool String.
From Bandit Require Import Base.PyStr Engine.Types Engine.Facts Cli.BaselineTool Proofs.C20_proofs.
Import ListNotations.

(* For every type of commits, every current/parent commit and every scenario - each reset and each of the
   two bandit runs succeeding, exiting with any status (incl. killed by a signal), or raising any exception
   class (executable missing, interruption, git failure): if the cleanup sits in a finally block and the
   final reset itself succeeds, HEAD/branch are back on the current commit and the temporary directory is
   gone. *)
Theorem C20_restored : forall (commit : Type) F (cur parent : commit) wr (S : scenario),
  tf_cleanup_in_finally F = true -> sc_cleanup_reset S = ResetDone ->
  rs_head (fst (run_tool commit F cur parent wr S)) = cur /\
  rs_tmpdir (fst (run_tool commit F cur parent wr S)) = false.
Proof. exact restored. Qed.
Print Assumptions C20_restored.

Theorem C20_exit_status : forall (commit : Type) F (cur parent : commit) wr (S : scenario) c1 c2,
  sc_reset1 S = ResetDone -> sc_reset2 S = ResetDone -> sc_cleanup_reset S = ResetDone ->
  sc_run1 S = Exited c1 -> sc_run2 S = Exited c2 ->
  snd (run_tool commit F cur parent wr S) = ExitCode c2.
Proof. exact exit_status_is_comparison_run. Qed.
Print Assumptions C20_exit_status.

Theorem C20_only_report_is_new : forall (commit : Type) F (cur parent : commit) wr (S : scenario),
  rs_report (fst (run_tool commit F cur parent wr S)) = true -> wr = true.
Proof. exact only_report_is_new. Qed.
Print Assumptions C20_only_report_is_new.

(* the converse witness: without the finally the repository is left on the parent commit *)
Theorem C20_not_restored_without_finally : forall supers handled_l,
  handled (ToolFacts false handled_l supers) (s2p "FileNotFoundError") = false ->
  let r := run_tool nat (ToolFacts false handled_l supers) 1 0 false witness in
  rs_head (fst r) = 0 /\ rs_tmpdir (fst r) = true.
Proof. exact not_restored_without_finally. Qed.
Print Assumptions C20_not_restored_without_finally.

(* no leftover temporary files even when the final reset itself fails *)
Theorem C20_tmpdir_always_removed : forall (commit : Type) F (cur parent : commit) wr (S : scenario),
  tf_cleanup_in_finally F = true ->
  rs_tmpdir (fst (run_tool commit F cur parent wr S)) = false.
Proof. exact tmpdir_always_removed. Qed.
Print Assumptions C20_tmpdir_always_removed.

(* "its exit status is that of the comparison run", converse direction: an exit status (rather than a traceback)
   means every step ran, and it is the comparison run's status *)
Theorem C20_exit_code_sound : forall (commit : Type) F (cur parent : commit) wr (S : scenario) c,
  (forall e, sc_run1 S = Raised e -> handled F e = false) ->
  snd (run_tool commit F cur parent wr S) = ExitCode c ->
  sc_reset1 S = ResetDone /\ sc_reset2 S = ResetDone /\ sc_cleanup_reset S = ResetDone /\
  (exists c1, sc_run1 S = Exited c1) /\ sc_run2 S = Exited c.
Proof. exact exit_code_sound. Qed.
Print Assumptions C20_exit_code_sound.

Theorem C20_report_only_from_comparison_run : forall (commit : Type) F (cur parent : commit) wr (S : scenario),
  rs_report (fst (run_tool commit F cur parent wr S)) = true ->
  sc_run2 S = Exited 0%Z \/ sc_run2 S = Exited 1%Z.
Proof. exact report_only_from_comparison_run. Qed.
Print Assumptions C20_report_only_from_comparison_run.
