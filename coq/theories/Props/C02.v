(* C02 - nosec suppresses exactly the findings it names, on the lines it marks.  Statements only. *)
From Coq Require Import List NArith ZArith Bool String.
From Bandit Require Import Base.PyStr Ast.Node Engine.Types Engine.Tables Engine.Tester Engine.Visitor
     Manager.Registry Manager.NosecParse Proofs.C02_proofs Proofs.C02_visitor.
Import ListNotations.
Local Open Scope Z_scope.

(* The tester withholds a finding with test id [id], reported line [lineno] and span [lr] iff some nosec
   comment on the reported line or on a line of the span is bare or names that id (full strength since the
   fix commits d4cc25b and 0299d9c). *)
Theorem C02_withheld_iff : forall m lr lineno id,
  code_withheld m lr lineno id = true <-> spec_withheld m (lines_of lr lineno) id.
Proof. exact withheld_iff. Qed.
Print Assumptions C02_withheld_iff.

Theorem C02_outside_span : forall m lr lineno id l' ids',
  ~ In l' (lines_of lr lineno) ->
  code_withheld ((l', ids') :: m) lr lineno id = code_withheld m lr lineno id.
Proof. exact outside_span_irrelevant. Qed.
Print Assumptions C02_outside_span.

Theorem C02_ignore_nosec_nothing_withheld : forall lr lineno id, code_withheld [] lr lineno id = false.
Proof. exact ignore_nosec_nothing_withheld. Qed.
Print Assumptions C02_ignore_nosec_nothing_withheld.

(* a comment names a test by ID or by name: the ids of a comment are the resolutions of its tokens *)
Theorem C02_comment_ids : forall reg tab builtin toks i,
  In i (resolve_tokens reg tab builtin toks) <-> exists t, In t toks /\ find_test_id reg tab builtin t = Some i.
Proof. exact resolve_tokens_In. Qed.
Print Assumptions C02_comment_ids.

(* only comment tokens that carry the marker enter the map (string literals are not comment tokens) *)
Theorem C02_only_marked_comments : forall ws tok reg tab builtin comments l ids,
  In (l, ids) (build_map ws tok reg tab builtin comments) <->
  exists text, In (l, text) comments /\ parse_nosec ws tok reg tab builtin text = Some ids.
Proof. exact build_map_In. Qed.
Print Assumptions C02_only_marked_comments.

(* for every program, test set, constants and comment map: reported = kept among all findings produced;
   nosec = number withheld by bare comments; skipped_tests = number withheld by test-specific comments *)
Theorem C02_counters : forall E module, AllInv (v_tester (process E module)).
Proof. exact process_counters. Qed.
Print Assumptions C02_counters.

Theorem C02_counters_sum : forall E module,
  let ts := v_tester (process E module) in
  ts_nosec ts + ts_skipped ts = countb (fun x => negb (is_kept x)) (ts_all ts).
Proof. exact counters_sum. Qed.
Print Assumptions C02_counters_sum.

(* --ignore-nosec: the scan with an empty comment map reports every finding the scan with map m produced
   (reported or withheld), in the same order, unchanged *)
Theorem C02_ignore_nosec_reports_all : forall K tests m fname lines module,
  map fst (ts_all (v_tester (process (Env K tests m fname lines) module)))
  = ts_results (v_tester (process (Env K tests [] fname lines) module)).
Proof. exact ignore_nosec_reports_all. Qed.
Print Assumptions C02_ignore_nosec_reports_all.
