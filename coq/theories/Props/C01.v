(* C01 - Blacklisted calls/imports are found under every import spelling.
   Only statements; every proof is [exact] of a lemma in Proofs/C01_proofs.v. *)
From Coq Require Import List NArith ZArith Bool String.
From Bandit Require Import Base.PyStr Ast.Node Engine.Types Engine.Tables Engine.Resolve Engine.Context
     Engine.Visitor Engine.Tester Plugins.Blacklist Proofs.C01_proofs.
Import ListNotations.
Local Open Scope string_scope.
Local Open Scope list_scope.

(* Every spelling resolves to the blacklisted qualified name q = m0.ms.rs (unbounded names). *)
Theorem C01_resolve_import_m : forall A I, keys_dotfree A -> forall m0 ms rs args kws,
  assoc m0 A = None ->
  get_call_name (mk_call (mk_chain m0 (ms ++ rs)) args kws)
    (v_aliases (fst (do_import [mk_alias (dotted m0 ms) None] (st0 A I)))) = dotted m0 (ms ++ rs).
Proof. exact spelling_import_m. Qed.
Print Assumptions C01_resolve_import_m.

Theorem C01_resolve_import_m_as : forall A I, keys_dotfree A -> forall m0 ms rs args kws a,
  a <> [] -> ~ In dot a ->
  get_call_name (mk_call (mk_chain a rs) args kws)
    (v_aliases (fst (do_import [mk_alias (dotted m0 ms) (Some a)] (st0 A I)))) = dotted m0 (ms ++ rs).
Proof. exact spelling_import_m_as. Qed.
Print Assumptions C01_resolve_import_m_as.

Theorem C01_resolve_from_p_import_x : forall A I, keys_dotfree A -> forall m0 ms rs args kws ps x,
  ms = ps ++ [x] -> ~ In dot x ->
  get_call_name (mk_call (mk_chain x rs) args kws)
    (v_aliases (fst (do_import_from (dotted m0 ps) [mk_alias x None] (st0 A I)))) = dotted m0 (ms ++ rs).
Proof. exact spelling_from_p_import_x. Qed.
Print Assumptions C01_resolve_from_p_import_x.

Theorem C01_resolve_from_p_import_x_as : forall A I, keys_dotfree A -> forall m0 ms rs args kws ps x a,
  ms = ps ++ [x] -> a <> [] -> ~ In dot a ->
  get_call_name (mk_call (mk_chain a rs) args kws)
    (v_aliases (fst (do_import_from (dotted m0 ps) [mk_alias x (Some a)] (st0 A I)))) = dotted m0 (ms ++ rs).
Proof. exact spelling_from_p_import_x_as. Qed.
Print Assumptions C01_resolve_from_p_import_x_as.

Theorem C01_resolve_from_m_import_f : forall A I, keys_dotfree A -> forall m0 ms rs args kws f,
  rs = [f] -> ~ In dot f ->
  get_call_name (mk_call (mk_name f) args kws)
    (v_aliases (fst (do_import_from (dotted m0 ms) [mk_alias f None] (st0 A I)))) = dotted m0 (ms ++ rs).
Proof. exact spelling_from_m_import_f. Qed.
Print Assumptions C01_resolve_from_m_import_f.

Theorem C01_resolve_from_m_import_f_as : forall A I, keys_dotfree A -> forall m0 ms rs args kws f g,
  rs = [f] -> g <> [] -> ~ In dot g ->
  get_call_name (mk_call (mk_name g) args kws)
    (v_aliases (fst (do_import_from (dotted m0 ms) [mk_alias f (Some g)] (st0 A I)))) = dotted m0 (ms ++ rs).
Proof. exact spelling_from_m_import_f_as. Qed.
Print Assumptions C01_resolve_from_m_import_f_as.

Theorem C01_resolve_import_top_as : forall A I, keys_dotfree A -> forall m0 ms rs args kws a,
  a <> [] -> ~ In dot a ->
  get_call_name (mk_call (mk_chain a (ms ++ rs)) args kws)
    (v_aliases (fst (do_import [mk_alias m0 (Some a)] (st0 A I)))) = dotted m0 (ms ++ rs).
Proof. exact spelling_import_top_as. Qed.
Print Assumptions C01_resolve_import_top_as.

Theorem C01_later_import_preserves : forall A k v root attrs args kws,
  keys_dotfree A -> ~ In dot k -> k <> root ->
  get_call_name (mk_call (mk_chain root attrs) args kws) (assoc_set k v A)
  = get_call_name (mk_call (mk_chain root attrs) args kws) A.
Proof. exact later_import_preserves. Qed.
Print Assumptions C01_later_import_preserves.

(* The call check reports exactly the first rule listing the resolved name, and nothing otherwise. *)
Theorem C01_call_exact_some : forall name rules r,
  first_rule_listing name rules = Some r ->
  exists l1 l2, rules = l1 ++ r :: l2 /\ In name (bl_qualnames r) /\
                forall r', In r' l1 -> ~ In name (bl_qualnames r').
Proof. exact first_rule_listing_some. Qed.
Print Assumptions C01_call_exact_some.

Theorem C01_call_exact_none : forall name rules,
  first_rule_listing name rules = None <-> forall r, In r rules -> ~ In name (bl_qualnames r).
Proof. exact first_rule_listing_none. Qed.
Print Assumptions C01_call_exact_none.

Theorem C01_call_rule_unique : forall name rules r r',
  rules_disjoint rules -> first_rule_listing name rules = Some r -> In r' rules ->
  In name (bl_qualnames r') -> bl_id r' = bl_id r.
Proof. exact first_rule_listing_unique. Qed.
Print Assumptions C01_call_rule_unique.

Theorem C01_call_decision : forall tab rules (c : ctx) s,
  cls_of (c_node c) = "Call" -> bl_lookup "Call" tab = Some rules ->
  blacklist_call_name c = Ok (PStr s) ->
  (forall r, first_rule_listing s rules = Some r -> blacklist tab c = Ok (Some (report_issue r s))) /\
  (first_rule_listing s rules = None -> blacklist tab c = Ok None).
Proof. exact blacklist_call_decision. Qed.
Print Assumptions C01_call_decision.

Theorem C01_issue_fields : forall r name,
  ri_sev (report_issue r name) = bl_level r /\ ri_conf (report_issue r name) = HIGH /\
  ri_test_id (report_issue r name) = Some (bl_id r) /\ ri_lineno (report_issue r name) = None /\
  ri_cwe (report_issue r name) = bl_cwe r.
Proof. exact report_issue_fields. Qed.
Print Assumptions C01_issue_fields.

(* Imports: a finding is produced iff a listed module is a *dotted* prefix of an imported module
   (full strength since the fix: commit "fix: match blacklisted imports on dotted module boundaries"). *)
Theorem C01_import_dotted_prefix : forall prefix names rules,
  (exists r nm, first_import_rule prefix names rules = Some (r, nm)) <->
  (exists r a qn, In r rules /\ In a names /\ In qn (bl_qualnames r)
                  /\ dotted_prefix (prefix ++ alias_nm a) qn).
Proof. exact import_reported_iff. Qed.
Print Assumptions C01_import_dotted_prefix.
