(* C05 - Selecting tests filters findings and never changes them.  Statements only. *)
From Coq Require Import List NArith ZArith Bool String.
From Bandit Require Import Base.PyStr Ast.Node Engine.Types Engine.Tables Engine.Tester Engine.Visitor Engine.Scan
     Plugins.Blacklist Manager.TestSet Proofs.C01_proofs Proofs.C05_proofs.
Import ListNotations.

Theorem C05_filter_algebra : forall plugin_ids builtin bl inc exc x,
  In x (get_filter plugin_ids builtin bl inc exc) <->
  (match expand bl inc with
   | [] => In x (plugin_ids ++ builtin ++ bl)
   | inc' => In x inc'
   end) /\ ~ In x (expand bl exc).
Proof. exact filter_algebra. Qed.
Print Assumptions C05_filter_algebra.

Theorem C05_B001_expansion : forall bl s x,
  In x (expand bl s) <->
  (~ In B001 s /\ In x s) \/
  (In B001 s /\ x <> B001 /\ (In x s \/ (~ names_specific bl s /\ In x bl))).
Proof. exact expand_spec. Qed.
Print Assumptions C05_B001_expansion.

Theorem C05_excluded_never_selected : forall plugin_ids builtin bl inc exc x,
  In x (expand bl exc) -> ~ In x (get_filter plugin_ids builtin bl inc exc).
Proof. exact excluded_never_selected. Qed.
Print Assumptions C05_excluded_never_selected.

Theorem C05_conflict_detected : forall inc exc x, In x inc -> In x exc -> In x (conflicting inc exc).
Proof. exact conflict_detected. Qed.
Print Assumptions C05_conflict_detected.

(* for every program, comment map, constants: running a sub-list of the tests reports exactly the
   findings of the full run that those tests produced, in order, unchanged *)
Theorem C05_selection_is_filter : forall K tests m fname lines (p : test -> bool) (q : finding -> bool),
  (forall t c r, In t tests -> t_fn t c = Ok (Some r) -> q (fill_defaults t c r) = p t) ->
  forall module,
  ts_results (v_tester (process (Env K (filter p tests) m fname lines) module))
  = filter q (ts_results (v_tester (process (Env K tests m fname lines) module))).
Proof. exact selection_is_filter. Qed.
Print Assumptions C05_selection_is_filter.

Theorem C05_more_checks_never_hide : forall K tests m fname lines (p : test -> bool) (q : finding -> bool),
  (forall t c r, In t tests -> t_fn t c = Ok (Some r) -> q (fill_defaults t c r) = p t) ->
  forall module f,
  In f (ts_results (v_tester (process (Env K (filter p tests) m fname lines) module))) ->
  In f (ts_results (v_tester (process (Env K tests m fname lines) module))).
Proof. exact more_checks_never_hide. Qed.
Print Assumptions C05_more_checks_never_hide.

(* the test set assembled for a selection that takes the blacklist as a whole is a sub-list of the full one *)
Theorem C05_test_set_is_sublist : forall reg plugins defaults cfg sel tab,
  sel (s2p "B001") = negb (match filter_table sel tab with [] => true | _ => false end) ->
  (filter_table sel tab = [] \/ filter_table sel tab = filter_table (fun _ => true) tab) ->
  build_tests reg plugins defaults cfg sel tab
  = filter (fun t => sel (t_id t)) (build_tests reg plugins defaults cfg (fun _ => true) tab).
Proof. exact build_tests_sublist. Qed.
Print Assumptions C05_test_set_is_sublist.

(* selection inside the blacklist check, for calls: with pairwise disjoint rules the filtered table
   answers with the same rule if it is selected and with nothing otherwise (no masking) *)
Theorem C05_blacklist_call_selection : forall sel name rules r,
  rules_disjoint rules -> first_rule_listing name rules = Some r ->
  first_rule_listing name (filter (fun x => sel (bl_id x)) rules) = if sel (bl_id r) then Some r else None.
Proof. exact first_rule_listing_filter. Qed.
Print Assumptions C05_blacklist_call_selection.

Theorem C05_blacklist_call_selection_none : forall sel name rules,
  first_rule_listing name rules = None ->
  first_rule_listing name (filter (fun x => sel (bl_id x)) rules) = None.
Proof. exact first_rule_listing_filter_none. Qed.
Print Assumptions C05_blacklist_call_selection_none.
