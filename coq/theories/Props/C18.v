(* C18 - The rule registry is coherent.  General statements (for every registry); the finite
   instance over the regenerated registry is in Inst/C18_inst.v. *)
From Coq Require Import List NArith ZArith Bool String.
From Bandit Require Import Base.PyStr Engine.Types Engine.Tables Manager.Registry Proofs.C18_proofs.
Import ListNotations.

Theorem C18_name_lookup_complete : forall reg tab,
  NoDup (map snd (plugin_rows reg)) ->
  (forall i1 i2 n, In (i1, n) (blacklist_rows tab) -> In (i2, n) (blacklist_rows tab) -> i1 = i2) ->
  (forall n, In n (map snd (plugin_rows reg)) -> ~ In n (map snd (blacklist_rows tab))) ->
  forall i n, In (i, n) (plugin_rows reg ++ blacklist_rows tab) -> get_test_id reg tab n = Some i.
Proof. exact get_test_id_complete. Qed.
Print Assumptions C18_name_lookup_complete.

Theorem C18_name_lookup_sound : forall reg tab i n,
  get_test_id reg tab n = Some i -> In (i, n) (plugin_rows reg ++ blacklist_rows tab).
Proof. exact get_test_id_sound. Qed.
Print Assumptions C18_name_lookup_sound.

Theorem C18_check_id_iff : forall reg tab builtin id,
  check_id reg tab builtin id = true <->
  In id (map fst (plugin_rows reg ++ blacklist_rows tab)) \/ In id builtin.
Proof. exact check_id_iff. Qed.
Print Assumptions C18_check_id_iff.

Theorem C18_id_name_interchangeable : forall reg tab builtin,
  NoDup (map snd (plugin_rows reg)) ->
  (forall i1 i2 n, In (i1, n) (blacklist_rows tab) -> In (i2, n) (blacklist_rows tab) -> i1 = i2) ->
  (forall n, In n (map snd (plugin_rows reg)) -> ~ In n (map snd (blacklist_rows tab))) ->
  forall i n, In (i, n) (plugin_rows reg ++ blacklist_rows tab) ->
  ~ In n (map fst (plugin_rows reg ++ blacklist_rows tab)) -> ~ In n builtin ->
  find_test_id reg tab builtin i = Some i /\ find_test_id reg tab builtin n = Some i.
Proof. exact id_name_interchangeable. Qed.
Print Assumptions C18_id_name_interchangeable.
